(* C04 - the Go renderer and the generated JavaScript produce the same output.

   FULL statement (DESIGN section 4, C04):
     gen_correct : forall b t data ij, check b = Ok -> in_core b data ->
                   js_run (gen b) t data ij = render_impl b t data ij
   What is proved here is its EXPRESSION stage (gen_expr_correct_partial): on the
   common subset of expressions (literals, data references with key / constant
   index access and null-safe access, $ij, unary minus, not, + - * % on
   integers within 2^53, + with a string side, comparisons on integers, == !=
   on operands of the same primitive kind, and / or on booleans, ?: and the
   ternary) the value the walker of Model/Interp.v computes is mapped by to_js
   to the value the generated JavaScript expression has in MiniJS, for every
   state / environment pair related by env_rel (each Soy variable is in the
   generated variable the generator's scope maps it to, or in opt_data).
   Of the STATEMENT stages print / if / let / switch / foreach / for-range / css and call (all forms: data, value and
   content parameters) are proved (below), and the template wrapper with a theorem for every template of a program built
   from these stages, and messages rendered without a bundle -- without plural, or one plural with numeric cases --, and ONE
   WHOLE FILE (C04_gen_file_correct_partial, at the end); messages from a bundle and nested plurals are NOT: they are covered by translation validation only
   (go/cmd/soyverif/c04.go: every generated program is translated by the real
   soyjs.Write, run by node with soyutils.js and compared with the Go render).
   Stages kept for the record:
     gen_correct_partial_print  : ONE {print e|d..} with d over id / noAutoescape / escapeHtml, under any
                                  autoescape mode (implicit soy.$$escapeHtml included) -- proved below, for
                                  values whose String() has no NUL and no double quote (finding quote-entity);
     gen_correct_partial_stmt   : statements built from raw text, such prints, {let $x: e /}, {let $x}..{/let},
                                  {if}..{elseif}..{else}..{/if} and {switch}..{case v, w}..{default}..{/switch} with nested
                                  blocks (sequences) of such statements -- proved below as ONE simulation step over three
                                  sides (Interp walker, MiniJS execution, JsGen chunks) that re-establishes its own
                                  hypotheses; gen_correct_partial_if / _let / _let_content / _switch are its instances by name
     gen_correct_partial_loops  : {foreach $x in e}..{ifempty}..{/foreach} over a list value, with index($x) / isFirst($x) /
                                  isLast($x) of this and of enclosing loops anywhere in the body -- proved below as the
                                  same simulation step (the loop's frame on both sides, the generated xList_n / xLimit_n /
                                  xIndex_n / x_n variables, the freshness invariant through every round);
     gen_correct_partial_for_range : {for $x in range(n)} / range(a, n) / range(a, n, s) with a positive step and n - a within
                                  2^53, same loop functions -- proved below (xInit_n / xStep_n / xLimit_n =
                                  Math.max(0, Math.ceil((n - xInit_n) / xStep_n)), x_n = xInit_n + xIndex_n * xStep_n)
     gen_correct_partial_css    : {css sfx} / {css e, sfx} with a scalar e -- proved below (same step)
     gen_correct_partial_call   : {call t}, data="all", data="$e" (a map with identifier keys), {param k: e /} and
                                  {param k}..{/param} -- proved below: the same simulation step relative to a context that says
                                  what a callee writes on both sides, and (C04_go_call_correct, C04_js_call_correct) that
                                  context discharged for every program by induction on the call depth (recursion included)
     gen_correct_partial_template : the template wrapper (function header, opt_data defaulting, var output, return) and
                                  with it a theorem for every template of a program of the proved stages -- proved below
                                  (C04_gen_correct_partial_template; the entry point Execute: C04_go_render_correct)
     gen_file_correct_partial   : the FILE level (soyjs.Write = gen_file: header comment, namespace declarations, the chain of
                                  counters from one template to the next, no imports under the ES5 formatter) -- proved below
                                  for a registry that is one file of the subset; the reading of the emitted text as that
                                  function table by a JavaScript engine and the ES6 formatter are not part of it; C04_gen_registry_correct_partial
                                  is the same for a registry of several files (calls across files), the table being the
                                  union of the files' tables
     gen_correct_partial_msg    : {msg}..{/msg} without plural and without a bundle (raw text, print and call placeholders) -- proved
                                  below (same step); messages rendered from a translation bundle -- not proved
     gen_correct_partial_plural : {msg}{plural v}{case z}..{default}..{/plural}{/msg} without a bundle -- proved at the end: the
                                  plural is a statement of the subset's syntax (cstmt SMsgPl; its MiniJS statement JSPlural is
                                  executed as a switch and printed without "break;" after the default clause, as soyjs
                                  writes it), so the step is a case of C04_gen_correct_partial_stmt
                                  (C04_gen_correct_partial_plural_stmt) and templates with plural messages are programs of
                                  the file / registry theorems (C04_plural_file_nonvacuous); the earlier formulation over
                                  lists of cases (C04_gen_correct_partial_plural) is kept and tied to it by C04_plural_as_stmt
   MiniJS idealises JavaScript: numbers are integers (a result beyond 2^53 is
   OutOfModel), objects have no prototype chain, the operators are defined on
   the operand kinds of the subset only. *)
(* source tie by translation: the lemmas of these files are obligations of this property *)
From Soy Require Import Proofs.SourceTieJs Proofs.SourceTieJsScope Proofs.SourceTieJsText.
From Soy Require Import Model.Bytes Model.Num Model.Values Model.Outcome Model.Ast Model.JsGen Model.MiniJS
  Model.Escape Model.Directives Model.Print Generated.Tables Model.Interp
  Model.MiniJSProg Proofs.MiniJSProofs Proofs.MiniJSPrint Proofs.MiniJSStmt Proofs.MiniJSCtl Proofs.MiniJSGo Proofs.MiniJSGen Proofs.MiniJSSim Proofs.MiniJSCall Proofs.MiniJSFile Proofs.MiniJSPlural.
Open Scope N_scope.

(* the Soy meaning restricted to the subset IS the walker of Interp.v, and the
   generated JavaScript expression evaluates to the image of that value *)
Theorem C04_gen_expr_correct_partial : forall cf sc je st e fuel v,
  (cdepth e < fuel)%nat ->
  env_rel sc (c_ij cf) (sc_lookup (ctx st)) je ->
  ceval (c_ij cf) (sc_lookup (ctx st)) e = Some v ->
  (exists st', walk cf fuel (cnode e) st = (Ok v, st') /\ pres st st')
  /\ js_eval je (cgen sc e) = Ok (to_js v).
Proof. exact gen_expr_correct_partial. Qed.
Print Assumptions C04_gen_expr_correct_partial.

(* the two halves separately *)
Theorem C04_interp_ceval : forall cf st0,
  (forall k v, sc_lookup (ctx st0) k = Some v -> core_value v = true) ->
  (forall v, c_ij cf = Some v -> core_value v = true) ->
  forall e fuel st v, (cdepth e < fuel)%nat -> ctx st = ctx st0 ->
  ceval (c_ij cf) (sc_lookup (ctx st0)) e = Some v -> mok (walk cf fuel (cnode e)) st v.
Proof. exact interp_ceval. Qed.
Print Assumptions C04_interp_ceval.

Theorem C04_cgen_correct : forall sc ij env je, env_rel sc ij env je ->
  forall e v, ceval ij env e = Some v -> js_eval je (cgen sc e) = Ok (to_js v) /\ core_value v = true.
Proof. exact cgen_correct. Qed.
Print Assumptions C04_cgen_correct.

(* the MiniJS expression IS what the generator writes: walking the node of a
   subset expression in Model/JsGen.v appends exactly the printer's chunks
   (whose rendering is tied byte for byte to soyjs.Write by C14's correspondence) *)
(* [cwf lv e]: every loop function of e talks about a variable of lv; [lvok lv sc]: each of these has a loop frame in the
   generator's scope (otherwise soyjs reports an error instead of writing code) *)
Theorem C04_cgen_print : forall o e lv fuel st, (cdepth e < fuel)%nat -> cwf lv e = true -> lvok lv (j_scope st) ->
  jwalk o fuel (cnode e) st = Ok (tt, st_after st (jprint (cgen (j_scope st) e))).
Proof. exact cgen_print. Qed.
Print Assumptions C04_cgen_print.

(* the print stage, for one statement: with autoescaping off, no obligatory
   directives and a writer that does not fail, {print e} makes the Go renderer
   write exactly the text that the generated statement  buf += <expr>;  appends
   to the buffer variable; and that statement is what JsGen emits *)
Theorem C04_gen_correct_partial_print : forall cf sc je st e fuel v buf old,
  c_oblig cf = [] -> mode st = 2 -> bufs st = [] -> calls_left st = None -> bytes_left st = None ->
  (S (cdepth e) < fuel)%nat ->
  env_rel sc (c_ij cf) (sc_lookup (ctx st)) je ->
  ceval (c_ij cf) (sc_lookup (ctx st)) e = Some v -> printable_scalar v = true ->
  assoc_s buf (je_vars je) = Some (JStr old) ->
  exists s,
    (exists st', walk cf fuel (NPrint 0 (cnode e) []) st = (Ok VUndef, st')
                 /\ out st' = s :: out st /\ ctx st' = ctx st /\ mode st' = mode st)
    /\ (exists je', js_append je buf (cgen sc e) = Ok (s, je')
                    /\ assoc_s buf (je_vars je') = Some (JStr (old ++ s)) /\ je_data je' = je_data je).
Proof. exact gen_correct_partial_print. Qed.
Print Assumptions C04_gen_correct_partial_print.

Theorem C04_cgen_print_stmt : forall o e lv fuel st, j_auto st = 2 -> (S (cdepth e) < fuel)%nat -> cwf lv e = true -> lvok lv (j_scope st) ->
  jwalk o fuel (NPrint 0 (cnode e) []) st
  = Ok (tt, st_after st ([CText (indent_text (j_indent st)); CName (j_buf st); CText t_pluseq]
                         ++ jprint (cgen (j_scope st) e) ++ [CText t_semi_nl])).
Proof. exact cgen_print_stmt. Qed.
Print Assumptions C04_cgen_print_stmt.

(* the print stage with escaping and a directive chain: for {print e|d1|d2..} with the directives id,
   noAutoescape, escapeHtml (all the directives of the common subset whose encoding does not differ), under
   ANY autoescape mode: the concatenation of the Write calls of the Go renderer's model is the text that the
   generated statement  buf += soy.$$escapeHtml(..(<expr>)..);  appends -- provided String() of the value
   contains no NUL and no double quote (there the escapers differ: finding quote-entity) *)
Theorem C04_gen_correct_partial_print_esc : forall cf sc je st e ds fuel v buf old,
  c_oblig cf = [] -> bufs st = [] -> calls_left st = None -> bytes_left st = None ->
  (S (cdepth e) < fuel)%nat ->
  env_rel sc (c_ij cf) (sc_lookup (ctx st)) je ->
  ceval (c_ij cf) (sc_lookup (ctx st)) e = Some v -> printable_scalar v = true ->
  (forall s, value_string v = Ok s -> clean s) ->
  assoc_s buf (je_vars je) = Some (JStr old) ->
  exists text,
    (exists st' ws, walk cf fuel (NPrint 0 (cnode e) (map pdir_node ds)) st = (Ok VUndef, st')
                    /\ out st' = rev ws ++ out st /\ concat_b ws = text /\ ctx st' = ctx st /\ mode st' = mode st)
    /\ (exists je', js_append je buf (cgen_print_expr (mode st) ds (cgen sc e)) = Ok (text, je')
                    /\ assoc_s buf (je_vars je') = Some (JStr (old ++ text)) /\ je_data je' = je_data je).
Proof. exact gen_correct_partial_print_esc. Qed.
Print Assumptions C04_gen_correct_partial_print_esc.

(* ... and that statement is what JsGen writes (every formatter, every state) *)
Theorem C04_cgen_print_dirs : forall o e ds lv fuel st, (S (cdepth e) < fuel)%nat -> cwf lv e = true -> lvok lv (j_scope st) ->
  exists stf, jwalk o fuel (NPrint 0 (cnode e) (map pdir_node ds)) st = Ok (tt, stf)
    /\ j_out stf = rev ([CText (indent_text (j_indent st)); CName (j_buf st); CText t_pluseq]
                        ++ jprint (cgen_print_expr (j_auto st) ds (cgen (j_scope st) e)) ++ [CText t_semi_nl]) ++ j_out st
    /\ j_indent stf = j_indent st /\ j_buf stf = j_buf st /\ j_scope stf = j_scope st /\ j_auto stf = j_auto st /\ j_n stf = j_n st.
Proof. exact cgen_print_dirs. Qed.
Print Assumptions C04_cgen_print_dirs.

(* on clean text the escapers of the two backends agree *)
Theorem C04_print_text_agree : forall mode ds s, clean s -> js_print_text mode ds s = go_print_text mode ds s.
Proof. exact print_text_agree. Qed.

(* the statement stages: raw text, {print e|ds}, {let $x: e /}, {if}/{elseif}/{else} and {switch}/{case}/{default},
   with nested blocks.  One simulation step:
   A statement is relative to a context cc (callctx: the data of the template being rendered -- what data="all" passes
   on --, the text a callee writes for given data, the JavaScript function of a callee, a fuel that suffices for every
   call); callctx_ok says the context is right on both sides (for a program: C04_go_call_correct / C04_js_call_correct
   below; cc_nocalls for statements without calls) and that the generator calls a template by its own name (the ES5
   formatter: cn_ok).
   HYPOTHESES (the relation sim between a state st of the Go renderer's model, a JavaScript environment je and a
   state jst of the generator): the writer does not fail (no capture buffer, no write budget); the innermost frame of
   the scope stack is not the entered one and the frames alldata() returns hold the template's data (dinv), which is
   also what opt_data holds (datarel); every Soy variable is where the generator's scope says it is (env_rel); the generated names in scope and
   the buffer variable have counters up to the generator's counter, and the buffer variable is none of them and not
   opt_ijData (ginv); the buffer variable holds old; the generator's autoescape mode is the renderer's.
   [sout] is the subset semantics: the bytes written and the environment afterwards (None = error or outside the subset).
   [swf lv s] is the static condition under which the generator does not report an error: binders are identifiers, every
   loop function names the variable of an enclosing loop (those of the context are lv, each with a loop frame: lvok).
   CONCLUSION, whenever sout gives (text, env'):
   (Go)  the Interp walker writes exactly text, keeps mode, keeps the frames below the innermost one, and a lookup
         afterwards gives env';
   (JS)  executing the MiniJS statement (sgen ..) succeeds;
   (Gen) walking the same node in JsGen emits exactly the chunks of that MiniJS statement at the current indentation;
   and the three resulting states satisfy the hypotheses again, with old ++ text in the buffer variable. *)
Theorem C04_gen_correct_partial_stmt : forall cf o cc lv st je jst s fuel text env' old,
  c_oblig cf = [] -> callctx_ok cf o cc -> (cc_fuel cc + sdepth s < fuel)%nat ->
  swf lv s = true -> lvok lv (j_scope jst) ->
  bufs st = [] -> calls_left st = None -> bytes_left st = None -> dinv (cc_denv cc) (ctx st) ->
  env_rel (j_scope jst) (c_ij cf) (sc_lookup (ctx st)) je ->
  datarel (cc_denv cc) (je_data je) ->
  ginv (j_scope jst) (j_n jst) (j_buf jst) ->
  assoc_s (j_buf jst) (je_vars je) = Some (JStr old) ->
  j_auto jst = mode st ->
  sout (c_ij cf) (mode st) go_print_text (cc_denv cc) (cc_callee cc) (sc_lookup (ctx st)) s = Some (text, env') ->
  exists st' ws rv je' jst',
    let j := fst (sgen (mode st) (j_buf jst) (j_scope jst) (j_n jst) s) in
    walk cf fuel (snode s) st = (Ok rv, st') /\ out st' = rev ws ++ out st /\ concat_b ws = text
    /\ mode st' = mode st /\ tl (ctx st') = tl (ctx st) /\ (forall k, sc_lookup (ctx st') k = env' k)
    /\ js_exec (cc_jfn cc) je j = Ok je' /\ je_data je' = je_data je
    /\ jwalk o fuel (snode s) jst = Ok (tt, jst') /\ j_out jst' = rev (sprint (j_indent jst) j) ++ j_out jst
    /\ j_indent jst' = j_indent jst /\ j_buf jst' = j_buf jst /\ tl (j_scope jst') = tl (j_scope jst)
    /\ bufs st' = [] /\ calls_left st' = None /\ bytes_left st' = None /\ dinv (cc_denv cc) (ctx st')
    /\ env_rel (j_scope jst') (c_ij cf) (sc_lookup (ctx st')) je'
    /\ datarel (cc_denv cc) (je_data je')
    /\ ginv (j_scope jst') (j_n jst') (j_buf jst')
    /\ assoc_s (j_buf jst') (je_vars je') = Some (JStr (old ++ text))
    /\ j_auto jst' = mode st' /\ lvok lv (j_scope jst').
Proof. exact gen_correct_partial_stmt_unfolded. Qed.
Print Assumptions C04_gen_correct_partial_stmt.

(* its instances by stage name ([sim] is the conjunction of the hypotheses above, [sim_step] the conclusion above, both
   for any writer that does not fail: the output without a budget, or a capture buffer of renderBlock -- [wrote st st' ws]
   says the writes ws went to the innermost capture buffer if there is one, to the output otherwise) *)
Theorem C04_gen_correct_partial_if : forall cf o cc lv st je jst c th rest fuel text env' old,
  c_oblig cf = [] -> callctx_ok cf o cc -> (cc_fuel cc + sdepth (SIf c th rest) < fuel)%nat -> sim cf cc st je jst old ->
  swf lv (SIf c th rest) = true -> lvok lv (j_scope jst) ->
  sout (c_ij cf) (mode st) go_print_text (cc_denv cc) (cc_callee cc) (sc_lookup (ctx st)) (SIf c th rest) = Some (text, env') ->
  sim_step cf o cc lv st je jst (SIf c th rest) fuel text env' old.
Proof. exact gen_correct_partial_if. Qed.
Print Assumptions C04_gen_correct_partial_if.
Theorem C04_gen_correct_partial_let : forall cf o cc lv st je jst name e fuel text env' old,
  c_oblig cf = [] -> callctx_ok cf o cc -> (cc_fuel cc + sdepth (SLet name e) < fuel)%nat -> sim cf cc st je jst old ->
  swf lv (SLet name e) = true -> lvok lv (j_scope jst) ->
  sout (c_ij cf) (mode st) go_print_text (cc_denv cc) (cc_callee cc) (sc_lookup (ctx st)) (SLet name e) = Some (text, env') ->
  sim_step cf o cc lv st je jst (SLet name e) fuel text env' old.
Proof. exact gen_correct_partial_let. Qed.
Print Assumptions C04_gen_correct_partial_let.
(* {let $x}..{/let}: the Go renderer captures the block in a buffer of its own (renderBlock) and binds the string; the
   JavaScript declares  var x_n = '';  lets the block append to it, and binds the name afterwards *)
Theorem C04_gen_correct_partial_let_content : forall cf o cc lv st je jst name body fuel text env' old,
  c_oblig cf = [] -> callctx_ok cf o cc -> (cc_fuel cc + sdepth (SLetC name body) < fuel)%nat -> sim cf cc st je jst old ->
  swf lv (SLetC name body) = true -> lvok lv (j_scope jst) ->
  sout (c_ij cf) (mode st) go_print_text (cc_denv cc) (cc_callee cc) (sc_lookup (ctx st)) (SLetC name body) = Some (text, env') ->
  sim_step cf o cc lv st je jst (SLetC name body) fuel text env' old.
Proof. exact gen_correct_partial_let_content. Qed.
Print Assumptions C04_gen_correct_partial_let_content.
Theorem C04_gen_correct_partial_switch : forall cf o cc lv st je jst v cs fuel text env' old,
  c_oblig cf = [] -> callctx_ok cf o cc -> (cc_fuel cc + sdepth (SSwitch v cs) < fuel)%nat -> sim cf cc st je jst old ->
  swf lv (SSwitch v cs) = true -> lvok lv (j_scope jst) ->
  sout (c_ij cf) (mode st) go_print_text (cc_denv cc) (cc_callee cc) (sc_lookup (ctx st)) (SSwitch v cs) = Some (text, env') ->
  sim_step cf o cc lv st je jst (SSwitch v cs) fuel text env' old.
Proof. exact gen_correct_partial_switch. Qed.
Print Assumptions C04_gen_correct_partial_switch.

(* the loop stage: {foreach $x in e}body{ifempty}ie{/foreach}, e a list value shorter than 2^53, with the loop functions
   index($y) / isFirst($y) / isLast($y) (expressions CLoop) of this loop and of the enclosing ones anywhere inside.
   Go: a frame with $x, $x.index, $x.lastIndex, the body a block per round; JavaScript:
     var xList_n = e; var xLimit_n = xList_n.length; [if (xLimit_n > 0) {] for (var xIndex_n = 0; xIndex_n < xLimit_n; xIndex_n++) {
     var x_n = xList_n[xIndex_n]; body } [} else { ie }]
   whose MiniJS meaning re-reads the index and the limit each time round (js_for); the generated names of every round's
   body are fresh with respect to the four loop variables (the frame property of C04_js_exec_correct) *)
Theorem C04_gen_correct_partial_loops : forall cf o cc lv st je jst x e body hasie ie fuel text env' old,
  c_oblig cf = [] -> callctx_ok cf o cc -> (cc_fuel cc + sdepth (SFor x e body hasie ie) < fuel)%nat -> sim cf cc st je jst old ->
  swf lv (SFor x e body hasie ie) = true -> lvok lv (j_scope jst) ->
  sout (c_ij cf) (mode st) go_print_text (cc_denv cc) (cc_callee cc) (sc_lookup (ctx st)) (SFor x e body hasie ie) = Some (text, env') ->
  sim_step cf o cc lv st je jst (SFor x e body hasie ie) fuel text env' old.
Proof. exact gen_correct_partial_loops. Qed.
Print Assumptions C04_gen_correct_partial_loops.

(* {for $x in range(..)} with one to three arguments of the expression subset (integers), a positive step, limit - init
   within 2^53: the list the renderer builds (range_list, any sufficient fuel) has Math.max(0, Math.ceil((limit - init) / step))
   elements init + k * step, which is what the generated counting loop binds x_n to *)
Theorem C04_gen_correct_partial_for_range : forall cf o cc lv st je jst x a1 rest body hasie ie fuel text env' old,
  c_oblig cf = [] -> callctx_ok cf o cc -> (cc_fuel cc + sdepth (SForRange x a1 rest body hasie ie) < fuel)%nat -> sim cf cc st je jst old ->
  swf lv (SForRange x a1 rest body hasie ie) = true -> lvok lv (j_scope jst) ->
  sout (c_ij cf) (mode st) go_print_text (cc_denv cc) (cc_callee cc) (sc_lookup (ctx st)) (SForRange x a1 rest body hasie ie) = Some (text, env') ->
  sim_step cf o cc lv st je jst (SForRange x a1 rest body hasie ie) fuel text env' old.
Proof. exact gen_correct_partial_for_range. Qed.
Print Assumptions C04_gen_correct_partial_for_range.

(* {css sfx} / {css e, sfx} (e of the expression subset with a scalar value): one Write of String(e) + "-" + sfx on the Go
   side, the two statements  buf += e + '-';  buf += 'sfx';  on the JavaScript side *)
Theorem C04_gen_correct_partial_css : forall cf o cc lv st je jst e sfx fuel text env' old,
  c_oblig cf = [] -> callctx_ok cf o cc -> (cc_fuel cc + sdepth (SCss e sfx) < fuel)%nat -> sim cf cc st je jst old ->
  swf lv (SCss e sfx) = true -> lvok lv (j_scope jst) ->
  sout (c_ij cf) (mode st) go_print_text (cc_denv cc) (cc_callee cc) (sc_lookup (ctx st)) (SCss e sfx) = Some (text, env') ->
  sim_step cf o cc lv st je jst (SCss e sfx) fuel text env' old.
Proof. exact gen_correct_partial_css. Qed.
Print Assumptions C04_gen_correct_partial_css.

(* the JavaScript side alone says more: every variable other than the buffer whose name, read as a generated name,
   has a counter up to the generator's is left alone (so nothing an enclosing block relies on is overwritten) *)
Theorem C04_js_exec_correct : forall ij mode denv callee jfn buf s sc n env je old text env' j sc' n',
  js_callee_ok ij callee jfn ->
  ginv sc n buf -> sout ij mode go_print_text denv callee env s = Some (text, env') ->
  env_rel sc ij env je -> assoc_s buf (je_vars je) = Some (JStr old) -> datarel denv (je_data je) ->
  sgen mode buf sc n s = (j, (sc', n')) ->
  exists je', js_exec jfn je j = Ok je'
    /\ (env_rel sc' ij env' je' /\ assoc_s buf (je_vars je') = Some (JStr (old ++ text)))
    /\ (je_data je' = je_data je
        /\ forall g, bounded n g -> bstr_eqb g buf = false -> assoc_s g (je_vars je') = assoc_s g (je_vars je)).
Proof. exact js_exec_stmt. Qed.
Print Assumptions C04_js_exec_correct.

(* ---------------- non-vacuity ---------------- *)
(* $a?.b + 2 * $x  with  a = {b: 5} in opt_data and x bound by a let (generated variable x3) *)
Definition ex_e : cexpr :=
  CBin OAdd (CVar (b "a") [CAKey true (b "b")]) (CBin OMul (CInt 2) (CVar (b "x") [])).
Definition ex_sc : list (list (bstr * bstr)) := [[(b "x", b "x3")]].
Definition ex_env (k : bstr) : option value :=
  if bstr_eqb k (b "a") then Some (VMap 7 [(b "b", VInt 5)]) else if bstr_eqb k (b "x") then Some (VInt 4) else None.
Definition ex_je : jenv :=
  {| je_vars := [(b "x3", JNum 4)]; je_data := JObj [(b "a", JObj [(b "b", JNum 5)])] |}.

Example C04_nonvacuous :
  ceval None ex_env ex_e = Some (VInt 13)
  /\ js_eval ex_je (cgen ex_sc ex_e) = Ok (JNum 13)
  /\ render_chunks is_print_tbl (jprint (cgen ex_sc ex_e)) = b "((((opt_data.a == null) ? null : opt_data.a.b)) + (((2) * (x3))))"
  /\ js_eval {| je_vars := []; je_data := JObj [] |} (cgen [[]] (CVar (b "a") [CAKey false (b "b")])) = Err je_type
  /\ ceval None (fun _ => None) (CVar (b "a") [CAKey false (b "b")]) = None
  /\ ceval None ex_env (CBin OMul (CInt 9007199254740992) (CInt 2)) = None.
Proof. vm_compute. repeat split; reflexivity. Qed.

Example C04_print_nonvacuous :
  js_append {| je_vars := [(b "output", JStr (b "ab")); (b "x3", JNum 4)]; je_data := JObj [(b "a", JObj [(b "b", JNum 5)])] |}
            (b "output") (cgen ex_sc ex_e)
  = Ok (b "13", {| je_vars := [(b "output", JStr (b "ab13")); (b "x3", JNum 4)]; je_data := JObj [(b "a", JObj [(b "b", JNum 5)])] |})
  /\ printable_scalar (VInt 13) = true.
Proof. vm_compute. split; reflexivity. Qed.

Example C04_print_esc_nonvacuous :
  let je := {| je_vars := [(b "output", JStr (b "ab")); (b "x3", JNum 4)]; je_data := JObj [(b "a", JObj [(b "b", JStr (b "1<2 & it's"))])] |} in
  let e := CVar (b "a") [CAKey false (b "b")] in
  js_append je (b "output") (cgen_print_expr 1 [] (cgen ex_sc e)) = Ok (b "1&lt;2 &amp; it&#39;s", {| je_vars := [(b "output", JStr (b "ab1&lt;2 &amp; it&#39;s")); (b "x3", JNum 4)]; je_data := je_data je |})
  /\ go_print_text 1 [] (b "1<2 & it's") = b "1&lt;2 &amp; it&#39;s"
  /\ go_print_text 1 [PEscapeHtml; PId] (b "1<2") = b "1&lt;2" /\ js_print_text 3 [PNoAutoescape] (b "1<2") = b "1<2"
  /\ js_print_text 1 [] (b "q""q") = b "q&quot;q" /\ go_print_text 1 [] (b "q""q") = b "q&#34;q".
Proof. vm_compute. repeat split; reflexivity. Qed.

(* {if true}
     {if $x > 3}{let $y: $x + 1 /}A{let $t}<{$y}{/let}{$t}{elseif $x > 1}E{else}B{/if}
     {switch $x}{case 1, 2}one{case 4}{let $z: 'four' /}{$z}{$a.b}{default}d{/switch}
     C
   {/if}            with x = 4 (generated variable x_3, counter 3), a.b = 5 *)
Definition ex_sc2 : list (list (bstr * bstr)) := [[(b "x", b "x_3")]].
Definition ex_stmt : cstmt :=
  SIf (CBool true)
      (BCons (SIf (CBin OGt (CVar (b "x") []) (CInt 3))
                  (BCons (SLet (b "y") (CBin OAdd (CVar (b "x") []) (CInt 1))) (BCons (SRaw (b "A")) (BCons (SLetC (b "t") (BCons (SRaw (b "<")) (BCons (SPrint (CVar (b "y") []) []) BNil))) (BCons (SPrint (CVar (b "t") []) []) BNil))))
                  (EElif (CBin OGt (CVar (b "x") []) (CInt 1)) (BCons (SRaw (b "E")) BNil) (EElse (BCons (SRaw (b "B")) BNil))))
      (BCons (SSwitch (CVar (b "x") [])
                (KCase (CInt 1) [CInt 2] (BCons (SRaw (b "one")) BNil)
                (KCase (CInt 4) [] (BCons (SLet (b "z") (CStr (b "four"))) (BCons (SPrint (CVar (b "z") []) []) (BCons (SPrint (CVar (b "a") [CAKey false (b "b")]) []) BNil)))
                (KDefault (BCons (SRaw (b "d")) BNil)))))
      (BCons (SRaw (b "C")) BNil))) ENone.
Example C04_stmt_nonvacuous :
  (match sout None 1 go_print_text (fun _ => None) (fun _ _ => None) ex_env ex_stmt with Some (t, _) => Some t | None => None end) = Some (b "A&lt;5four5C")
  /\ snd (sgen 1 (b "output") ex_sc2 3 ex_stmt) = (ex_sc2, 6)
  /\ (match js_exec (fun _ _ _ => OutOfModel) {| je_vars := [(b "output", JStr []); (b "x_3", JNum 4)]; je_data := JObj [(b "a", JObj [(b "b", JNum 5)])] |}
                     (fst (sgen 1 (b "output") ex_sc2 3 ex_stmt)) with
      | Ok je' => Some (je_vars je') | _ => None end)
     = Some [(b "output", JStr (b "A&lt;5four5C")); (b "x_3", JNum 4); (b "y_4", JNum 5); (b "t_5", JStr (b "<5")); (b "z_6", JStr (b "four"))]
  /\ render_chunks is_print_tbl (sprint 1 (fst (sgen 1 (b "output") ex_sc2 3 ex_stmt))) = b
"  if (true) {
    if (((x_3) > (3))) {
      var y_4 = ((x_3) + (1));
      output += 'A';
      var t_5 = '';
      t_5 += '\u003C';
      t_5 += soy.$$escapeHtml(y_4);
      output += soy.$$escapeHtml(t_5);
    } else if (((x_3) > (1))) {
      output += 'E';
    } else {
      output += 'B';
    }
    switch (x_3) {
      case 1:
      case 2:
        output += 'one';
        break;
      case 4:
        var z_6 = 'four';
        output += soy.$$escapeHtml(z_6);
        output += soy.$$escapeHtml(opt_data.a.b);
        break;
      default:
        output += 'd';
        break;
    }
    output += 'C';
  }
".
Proof. vm_compute. repeat split; reflexivity. Qed.

(* the generator invariant is satisfiable for that scope, counter 3 and the buffer variable output *)
Example C04_ginv_nonvacuous : ginv ex_sc2 3 (b "output").
Proof.
  assert (Hl : forall key, jsc_lookup ex_sc2 key = if bstr_eqb key (b "x") then b "x_3" else []).
  { intro key. unfold ex_sc2. cbn [jsc_lookup]. unfold assoc_s. destruct (bstr_eqb key (b "x")); reflexivity. }
  constructor.
  - discriminate.
  - intros key _. rewrite Hl. destruct (bstr_eqb key (b "x")); [|apply bounded_nil]. exact (bounded_name 3 (b "x") 3 ltac:(reflexivity)).
  - apply bounded_no_us. vm_compute. intuition discriminate.
  - intros key _. rewrite Hl. destruct (bstr_eqb key (b "x")); reflexivity.
  - reflexivity.
  - intro x. replace (jsc_loop ex_sc2 x) with (@nil N, @nil N).
    + repeat split; try apply bounded_nil; reflexivity.
    + unfold ex_sc2. cbn [jsc_loop]. unfold assoc_s. cbn. rewrite andb_false_r. reflexivity.
Qed.

(* env_rel is satisfiable for that environment: x is in the generated variable, a in opt_data *)
Example C04_env_rel_nonvacuous : env_rel ex_sc None ex_env ex_je.
Proof.
  constructor.
  - intros key _ Hk. unfold ex_sc, ex_je, env_val, ex_env. cbn [jsc_lookup je_vars je_data].
    destruct (bstr_eqb key (b "x")) eqn:Ex.
    + apply bstr_eqb_true in Ex. subst. reflexivity.
    + replace (assoc_s key [(b "x", b "x3")]) with (@None bstr) by (cbn [assoc_s]; rewrite Ex; reflexivity).
      cbn [js_member assoc_s]. destruct (bstr_eqb key (b "a")) eqn:Ea; reflexivity.
  - discriminate.
  - intro key. unfold env_val, ex_env. destruct (bstr_eqb key (b "a")); [reflexivity|]. destruct (bstr_eqb key (b "x")); reflexivity.
  - discriminate.
  - intros x i H. unfold ex_env in H. rewrite !(bstr_eqb_sym (x ++ jk_index)) in H. rewrite !ident_neq_index in H by reflexivity. discriminate.
Qed.

(* {foreach $v in $a.l}{if not isFirst($v)},{/if}{index($v)}:{$v}{if isLast($v)}.{/if}{ifempty}none{/foreach}
   with a.l = [10, 20] in opt_data, and with an empty list *)
Definition ex_for : cstmt :=
  SFor (b "v") (CVar (b "a") [CAKey false (b "l")])
       (BCons (SIf (CNot (CLoop LIsFirst (b "v"))) (BCons (SRaw (b ",")) BNil) ENone)
       (BCons (SPrint (CLoop LIndex (b "v")) []) (BCons (SRaw (b ":")) (BCons (SPrint (CVar (b "v") []) [])
       (BCons (SIf (CLoop LIsLast (b "v")) (BCons (SRaw (b ".")) BNil) ENone) BNil)))))
       true (BCons (SRaw (b "none")) BNil).
Definition ex_env_l (l : list value) (k : bstr) : option value := if bstr_eqb k (b "a") then Some (VMap 7 [(b "l", VList 8 l)]) else None.
Example C04_loops_nonvacuous :
  swf [] ex_for = true
  /\ (match sout None 1 go_print_text (fun _ => None) (fun _ _ => None) (ex_env_l [VInt 10; VInt 20]) ex_for with Some (t, _) => Some t | None => None end) = Some (b "0:10,1:20.")
  /\ (match sout None 1 go_print_text (fun _ => None) (fun _ _ => None) (ex_env_l []) ex_for with Some (t, _) => Some t | None => None end) = Some (b "none")
  /\ (match js_exec (fun _ _ _ => OutOfModel) {| je_vars := [(b "output", JStr [])]; je_data := JObj [(b "a", JObj [(b "l", JArr [JNum 10; JNum 20])])] |}
                     (fst (sgen 1 (b "output") [[]] 3 ex_for)) with
      | Ok je' => Some (je_vars je') | _ => None end)
     = Some [(b "output", JStr (b "0:10,1:20.")); (b "vList_4", JArr [JNum 10; JNum 20]); (b "vLimit_4", JNum 2); (b "vIndex_4", JNum 2); (b "v_4", JNum 20)]
  /\ (match js_exec (fun _ _ _ => OutOfModel) {| je_vars := [(b "output", JStr [])]; je_data := JObj [(b "a", JObj [(b "l", JArr [])])] |}
                     (fst (sgen 1 (b "output") [[]] 3 ex_for)) with
      | Ok je' => assoc_s (b "output") (je_vars je') | _ => None end) = Some (JStr (b "none"))
  /\ render_chunks is_print_tbl (sprint 1 (fst (sgen 1 (b "output") [[]] 3 ex_for))) = b
"  var vList_4 = opt_data.a.l;
  var vLimit_4 = vList_4.length;
  if (vLimit_4 > 0) {
    for (var vIndex_4 = 0; vIndex_4 < vLimit_4; vIndex_4++) {
      var v_4 = vList_4[vIndex_4];
      if (!((vIndex_4 == 0))) {
        output += ',';
      }
      output += soy.$$escapeHtml(vIndex_4);
      output += ':';
      output += soy.$$escapeHtml(v_4);
      if ((vIndex_4 == vLimit_4 - 1)) {
        output += '.';
      }
    }
  } else {
    output += 'none';
  }
".
Proof. vm_compute. repeat split; reflexivity. Qed.

(* {for $r in range(1, 8, 3)}{index($r)}={$r}{if not isLast($r)};{/if}{/for} *)
Definition ex_range : cstmt :=
  SForRange (b "r") (CInt 1) [CInt 8; CInt 3]
    (BCons (SPrint (CLoop LIndex (b "r")) []) (BCons (SRaw (b "=")) (BCons (SPrint (CVar (b "r") []) [])
    (BCons (SIf (CNot (CLoop LIsLast (b "r"))) (BCons (SRaw (b ";")) BNil) ENone) BNil)))) false BNil.
Example C04_for_range_nonvacuous :
  swf [] ex_range = true
  /\ (match sout None 2 go_print_text (fun _ => None) (fun _ _ => None) (fun _ => None) ex_range with Some (t, _) => Some t | None => None end) = Some (b "0=1;1=4;2=7")
  /\ (match js_exec (fun _ _ _ => OutOfModel) {| je_vars := [(b "output", JStr [])]; je_data := JObj [] |} (fst (sgen 2 (b "output") [[]] 3 ex_range)) with
      | Ok je' => assoc_s (b "output") (je_vars je') | _ => None end) = Some (JStr (b "0=1;1=4;2=7"))
  /\ render_chunks is_print_tbl (sprint 1 (fst (sgen 2 (b "output") [[]] 3 ex_range))) = b
"  var rInit_4 = 1;
  var rStep_4 = 3;
  var rLimit_4 = Math.max(0, Math.ceil((8 - rInit_4) / rStep_4));
  for (var rIndex_4 = 0; rIndex_4 < rLimit_4; rIndex_4++) {
    var r_4 = rInit_4 + rIndex_4 * rStep_4;
    output += rIndex_4;
    output += '\u003D';
    output += r_4;
    if (!((rIndex_4 == rLimit_4 - 1))) {
      output += ';';
    }
  }
".
Proof. vm_compute. repeat split; reflexivity. Qed.

(* {css $x, bar}{css foo} with x = 4 in the generated variable x_3 *)
Example C04_css_nonvacuous :
  (match bout None 1 go_print_text (fun _ => None) (fun _ _ => None) ex_env (BCons (SCss (Some (CVar (b "x") [])) (b "bar")) (BCons (SCss None (b "foo")) BNil)) with Some t => Some t | None => None end)
    = Some (b "4-barfoo")
  /\ (match jb_exec (fun _ _ _ => OutOfModel) {| je_vars := [(b "output", JStr []); (b "x_3", JNum 4)]; je_data := JObj [] |}
                      (fst (bgen 1 (b "output") ex_sc2 3 (BCons (SCss (Some (CVar (b "x") [])) (b "bar")) (BCons (SCss None (b "foo")) BNil)))) with
      | Ok je' => assoc_s (b "output") (je_vars je') | _ => None end) = Some (JStr (b "4-barfoo"))
  /\ render_chunks is_print_tbl (bprint 1 (fst (bgen 1 (b "output") ex_sc2 3 (BCons (SCss (Some (CVar (b "x") [])) (b "bar")) (BCons (SCss None (b "foo")) BNil))))) = b
"  output += x_3 + '-';
  output += 'bar';
  output += 'foo';
".
Proof. vm_compute. repeat split; reflexivity. Qed.

(* ================================================================== *)
(* the call stage and the template wrapper *)

(* {call name}, {call name data="all"}, {call name data="$e"} (e a map whose keys are identifiers) with parameters
   {param k: e /} and {param k}..{/param} (k an identifier): the Go renderer builds the callee's scope -- a fresh frame that
   takes the parameters (a content parameter is rendered by renderBlock into a buffer of its own and passed as a string),
   over nothing, over the frames alldata() returns, or over the map -- and enters the callee; the JavaScript is
     [var param_n = ''; the block's statements appending to param_n]   per content parameter, in order, BEFORE the call,
     buf += name(D, opt_sb, opt_ijData);      D = {} | opt_data | e
     buf += name(soy.$$augmentMap(D, {k: e, k2: param_n, ..}), opt_sb, opt_ijData);      with parameters
   (the value parameters are therefore evaluated after every content block has run, while the Go renderer evaluates the
   parameters in order: the proof shows that the blocks leave every variable of the caller alone -- the frame property --
   and that param_n still holds its text when the object literal is evaluated; MiniJS: an object without prototype
   chain, so augmentMap is an update of the base object's association list).  The same simulation step as the other
   stages, relative to the context cc. *)
Theorem C04_gen_correct_partial_call : forall cf o cc lv st je jst name d ps fuel text env' old,
  c_oblig cf = [] -> callctx_ok cf o cc -> (cc_fuel cc + sdepth (SCall name d ps) < fuel)%nat -> sim cf cc st je jst old ->
  swf lv (SCall name d ps) = true -> lvok lv (j_scope jst) ->
  sout (c_ij cf) (mode st) go_print_text (cc_denv cc) (cc_callee cc) (sc_lookup (ctx st)) (SCall name d ps) = Some (text, env') ->
  sim_step cf o cc lv st je jst (SCall name d ps) fuel text env' old.
Proof. exact gen_correct_partial_call. Qed.
Print Assumptions C04_gen_correct_partial_call.

(* {msg desc=".."}text{$x}{call ..}..{/msg} without plural, rendered WITHOUT a translation bundle (soyhtml walkMsgBody; the
   generator with o_msgs o = None: part of callctx_ok): raw text and placeholders (print, call: msg_ok) are walked in the
   scope of the message on both sides; the JavaScript is the statements of the children one after the other.  Messages with
   {plural}: C04_gen_correct_partial_plural_stmt at the end; messages rendered from a bundle (soyhtml evalMsg, soyjs
   evalMsgParts) are NOT proved. *)
Theorem C04_gen_correct_partial_msg : forall cf o cc lv st je jst body fuel text env' old,
  c_oblig cf = [] -> callctx_ok cf o cc -> (cc_fuel cc + sdepth (SMsg body) < fuel)%nat -> sim cf cc st je jst old ->
  swf lv (SMsg body) = true -> lvok lv (j_scope jst) ->
  sout (c_ij cf) (mode st) go_print_text (cc_denv cc) (cc_callee cc) (sc_lookup (ctx st)) (SMsg body) = Some (text, env') ->
  sim_step cf o cc lv st je jst (SMsg body) fuel text env' old.
Proof. exact gen_correct_partial_msg. Qed.
Print Assumptions C04_gen_correct_partial_msg.

(* a context for statements without calls exists for every template data, so the stages above lose nothing *)
Theorem C04_cc_nocalls_ok : forall cf o denv, cn_ok o -> o_msgs o = None -> envok denv -> callctx_ok cf o (cc_nocalls denv).
Proof. exact cc_nocalls_ok. Qed.

(* the context discharged for a whole program p (Model/MiniJSProg.v: templates whose bodies are blocks of the statement
   subset; c04_tout k = what rendering a template writes, by recursion on the call depth k; recursion between templates
   allowed), by induction on k on both sides:
   (Go) the registry holds the program's templates; entering the template a call names, with a scope that holds the
        callee's data, writes c04_tout's text for every fuel from k * c04_D p on and restores scope and mode;
   (JS) the function of that template in the generated file (c04_jprog: per template the MiniJS block of its body,
        generated from the counter cnt the generator has reached there) returns that text (c04_jcall: opt_data
        defaulting, var output = '', the body, return output). *)
Theorem C04_go_call_correct : forall cf p,
  c_oblig cf = [] -> (forall x, c_ij cf = Some x -> core_value x = true) -> r_templates (c_reg cf) = c04_templates p ->
  forall k, go_callee_ok cf (c04_tout (c_ij cf) go_print_text p k) (k * c04_D p).
Proof. exact go_call_correct. Qed.
Print Assumptions C04_go_call_correct.
Theorem C04_js_call_correct : forall cf p,
  (forall x, c_ij cf = Some x -> core_value x = true) ->
  forall cnt k, js_callee_ok (c_ij cf) (c04_tout (c_ij cf) go_print_text p k) (c04_jcall (c04_jprog p cnt) k).
Proof. exact js_call_correct. Qed.
Print Assumptions C04_js_call_correct.

(* the same for ANY table that holds, under the name of each template, its function generated from some counter -- in
   particular the table of one file, c04_jprog_chain p n: the counter of scope.go is never reset inside a file, so the
   next template starts where the body of this one stopped (c04_chain) *)
Theorem C04_js_call_correct_tbl : forall cf p,
  (forall x, c_ij cf = Some x -> core_value x = true) ->
  forall jp, c04_table_ok p jp ->
  forall k, js_callee_ok (c_ij cf) (c04_tout (c_ij cf) go_print_text p k) (c04_jcall jp k).
Proof. exact js_call_correct_tbl. Qed.
Print Assumptions C04_js_call_correct_tbl.
Theorem C04_jprog_chain_ok : forall p n, c04_table_ok p (c04_jprog_chain p n).
Proof. exact c04_jprog_chain_ok. Qed.
(* and that table IS what the generator writes for the templates of a file: walking the soydoc and template nodes of the
   program in order (state.walk of Model/JsGen.v from counter n, at the file's level) emits, template after template,
   the function c04_jprog_chain holds for it (c04_file_chunks), each from the counter the chain gives it.  (The lines
   before them -- header comment, namespace declarations -- and the imports gen_file prepends are not part of it.) *)
Theorem C04_gen_templates : forall o, cn_ok o -> o_msgs o = None -> forall nsae F p n st bf,
  (forall t, In t p -> ct_ns_ae t = nsae /\ (S (S (bdepth (ct_body t))) < F)%nat /\ bwf [] (ct_body t) = true) ->
  shape st 0 bf nsae [[]] n ->
  exists bf' n', gres o (jwalk_list (jwalk o F) (flat_map c04_doc_nodes p)) st (c04_file_chunks o p n) 0 bf' nsae [[]] n'.
Proof. exact gen_templates. Qed.
Print Assumptions C04_gen_templates.

(* a template of a program built from the proved stages, the three sides together: whenever the subset semantics gives
   a text for the template and data at call depth k,
   (Go)  evalCall entering it (call_enter) writes exactly that text;
   (JS)  its function in the generated file returns exactly that text, for every data object that holds the data;
   (Gen) that function -- header, [opt_data = opt_data || {};] var output = ''; the printed block; return output; } --
         is what visitTemplate emits from the counter cnt name. *)
Theorem C04_gen_correct_partial_template : forall cf o p cnt,
  c_oblig cf = [] -> (forall x, c_ij cf = Some x -> core_value x = true) -> r_templates (c_reg cf) = c04_templates p -> cn_ok o -> o_msgs o = None ->
  forall k name cenv text, c04_tout (c_ij cf) go_print_text p k name cenv = Some text ->
  exists t, c04_find p name = Some t
  /\ (envok cenv -> forall f st cd, (k * c04_D p <= f)%nat -> wok st -> cd <> [] -> (forall q, sc_lookup cd q = cenv q) ->
        exists st' ws rv, call_enter (walk cf f) (c04_template t) cd st = (Ok rv, st') /\ wrote st st' ws /\ concat_b ws = text
                          /\ mode st' = mode st /\ ctx st' = ctx st)
  /\ (forall jd ijv, datarel cenv jd -> (forall v, c_ij cf = Some v -> ijv = to_js v) ->
        c04_jcall (c04_jprog p cnt) k name jd ijv = Ok text)
  /\ (forall F st bf, (S (bdepth (ct_body t)) < F)%nat -> bwf [] (ct_body t) = true ->
        shape st 0 bf (ct_ns_ae t) [[]] (cnt name) -> c04_allopt (j_cur st) = ct_allopt t ->
        gres o (jwalk o F (t_node (c04_template t))) st
             (c04_tprint (template_header_line o name) (ct_allopt t) (c04_jbody t (cnt name))) 0 t_output (ct_ns_ae t) [[]]
             (snd (bgen (ct_mode t) t_output c04_body_scope (cnt name) (ct_body t)))).
Proof. exact gen_correct_partial_template. Qed.
Print Assumptions C04_gen_correct_partial_template.

(* the entry point: Renderer.Execute (Model/Interp.v's render) of a template of the program, data a map of core values,
   no write budget: Ok, and the Write calls concatenate to the text of the subset semantics (also when Execute's entry
   mode "on" differs from the mode "unspecified" a call and the generator use: both escape) *)
Theorem C04_go_render_correct : forall cf p,
  c_oblig cf = [] -> (forall x, c_ij cf = Some x -> core_value x = true) -> r_templates (c_reg cf) = c04_templates p ->
  forall k name t data_id data first_id text fuel,
  c04_find p name = Some t ->
  forallb (fun kv => core_value (snd kv)) data = true ->
  c04_tout (c_ij cf) go_print_text p (S k) name (fun q => assoc_s q data) = Some text ->
  (S k * c04_D p <= fuel)%nat ->
  let r := render cf fuel name data_id data None None first_id in
  rr_outcome r = Ok tt /\ concat_b (rr_writes r) = text.
Proof. exact go_render_correct. Qed.
Print Assumptions C04_go_render_correct.

(* non-vacuity: two templates; .main prints $x, calls .item with data="all" and a parameter, then calls itself on the map $next
   while there is one (recursion through data="$e"):
     {template .main}{$x}[{call .item data="all"}{param y: $x + 1 /}{param z}<{$x}{/param}{/call}]{if $next}{call .main data="$next" /}{/if}{/template}
     {template .item}{msg desc="d"}{$x}-{$y}{/msg}{$z|noAutoescape}{/template} *)
Definition ex_main : ctmpl :=
  {| ct_name := b "ns.main"; ct_ns_ae := 1; ct_ae := 0; ct_allopt := false;
     ct_body := BCons (SPrint (CVar (b "x") []) [])
               (BCons (SRaw (b "["))
               (BCons (SCall (b "ns.item") DAll (PVal (b "y") (CBin OAdd (CVar (b "x") []) (CInt 1)) (PCont (b "z") (BCons (SRaw (b "<")) (BCons (SPrint (CVar (b "x") []) []) BNil)) PNil)))
               (BCons (SRaw (b "]"))
               (BCons (SIf (CVar (b "next") []) (BCons (SCall (b "ns.main") (DExpr (CVar (b "next") [])) PNil) BNil) ENone) BNil)))) |}.
Definition ex_item : ctmpl :=
  {| ct_name := b "ns.item"; ct_ns_ae := 1; ct_ae := 0; ct_allopt := false;
     ct_body := BCons (SMsg (BCons (SPrint (CVar (b "x") []) []) (BCons (SRaw (b "-")) (BCons (SPrint (CVar (b "y") []) []) BNil))))
               (BCons (SPrint (CVar (b "z") []) [PNoAutoescape]) BNil) |}.
Definition ex_prog : list ctmpl := [ex_main; ex_item].
Definition ex_data : list (bstr * value) := [(b "next", VMap 2 [(b "x", VInt 7)]); (b "x", VInt 4)].
Definition ex_cf : cfg :=
  {| c_reg := {| r_templates := c04_templates ex_prog; r_sources := []; r_files := [] |}; c_ij := None; c_oblig := []; c_msgs := None |}.
Example C04_call_nonvacuous :
  c04_tout None go_print_text ex_prog 3 (b "ns.main") (fun q => assoc_s q ex_data) = Some (b "4[4-5<4]7[7-8<7]")
  /\ c04_jcall (c04_jprog ex_prog (fun _ => 0)) 3 (b "ns.main") (to_js (VMap 1 ex_data)) JUndef = Ok (b "4[4-5<4]7[7-8<7]")
  /\ c04_jcall (c04_jprog_chain ex_prog 0) 3 (b "ns.main") (to_js (VMap 1 ex_data)) JUndef = Ok (b "4[4-5<4]7[7-8<7]")
  /\ map snd (c04_chain ex_prog 0) = [0; 1]
  /\ (let r := render ex_cf 40 (b "ns.main") 1 ex_data None None 10 in (rr_outcome r, concat_b (rr_writes r))) = (Ok tt, b "4[4-5<4]7[7-8<7]")
  /\ render_chunks is_print_tbl (c04_tprint (template_header_line {| o_fmt := ES5; o_msgs := None; o_order := fun l => l |} (b "ns.main")) false (c04_jbody ex_main 0)) = b
"
ns.main = function(opt_data, opt_sb, opt_ijData) {
  var output = '';
  output += soy.$$escapeHtml(opt_data.x);
  output += '[';
  var param_1 = '';
  param_1 += '\u003C';
  param_1 += soy.$$escapeHtml(opt_data.x);
  output += ns.item(soy.$$augmentMap(opt_data, {y: ((opt_data.x) + (1)), z: param_1}), opt_sb, opt_ijData);
  output += ']';
  if (opt_data.next) {
    output += ns.main(opt_data.next, opt_sb, opt_ijData);
  }
  return output;
};
".
Proof. vm_compute. repeat split; reflexivity. Qed.

(* ================================================================== *)
(* one whole file *)

(* soyjs.Write on a file of the subset (Model/JsGen.v gen_file; a namespace declaration, then per template its soydoc
   comment and the template): Ok, and the chunks are EXACTLY
     // This file was automatically generated from <name>.   // Please don't edit this file by hand.   <blank line>
     one line  if (typeof a.b == 'undefined') { [var ]a.b = {}; }  per dotted prefix of the namespace,
     the printed function table c04_jprog_chain p 0 (c04_table_chunks: per template the blank line, the header line,
     [opt_data = opt_data || {};] var output = ''; the printed MiniJS block of its body generated from the counter the
     previous template left, return output; and the closing line),
   and NO import line: the formatter writes none (c04_imp_free: the ES5 formatter's Call and Directive methods return an
   empty import; proved from the regenerated formatter tables by C04_imp_free_es5), and every statement of every
   template leaves the generator's import table as it was (the frame conjunct of gres). *)
Theorem C04_gen_file_chunks : forall o, cn_ok o -> o_msgs o = None -> forall fname ns nsae F p, c04_imp_free o ->
  (forall t, In t p -> ct_ns_ae t = nsae /\ (S (S (bdepth (ct_body t))) < F)%nat /\ bwf [] (ct_body t) = true) ->
  (0 < F)%nat ->
  gen_file o F fname (c04_file_nodes ns nsae p)
  = Ok (c04_file_header fname ++ c04_ns_lines ns ++ c04_table_chunks o (c04_jprog_chain p 0)).
Proof. exact gen_file_chunks. Qed.
Print Assumptions C04_gen_file_chunks.
Theorem C04_imp_free_es5 : forall o, o_fmt o = ES5 -> c04_imp_free o.
Proof. exact c04_imp_free_es5. Qed.

(* FULL STATEMENT:  gen_correct : forall b t data ij, check b = Ok -> in_core b data -> js_run (gen b) t data ij = render_impl b t data ij.
   PROVED (partial): for every registry whose templates are those of one file of the subset, every budget F above the
   nesting of the bodies, the ES5 formatter and no translation bundle:
     (Gen) gen_file answers Ok with header, namespace declarations and the printed function table jp = c04_jprog_chain p 0;
     and for every template of the file, every data map of core values (no floats, integers within 2^53) and every
     call depth k for which the subset semantics c04_tout gives a text (that is the subset condition on the run: every
     printed value is a printable scalar, every call names a template of the file, ...):
     (Go)  Renderer.Execute (Model/Interp.v render, tied to soyhtml by C02) is Ok and its Write calls concatenate to text;
     (JS)  the MiniJS call of that template's function of jp, with any object that holds the same data (in particular
           to_js of the data map when its keys are identifiers) and the same injected data, returns text.
   NOT PROVED / outside: (a) the ES6 formatter (cn_ok and c04_imp_free fail: a call is renamed by ES6Identifier and
   imported); (b) the step from the emitted text to a function table in a real engine -- parsing the printed functions,
   the namespace objects, soyutils.js --: node correspondence of the harness (MiniJS-vs-V8); (c) messages rendered from a
   bundle (soyjs evalMsgParts) and nested plurals (a message whose child is ONE plural with numeric cases is a statement of the
   subset: SMsgPl, C04_plural_file_nonvacuous): C11_three_sided_translation_partial covers bundle messages of
   plain items relative to C04's step, not composed here; (d) a registry of several files: see
   C04_gen_registry_correct_partial below.  (Execute enters a template of a namespace without an autoescape attribute in
   mode "on" while a call -- and the generator -- use "unspecified": the subset semantics is the same for both, bout_mode01.) *)
Theorem C04_gen_file_correct_partial : forall cf o fname ns nsae p F,
  c_oblig cf = [] -> (forall x, c_ij cf = Some x -> core_value x = true) -> r_templates (c_reg cf) = c04_templates p ->
  cn_ok o -> c04_imp_free o -> o_msgs o = None ->
  (forall t, In t p -> ct_ns_ae t = nsae /\ (S (S (bdepth (ct_body t))) < F)%nat /\ bwf [] (ct_body t) = true) ->
  (0 < F)%nat ->
  let jp := c04_jprog_chain p 0 in
  gen_file o F fname (c04_file_nodes ns nsae p) = Ok (c04_file_header fname ++ c04_ns_lines ns ++ c04_table_chunks o jp)
  /\ forall k name t data_id data first_id text fuel,
       c04_find p name = Some t ->
       forallb (fun kv => core_value (snd kv)) data = true ->
       c04_tout (c_ij cf) go_print_text p (S k) name (fun q => assoc_s q data) = Some text ->
       (S k * c04_D p <= fuel)%nat ->
       (let r := render cf fuel name data_id data None None first_id in
        rr_outcome r = Ok tt /\ concat_b (rr_writes r) = text)
       /\ (forall jd ijv, datarel (fun q => assoc_s q data) jd -> (forall v, c_ij cf = Some v -> ijv = to_js v) ->
             c04_jcall jp (S k) name jd ijv = Ok text)
       /\ (forallb (fun kv => is_ident (fst kv)) data = true -> forall ijv, (forall v, c_ij cf = Some v -> ijv = to_js v) ->
             c04_jcall jp (S k) name (to_js (VMap data_id data)) ijv = Ok text).
Proof. exact gen_file_correct_partial. Qed.
Print Assumptions C04_gen_file_correct_partial.

(* the same for a registry of SEVERAL files (fs: per file its name, namespace, autoescape mode and templates): every
   file's generated text is header + namespace declarations + its own printed function table (each file from counter 0:
   soyjs.Write makes a new scope per file), and in the UNION of the tables -- what an engine holds after loading every
   generated file -- the function of every template returns what Renderer.Execute writes, calls across files included
   (same hypotheses, same limits (a) (b) (c)). *)
Theorem C04_gen_registry_correct_partial : forall cf o fs F,
  c_oblig cf = [] -> (forall x, c_ij cf = Some x -> core_value x = true) -> r_templates (c_reg cf) = c04_templates (c04_all_tmpls fs) ->
  cn_ok o -> c04_imp_free o -> o_msgs o = None ->
  (forall f, In f fs -> forall t, In t (cfl_tmpls f) -> ct_ns_ae t = cfl_ae f /\ (S (S (bdepth (ct_body t))) < F)%nat /\ bwf [] (ct_body t) = true) ->
  (0 < F)%nat ->
  let p := c04_all_tmpls fs in
  let jp := c04_all_jprog fs in
  (forall f, In f fs ->
     gen_file o F (cfl_name f) (c04_file_nodes (cfl_ns f) (cfl_ae f) (cfl_tmpls f))
     = Ok (c04_file_header (cfl_name f) ++ c04_ns_lines (cfl_ns f) ++ c04_table_chunks o (c04_jprog_chain (cfl_tmpls f) 0)))
  /\ forall k name t data_id data first_id text fuel,
       c04_find p name = Some t ->
       forallb (fun kv => core_value (snd kv)) data = true ->
       c04_tout (c_ij cf) go_print_text p (S k) name (fun q => assoc_s q data) = Some text ->
       (S k * c04_D p <= fuel)%nat ->
       (let r := render cf fuel name data_id data None None first_id in
        rr_outcome r = Ok tt /\ concat_b (rr_writes r) = text)
       /\ (forall jd ijv, datarel (fun q => assoc_s q data) jd -> (forall v, c_ij cf = Some v -> ijv = to_js v) ->
             c04_jcall jp (S k) name jd ijv = Ok text)
       /\ (forallb (fun kv => is_ident (fst kv)) data = true -> forall ijv, (forall v, c_ij cf = Some v -> ijv = to_js v) ->
             c04_jcall jp (S k) name (to_js (VMap data_id data)) ijv = Ok text).
Proof. exact gen_registry_correct_partial. Qed.
Print Assumptions C04_gen_registry_correct_partial.

(* non-vacuity: the two templates of C04_call_nonvacuous as the file ex.soy with {namespace ns}: every hypothesis of the
   theorem holds of it, and gen_file's chunks render to the file soyjs.Write produces *)
Definition ex_opts : jopts := {| o_fmt := ES5; o_msgs := None; o_order := fun l => l |}.
Example C04_file_nonvacuous :
  (cn_ok ex_opts /\ c04_imp_free ex_opts /\ o_msgs ex_opts = None)
  /\ (forall t, In t ex_prog -> ct_ns_ae t = 1 /\ (S (S (bdepth (ct_body t))) < 12)%nat /\ bwf [] (ct_body t) = true)
  /\ r_templates (c_reg ex_cf) = c04_templates ex_prog
  /\ (match gen_file ex_opts 12 (b "ex.soy") (c04_file_nodes (b "ns") 1 ex_prog) with
      | Ok cs => Some (render_chunks is_print_tbl cs) | _ => None end) = Some (b
"// This file was automatically generated from ex.soy.
// Please don't edit this file by hand.

if (typeof ns == 'undefined') { var ns = {}; }

ns.main = function(opt_data, opt_sb, opt_ijData) {
  var output = '';
  output += soy.$$escapeHtml(opt_data.x);
  output += '[';
  var param_1 = '';
  param_1 += '\u003C';
  param_1 += soy.$$escapeHtml(opt_data.x);
  output += ns.item(soy.$$augmentMap(opt_data, {y: ((opt_data.x) + (1)), z: param_1}), opt_sb, opt_ijData);
  output += ']';
  if (opt_data.next) {
    output += ns.main(opt_data.next, opt_sb, opt_ijData);
  }
  return output;
};

ns.item = function(opt_data, opt_sb, opt_ijData) {
  var output = '';
  output += soy.$$escapeHtml(opt_data.x);
  output += '-';
  output += soy.$$escapeHtml(opt_data.y);
  output += opt_data.z;
  return output;
};
").
Proof.
  split; [split; [intro name; apply app_nil_r|split; [apply c04_imp_free_es5; reflexivity|reflexivity]]|].
  split; [intros t [<-|[<-|[]]]; (split; [reflexivity|split; [apply Nat.ltb_lt; reflexivity|reflexivity]])|].
  split; [reflexivity|]. vm_compute. reflexivity.
Qed.

(* ================================================================== *)
(* a message whose child is a {plural}, rendered without a bundle *)

(* {msg desc=".."}{plural v}{case z1}b1..{case zk}bk{default}d{/plural}{/msg}, bodies of raw text and print / call placeholders
   (msg_ok), v an expression of the subset whose value is an integer i (any other value is an error of the Go renderer and
   outside the statement): the same simulation step as the other stages, for the node c04_plural_node.
   (Go)  soyhtml walkPlural renders the first case whose number equals i, else the default (c04_plpick): the walker writes
         exactly the text of that body;
   (JS)  the MiniJS statement  switch (v) { case z1: jb1 break; .. default: jd break; }  (JSSwitch over JENum cases, the blocks
         generated one after the other from the generator's counter: c04_plgen) appends exactly that text;
   (Gen) walking the node in Model/JsGen.v (visitMsgNode / walkPlural without a bundle) emits exactly c04_plprint: that
         switch WITHOUT the "break;" after the default clause -- C04_plural_text_vs_sprint: the printed form of the MiniJS
         statement is the emitted text with that one line added (last clause: no effect);
   and the resulting states are related by sim again, with the generator's scope unchanged and its counter behind the last body.
   NOT part of it: nested plurals, plural with a bundle (soy.$$pluralIndex cases).  The plural inside a program of
   Model/MiniJSProg.v: see C04_gen_correct_partial_plural_stmt below. *)
Theorem C04_gen_correct_partial_plural : forall cf o cc lv, c_oblig cf = [] -> callctx_ok cf o cc ->
  forall pname v cs d D st je jst fuel i text env' old,
  sim cf cc st je jst old ->
  (cdepth v < D)%nat -> cwf lv v = true ->
  (forall zb, In zb cs -> msg_ok (snd zb) = true /\ bwf lv (snd zb) = true /\ (bdepth (snd zb) <= D)%nat) ->
  msg_ok d = true -> bwf lv d = true -> (bdepth d <= D)%nat ->
  (cc_fuel cc + S (S (S D)) < fuel)%nat -> lvok lv (j_scope jst) ->
  ceval (c_ij cf) (sc_lookup (ctx st)) v = Some (VInt i) ->
  sout (c_ij cf) (mode st) go_print_text (cc_denv cc) (cc_callee cc) (sc_lookup (ctx st)) (SMsg (c04_plpick i cs d)) = Some (text, env') ->
  forall jcs n1 jd n2,
  c04_plgen (mode st) (j_buf jst) (j_scope jst) (j_n jst) cs = (jcs, n1) -> bgen (mode st) (j_buf jst) (j_scope jst) n1 d = (jd, n2) ->
  let nd := c04_plural_node pname v cs d in
  let j := JSSwitch (cgen (j_scope jst) v) (c04_plk jcs jd) in
  exists st' ws rv je' jst',
    walk cf fuel nd st = (Ok rv, st') /\ wrote st st' ws /\ concat_b ws = text
    /\ mode st' = mode st /\ tl (ctx st') = tl (ctx st) /\ (forall k, sc_lookup (ctx st') k = env' k)
    /\ js_exec (cc_jfn cc) je j = Ok je' /\ je_data je' = je_data je
    /\ jwalk o fuel nd jst = Ok (tt, jst') /\ j_out jst' = rev (c04_plprint (j_indent jst) (cgen (j_scope jst) v) jcs jd) ++ j_out jst
    /\ j_indent jst' = j_indent jst /\ j_buf jst' = j_buf jst /\ j_scope jst' = j_scope jst /\ j_n jst' = n2
    /\ sim cf cc st' je' jst' (old ++ text) /\ lvok lv (j_scope jst').
Proof. exact gen_correct_partial_plural. Qed.
Print Assumptions C04_gen_correct_partial_plural.
Theorem C04_plural_text_vs_sprint : forall ind jv jcs jd,
  sprint ind (JSSwitch jv (c04_plk jcs jd))
  = sp_ind ind ++ [CText t_switch_open] ++ jprint jv ++ [CText t_for_close; CText t_nl]
    ++ c04_plprint_cases (S ind) jcs
    ++ (sp_ind (S ind) ++ [CText t_default] ++ [CText t_nl]) ++ bprint (S (S ind)) jd
    ++ (sp_ind (S (S ind)) ++ [CText t_break] ++ [CText t_nl])
    ++ (sp_ind ind ++ [CText t_rbrace] ++ [CText t_nl]).
Proof. exact c04_plprint_sprint. Qed.

(* non-vacuity: {msg desc=""}{plural $x}{case 1}one{case 4}four: {$x}{default}{$a.b} items{/plural}{/msg} with x = 4, a.b = 5 *)
Definition ex_pl_cases : list (Z * cblk) :=
  [(1%Z, BCons (SRaw (b "one")) BNil); (4%Z, BCons (SRaw (b "four: ")) (BCons (SPrint (CVar (b "x") []) []) BNil))].
Definition ex_pl_dflt : cblk := BCons (SPrint (CVar (b "a") [CAKey false (b "b")]) []) (BCons (SRaw (b " items")) BNil).
Definition ex_pl_tmpl : template :=
  {| t_name := b "ns.pl"; t_node := NTemplate 0 (b "ns.pl") (NList 0 [c04_plural_node (b "x") (CVar (b "x") []) ex_pl_cases ex_pl_dflt]) 0 false;
     t_ns_name := []; t_ns_autoescape := 1; t_params := []; t_file := [] |}.
Example C04_plural_nonvacuous :
  ceval None ex_env (CVar (b "x") []) = Some (VInt 4)
  /\ (match sout None 1 go_print_text (fun _ => None) (fun _ _ => None) ex_env (SMsg (c04_plpick 4 ex_pl_cases ex_pl_dflt)) with Some (t, _) => Some t | None => None end) = Some (b "four: 4")
  /\ (let r := render {| c_reg := {| r_templates := [ex_pl_tmpl]; r_sources := []; r_files := [] |}; c_ij := None; c_oblig := []; c_msgs := None |}
                      40 (b "ns.pl") 1 [(b "a", VMap 2 [(b "b", VInt 5)]); (b "x", VInt 4)] None None 10 in
       (rr_outcome r, concat_b (rr_writes r))) = (Ok tt, b "four: 4")
  /\ (let '(jcs, n1) := c04_plgen 1 (b "output") [[]] 3 ex_pl_cases in
      let '(jd, _) := bgen 1 (b "output") [[]] n1 ex_pl_dflt in
      (match js_exec (fun _ _ _ => OutOfModel) {| je_vars := [(b "output", JStr [])]; je_data := JObj [(b "a", JObj [(b "b", JNum 5)]); (b "x", JNum 4)] |}
                     (JSSwitch (cgen [[]] (CVar (b "x") [])) (c04_plk jcs jd)) with Ok je' => Some (je_vars je') | _ => None end,
       render_chunks is_print_tbl (c04_plprint 1 (cgen [[]] (CVar (b "x") [])) jcs jd)))
     = (Some [(b "output", JStr (b "four: 4"))], b
"  switch (opt_data.x) {
    case 1:
      output += 'one';
      break;
    case 4:
      output += 'four: ';
      output += soy.$$escapeHtml(opt_data.x);
      break;
    default:
      output += soy.$$escapeHtml(opt_data.a.b);
      output += ' items';
  }
").
Proof. vm_compute. repeat split; reflexivity. Qed.

(* the plural as a STATEMENT of the subset (cstmt SMsgPl pname v q, q the chain of numbered bodies ending in the default):
   the same step, as a case of the statement simulation C04_gen_correct_partial_stmt -- so a plural message may stand
   anywhere a statement may (template bodies, blocks of if / switch / loops, parameter blocks), and templates containing
   plural messages are programs of C04_gen_file_correct_partial / C04_gen_registry_correct_partial.  Its Soy meaning
   (sout): the value of v must be an integer, the first body with that number, else the default, rendered as a message
   (bodies of raw text, print, call: qwf); its MiniJS statement (sgen) is JSPlural (cgen v) cases, executed exactly as
   JSSwitch and printed (sprint / kprint_nb) without the line "break;" after the default clause -- the text soyjs writes. *)
Theorem C04_gen_correct_partial_plural_stmt : forall cf o cc lv st je jst pname v q fuel text env' old,
  c_oblig cf = [] -> callctx_ok cf o cc -> (cc_fuel cc + sdepth (SMsgPl pname v q) < fuel)%nat -> sim cf cc st je jst old ->
  swf lv (SMsgPl pname v q) = true -> lvok lv (j_scope jst) ->
  sout (c_ij cf) (mode st) go_print_text (cc_denv cc) (cc_callee cc) (sc_lookup (ctx st)) (SMsgPl pname v q) = Some (text, env') ->
  sim_step cf o cc lv st je jst (SMsgPl pname v q) fuel text env' old.
Proof. exact gen_correct_partial_plural_stmt. Qed.
Print Assumptions C04_gen_correct_partial_plural_stmt.

(* the formulation over lists of cases (C04_gen_correct_partial_plural) talks about the same node, the same blocks, the
   same emitted text and the same selected body as the statement SMsgPl pname v (c04_qof cs d) *)
Theorem C04_plural_as_stmt : forall pname v cs d,
  snode (SMsgPl pname v (c04_qof cs d)) = c04_plural_node pname v cs d
  /\ (forall mode buf sc n jcs n1 jd n2, c04_plgen mode buf sc n cs = (jcs, n1) -> bgen mode buf sc n1 d = (jd, n2) ->
        sgen mode buf sc n (SMsgPl pname v (c04_qof cs d)) = (JSPlural (cgen sc v) (c04_plk jcs jd), (sc, n2))
        /\ (forall ind, sprint ind (JSPlural (cgen sc v) (c04_plk jcs jd)) = c04_plprint ind (cgen sc v) jcs jd)
        /\ (forall jfn je, js_exec jfn je (JSPlural (cgen sc v) (c04_plk jcs jd)) = js_exec jfn je (JSSwitch (cgen sc v) (c04_plk jcs jd))))
  /\ (forall ij mode pt dv cl env i, ceval ij env v = Some (VInt i) ->
        sout ij mode pt dv cl env (SMsgPl pname v (c04_qof cs d)) = sout ij mode pt dv cl env (SMsg (c04_plpick i cs d)))
  /\ (forall lv, swf lv (SMsgPl pname v (c04_qof cs d))
                 = cwf lv v && (forallb (fun zb => msg_ok (snd zb) && bwf lv (snd zb)) cs && (msg_ok d && bwf lv d))).
Proof.
  intros pname v cs d. split; [apply c04_qof_node|]. split.
  - intros mode buf sc n jcs n1 jd n2 Eg Ed. split; [exact (c04_qof_sgen mode buf sc pname v cs d n jcs n1 jd n2 Eg Ed)|].
    split; [intro ind; apply c04_plprint_sprint_plural|intros jfn je; reflexivity].
  - split; [intros ij mode pt dv cl env i Ev; apply c04_qof_sout; exact Ev|intro lv; apply c04_qof_swf].
Qed.
Print Assumptions C04_plural_as_stmt.

(* non-vacuity: the file pl.soy, {namespace ns} {template .pl}You have {msg desc=""}{plural $x}{case 1}one{case 4}four: {$x}{default}{$a.b} items{/plural}{/msg}.{/template}
   satisfies every hypothesis of C04_gen_file_correct_partial; with x = 4, a.b = 5 the three sides give "You have four: 4."
   and gen_file's chunks render to the file below (no "break;" after the default clause) *)
Definition ex_pl_ct : ctmpl :=
  {| ct_name := b "ns.pl"; ct_ns_ae := 1; ct_ae := 0; ct_allopt := false;
     ct_body := BCons (SRaw (b "You have ")) (BCons (SMsgPl (b "x") (CVar (b "x") []) (c04_qof ex_pl_cases ex_pl_dflt)) (BCons (SRaw (b ".")) BNil)) |}.
Definition ex_pl_prog : list ctmpl := [ex_pl_ct].
Definition ex_pl_data : list (bstr * value) := [(b "a", VMap 2 [(b "b", VInt 5)]); (b "x", VInt 4)].
Definition ex_pl_cf : cfg :=
  {| c_reg := {| r_templates := c04_templates ex_pl_prog; r_sources := []; r_files := [] |}; c_ij := None; c_oblig := []; c_msgs := None |}.
Example C04_plural_file_nonvacuous :
  (forall t, In t ex_pl_prog -> ct_ns_ae t = 1 /\ (S (S (bdepth (ct_body t))) < 20)%nat /\ bwf [] (ct_body t) = true)
  /\ r_templates (c_reg ex_pl_cf) = c04_templates ex_pl_prog
  /\ c04_tout None go_print_text ex_pl_prog 3 (b "ns.pl") (fun q => assoc_s q ex_pl_data) = Some (b "You have four: 4.")
  /\ c04_jcall (c04_jprog_chain ex_pl_prog 0) 3 (b "ns.pl") (to_js (VMap 1 ex_pl_data)) JUndef = Ok (b "You have four: 4.")
  /\ (let r := render ex_pl_cf 40 (b "ns.pl") 1 ex_pl_data None None 10 in (rr_outcome r, concat_b (rr_writes r))) = (Ok tt, b "You have four: 4.")
  /\ (match gen_file ex_opts 20 (b "pl.soy") (c04_file_nodes (b "ns") 1 ex_pl_prog) with
      | Ok cs => Some (render_chunks is_print_tbl cs) | _ => None end) = Some (b
"// This file was automatically generated from pl.soy.
// Please don't edit this file by hand.

if (typeof ns == 'undefined') { var ns = {}; }

ns.pl = function(opt_data, opt_sb, opt_ijData) {
  var output = '';
  output += 'You have ';
  switch (opt_data.x) {
    case 1:
      output += 'one';
      break;
    case 4:
      output += 'four: ';
      output += soy.$$escapeHtml(opt_data.x);
      break;
    default:
      output += soy.$$escapeHtml(opt_data.a.b);
      output += ' items';
  }
  output += '.';
  return output;
};
").
Proof.
  split; [intros t [<-|[]]; (split; [reflexivity|split; [apply Nat.ltb_lt; reflexivity|reflexivity]])|].
  split; [reflexivity|]. vm_compute. repeat split; reflexivity.
Qed.

(* non-vacuity of the registry theorem: the two templates in two files (main.soy, item.soy), the call from ns.main to
   ns.item crossing the files; each file's table starts from counter 0 *)
Definition ex_files : list c04_file :=
  [{| cfl_name := b "main.soy"; cfl_ns := b "ns"; cfl_ae := 1; cfl_tmpls := [ex_main] |};
   {| cfl_name := b "item.soy"; cfl_ns := b "ns"; cfl_ae := 1; cfl_tmpls := [ex_item] |}].
Example C04_registry_nonvacuous :
  c04_all_tmpls ex_files = ex_prog
  /\ (forall f, In f ex_files -> forall t, In t (cfl_tmpls f) -> ct_ns_ae t = cfl_ae f /\ (S (S (bdepth (ct_body t))) < 12)%nat /\ bwf [] (ct_body t) = true)
  /\ map fst (c04_all_jprog ex_files) = [b "ns.main"; b "ns.item"]
  /\ c04_jcall (c04_all_jprog ex_files) 3 (b "ns.main") (to_js (VMap 1 ex_data)) JUndef = Ok (b "4[4-5<4]7[7-8<7]")
  /\ (match gen_file ex_opts 12 (b "item.soy") (c04_file_nodes (b "ns") 1 [ex_item]) with
      | Ok cs => Some (render_chunks is_print_tbl cs) | _ => None end) = Some (b
"// This file was automatically generated from item.soy.
// Please don't edit this file by hand.

if (typeof ns == 'undefined') { var ns = {}; }

ns.item = function(opt_data, opt_sb, opt_ijData) {
  var output = '';
  output += soy.$$escapeHtml(opt_data.x);
  output += '-';
  output += soy.$$escapeHtml(opt_data.y);
  output += opt_data.z;
  return output;
};
").
Proof.
  split; [reflexivity|].
  split; [intros f [<-|[<-|[]]] t [<-|[]]; (split; [reflexivity|split; [apply Nat.ltb_lt; reflexivity|reflexivity]])|].
  vm_compute. repeat split; reflexivity.
Qed.
