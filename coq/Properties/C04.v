(* C04 - the Go renderer and the generated JavaScript produce the same output.

   FULL statement (DESIGN section 4, C04):
     gen_correct : forall b t data ij, check b = Ok -> in_core b data ->
                   js_run (gen b) t data ij = render_impl b t data ij
   What is proved here is its EXPRESSION stage (gen_expr_correct_partial): on the
   common subset of expressions (literals, data references with key / constant
   index access and null-safe access, $ij, unary minus, not, + - * % on
   integers within 2^53, + with a string side, comparisons on integers, == !=
   on operands of the same primitive kind, and / or on booleans, ?: and the
   ternary) the value the walker of Model/Interp.v computes is mapped by to_js
   to the value the generated JavaScript expression has in MiniJS, for every
   state / environment pair related by env_rel (each Soy variable is in the
   generated variable the generator's scope maps it to, or in opt_data).
   The STATEMENT stages (print / if / let / switch, loops, calls, msg) are NOT
   proved: they are covered by translation validation only
   (go/cmd/soyverif/c04.go: every generated program is translated by the real
   soyjs.Write, run by node with soyutils.js and compared with the Go render).
   Stages kept for the record:
     gen_correct_partial_print  : ONE {print e|d..} with d over id / noAutoescape / escapeHtml, under any
                                  autoescape mode (implicit soy.$$escapeHtml included) -- proved below, for
                                  values whose String() has no NUL and no double quote (finding quote-entity);
     gen_correct_partial_if     : statements built from raw text, such prints and {if}..{else}..{/if} with
                                  nested blocks (sequences) of such statements -- proved below (three sides:
                                  Interp walker, MiniJS execution, JsGen chunks);
                                  let / switch / elseif chains -- not proved
     gen_correct_partial_loops  : foreach / for / loop helpers   -- not proved
     gen_correct_partial_calls  : call / param / data=           -- not proved
     gen_correct_partial_msg    : msg / plural with a bundle     -- not proved
   MiniJS idealises JavaScript: numbers are integers (a result beyond 2^53 is
   OutOfModel), objects have no prototype chain, the operators are defined on
   the operand kinds of the subset only. *)
From Soy Require Import Model.Bytes Model.Num Model.Values Model.Outcome Model.Ast Model.JsGen Model.MiniJS
  Model.Escape Model.Directives Model.Print Generated.Tables Model.Interp
  Proofs.MiniJSProofs Proofs.MiniJSPrint Proofs.MiniJSStmt.
Open Scope N_scope.

(* the Soy meaning restricted to the subset IS the walker of Interp.v, and the
   generated JavaScript expression evaluates to the image of that value *)
Theorem C04_gen_expr_correct_partial : forall cf sc je st e fuel v,
  (cdepth e < fuel)%nat ->
  env_rel sc (c_ij cf) (sc_lookup (ctx st)) je ->
  ceval (c_ij cf) (sc_lookup (ctx st)) e = Some v ->
  (exists st', walk cf fuel (cnode e) st = (Ok v, st') /\ pres st st')
  /\ js_eval je (cgen sc e) = Ok (to_js v).
Proof. exact gen_expr_correct_partial. Qed.
Print Assumptions C04_gen_expr_correct_partial.

(* the two halves separately *)
Theorem C04_interp_ceval : forall cf st0,
  (forall k v, sc_lookup (ctx st0) k = Some v -> core_value v = true) ->
  (forall v, c_ij cf = Some v -> core_value v = true) ->
  forall e fuel st v, (cdepth e < fuel)%nat -> ctx st = ctx st0 ->
  ceval (c_ij cf) (sc_lookup (ctx st0)) e = Some v -> mok (walk cf fuel (cnode e)) st v.
Proof. exact interp_ceval. Qed.
Print Assumptions C04_interp_ceval.

Theorem C04_cgen_correct : forall sc ij env je, env_rel sc ij env je ->
  forall e v, ceval ij env e = Some v -> js_eval je (cgen sc e) = Ok (to_js v) /\ core_value v = true.
Proof. exact cgen_correct. Qed.
Print Assumptions C04_cgen_correct.

(* the MiniJS expression IS what the generator writes: walking the node of a
   subset expression in Model/JsGen.v appends exactly the printer's chunks
   (whose rendering is tied byte for byte to soyjs.Write by C14's correspondence) *)
Theorem C04_cgen_print : forall o e fuel st, (cdepth e < fuel)%nat ->
  jwalk o fuel (cnode e) st = Ok (tt, st_after st (jprint (cgen (j_scope st) e))).
Proof. exact cgen_print. Qed.
Print Assumptions C04_cgen_print.

(* the print stage, for one statement: with autoescaping off, no obligatory
   directives and a writer that does not fail, {print e} makes the Go renderer
   write exactly the text that the generated statement  buf += <expr>;  appends
   to the buffer variable; and that statement is what JsGen emits *)
Theorem C04_gen_correct_partial_print : forall cf sc je st e fuel v buf old,
  c_oblig cf = [] -> mode st = 2 -> bufs st = [] -> calls_left st = None -> bytes_left st = None ->
  (S (cdepth e) < fuel)%nat ->
  env_rel sc (c_ij cf) (sc_lookup (ctx st)) je ->
  ceval (c_ij cf) (sc_lookup (ctx st)) e = Some v -> printable_scalar v = true ->
  assoc_s buf (je_vars je) = Some (JStr old) ->
  exists s,
    (exists st', walk cf fuel (NPrint 0 (cnode e) []) st = (Ok VUndef, st')
                 /\ out st' = s :: out st /\ ctx st' = ctx st /\ mode st' = mode st)
    /\ (exists je', js_append je buf (cgen sc e) = Ok (s, je')
                    /\ assoc_s buf (je_vars je') = Some (JStr (old ++ s)) /\ je_data je' = je_data je).
Proof. exact gen_correct_partial_print. Qed.
Print Assumptions C04_gen_correct_partial_print.

Theorem C04_cgen_print_stmt : forall o e fuel st, j_auto st = 2 -> (S (cdepth e) < fuel)%nat ->
  jwalk o fuel (NPrint 0 (cnode e) []) st
  = Ok (tt, st_after st ([CText (indent_text (j_indent st)); CName (j_buf st); CText t_pluseq]
                         ++ jprint (cgen (j_scope st) e) ++ [CText t_semi_nl])).
Proof. exact cgen_print_stmt. Qed.
Print Assumptions C04_cgen_print_stmt.

(* the print stage with escaping and a directive chain: for {print e|d1|d2..} with the directives id,
   noAutoescape, escapeHtml (all the directives of the common subset whose encoding does not differ), under
   ANY autoescape mode: the concatenation of the Write calls of the Go renderer's model is the text that the
   generated statement  buf += soy.$$escapeHtml(..(<expr>)..);  appends -- provided String() of the value
   contains no NUL and no double quote (there the escapers differ: finding quote-entity) *)
Theorem C04_gen_correct_partial_print_esc : forall cf sc je st e ds fuel v buf old,
  c_oblig cf = [] -> bufs st = [] -> calls_left st = None -> bytes_left st = None ->
  (S (cdepth e) < fuel)%nat ->
  env_rel sc (c_ij cf) (sc_lookup (ctx st)) je ->
  ceval (c_ij cf) (sc_lookup (ctx st)) e = Some v -> printable_scalar v = true ->
  (forall s, value_string v = Ok s -> clean s) ->
  assoc_s buf (je_vars je) = Some (JStr old) ->
  exists text,
    (exists st' ws, walk cf fuel (NPrint 0 (cnode e) (map pdir_node ds)) st = (Ok VUndef, st')
                    /\ out st' = rev ws ++ out st /\ concat_b ws = text /\ ctx st' = ctx st /\ mode st' = mode st)
    /\ (exists je', js_append je buf (cgen_print_expr (mode st) ds (cgen sc e)) = Ok (text, je')
                    /\ assoc_s buf (je_vars je') = Some (JStr (old ++ text)) /\ je_data je' = je_data je).
Proof. exact gen_correct_partial_print_esc. Qed.
Print Assumptions C04_gen_correct_partial_print_esc.

(* ... and that statement is what JsGen writes (every formatter, every state) *)
Theorem C04_cgen_print_dirs : forall o e ds fuel st, (S (cdepth e) < fuel)%nat ->
  exists stf, jwalk o fuel (NPrint 0 (cnode e) (map pdir_node ds)) st = Ok (tt, stf)
    /\ j_out stf = rev ([CText (indent_text (j_indent st)); CName (j_buf st); CText t_pluseq]
                        ++ jprint (cgen_print_expr (j_auto st) ds (cgen (j_scope st) e)) ++ [CText t_semi_nl]) ++ j_out st
    /\ j_indent stf = j_indent st /\ j_buf stf = j_buf st /\ j_scope stf = j_scope st /\ j_auto stf = j_auto st.
Proof. exact cgen_print_dirs. Qed.
Print Assumptions C04_cgen_print_dirs.

(* on clean text the escapers of the two backends agree *)
Theorem C04_print_text_agree : forall mode ds s, clean s -> js_print_text mode ds s = go_print_text mode ds s.
Proof. exact print_text_agree. Qed.

(* the if stage: statements built from raw text, {print e|ds} and {if c}..{else}..{/if} with nested blocks.
   [sout] is the subset semantics (the bytes written; None = error or outside the subset).  When it gives a text:
   (Go) the Interp walker writes exactly that text and restores scope / mode / writer;
   (JS) executing the generated MiniJS statement appends exactly that text to the buffer variable and keeps env_rel;
   (Gen) the MiniJS statement is what JsGen emits (chunk for chunk, at the current indentation). *)
Theorem C04_gen_correct_partial_if : forall cf o sc je st jst s fuel text old,
  c_oblig cf = [] -> bufs st = [] -> calls_left st = None -> bytes_left st = None ->
  (sdepth s < fuel)%nat ->
  env_rel sc (c_ij cf) (sc_lookup (ctx st)) je ->
  (forall key, bstr_eqb (jsc_lookup sc key) (j_buf jst) = false) -> bstr_eqb t_opt_ij (j_buf jst) = false ->
  assoc_s (j_buf jst) (je_vars je) = Some (JStr old) ->
  j_scope jst = sc -> j_auto jst = mode st ->
  sout (c_ij cf) (sc_lookup (ctx st)) (mode st) go_print_text s = Some text ->
  (exists st' ws rv, walk cf fuel (snode s) st = (Ok rv, st') /\ out st' = rev ws ++ out st /\ concat_b ws = text
                     /\ ctx st' = ctx st /\ mode st' = mode st
                     /\ bufs st' = [] /\ calls_left st' = None /\ bytes_left st' = None)
  /\ (exists je', js_exec je (sgen sc (mode st) (j_buf jst) s) = Ok je'
                  /\ assoc_s (j_buf jst) (je_vars je') = Some (JStr (old ++ text))
                  /\ env_rel sc (c_ij cf) (sc_lookup (ctx st)) je')
  /\ (exists jstf, jwalk o fuel (snode s) jst = Ok (tt, jstf)
                   /\ j_out jstf = rev (sprint (j_indent jst) (sgen sc (mode st) (j_buf jst) s)) ++ j_out jst
                   /\ j_indent jstf = j_indent jst /\ j_buf jstf = j_buf jst
                   /\ j_scope jstf = j_scope jst /\ j_auto jstf = j_auto jst).
Proof. exact gen_correct_partial_if_stmt. Qed.
Print Assumptions C04_gen_correct_partial_if.

(* ---------------- non-vacuity ---------------- *)
(* $a?.b + 2 * $x  with  a = {b: 5} in opt_data and x bound by a let (generated variable x3) *)
Definition ex_e : cexpr :=
  CBin OAdd (CVar (b "a") [CAKey true (b "b")]) (CBin OMul (CInt 2) (CVar (b "x") [])).
Definition ex_sc : list (list (bstr * bstr)) := [[(b "x", b "x3")]].
Definition ex_env (k : bstr) : option value :=
  if bstr_eqb k (b "a") then Some (VMap 7 [(b "b", VInt 5)]) else if bstr_eqb k (b "x") then Some (VInt 4) else None.
Definition ex_je : jenv :=
  {| je_vars := [(b "x3", JNum 4)]; je_data := JObj [(b "a", JObj [(b "b", JNum 5)])] |}.

Example C04_nonvacuous :
  ceval None ex_env ex_e = Some (VInt 13)
  /\ js_eval ex_je (cgen ex_sc ex_e) = Ok (JNum 13)
  /\ render_chunks is_print_tbl (jprint (cgen ex_sc ex_e)) = b "((((opt_data.a == null) ? null : opt_data.a.b)) + (((2) * (x3))))"
  /\ js_eval {| je_vars := []; je_data := JObj [] |} (cgen [[]] (CVar (b "a") [CAKey false (b "b")])) = Err je_type
  /\ ceval None (fun _ => None) (CVar (b "a") [CAKey false (b "b")]) = None
  /\ ceval None ex_env (CBin OMul (CInt 9007199254740992) (CInt 2)) = None.
Proof. vm_compute. repeat split; reflexivity. Qed.

Example C04_print_nonvacuous :
  js_append {| je_vars := [(b "output", JStr (b "ab")); (b "x3", JNum 4)]; je_data := JObj [(b "a", JObj [(b "b", JNum 5)])] |}
            (b "output") (cgen ex_sc ex_e)
  = Ok (b "13", {| je_vars := [(b "output", JStr (b "ab13")); (b "x3", JNum 4)]; je_data := JObj [(b "a", JObj [(b "b", JNum 5)])] |})
  /\ printable_scalar (VInt 13) = true.
Proof. vm_compute. split; reflexivity. Qed.

Example C04_print_esc_nonvacuous :
  let je := {| je_vars := [(b "output", JStr (b "ab")); (b "x3", JNum 4)]; je_data := JObj [(b "a", JObj [(b "b", JStr (b "1<2 & it's"))])] |} in
  let e := CVar (b "a") [CAKey false (b "b")] in
  js_append je (b "output") (cgen_print_expr 1 [] (cgen ex_sc e)) = Ok (b "1&lt;2 &amp; it&#39;s", {| je_vars := [(b "output", JStr (b "ab1&lt;2 &amp; it&#39;s")); (b "x3", JNum 4)]; je_data := je_data je |})
  /\ go_print_text 1 [] (b "1<2 & it's") = b "1&lt;2 &amp; it&#39;s"
  /\ go_print_text 1 [PEscapeHtml; PId] (b "1<2") = b "1&lt;2" /\ js_print_text 3 [PNoAutoescape] (b "1<2") = b "1<2"
  /\ js_print_text 1 [] (b "q""q") = b "q&quot;q" /\ go_print_text 1 [] (b "q""q") = b "q&#34;q".
Proof. vm_compute. repeat split; reflexivity. Qed.

(* {if $x > 3}A{$a.b}{else}B{/if}C  with x = 4 (generated variable x3), a.b = 5 *)
Definition ex_stmt : cstmt :=
  SIf (CBool true)
      [SIf (CBin OGt (CVar (b "x") []) (CInt 3)) [SRaw (b "A"); SPrint (CVar (b "a") [CAKey false (b "b")]) []] true [SRaw (b "B")];
       SRaw (b "C")] false [].
Example C04_if_nonvacuous :
  sout None ex_env 1 go_print_text ex_stmt = Some (b "A5C")
  /\ (match js_exec {| je_vars := [(b "output", JStr []); (b "x3", JNum 4)]; je_data := JObj [(b "a", JObj [(b "b", JNum 5)])] |}
                     (sgen ex_sc 1 (b "output") ex_stmt) with
      | Ok je' => assoc_s (b "output") (je_vars je') | _ => None end) = Some (JStr (b "A5C"))
  /\ render_chunks is_print_tbl (sprint 1 (sgen ex_sc 1 (b "output") ex_stmt)) = b
"  if (true) {
    if (((x3) > (3))) {
      output += 'A';
      output += soy.$$escapeHtml(opt_data.a.b);
    } else {
      output += 'B';
    }
    output += 'C';
  }
".
Proof. vm_compute. repeat split; reflexivity. Qed.

(* env_rel is satisfiable for that environment: x is in the generated variable, a in opt_data *)
Example C04_env_rel_nonvacuous : env_rel ex_sc None ex_env ex_je.
Proof.
  constructor.
  - intros key Hk. unfold ex_sc, ex_je, env_val, ex_env. cbn [jsc_lookup je_vars je_data].
    destruct (bstr_eqb key (b "x")) eqn:Ex.
    + apply bstr_eqb_true in Ex. subst. reflexivity.
    + replace (assoc_s key [(b "x", b "x3")]) with (@None bstr) by (cbn [assoc_s]; rewrite Ex; reflexivity).
      cbn [js_member assoc_s]. destruct (bstr_eqb key (b "a")) eqn:Ea; reflexivity.
  - discriminate.
  - intro key. unfold env_val, ex_env. destruct (bstr_eqb key (b "a")); [reflexivity|]. destruct (bstr_eqb key (b "x")); reflexivity.
  - discriminate.
Qed.
