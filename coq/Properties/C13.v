(* C13 — Compilation and code generation are deterministic functions of the
   sources.  Property theorems only; the model is Model/Compile.v (inventory of
   every ranged Go map in its header), the declarative notions are in
   Spec/Determinism.v, the proofs in Proofs/CompileProofs.v and
   Proofs/CompilePermProofs.v.

   The model is the tree AFTER the repairs 3edbe48 (ES6 imports sorted), b9a4d3a
   (MapLiteralNode.Children in key order), 850359b (AddGlobalsMap in key order)
   and 4041f47 (a template name defined twice is rejected).  The tree as pinned
   is refuted at the end, once per repaired site.

   [ns] is String() of placeholder nodes (ast/node.go), any function: it enters
   the message ids only through equality of the texts of placeholders sharing
   a base name (C10); its own order independence (map literals print sorted) is
   C10 / C20 (C20_map_string_order_independent, commit 19f0963). *)
From Coq Require Import Permutation.
From Soy Require Import Model.Bytes Model.Num Model.Values Model.Outcome Model.Ast Model.MsgId Model.Compile
  Generated.Tables Spec.Determinism Proofs.CompileProofs Proofs.CompilePermProofs Proofs.CompileFuelProofs.
Open Scope N_scope.

(* ================================================================== *)
(* repetitions and processes: Go's map iteration order                *)
(* ================================================================== *)

(* Whatever order Go ranges over its maps in (AddGlobalsMap, MapLiteralNode.Children,
   the placeholder naming, the import collection, the map literal emission),
   Bundle.Compile returns the same: accept or reject; the error with its class,
   unit and the names it mentions; the registry; the globals; the id and the
   placeholder names of every message. *)
Theorem C13_compile_oracle_independent : forall ns o o' globals_calls srcs,
  perm_orders o -> perm_orders o' -> compile ns o globals_calls srcs = compile ns o' globals_calls srcs.
Proof. exact compile_oracle_independent. Qed.
Print Assumptions C13_compile_oracle_independent.

(* ... and soyjs.Write emits the same import block for every file *)
Theorem C13_es6_imports_oracle_independent : forall o o' f,
  perm_orders o -> perm_orders o' -> es6_imports o f = es6_imports o' f.
Proof. exact es6_imports_oracle_independent. Qed.
Print Assumptions C13_es6_imports_oracle_independent.

(* soyjs/exec.go:180-200: the walk over a map literal sorts the keys it
   collected, so it visits the items in one order *)
Theorem C13_js_map_literal_order_independent : forall o o' fuel st n,
  perm_order o -> perm_order o' -> js_node (sorted_after o) fuel st n = js_node (sorted_after o') fuel st n.
Proof. exact js_walk_order_independent. Qed.
Print Assumptions C13_js_map_literal_order_independent.

(* ================================================================== *)
(* the same files in a different insertion order                      *)
(* ================================================================== *)

(* Accepted in one order: accepted in every order, with the same result
   ([same_result]: Registry.Template, Filename and the line-number source answer
   alike for every name; the same processed files reach the JavaScript
   generator; the same globals; the same message ids and placeholder names per
   template).  Rejected in one order: rejected in every order, and each reported
   error is one of the independent errors of the bundle. *)
Theorem C13_compile_file_perm : forall ns o globals_calls srcs srcs',
  Permutation srcs srcs' ->
  (forall c, compile ns o globals_calls srcs = COk c ->
             exists c', compile ns o globals_calls srcs' = COk c' /\ same_result c c') /\
  (forall e, compile ns o globals_calls srcs = CErr e ->
             exists e', compile ns o globals_calls srcs' = CErr e' /\
                        bundle_error (sorted_after (o_children o)) (bundle_of_globals (sorted_after (o_globals o)) globals_calls) srcs e /\
                        bundle_error (sorted_after (o_children o)) (bundle_of_globals (sorted_after (o_globals o)) globals_calls) srcs e').
Proof. exact compile_file_perm. Qed.
Print Assumptions C13_compile_file_perm.

(* the set of independent errors is a property of the bundle, not of the order *)
Theorem C13_bundle_error_perm : forall ko bg srcs srcs' e,
  Permutation srcs srcs' -> bundle_error ko bg srcs e -> bundle_error ko bg srcs' e.
Proof. exact bundle_error_perm. Qed.
Print Assumptions C13_bundle_error_perm.

Theorem C13_compile_error_of_bundle : forall ns o globals_calls srcs e,
  compile ns o globals_calls srcs = CErr e ->
  bundle_error (sorted_after (o_children o)) (bundle_of_globals (sorted_after (o_globals o)) globals_calls) srcs e.
Proof. exact compile_error_of_bundle. Qed.
Print Assumptions C13_compile_error_of_bundle.

(* No [names_unique] hypothesis is needed: an accepted bundle defines every
   template name once (the I9 repair), and with unique names the first match
   of Registry.Template is the only match. *)
Theorem C13_accepted_names_unique : forall ns o globals_calls srcs c,
  compile ns o globals_calls srcs = COk c -> NoDup (map t_name (r_templates (cp_reg c))).
Proof. exact compile_accept_unique. Qed.
Print Assumptions C13_accepted_names_unique.

Theorem C13_lookup_order_independent : forall ts ts' name,
  NoDup (map t_name ts) -> Permutation ts ts' -> find_template ts name = find_template ts' name.
Proof. exact find_template_perm. Qed.
Print Assumptions C13_lookup_order_independent.

(* the files handed to the JavaScript generator are the same; the generated
   text of a file is a function of that file and the options alone *)
Theorem C13_same_js_inputs : forall c c', same_result c c' -> forall f, In f (cp_soyfiles c) <-> In f (cp_soyfiles c').
Proof. exact same_result_js_inputs. Qed.
Print Assumptions C13_same_js_inputs.

(* Registry.Add never indexes before the first node of a file *)
Theorem C13_add_never_crashes : forall r f, registry_add r f <> inl AEIndexCrash.
Proof. exact registry_add_no_crash. Qed.
Print Assumptions C13_add_never_crashes.

(* the recursion budgets of the model's tree walkers suffice: the explicit
   out-of-fuel outcomes are never what a template is rejected with, and every
   entry of the message table is the result of SetPlaceholdersAndID *)
Theorem C13_checker_budget_suffices : forall ko lookup t, check_template ko lookup t <> Some CKOutOfFuel.
Proof. exact check_template_fuel. Qed.
Print Assumptions C13_checker_budget_suffices.

Theorem C13_globals_budget_suffices : forall ko globals t, set_globals_template ko globals t <> Some GOutOfFuel.
Proof. exact set_globals_template_fuel. Qed.
Print Assumptions C13_globals_budget_suffices.

Theorem C13_messages_budget_suffices : forall ns ko pho t x,
  In x (template_msgs ns ko pho t) -> exists meaning desc body, x = process_msg ns pho meaning desc body.
Proof. exact template_msgs_fuel. Qed.
Print Assumptions C13_messages_budget_suffices.

(* ================================================================== *)
(* non-vacuity: concrete bundles                                      *)
(* ================================================================== *)

Definition ns0 : node -> bstr := fun _ => [].
Definition id_orders : orders :=
  {| o_globals := fun l => l; o_children := fun l => l; o_ph := fun l => l; o_imports := fun l => l; o_jsmap := fun l => l |}.
Definition rev_orders : orders :=
  {| o_globals := @rev bstr; o_children := @rev bstr; o_ph := @rev bstr; o_imports := @rev bstr; o_jsmap := @rev bstr |}.

Lemma perm_order_id : perm_order (fun l => l).
Proof. intros l. apply Permutation_refl. Qed.
Lemma perm_order_rev : perm_order (@rev bstr).
Proof. intros l. apply Permutation_sym, Permutation_rev. Qed.
Example id_orders_perm : perm_orders id_orders.
Proof. repeat split; apply perm_order_id. Qed.
Example rev_orders_perm : perm_orders rev_orders.
Proof. repeat split; apply perm_order_rev. Qed.

(* {namespace <ns>} /** params */ {template .<t>} body {/template} *)
Definition mk_file (fname ns full : string) (params body : list node) : sfile :=
  {| sfile_name := b fname; sfile_text := b "source";
     sfile_body := [NNamespace 0 (b ns) 0; NSoyDoc 1 params; NTemplate 2 (b full) (NList 3 body) 0 false] |}.
Definition dref (p : N) (k : string) : node := NDataRef p (b k) [].
Definition print (p : N) (e : node) : node := NPrint p e [].

(* a.main calls b.leaf with its param; b.leaf prints it *)
Definition file_a : sfile := mk_file "a.soy" "a" "a.main" [NSoyDocParam 1 (b "x") false]
  [NCall 4 (b "b.leaf") false None [NParamValue 5 (b "v") (dref 6 "x")]].
Definition file_b : sfile := mk_file "b.soy" "b" "b.leaf" [NSoyDocParam 1 (b "v") false] [print 4 (dref 5 "v")].

Definition accepted {A} (r : cresult A) : bool := match r with COk _ => true | CErr _ => false end.

Example ex_accepted_both_orders :
  accepted (compile ns0 id_orders [] [SrcOk file_a; SrcOk file_b]) = true /\
  accepted (compile ns0 rev_orders [] [SrcOk file_b; SrcOk file_a]) = true.
Proof. split; vm_compute; reflexivity. Qed.

(* two independent errors: which one is reported depends on the order -- the
   difference the statement allows *)
Definition file_bad_a : sfile := mk_file "a.soy" "a" "a.main" [] [print 4 (dref 5 "nope")].
Definition file_bad_b : sfile := mk_file "b.soy" "b" "b.leaf" [NSoyDocParam 1 (b "unused") false] [NRawText 4 (b "x")].
Example ex_two_errors :
  compile ns0 id_orders [] [SrcOk file_bad_a; SrcOk file_bad_b] = CErr (ECheck (b "a.main") (CKDataRefNotFound (b "nope") [])) /\
  compile ns0 id_orders [] [SrcOk file_bad_b; SrcOk file_bad_a] = CErr (ECheck (b "b.leaf") (CKUnusedParams [b "unused"])).
Proof. split; vm_compute; reflexivity. Qed.

(* the same template name in two files is rejected in both orders *)
Definition file_dup : sfile := mk_file "dup.soy" "b" "b.leaf" [] [NRawText 4 (b "other")].
Example ex_duplicate_rejected :
  compile ns0 id_orders [] [SrcOk file_b; SrcOk file_dup] = CErr (EAdd (b "dup.soy") (AEDuplicate (b "b.leaf") (b "b.soy") (b "dup.soy"))) /\
  compile ns0 id_orders [] [SrcOk file_dup; SrcOk file_b] = CErr (EAdd (b "b.soy") (AEDuplicate (b "b.leaf") (b "dup.soy") (b "b.soy"))).
Proof. split; vm_compute; reflexivity. Qed.

(* the import block: sorted, and only what the file does not define itself *)
Definition file_imports : sfile := mk_file "i.soy" "i" "i.main" [NSoyDocParam 1 (b "l") false]
  [print 4 (NFunc 5 (b "round") [dref 6 "l"]); print 7 (NFunc 8 (b "length") [dref 9 "l"]);
   NCall 10 (b "b.leaf") false (Some (dref 11 "l")) []; NCall 12 (b "i.main") true None []].
Example ex_imports :
  es6_imports id_orders file_imports =
  inr (b "import { b__leaf } from 'b.leaf.js';" ++ [10] ++ b "import { length } from 'length.js';" ++ [10]
       ++ b "import { round } from 'round.js';" ++ [10; 10]) /\
  es6_imports rev_orders file_imports = es6_imports id_orders file_imports.
Proof. split; vm_compute; reflexivity. Qed.

(* ================================================================== *)
(* the tree as pinned violates the statement at each repaired site    *)
(* ================================================================== *)

(* MapLiteralNode.Children in map order: {let $m: ['a': $x, 'b': $y]/}{$m} with
   neither $x nor $y declared is rejected with two different errors *)
Definition file_maplit : sfile := mk_file "m.soy" "m" "m.t" []
  [NLetValue 4 (b "m") (NMapLit 5 [(b "a", dref 6 "x"); (b "b", dref 7 "y")]); print 8 (dref 9 "m")].
Lemma pinned_children_refuted : exists o o' calls srcs,
  perm_orders o /\ perm_orders o' /\ compile_gen ns0 (pinned_orders o) calls srcs <> compile_gen ns0 (pinned_orders o') calls srcs.
Proof.
  exists id_orders, rev_orders, [], [SrcOk file_maplit].
  split; [exact id_orders_perm|]. split; [exact rev_orders_perm|]. vm_compute. discriminate.
Qed.

(* AddGlobalsMap in map order: a second map redefining two names *)
Lemma pinned_globals_refuted : exists o o' calls srcs,
  perm_orders o /\ perm_orders o' /\ compile_gen ns0 (pinned_orders o) calls srcs <> compile_gen ns0 (pinned_orders o') calls srcs.
Proof.
  exists id_orders, rev_orders, [[(b "A", VInt 1); (b "B", VInt 2)]; [(b "A", VInt 3); (b "B", VInt 4)]], [SrcOk file_b].
  split; [exact id_orders_perm|]. split; [exact rev_orders_perm|]. vm_compute. discriminate.
Qed.

(* the ES6 import block in map order (ledger J11) *)
Lemma pinned_imports_refuted : exists o o' f,
  perm_orders o /\ perm_orders o' /\ es6_import_block (pinned_orders o) f <> es6_import_block (pinned_orders o') f.
Proof.
  exists id_orders, rev_orders, file_imports.
  split; [exact id_orders_perm|]. split; [exact rev_orders_perm|]. vm_compute. discriminate.
Qed.

(* without the duplicate test (ledger I9) both orders are accepted and
   Registry.Template answers with the file that was added first *)
Definition pinned_lookup (fs : list sfile) (name : bstr) : option bstr :=
  match add_files_pinned empty_creg fs with
  | inr r => match find_template (r_templates (cr_reg r)) name with Some t => Some (t_file t) | None => None end
  | inl _ => None
  end.
Lemma pinned_duplicate_names_refuted : exists f g name,
  pinned_lookup [f; g] name = Some (sfile_name f) /\ pinned_lookup [g; f] name = Some (sfile_name g) /\ sfile_name f <> sfile_name g.
Proof.
  exists file_b, file_dup, (b "b.leaf"). split; [vm_compute; reflexivity|]. split; [vm_compute; reflexivity|]. vm_compute. discriminate.
Qed.
