(* C13 -- placeholder until the model exists *)
From Soy Require Import Model.Bytes.
