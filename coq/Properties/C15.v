(* C15 — Template text is normalised by the line-joining rule and nothing else.
   Property theorems only. *)
(* source tie by translation: the lemmas of these files are obligations of this property *)
From Soy Require Import Proofs.SourceTieText.
From Soy Require Import Model.Bytes.
From Soy Require Import Model.Utf8.
From Soy Require Import Model.Outcome.
From Soy Require Import Model.RawText.
From Soy Require Import Spec.Text.
From Soy Require Import Proofs.RawTextProofs.
Open Scope N_scope.

(* The loop of parse/rawtext.go returns exactly the Spec's normalisation, under
   both trim flags, for every byte string without a NUL byte (NUL is outside the
   property's alphabet: letters, < > space tab CR LF and multi-byte runes;
   invalid UTF-8 is inside the theorem). *)
Theorem C15_rawtext_impl_spec : forall s tb ta,
  no_nul s -> rawtext s tb ta = normalize tb ta s.
Proof. exact rawtext_impl_spec. Qed.
Print Assumptions C15_rawtext_impl_spec.

(* the same with the outcome made explicit: the loop returns (no index out of
   range in its two copy loops) and what it returns is the Spec's result *)
Theorem C15_rawtext_run_spec : forall s tb ta,
  no_nul s -> rawtext_run s tb ta = Ok (normalize tb ta s).
Proof. exact rawtext_run_spec. Qed.
Print Assumptions C15_rawtext_run_spec.

(* For every byte string whatsoever the code computes the same rule with NUL
   as a third joiner next to < and > (isTightJoiner lists rune 0, which is also
   the initial lastChar), and never crashes. *)
Theorem C15_rawtext_run_general : forall s tb ta,
  rawtext_run s tb ta = Ok (normalize_with is_tight_joiner tb ta s).
Proof. exact rawtext_run_general. Qed.
Print Assumptions C15_rawtext_run_general.

(* The guard of C15_rawtext_impl_spec is needed: next to a line break a NUL
   byte joins without the space the statement asks for. *)
Theorem C15_rawtext_nul_joins :
  rawtext [97; 0; 10; 98] false false = [97; 0; 98] /\
  normalize false false [97; 0; 10; 98] = [97; 0; 32; 98].
Proof. exact rawtext_nul_joins. Qed.
Print Assumptions C15_rawtext_nul_joins.

(* corollary, for every byte string (NUL included): the bytes that are not
   white space reach the output intact and in order *)
Theorem C15_nonspace_preserved : forall s tb ta, nonspace (rawtext s tb ta) = nonspace s.
Proof. exact nonspace_preserved. Qed.
Print Assumptions C15_nonspace_preserved.

(* readable consequences of the rule: text without white space is unchanged;
   interior white space without a line break is preserved exactly, with a line
   break it becomes one space, or nothing when either neighbour is < or > *)
Theorem C15_normalize_no_ws : forall tb ta s,
  Forall (fun x => ws x = false) s -> normalize tb ta s = s.
Proof. exact normalize_no_ws. Qed.
Print Assumptions C15_normalize_no_ws.

Theorem C15_normalize_interior : forall tb ta x w y,
  ws x = false -> ws y = false -> w <> [] -> Forall (fun c => ws c = true) w ->
  normalize tb ta ([x] ++ w ++ [y]) =
  [x] ++ (if existsb line_break w then (if angle x || angle y then [] else [32]) else w) ++ [y].
Proof. exact normalize_interior. Qed.
Print Assumptions C15_normalize_interior.

(* ---- non-vacuity: concrete instances (LF = 10, CR = 13, tab = 9) ---- *)

(* a line break inside text: one space; next to < or >: nothing; at the ends: dropped;
   white space without a line break: kept exactly *)
Example C15_ex_join :
  rawtext (b "  a" ++ [32; 10; 9] ++ b "b <i>" ++ [13; 10] ++ b "  c </i>" ++ [10] ++ b "d" ++ [9; 32] ++ b "e" ++ [10; 32]) false false
  = b "  a b <i>c </i>d" ++ [9; 32] ++ b "e".
Proof. vm_compute. reflexivity. Qed.

(* the same text between two comments: the white space at both ends goes too *)
Example C15_ex_flags :
  rawtext (b "  a  b  ") true true = b "a  b" /\ rawtext (b "  a  b  ") false true = b "  a  b"
  /\ normalize true false (b "  a  b  ") = b "a  b  ".
Proof. repeat split; vm_compute; reflexivity. Qed.

(* multi-byte runes and invalid UTF-8 are copied verbatim: e-acute, a lone 0xC3, a lone 0x80 *)
Example C15_ex_utf8 :
  rawtext ([195; 169; 10; 32; 195; 32; 128; 10]) false false = [195; 169; 32; 195; 32; 128]
  /\ no_nul [195; 169; 10; 32; 195; 32; 128; 10].
Proof. split; [vm_compute; reflexivity | repeat constructor; discriminate]. Qed.

(* the hypotheses of C15_normalize_interior are satisfiable *)
Example C15_ex_interior : normalize false false ([97] ++ [32; 10] ++ [60]) = [97; 60].
Proof. vm_compute. reflexivity. Qed.

(* template level (Spec only; the lexer and parser are tied to it by the
   correspondence harness): comments contribute nothing and cut the text into
   separately normalised pieces, http://x is not a comment *)
Example C15_ex_body_text :
  body_text false (b "a //c" ++ [10] ++ b "b /* x */ see http://x c/*y*/") = Some (b "absee http://x c")
  /\ body_text false (b "//not a comment after a tag") = Some (b "//not a comment after a tag")
  /\ body_text true (b "//comment at the very start" ++ [10] ++ b "x") = Some (b "x")
  /\ body_text false (b "a /**/ b") = Some (b "ab")
  /\ body_text false (b "a /* unclosed") = None.
Proof. repeat split; vm_compute; reflexivity. Qed.
