(* C15 — Template text is normalised by the line-joining rule and nothing else.
   Property theorems only. *)
(* source tie by translation: the lemmas of these files are obligations of this property *)
From Soy Require Import Proofs.SourceTieText.
From Soy Require Import Model.Bytes.
From Soy Require Import Model.Utf8.
From Soy Require Import Model.Outcome.
From Soy Require Import Model.RawText.
From Soy Require Import Spec.Text.
From Soy Require Import Proofs.RawTextProofs.
From Soy Require Import Model.Ast Model.Token Model.Lexer Model.Parser Generated.Tables
  Proofs.LexerProofs Proofs.LexBodyText Proofs.LexBodyTop Proofs.ParseBodyText Proofs.BodyTextMain.
Open Scope N_scope.

(* The loop of parse/rawtext.go returns exactly the Spec's normalisation, under
   both trim flags, for every byte string without a NUL byte (NUL is outside the
   property's alphabet: letters, < > space tab CR LF and multi-byte runes;
   invalid UTF-8 is inside the theorem). *)
Theorem C15_rawtext_impl_spec : forall s tb ta,
  no_nul s -> rawtext s tb ta = normalize tb ta s.
Proof. exact rawtext_impl_spec. Qed.
Print Assumptions C15_rawtext_impl_spec.

(* the same with the outcome made explicit: the loop returns (no index out of
   range in its two copy loops) and what it returns is the Spec's result *)
Theorem C15_rawtext_run_spec : forall s tb ta,
  no_nul s -> rawtext_run s tb ta = Ok (normalize tb ta s).
Proof. exact rawtext_run_spec. Qed.
Print Assumptions C15_rawtext_run_spec.

(* For every byte string whatsoever the code computes the same rule with NUL
   as a third joiner next to < and > (isTightJoiner lists rune 0, which is also
   the initial lastChar), and never crashes. *)
Theorem C15_rawtext_run_general : forall s tb ta,
  rawtext_run s tb ta = Ok (normalize_with is_tight_joiner tb ta s).
Proof. exact rawtext_run_general. Qed.
Print Assumptions C15_rawtext_run_general.

(* The guard of C15_rawtext_impl_spec is needed: next to a line break a NUL
   byte joins without the space the statement asks for. *)
Theorem C15_rawtext_nul_joins :
  rawtext [97; 0; 10; 98] false false = [97; 0; 98] /\
  normalize false false [97; 0; 10; 98] = [97; 0; 32; 98].
Proof. exact rawtext_nul_joins. Qed.
Print Assumptions C15_rawtext_nul_joins.

(* corollary, for every byte string (NUL included): the bytes that are not
   white space reach the output intact and in order *)
Theorem C15_nonspace_preserved : forall s tb ta, nonspace (rawtext s tb ta) = nonspace s.
Proof. exact nonspace_preserved. Qed.
Print Assumptions C15_nonspace_preserved.

(* readable consequences of the rule: text without white space is unchanged;
   interior white space without a line break is preserved exactly, with a line
   break it becomes one space, or nothing when either neighbour is < or > *)
Theorem C15_normalize_no_ws : forall tb ta s,
  Forall (fun x => ws x = false) s -> normalize tb ta s = s.
Proof. exact normalize_no_ws. Qed.
Print Assumptions C15_normalize_no_ws.

Theorem C15_normalize_interior : forall tb ta x w y,
  ws x = false -> ws y = false -> w <> [] -> Forall (fun c => ws c = true) w ->
  normalize tb ta ([x] ++ w ++ [y]) =
  [x] ++ (if existsb line_break w then (if angle x || angle y then [] else [32]) else w) ++ [y].
Proof. exact normalize_interior. Qed.
Print Assumptions C15_normalize_interior.

(* ---- non-vacuity: concrete instances (LF = 10, CR = 13, tab = 9) ---- *)

(* a line break inside text: one space; next to < or >: nothing; at the ends: dropped;
   white space without a line break: kept exactly *)
Example C15_ex_join :
  rawtext (b "  a" ++ [32; 10; 9] ++ b "b <i>" ++ [13; 10] ++ b "  c </i>" ++ [10] ++ b "d" ++ [9; 32] ++ b "e" ++ [10; 32]) false false
  = b "  a b <i>c </i>d" ++ [9; 32] ++ b "e".
Proof. vm_compute. reflexivity. Qed.

(* the same text between two comments: the white space at both ends goes too *)
Example C15_ex_flags :
  rawtext (b "  a  b  ") true true = b "a  b" /\ rawtext (b "  a  b  ") false true = b "  a  b"
  /\ normalize true false (b "  a  b  ") = b "a  b  ".
Proof. repeat split; vm_compute; reflexivity. Qed.

(* multi-byte runes and invalid UTF-8 are copied verbatim: e-acute, a lone 0xC3, a lone 0x80 *)
Example C15_ex_utf8 :
  rawtext ([195; 169; 10; 32; 195; 32; 128; 10]) false false = [195; 169; 32; 195; 32; 128]
  /\ no_nul [195; 169; 10; 32; 195; 32; 128; 10].
Proof. split; [vm_compute; reflexivity | repeat constructor; discriminate]. Qed.

(* the hypotheses of C15_normalize_interior are satisfiable *)
Example C15_ex_interior : normalize false false ([97] ++ [32; 10] ++ [60]) = [97; 60].
Proof. vm_compute. reflexivity. Qed.

(* ---- template level: scanner model + parser model against the Spec's body_text ---- *)

(* For EVERY text T of plain bytes (no NUL, no brace; multi-byte runes and invalid UTF-8 included) on which the
   Spec is defined (every block comment closed, no soydoc opener): the scanner model of parse/lexer.go
   (lexText, maybeEmitText, allSpaceWithNewline, lexLineComment, lexBlockComment; unicode tables of the
   toolchain), run on T as a file, returns an item list, and the parser model of parse/parse.go (SoyFile:
   itemList, textOrTag with its comment flags, the text-item run, rawtext), run on these items under the entry
   point's own budget, returns a list node whose children are all raw-text nodes and whose texts,
   concatenated, are exactly body_text true T: comments removed, each piece between comments normalised by
   [normalize] with a comment acting as a flagged end, white-space-only pieces with a line break dropped.
   ([lexq], [unq], [inlen] -- the nested scanner, strconv.Unquote and the length used for error positions --
   are arbitrary: this path never consults them.)
   PARTIAL with respect to the design's body_text_spec: T is the whole input (so "//" at the very start is a
   comment); bodies that also contain the special-character commands {sp} {nil} {\n} {\r} {\t} {lb} {rb} and
   {literal} blocks, and text that follows a tag, are not covered by a theorem (the scanner's tag states are
   not part of the string-level lemmas); they stay with the rendering check of the harness. *)
Theorem C15_body_text_spec_partial : forall inlen lexq unq T out,
  plain T -> body_text true T = Some out ->
  exists items pos nodes st,
    lex_items is_letter_tbl is_digit_tbl (lex_budget T) false T = Ok items /\
    po_result (soy_file inlen lexq unq items) = POk (NList pos nodes) st /\
    Forall is_raw nodes /\ concat (map raw_text_of nodes) = out.
Proof.
  intros inlen lexq unq. destruct tables_eof as [Hl Hd].
  exact (body_text_impl_spec is_letter_tbl is_digit_tbl Hl Hd inlen lexq unq).
Qed.
Print Assumptions C15_body_text_spec_partial.

(* the scanner alone, in the Spec's terms: the items of T are, piece by piece, the piece's text item (none
   for an empty piece or one of white space with a line break), then the comment item, and EOF at the end *)
Theorem C15_lex_text_pieces : forall T pcs,
  plain T -> pieces MText true [] T = Some pcs ->
  exists items, lex_items is_letter_tbl is_digit_tbl (lex_budget T) false T = Ok items /\ shape pcs items.
Proof. destruct tables_eof as [Hl Hd]. exact (lex_body_items is_letter_tbl is_digit_tbl Hl Hd). Qed.
Print Assumptions C15_lex_text_pieces.

(* "http://x is not a comment", as a theorem about lexText: a text in which the Spec finds no comment -- every
   "//" follows a byte that is not white space, there is no "/*" -- is sent as ONE text item, then EOF *)
Theorem C15_http_not_comment : forall T,
  plain T -> pieces MText true [] T = Some [T] ->
  exists items e, lex_items is_letter_tbl is_digit_tbl (lex_budget T) false T = Ok items /\ t_typ e = itemEOF /\
    (if droppable T then items = [e]
     else exists p, items = [{| t_typ := itemText; t_pos := p; t_val := T |}; e]).
Proof. destruct tables_eof as [Hl Hd]. exact (no_comment_one_item is_letter_tbl is_digit_tbl Hl Hd). Qed.
Print Assumptions C15_http_not_comment.

(* and the Spec finds no comment there: "//" after a byte that is neither white space nor '/' is text *)
Theorem C15_slashes_after_nonspace : forall pw cur c v, ws c = false -> c <> 47 ->
  pieces MText pw cur (c :: 47 :: 47 :: v) = pieces MText false (47 :: c :: cur) (47 :: v).
Proof. exact slashes_after_nonspace. Qed.
Print Assumptions C15_slashes_after_nonspace.

(* non-vacuity: the hypotheses hold of "see http://x y", and scanner + parser models, run by computation on a
   text with both kinds of comment, give the Spec's text *)
Example C15_ex_http :
  plain (b "see http://x y") /\ pieces MText true [] (b "see http://x y") = Some [b "see http://x y"] /\
  droppable (b "see http://x y") = false.
Proof.
  split; [|split; vm_compute; reflexivity].
  unfold plain. apply Forall_forall. intros c Hc. vm_compute in Hc.
  repeat (destruct Hc as [<-|Hc]; [repeat split; discriminate|]). contradiction.
Qed.

Definition c15_ex_text : bstr := b "a //c" ++ [10] ++ b "b /* x */ see http://x c/*y*/".
Example C15_ex_body_text_impl :
  match lex_items is_letter_tbl is_digit_tbl (lex_budget c15_ex_text) false c15_ex_text with
  | Ok items =>
      match po_result (soy_file 0 (fun _ => []) (fun _ => None) items) with
      | POk (NList _ nodes) _ => Some (concat (map raw_text_of nodes)) = body_text true c15_ex_text
                                 /\ body_text true c15_ex_text = Some (b "absee http://x c")
      | _ => False
      end
  | _ => False
  end.
Proof. vm_compute. split; reflexivity. Qed.

(* template level (Spec only; the lexer and parser are tied to it by the
   correspondence harness): comments contribute nothing and cut the text into
   separately normalised pieces, http://x is not a comment *)
Example C15_ex_body_text :
  body_text false (b "a //c" ++ [10] ++ b "b /* x */ see http://x c/*y*/") = Some (b "absee http://x c")
  /\ body_text false (b "//not a comment after a tag") = Some (b "//not a comment after a tag")
  /\ body_text true (b "//comment at the very start" ++ [10] ++ b "x") = Some (b "x")
  /\ body_text false (b "a /**/ b") = Some (b "ab")
  /\ body_text false (b "a /* unclosed") = None.
Proof. repeat split; vm_compute; reflexivity. Qed.
