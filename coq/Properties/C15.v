(* C15 — Template text is normalised by the line-joining rule and nothing else.
   Property theorems only. *)
(* source tie by translation: the lemmas of these files are obligations of this property *)
From Soy Require Import Proofs.SourceTieText.
From Soy Require Import Model.Bytes.
From Soy Require Import Model.Utf8.
From Soy Require Import Model.Outcome.
From Soy Require Import Model.RawText.
From Soy Require Import Spec.Text.
From Soy Require Import Proofs.RawTextProofs.
From Soy Require Import Model.Ast Model.Token Model.Lexer Model.Parser Generated.Tables
  Proofs.LexerProofs Proofs.LexBodyText Proofs.LexBodyTop Proofs.ParseBodyText Proofs.BodyTextMain.
From Soy Require Import Spec.TextBody Proofs.LexTokens Proofs.LexPrintTop Proofs.LexBodyLit Proofs.LexBodyMain Proofs.BodyCmdMain.
From Soy Require Import Spec.TextMix Proofs.BodyMixMain Proofs.LexBodySeg Proofs.LexBodyMix Proofs.ExprParserRules Proofs.ParseBodyText Proofs.BodyStretchAny.
From Soy Require Import Spec.TextTemplate Proofs.ParserProofs Proofs.BodyTemplateMain.
From Soy Require Import Model.AstPrint Spec.ExprSyntax Spec.TextTags Proofs.LexPrintMain Proofs.LexPrintCmd Proofs.CmdParserStripDefs Proofs.LexBodyTags Proofs.BodyTagsMain.
Open Scope N_scope.

(* The loop of parse/rawtext.go returns exactly the Spec's normalisation, under
   both trim flags, for every byte string without a NUL byte (NUL is outside the
   property's alphabet: letters, < > space tab CR LF and multi-byte runes;
   invalid UTF-8 is inside the theorem). *)
Theorem C15_rawtext_impl_spec : forall s tb ta,
  no_nul s -> rawtext s tb ta = normalize tb ta s.
Proof. exact rawtext_impl_spec. Qed.
Print Assumptions C15_rawtext_impl_spec.

(* the same with the outcome made explicit: the loop returns (no index out of
   range in its two copy loops) and what it returns is the Spec's result *)
Theorem C15_rawtext_run_spec : forall s tb ta,
  no_nul s -> rawtext_run s tb ta = Ok (normalize tb ta s).
Proof. exact rawtext_run_spec. Qed.
Print Assumptions C15_rawtext_run_spec.

(* For every byte string whatsoever the code computes the same rule with NUL
   as a third joiner next to < and > (isTightJoiner lists rune 0, which is also
   the initial lastChar), and never crashes. *)
Theorem C15_rawtext_run_general : forall s tb ta,
  rawtext_run s tb ta = Ok (normalize_with is_tight_joiner tb ta s).
Proof. exact rawtext_run_general. Qed.
Print Assumptions C15_rawtext_run_general.

(* The guard of C15_rawtext_impl_spec is needed: next to a line break a NUL
   byte joins without the space the statement asks for. *)
Theorem C15_rawtext_nul_joins :
  rawtext [97; 0; 10; 98] false false = [97; 0; 98] /\
  normalize false false [97; 0; 10; 98] = [97; 0; 32; 98].
Proof. exact rawtext_nul_joins. Qed.
Print Assumptions C15_rawtext_nul_joins.

(* corollary, for every byte string (NUL included): the bytes that are not
   white space reach the output intact and in order *)
Theorem C15_nonspace_preserved : forall s tb ta, nonspace (rawtext s tb ta) = nonspace s.
Proof. exact nonspace_preserved. Qed.
Print Assumptions C15_nonspace_preserved.

(* readable consequences of the rule: text without white space is unchanged;
   interior white space without a line break is preserved exactly, with a line
   break it becomes one space, or nothing when either neighbour is < or > *)
Theorem C15_normalize_no_ws : forall tb ta s,
  Forall (fun x => ws x = false) s -> normalize tb ta s = s.
Proof. exact normalize_no_ws. Qed.
Print Assumptions C15_normalize_no_ws.

Theorem C15_normalize_interior : forall tb ta x w y,
  ws x = false -> ws y = false -> w <> [] -> Forall (fun c => ws c = true) w ->
  normalize tb ta ([x] ++ w ++ [y]) =
  [x] ++ (if existsb line_break w then (if angle x || angle y then [] else [32]) else w) ++ [y].
Proof. exact normalize_interior. Qed.
Print Assumptions C15_normalize_interior.

(* ---- non-vacuity: concrete instances (LF = 10, CR = 13, tab = 9) ---- *)

(* a line break inside text: one space; next to < or >: nothing; at the ends: dropped;
   white space without a line break: kept exactly *)
Example C15_ex_join :
  rawtext (b "  a" ++ [32; 10; 9] ++ b "b <i>" ++ [13; 10] ++ b "  c </i>" ++ [10] ++ b "d" ++ [9; 32] ++ b "e" ++ [10; 32]) false false
  = b "  a b <i>c </i>d" ++ [9; 32] ++ b "e".
Proof. vm_compute. reflexivity. Qed.

(* the same text between two comments: the white space at both ends goes too *)
Example C15_ex_flags :
  rawtext (b "  a  b  ") true true = b "a  b" /\ rawtext (b "  a  b  ") false true = b "  a  b"
  /\ normalize true false (b "  a  b  ") = b "a  b  ".
Proof. repeat split; vm_compute; reflexivity. Qed.

(* multi-byte runes and invalid UTF-8 are copied verbatim: e-acute, a lone 0xC3, a lone 0x80 *)
Example C15_ex_utf8 :
  rawtext ([195; 169; 10; 32; 195; 32; 128; 10]) false false = [195; 169; 32; 195; 32; 128]
  /\ no_nul [195; 169; 10; 32; 195; 32; 128; 10].
Proof. split; [vm_compute; reflexivity | repeat constructor; discriminate]. Qed.

(* the hypotheses of C15_normalize_interior are satisfiable *)
Example C15_ex_interior : normalize false false ([97] ++ [32; 10] ++ [60]) = [97; 60].
Proof. vm_compute. reflexivity. Qed.

(* ---- template level: scanner model + parser model against the Spec's body_text ---- *)

(* For EVERY text T of plain bytes (no NUL, no brace; multi-byte runes and invalid UTF-8 included) on which the
   Spec is defined (every block comment closed, no soydoc opener): the scanner model of parse/lexer.go
   (lexText, maybeEmitText, allSpaceWithNewline, lexLineComment, lexBlockComment; unicode tables of the
   toolchain), run on T as a file, returns an item list, and the parser model of parse/parse.go (SoyFile:
   itemList, textOrTag with its comment flags, the text-item run, rawtext), run on these items under the entry
   point's own budget, returns a list node whose children are all raw-text nodes and whose texts,
   concatenated, are exactly body_text true T: comments removed, each piece between comments normalised by
   [normalize] with a comment acting as a flagged end, white-space-only pieces with a line break dropped.
   ([lexq], [unq], [inlen] -- the nested scanner, strconv.Unquote and the length used for error positions --
   are arbitrary: this path never consults them.)
   PARTIAL with respect to the design's body_text_spec: T is the whole input (so "//" at the very start is a
   comment) and contains no tag; the statement for bodies in which comments, special-character commands and
   {literal} blocks mix is C15_body_text_spec below, and C15_template_body_text_spec for a body inside {template}. *)
Theorem C15_body_text_spec_partial : forall inlen lexq unq T out,
  plain T -> body_text true T = Some out ->
  exists items pos nodes st,
    lex_items is_letter_tbl is_digit_tbl (lex_budget T) false T = Ok items /\
    po_result (soy_file inlen lexq unq items) = POk (NList pos nodes) st /\
    Forall is_raw nodes /\ concat (map raw_text_of nodes) = out.
Proof.
  intros inlen lexq unq. destruct tables_eof as [Hl Hd].
  exact (body_text_impl_spec is_letter_tbl is_digit_tbl Hl Hd inlen lexq unq).
Qed.
Print Assumptions C15_body_text_spec_partial.

(* the scanner alone, in the Spec's terms: the items of T are, piece by piece, the piece's text item (none
   for an empty piece or one of white space with a line break), then the comment item, and EOF at the end *)
Theorem C15_lex_text_pieces : forall T pcs,
  plain T -> pieces MText true [] T = Some pcs ->
  exists items, lex_items is_letter_tbl is_digit_tbl (lex_budget T) false T = Ok items /\ shape pcs items.
Proof. destruct tables_eof as [Hl Hd]. exact (lex_body_items is_letter_tbl is_digit_tbl Hl Hd). Qed.
Print Assumptions C15_lex_text_pieces.

(* "http://x is not a comment", as a theorem about lexText: a text in which the Spec finds no comment -- every
   "//" follows a byte that is not white space, there is no "/*" -- is sent as ONE text item, then EOF *)
Theorem C15_http_not_comment : forall T,
  plain T -> pieces MText true [] T = Some [T] ->
  exists items e, lex_items is_letter_tbl is_digit_tbl (lex_budget T) false T = Ok items /\ t_typ e = itemEOF /\
    (if droppable T then items = [e]
     else exists p, items = [{| t_typ := itemText; t_pos := p; t_val := T |}; e]).
Proof. destruct tables_eof as [Hl Hd]. exact (no_comment_one_item is_letter_tbl is_digit_tbl Hl Hd). Qed.
Print Assumptions C15_http_not_comment.

(* and the Spec finds no comment there: "//" after a byte that is neither white space nor '/' is text *)
Theorem C15_slashes_after_nonspace : forall pw cur c v, ws c = false -> c <> 47 ->
  pieces MText pw cur (c :: 47 :: 47 :: v) = pieces MText false (47 :: c :: cur) (47 :: v).
Proof. exact slashes_after_nonspace. Qed.
Print Assumptions C15_slashes_after_nonspace.

(* ---- bodies with special-character commands ---- *)
(* For EVERY body  T0 {c1} T1 {c2} T2 ... {cn} Tn  (Spec/TextBody.v) in which every ci is one of the seven
   special-character commands {sp} {nil} {\t} {\r} {\n} {lb} {rb} and every stretch Ti consists of plain bytes (no
   NUL, no brace) and contains no comment in the Spec's sense (T0 begins the input, where a leading "//" would be
   one; after a tag it is not): the scanner model run on the body as a file (lexText up to each "{", lexLeftDelim,
   lexBeginTag, lexInsideTag / lexIdent on the command name, "}" -> lexRightDelim) returns an item list, and the
   parser model (SoyFile: itemList, textOrTag, beginTag's special-character and literal cases, rawtext) run on it under the
   entry point's own budget returns a list node whose children are all raw-text nodes and whose texts,
   concatenated, are  normalize T0 ++ char(c1) ++ normalize T1 ++ ... : each stretch normalised as a whole with
   no flagged end, each command giving exactly its character ({nil}: nothing), each literal block its text s
   verbatim (lexLiteral with strings.Index; no normalisation).  Stretches may be empty.
   Comments inside such a body: C15_body_text_spec below.  "{literal }" written with blanks before the brace is
   covered (cmd_ok: lit_name_sp; C15_literal_blanks_exact). *)
Theorem C15_body_special_chars_spec : forall inlen lexq unq T0 rest,
  stretch_ok true T0 -> Forall seg_ok rest ->
  exists items pos nodes st,
    lex_items is_letter_tbl is_digit_tbl (lex_budget (body_src T0 rest)) false (body_src T0 rest) = Ok items /\
    po_result (soy_file inlen lexq unq items) = POk (NList pos nodes) st /\
    Forall is_raw nodes /\ concat (map raw_text_of nodes) = body_out T0 rest.
Proof.
  intros inlen lexq unq. destruct tables_ascii as [Hl Hd]. destruct tables_eof as [El Ed].
  exact (body_cmds_impl_spec is_letter_tbl is_digit_tbl Hl Hd El Ed inlen lexq unq).
Qed.
Print Assumptions C15_body_special_chars_spec.

(* special_chars_exact: a special-character command alone gives exactly its character *)
Theorem C15_special_chars_exact : forall inlen lexq unq name out, In (name, out) special_cmds ->
  exists items pos nodes st,
    lex_items is_letter_tbl is_digit_tbl (lex_budget ([123] ++ name ++ [125])) false ([123] ++ name ++ [125]) = Ok items /\
    po_result (soy_file inlen lexq unq items) = POk (NList pos nodes) st /\
    Forall is_raw nodes /\ concat (map raw_text_of nodes) = out.
Proof.
  intros inlen lexq unq name out Hin.
  destruct (C15_body_special_chars_spec inlen lexq unq [] [((name, out), [])]) as (items & pos & nodes & st & A & B & C & D).
  - split; [constructor|reflexivity].
  - constructor; [|constructor]. split; [left; exact Hin|]. split; [constructor|reflexivity].
  - assert (E : body_src [] [((name, out), [])] = [123] ++ name ++ [125]) by reflexivity. rewrite E in A.
    exists items, pos, nodes, st. split; [exact A|]. split; [exact B|]. split; [exact C|]. rewrite D. unfold body_out. cbn [rest_out].
    change (normalize false false []) with (@nil N). cbn [app]. apply app_nil_r.
Qed.
Print Assumptions C15_special_chars_exact.

(* literal_exact: {literal}s{/literal} alone gives exactly s, whatever bytes s consists of (braces, comment
   openers, line breaks, NUL), as long as "{/literal}" does not occur in s ++ "{/literal}" before the end *)
Theorem C15_literal_exact : forall inlen lexq unq s, lit_closed s ->
  exists items pos nodes st,
    lex_items is_letter_tbl is_digit_tbl (lex_budget ([123] ++ lit_name s ++ [125])) false ([123] ++ lit_name s ++ [125]) = Ok items /\
    po_result (soy_file inlen lexq unq items) = POk (NList pos nodes) st /\
    Forall is_raw nodes /\ concat (map raw_text_of nodes) = s.
Proof.
  intros inlen lexq unq s Hcl.
  destruct (C15_body_special_chars_spec inlen lexq unq [] [((lit_name s, s), [])]) as (items & pos & nodes & st & A & B & C & D).
  - split; [constructor|reflexivity].
  - constructor; [|constructor]. split; [apply cmd_ok_lit; exact Hcl|]. split; [constructor|reflexivity].
  - assert (E : body_src [] [((lit_name s, s), [])] = [123] ++ lit_name s ++ [125]) by reflexivity. rewrite E in A.
    exists items, pos, nodes, st. split; [exact A|]. split; [exact B|]. split; [exact C|]. rewrite D. unfold body_out. cbn [rest_out].
    change (normalize false false []) with (@nil N). cbn [app]. apply app_nil_r.
Qed.
Print Assumptions C15_literal_exact.

(* the opening tag written with blanks before its brace -- {literal  }s{/literal}, spaces and tabs (lexLiteral skips
   them; the "}" item then carries them in its text) -- is the same block: cmd_ok admits it everywhere a literal
   block may stand, in all the template-level theorems of this file *)
Theorem C15_literal_blanks_exact : forall inlen lexq unq sp s, Forall lit_blank sp -> lit_closed s ->
  exists items pos nodes st,
    lex_items is_letter_tbl is_digit_tbl (lex_budget ([123] ++ lit_name_sp sp s ++ [125])) false ([123] ++ lit_name_sp sp s ++ [125]) = Ok items /\
    po_result (soy_file inlen lexq unq items) = POk (NList pos nodes) st /\
    Forall is_raw nodes /\ concat (map raw_text_of nodes) = s.
Proof.
  intros inlen lexq unq sp s Hsp Hcl.
  destruct (C15_body_special_chars_spec inlen lexq unq [] [((lit_name_sp sp s, s), [])]) as (items & pos & nodes & st & A & B & C & D).
  - split; [constructor|reflexivity].
  - constructor; [|constructor]. split; [right; exists sp; split; [exact Hsp|split; [reflexivity|exact Hcl]]|]. split; [constructor|reflexivity].
  - assert (E : body_src [] [((lit_name_sp sp s, s), [])] = [123] ++ lit_name_sp sp s ++ [125]) by reflexivity. rewrite E in A.
    exists items, pos, nodes, st. split; [exact A|]. split; [exact B|]. split; [exact C|]. rewrite D. unfold body_out. cbn [rest_out].
    change (normalize false false []) with (@nil N). cbn [app]. apply app_nil_r.
Qed.
Print Assumptions C15_literal_blanks_exact.
Example C15_ex_literal_blanks :
  [123] ++ lit_name_sp [32; 9] (b "{x} //") ++ [125] = b "{literal " ++ [9] ++ b "}{x} //{/literal}" /\
  match lex_items is_letter_tbl is_digit_tbl (lex_budget (b "{literal " ++ [9] ++ b "}{x} //{/literal}")) false (b "{literal " ++ [9] ++ b "}{x} //{/literal}") with
  | Ok items =>
      match po_result (soy_file 0 (fun _ => []) (fun _ => None) items) with
      | POk (NList _ nodes) _ => concat (map raw_text_of nodes) = b "{x} //"
      | _ => False
      end
  | _ => False
  end.
Proof. split; vm_compute; reflexivity. Qed.

(* ---- body_text_spec: bodies of text, comments, special-character commands and literal blocks ---- *)
(* For EVERY body  T0 {c1} T1 {c2} ... {cn} Tn  (source: body_src) in which every ci is a special-character command
   or a {literal} block (cmd_ok, as above) and every stretch Ti consists of plain bytes (no NUL, no brace) and MAY
   CONTAIN COMMENTS, under the Spec's one condition on their placement (mix_body_ok, Spec/TextMix.v): no "//"
   comment is still open where a tag begins (line_open = false for every stretch but the last; such a comment
   would run on through the tag to the end of the line -- C15_ex_line_comment_swallows_tag), and on which the
   Spec's text is defined (mix_body_out = Some out: every block comment closed, no soydoc opener): the scanner
   model run on the body as a file (lexText, lexLineComment, lexBlockComment with the look-behind for "//" --
   at the start of the input a comment, after "}" text --, the tag states, lexLiteral) returns an item list, and
   the parser model (SoyFile: itemList, textOrTag with its two comment flags whether the neighbour of a piece is a
   comment, a tag or the end of the input, beginTag's special-character and literal cases, rawtext) run on it under
   the entry point's own budget returns a list node whose children are all raw-text nodes and whose texts,
   concatenated, are   body_text true T0 ++ char(c1) ++ body_text false T1 ++ ... :  every stretch cut at its
   comments, every piece normalised separately with a comment as a flagged end and a tag / the end of the input
   as an unflagged one.  C15_body_text_spec_partial (no tags) and C15_body_special_chars_spec (no comments) are
   instances.  What remains outside a theorem: OTHER tags as neighbours of text (print, if, msg ...: their items
   end a text run the same way, but their parse is not part of this statement). *)
Theorem C15_body_text_spec : forall inlen lexq unq T0 rest out,
  mix_body_ok T0 rest -> mix_body_out T0 rest = Some out ->
  exists items pos nodes st,
    lex_items is_letter_tbl is_digit_tbl (lex_budget (body_src T0 rest)) false (body_src T0 rest) = Ok items /\
    po_result (soy_file inlen lexq unq items) = POk (NList pos nodes) st /\
    Forall is_raw nodes /\ concat (map raw_text_of nodes) = out.
Proof.
  intros inlen lexq unq. destruct tables_ascii as [Hl Hd]. destruct tables_eof as [El Ed].
  exact (body_mix_impl_spec is_letter_tbl is_digit_tbl Hl Hd El Ed inlen lexq unq).
Qed.
Print Assumptions C15_body_text_spec.

(* ONE stretch between ANY two tags (print, if, msg, call ... whatever): the treatment of the text does not
   depend on what its neighbours are.  Scanner: from lexText at the first byte of a stretch T of plain bytes that
   is followed by tl (the "{" of any tag, or the end of the input), in ANY scanner state l (only the byte in front
   of T matters: pwof, "the previous byte is white space or T begins the input" -- false behind the "}" of a tag,
   pwof_after_brace), the scanner model sends the items its (text and comment items of T) and stops in
   lexLeftDelim in front of tl (or sends EOF and is done).  Parser: itemList of ANY enclosing command (any
   until-set without text / "{" / special-character / literal items -- every until-set of Model/Parser.v),
   under any budgets, in ANY parser state that delivers its followed by an item nx that is neither text nor
   comment ("{" or EOF), appends raw-text nodes whose texts, concatenated, are exactly the Spec's body_text of T
   and stands in front of nx (behind the comments that follow the last text, which the next tag skips).
   What this does NOT say: that the neighbouring tags parse -- that is C05 / C17's subject; with it, every stretch
   of a template is covered whatever its neighbours are (C15_body_text_spec / C15_template_body_text_spec are the
   whole-file statements for the tags whose parse is part of C15: special characters and literal blocks). *)
Theorem C15_stretch_any_neighbours : forall inp l T tl out,
  span inp l [] (T ++ tl) -> plain T -> tag_or_end tl ->
  body_text (pwof 0 l) T = Some out -> (tl <> [] -> line_open MText (pwof 0 l) T = false) ->
  exists k l' its st',
    steps is_letter_tbl is_digit_tbl inp 0 k LText l = Ok (st', l') /\ l_dd l' = l_dd l /\
    ((tl = [] /\ st' = LDone /\ exists e, t_typ e = itemEOF /\ l_out l' = e :: rev its ++ l_out l) \/
     (tl <> [] /\ st' = LLeftDelim /\ l_out l' = rev its ++ l_out l /\ span inp l' [] tl)) /\
    forall inlen lexq unq pexpr efuel pe w lf until,
      one_of pit_Text until = false -> one_of pit_LeftDelim until = false ->
      (forall t o, assoc t parser_special_chars = Some o -> one_of t until = false) -> one_of pit_Literal until = false ->
      forall nx rest acc pos s, t_typ nx <> pit_Text -> t_typ nx <> pit_Comment ->
      stream (c_p s) = its ++ nx :: rest -> inv (c_p s) -> (length its + 2 <= lf)%nat ->
      exists j pre' nodes pos' s', Forall is_comment pre' /\ Forall is_raw nodes /\ concat (map raw_text_of nodes) = out /\
        stream (c_p s') = pre' ++ nx :: rest /\ inv (c_p s') /\
        forall f, item_list_loop inlen lexq unq pexpr efuel pe w lf (j + f) until pos acc s
                = item_list_loop inlen lexq unq pexpr efuel pe w lf f until pos' (acc ++ nodes) s'.
Proof.
  destruct tables_ascii as [Hl Hd]. destruct tables_eof as [El Ed].
  exact (stretch_any_neighbours is_letter_tbl is_digit_tbl Hl Hd El Ed).
Qed.
Print Assumptions C15_stretch_any_neighbours.
(* non-vacuity: a stretch with a comment, at the start of the input, in front of {if $x}; its text is " ab " (the comment takes the line break with it) *)
Example C15_ex_stretch_before_if :
  let T := b " a //c" ++ [10] ++ b " b " in let tl := b "{if $x}y{/if}" in
  span (T ++ tl) lex_init [] (T ++ tl) /\ plain T /\ tag_or_end tl /\
  body_text (pwof 0 lex_init) T = Some (b " ab ") /\ line_open MText (pwof 0 lex_init) T = false.
Proof.
  cbv zeta. split; [unfold span, lex_init; cbn [l_start l_pos length]; repeat split; try lia|].
  split; [apply Forall_forall; intros c Hc; assert (H : forallb (fun c => negb (c =? 0) && negb (c =? 123) && negb (c =? 125)) (b " a //c" ++ [10] ++ b " b ") = true) by (vm_compute; reflexivity);
          rewrite forallb_forall in H; specialize (H c Hc); lia|].
  split; [right; eexists; reflexivity|]. split; vm_compute; reflexivity.
Qed.

(* non-vacuity: comments before and after tags, "//" after "}" (text) and at the start of the input (comment), an
   empty comment, a literal block with comment openers and braces, an open "//" comment in the last stretch *)
Definition c15_ex_mix : bstr * list seg :=
  (b "//c" ++ [10] ++ b "a /*c*/",
   [((b "sp", [32]), b "//t" ++ [10] ++ b " b //c" ++ [10]); ((b "lb", [123]), b "/*x*/ y /**/");
    ((lit_name (b "//{}"), b "//{}"), b " z //open")]).
Example C15_ex_body_mix :
  mix_body_ok (fst c15_ex_mix) (snd c15_ex_mix) /\
  body_src (fst c15_ex_mix) (snd c15_ex_mix) =
    b "//c" ++ [10] ++ b "a /*c*/{sp}//t" ++ [10] ++ b " b //c" ++ [10] ++ b "{lb}/*x*/ y /**/{literal}//{}{/literal} z //open" /\
  mix_body_out (fst c15_ex_mix) (snd c15_ex_mix) = Some (b "a //t b{y//{} z") /\
  match lex_items is_letter_tbl is_digit_tbl (lex_budget (body_src (fst c15_ex_mix) (snd c15_ex_mix))) false (body_src (fst c15_ex_mix) (snd c15_ex_mix)) with
  | Ok items =>
      match po_result (soy_file 0 (fun _ => []) (fun _ => None) items) with
      | POk (NList _ nodes) _ => Some (concat (map raw_text_of nodes)) = mix_body_out (fst c15_ex_mix) (snd c15_ex_mix)
      | _ => False
      end
  | _ => False
  end.
Proof.
  assert (Hplain : forall s : bstr, forallb (fun c => negb (c =? 0) && negb (c =? 123) && negb (c =? 125)) s = true ->
                   Forall (fun c => c <> 0 /\ c <> 123 /\ c <> 125) s).
  { intros s H. apply Forall_forall. intros c Hc. rewrite forallb_forall in H. specialize (H c Hc). lia. }
  split.
  { unfold mix_body_ok, c15_ex_mix. cbn [fst snd mix_rest_ok].
    repeat split; try (apply Hplain; vm_compute; reflexivity); try (intros _; vm_compute; reflexivity); try (intros H; discriminate H).
    - left. vm_compute. auto 12.
    - left. vm_compute. auto 12.
    - apply cmd_ok_lit. intros r. vm_compute. reflexivity. }
  split; [vm_compute; reflexivity|]. split; [vm_compute; reflexivity|]. vm_compute. reflexivity.
Qed.

(* the Spec's condition is needed: a "//" comment that is open where a tag begins runs on through the tag -- the
   scanner sends ONE comment item for "//x{sp}b", no tag *)
Example C15_ex_line_comment_swallows_tag :
  line_open MText true (b "a //x") = true /\
  match lex_items is_letter_tbl is_digit_tbl (lex_budget (b "a //x{sp}b")) false (b "a //x{sp}b") with
  | Ok items => map (fun t => (t_typ t, t_val t)) items = [(itemText, b "a"); (itemComment, b "//x{sp}b"); (itemEOF, [])]
  | _ => False
  end.
Proof. split; vm_compute; reflexivity. Qed.

(* ---- text inside {template}: the statement about a whole minimal file ---- *)
(* For EVERY file   {template .name} T0 {c1} T1 ... {cn} Tn {/template}   (Spec/TextTemplate.v tpl_file) whose template
   name is an ASCII word, whose ci are special-character commands or {literal} blocks and whose stretches are plain
   bytes that may contain comments, no "//" comment being open where a tag begins -- here EVERY stretch is followed
   by a tag, the last one by {/template} (mix_tpl_ok) -- and on which the Spec's text is defined (mix_tpl_out):
   the scanner model run on the file (the template tag: lexLeftDelim, lexBeginTag, the keyword, the space, the
   dotted name, "}"; the body as in C15_body_text_spec; "{/template}": lexBeginTag's '/' case and lexIdent's
   closing-tag lookup; lexText at the end of the input) returns an item list, and the model of parse.SoyFile run
   on it under the entry point's own budget (itemList -> beginTag -> parseTemplate: the name, parseAttrs on no
   attribute, parseAutoescape's and boolAttr's defaults, itemList(itemTemplateEnd) one level down over the body,
   which stops at "{" "/template") returns a file whose one node is a template node whose body's children are all
   raw-text nodes and whose texts, concatenated, are   body_text false T0 ++ char(c1) ++ body_text false T1 ++ ...
   (the first stretch follows the "}" of the template tag: a leading "//" is text).  [inlen] is len(text); [lexq]
   (the nested scanner, never started here) is any scanner with well-formed items; [unq] is arbitrary.  The
   template's name, autoescape mode and privacy are not part of this statement (existentially quantified). *)
Theorem C15_template_body_text_spec : forall lexq unq name T0 rest out,
  lexq_wf lexq -> tpl_name_wf name -> mix_tpl_ok T0 rest -> mix_tpl_out T0 rest = Some out ->
  exists items pos tp nm ae pv bpos nodes st,
    lex_items is_letter_tbl is_digit_tbl (lex_budget (tpl_file name T0 rest)) false (tpl_file name T0 rest) = Ok items /\
    po_result (soy_file (N.of_nat (length (tpl_file name T0 rest))) lexq unq items)
      = POk (NList pos [NTemplate tp nm (NList bpos nodes) ae pv]) st /\
    Forall is_raw nodes /\ concat (map raw_text_of nodes) = out.
Proof.
  intros lexq unq name T0 rest out Hq. destruct tables_ascii as [Hl Hd]. destruct tables_eof as [El Ed].
  exact (template_body_impl_spec is_letter_tbl is_digit_tbl Hl Hd El Ed lexq unq Hq name T0 rest out).
Qed.
Print Assumptions C15_template_body_text_spec.

Definition c15_ex_tpl : bstr * list seg :=
  (b "//not a comment" ++ [10] ++ b "  a /*c*/ ", [((b "sp", [32]), b " b //c" ++ [10]); ((lit_name (b "{x}"), b "{x}"), [10] ++ b "  c" ++ [10])]).
Example C15_ex_template_body :
  tpl_name_wf (b "main") /\ mix_tpl_ok (fst c15_ex_tpl) (snd c15_ex_tpl) /\
  tpl_file (b "main") (fst c15_ex_tpl) (snd c15_ex_tpl) =
    b "{template .main}//not a comment" ++ [10] ++ b "  a /*c*/ {sp} b //c" ++ [10] ++ b "{literal}{x}{/literal}" ++ [10] ++ b "  c" ++ [10] ++ b "{/template}" /\
  mix_tpl_out (fst c15_ex_tpl) (snd c15_ex_tpl) = Some (b "//not a comment a  b{x}c") /\
  match lex_items is_letter_tbl is_digit_tbl (lex_budget (tpl_file (b "main") (fst c15_ex_tpl) (snd c15_ex_tpl))) false (tpl_file (b "main") (fst c15_ex_tpl) (snd c15_ex_tpl)) with
  | Ok items =>
      match po_result (soy_file (N.of_nat (length (tpl_file (b "main") (fst c15_ex_tpl) (snd c15_ex_tpl)))) (fun _ => []) (fun _ => None) items) with
      | POk (NList _ [NTemplate _ nm (NList _ nodes) _ _]) _ =>
          nm = b ".main" /\ Some (concat (map raw_text_of nodes)) = mix_tpl_out (fst c15_ex_tpl) (snd c15_ex_tpl)
      | _ => False
      end
  | _ => False
  end.
Proof.
  assert (Hplain : forall s : bstr, forallb (fun c => negb (c =? 0) && negb (c =? 123) && negb (c =? 125)) s = true ->
                   Forall (fun c => c <> 0 /\ c <> 123 /\ c <> 125) s).
  { intros s H. apply Forall_forall. intros c Hc. rewrite forallb_forall in H. specialize (H c Hc). lia. }
  split; [split; vm_compute; reflexivity|].
  split.
  { unfold mix_tpl_ok, c15_ex_tpl. cbn [fst snd]. split; [split; [apply Hplain; vm_compute; reflexivity|intros _; vm_compute; reflexivity]|].
    constructor; [|constructor; [|constructor]]; cbn [fst snd].
    - split; [left; vm_compute; auto 12|split; [apply Hplain; vm_compute; reflexivity|intros _; vm_compute; reflexivity]].
    - split; [apply cmd_ok_lit; intros r; vm_compute; reflexivity|split; [apply Hplain; vm_compute; reflexivity|intros _; vm_compute; reflexivity]]. }
  split; [vm_compute; reflexivity|]. split; [vm_compute; reflexivity|]. vm_compute. split; reflexivity.
Qed.

(* non-vacuity: the hypotheses hold of "see http://x y", and scanner + parser models, run by computation on a
   text with both kinds of comment, give the Spec's text *)
Example C15_ex_http :
  plain (b "see http://x y") /\ pieces MText true [] (b "see http://x y") = Some [b "see http://x y"] /\
  droppable (b "see http://x y") = false.
Proof.
  split; [|split; vm_compute; reflexivity].
  unfold plain. apply Forall_forall. intros c Hc. vm_compute in Hc.
  repeat (destruct Hc as [<-|Hc]; [repeat split; discriminate|]). contradiction.
Qed.

Definition c15_ex_text : bstr := b "a //c" ++ [10] ++ b "b /* x */ see http://x c/*y*/".
Example C15_ex_body_text_impl :
  match lex_items is_letter_tbl is_digit_tbl (lex_budget c15_ex_text) false c15_ex_text with
  | Ok items =>
      match po_result (soy_file 0 (fun _ => []) (fun _ => None) items) with
      | POk (NList _ nodes) _ => Some (concat (map raw_text_of nodes)) = body_text true c15_ex_text
                                 /\ body_text true c15_ex_text = Some (b "absee http://x c")
      | _ => False
      end
  | _ => False
  end.
Proof. vm_compute. split; reflexivity. Qed.

(* template level (Spec only; the lexer and parser are tied to it by the
   correspondence harness): comments contribute nothing and cut the text into
   separately normalised pieces, http://x is not a comment *)
Example C15_ex_body_text :
  body_text false (b "a //c" ++ [10] ++ b "b /* x */ see http://x c/*y*/") = Some (b "absee http://x c")
  /\ body_text false (b "//not a comment after a tag") = Some (b "//not a comment after a tag")
  /\ body_text true (b "//comment at the very start" ++ [10] ++ b "x") = Some (b "x")
  /\ body_text false (b "a /**/ b") = Some (b "ab")
  /\ body_text false (b "a /* unclosed") = None.
Proof. repeat split; vm_compute; reflexivity. Qed.

(* a body with all seven commands, by computation: scanner and parser models give the Spec's text *)
Definition c15_ex_body : bstr * list seg :=
  (b "a  ", [((b "sp", [32]), b "b" ++ [10] ++ b " c"); ((b "\n", [10]), []); ((b "lb", [123]), b "x/y http://z");
             ((b "rb", [125]), []); ((b "nil", []), b " d"); ((b "\t", [9]), []); ((b "\r", [13]), b "e ");
             ((lit_name (b " {x} // /* " ++ [10]), b " {x} // /* " ++ [10]), b "f")]).
Example C15_ex_body_cmds :
  stretch_ok true (fst c15_ex_body) /\ Forall seg_ok (snd c15_ex_body) /\
  body_src (fst c15_ex_body) (snd c15_ex_body) = b "a  {sp}b" ++ [10] ++ b " c{\n}{lb}x/y http://z{rb}{nil} d{\t}{\r}e {literal} {x} // /* " ++ [10] ++ b "{/literal}f" /\
  body_out (fst c15_ex_body) (snd c15_ex_body) = b "a   b c" ++ [10] ++ b "{x/y http://z} d" ++ [9; 13] ++ b "e  {x} // /* " ++ [10] ++ b "f" /\
  match lex_items is_letter_tbl is_digit_tbl (lex_budget (body_src (fst c15_ex_body) (snd c15_ex_body))) false (body_src (fst c15_ex_body) (snd c15_ex_body)) with
  | Ok items =>
      match po_result (soy_file 0 (fun _ => []) (fun _ => None) items) with
      | POk (NList _ nodes) _ => concat (map raw_text_of nodes) = body_out (fst c15_ex_body) (snd c15_ex_body)
      | _ => False
      end
  | _ => False
  end.
Proof.
  assert (Hplain : forall s : bstr, forallb (fun c => negb (c =? 0) && negb (c =? 123) && negb (c =? 125)) s = true ->
                   Forall (fun c => c <> 0 /\ c <> 123 /\ c <> 125) s).
  { intros s H. apply Forall_forall. intros c Hc. rewrite forallb_forall in H. specialize (H c Hc). lia. }
  split; [split; [apply Hplain; vm_compute; reflexivity|vm_compute; reflexivity]|].
  split.
  { apply Forall_forall. intros sg Hin. unfold c15_ex_body in Hin. cbn [snd In] in Hin.
    repeat (destruct Hin as [<-|Hin]; [split; [first [solve [left; vm_compute; auto 12] | apply cmd_ok_lit; intros r; vm_compute; reflexivity]|split; [apply Hplain; vm_compute; reflexivity|vm_compute; reflexivity]]|]).
    contradiction. }
  split; [vm_compute; reflexivity|]. split; [vm_compute; reflexivity|]. vm_compute. reflexivity.
Qed.

(* ---- body_text_spec with PRINT COMMANDS among the tags (Spec/TextTags.v) ----
   T0 tag1 T1 ... tagn Tn where every tag is a special-character command, a literal block, or a print command
   standing in the source as the text PrintNode.String() writes ({$x.k|d:1}); the print command n is well-formed
   and lexically well-formed (wf_print, lex_ok_print: C17's hypotheses); the stretches are plain bytes that may
   contain comments, under the Spec's condition that no "//" comment is open where a tag begins.  Scanner model
   on the whole text, then the model of parse.SoyFile under its own budget (inlen = len(text); the nested
   scanner is any scanner with well-formed items, never started on such a body): a list node whose children READ
   (c15_view0, positions erased by cps_strip) as the Spec says: the text before the first print command, then per
   print command its tree up to positions and the text up to the next one, where "text" is body_text of the
   stretches (a print command is an unflagged end like every tag; "//" behind its "}" is text) and the
   characters of the text tags in between.  So a print command is a neighbour of text like any other tag, and
   the children are exactly raw-text nodes and these print nodes, in order.
   Proof (Proofs/LexBodyTags.v, ParseBodyTags.v, BodyTagsMain.v): scanner per tag (lex_print for the expression);
   parser on the items with the print commands' positions erased, where beginTag's implicit-print case is C17's
   rule Tag_print at ONE budget for all levels: out of budget, or the Spec's reading; the totality of the entry
   point (C05) excludes the first; the position independence of successful runs (cps_body) brings the result
   back to the scanner's own items.  Other commands (if, for, msg, call ...) as neighbours: C15_stretch_any_neighbours. *)
Theorem C15_body_text_print_tags_spec : forall lexq unq T0 rest out,
  lexq_wf lexq -> c15_body_ok print_node T0 rest -> c15_lex_oks rest -> c15_body_out T0 rest = Some out ->
  exists items pos nodes st,
    lex_items is_letter_tbl is_digit_tbl (lex_budget (c15_body_src T0 rest)) false (c15_body_src T0 rest) = Ok items /\
    po_result (soy_file (N.of_nat (length (c15_body_src T0 rest))) lexq unq items) = POk (NList pos nodes) st /\
    c15_view0 (map cps_strip nodes) = out.
Proof.
  intros lexq unq T0 rest out Hq. destruct tables_ascii as [Hl Hd]. destruct tables_eof as [El Ed].
  exact (body_tags_impl_spec is_letter_tbl is_digit_tbl Hl Hd El Ed lexq unq Hq T0 rest out).
Qed.
Print Assumptions C15_body_text_print_tags_spec.

(* non-vacuity: text with comments around two print commands and a {sp}; "//" behind the "}" of a print command
   is text; the reading is computed by the models and is the Spec's *)
Definition c15_ex_tags : bstr * list c15_tseg :=
  (b " a //c" ++ [10],
   [(C15Print (NPrint 0 (NDataRef 0 (b "x") []) []) (b "{$x}"), b "//t" ++ [10] ++ b " b ");
    (C15Text (b "sp", [32]), b "/*z*/ c" ++ [10]);
    (C15Print (NPrint 0 (NDataRef 0 (b "y") [NAccKey 0 false (b "k")]) [NDirective 0 (b "d") [NInt 0 1]]) (b "{$y.k|d:1}"), b " e //open")]).
Example C15_ex_body_print_tags :
  c15_body_ok print_node (fst c15_ex_tags) (snd c15_ex_tags) /\ c15_lex_oks (snd c15_ex_tags) /\
  c15_body_src (fst c15_ex_tags) (snd c15_ex_tags) = b " a //c" ++ [10] ++ b "{$x}//t" ++ [10] ++ b " b {sp}/*z*/ c" ++ [10] ++ b "{$y.k|d:1} e //open" /\
  c15_body_out (fst c15_ex_tags) (snd c15_ex_tags) =
    Some (b " a", [(NPrint 0 (NDataRef 0 (b "x") []) [], b "//t b  c");
                   (NPrint 0 (NDataRef 0 (b "y") [NAccKey 0 false (b "k")]) [NDirective 0 (b "d") [NInt 0 1]], b " e")]) /\
  match lex_items is_letter_tbl is_digit_tbl (lex_budget (c15_body_src (fst c15_ex_tags) (snd c15_ex_tags))) false (c15_body_src (fst c15_ex_tags) (snd c15_ex_tags)) with
  | Ok items =>
      match po_result (soy_file 100 (fun _ => []) (fun _ => None) items) with
      | POk (NList _ nodes) _ => Some (c15_view0 (map cps_strip nodes)) = c15_body_out (fst c15_ex_tags) (snd c15_ex_tags)
      | _ => False
      end
  | _ => False
  end.
Proof.
  assert (Hplain : forall s : bstr, forallb (fun c => negb (c =? 0) && negb (c =? 123) && negb (c =? 125)) s = true ->
                   Forall (fun c => c <> 0 /\ c <> 123 /\ c <> 125) s).
  { intros s H. apply Forall_forall. intros c Hc. rewrite forallb_forall in H. specialize (H c Hc). lia. }
  split.
  { unfold c15_body_ok, c15_ex_tags. cbn [fst snd c15_rest_ok c15_tag_ok].
    repeat split; try (apply Hplain; vm_compute; reflexivity); try (intros _; vm_compute; reflexivity); try (intros H; discriminate H);
      try (vm_compute; reflexivity); try exact I.
    left. vm_compute. auto 12. }
  split.
  { unfold c15_lex_oks, c15_ex_tags. cbn [snd]. repeat constructor; cbn [fst].
    exists 100, []. repeat split; try reflexivity; lia. }
  split; [vm_compute; reflexivity|]. split; [vm_compute; reflexivity|]. vm_compute. reflexivity.
Qed.
