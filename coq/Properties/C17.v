(* C17 -- a printed expression parses back to the same expression.

   Models: Model/ExprParser.v (parse/parse.go's expression parser and parsePrint, over the
   token plumbing of Model/Token.v), Model/AstPrint.v (the String methods of ast/node.go after
   the repairs a67ff8b a61ee13 980bf96 418294b 94b42ac), Model/Quote.v, Model/NumLit.v.
   Spec: Spec/ExprSyntax.v ([tokens_of e] = the items the printed text of [e] lexes to;
   [wf_expr] excludes only trees without concrete syntax).

   Token level: the theorems hold for every well-formed tree (no bound on size or nesting).
   Text level (C17_text_roundtrip, C17_text_injective below): the scanner model of parse/lexer.go
   (Model/Lexer.v, lexExpr) on the string the printer model writes sends the items of [tokens_of e]
   (Proofs/LexPrintTop.v), the parser model does not look at item positions (Proofs/ExprParserStrip.v) and its
   result does not depend on the budget (Proofs/ExprParserFuel.v): string -> items -> the same tree up to
   node positions, for every tree that is well-formed and lexically well-formed ([lex_ok]: ASCII identifiers
   that are not keywords, string literals in the printer's own quoted form, float texts of the printed shape).
   Print COMMANDS at text level (C17_lex_print_command, C17_print_command_text_roundtrip,
   C17_print_command_text_injective, C17_placeholders_by_text_scanner): the scanner model in file mode on the
   string PrintNode.String() writes sends "{", the items of [tokens_of_print] and EOF (lexText at "{",
   lexLeftDelim, lexBeginTag, the expression and directive lists inside the tag, "}" -> lexRightDelim, lexText
   at the end of the input); the parsePrint model on these items returns the command up to positions.
   C17_print_command_file_roundtrip goes through the file entry point: the command-level dispatch of parse.SoyFile
   (itemList -> textOrTag -> beginTag's implicit-print case -> parsePrint) under the entry point's own budget.
   Property theorems only. *)
(* source tie by translation: the lemmas of these files are obligations of this property *)
From Soy Require Import Proofs.SourceTieExpr Proofs.SourceTieQuote Proofs.SourceTieAstPrint Proofs.SourceTieUnquote.
From Soy Require Import Model.Bytes Model.Num Model.Values Model.Ast Model.Token Model.NumLit Model.Quote Model.ExprParser
  Model.AstPrint Generated.Tables Spec.ExprSyntax Proofs.ExprParserRules Proofs.LiteralProofs Proofs.ExprParserProofs Proofs.PlaceholderTextProofs Proofs.FloatRtPrint.
From Soy Require Proofs.FloatRtMain Proofs.FloatRtLex.
From Soy Require Import Model.Outcome Model.MsgId Proofs.MsgIdProofs.
From Soy Require Import Model.Lexer Model.Parser Proofs.LexPrintMain Proofs.LexParseText Proofs.LexPrintCmd Proofs.PrintCmdText.
From Soy Require Import Proofs.ParserProofs Proofs.CmdParserFuel Proofs.PrintCmdFile.
From Soy Require Import Spec.LexKeyword Proofs.LexPrint Proofs.LexKeywordProofs.
From Soy Require Import Model.RawText Model.Parser Model.AstPrintCmd Spec.CmdSyntax Proofs.CmdRoundtripBase Proofs.CmdRoundtripRules Proofs.CmdRoundtrip Proofs.ExprParserMono Proofs.CmdParserStripDefs Proofs.CmdParserStripMain Proofs.CmdRoundtripStrip Proofs.LexBodyC17Body Proofs.LexBodyC17Top Proofs.CmdRoundtripBytes.
Open Scope N_scope.

(* Parsing the items of the printed expression gives back the expression itself (positions
   included: every item carries the position of the node it creates), for every fuel above
   some bound, and leaves exactly the items that follow the expression. *)
Theorem C17_parse_print_roundtrip : forall e t rest,
  wf_expr e -> closer t = true ->
  exists st' f0, stream st' = t :: rest /\
    forall f, (f0 <= f)%nat -> parse_expr_top f (tokens_of e ++ t :: rest) = POk e st'.
Proof. exact parse_print_roundtrip. Qed.
Print Assumptions C17_parse_print_roundtrip.

(* Two expressions print the same items (up to positions) only if they are the same
   expression (up to positions). *)
Theorem C17_print_injective : forall e1 e2,
  wf_expr e1 -> wf_expr e2 ->
  map strip_tok (tokens_of e1) = map strip_tok (tokens_of e2) -> strip_pos e1 = strip_pos e2.
Proof. exact print_injective. Qed.
Print Assumptions C17_print_injective.

(* ---- text level ---- *)
(* parse.Expr(String(e)) = e up to positions: the string the printer model writes for e, scanned by the
   scanner model in expression mode (lexExpr) and parsed by the parser model under the entry point's
   own budget ([parse_expr_string]: Model/Lexer.v lex_items, Model/Parser.v soy_expr, the unicode classes
   being the tables regenerated from the toolchain), returns a tree equal to e up to node positions. *)
Theorem C17_text_roundtrip : forall e txt,
  wf_expr e -> lex_ok e -> print_node e = Some txt ->
  exists e' st', parse_expr_string is_letter_tbl is_digit_tbl txt = Ok (POk e' st') /\ strip_pos e' = strip_pos e.
Proof. exact text_roundtrip_tbl. Qed.
Print Assumptions C17_text_roundtrip.

(* two such expressions that print the same STRING are the same expression up to positions *)
Theorem C17_text_injective : forall e1 e2 txt,
  wf_expr e1 -> lex_ok e1 -> wf_expr e2 -> lex_ok e2 ->
  print_node e1 = Some txt -> print_node e2 = Some txt -> strip_pos e1 = strip_pos e2.
Proof. exact print_string_injective_tbl. Qed.
Print Assumptions C17_text_injective.

(* the expression parser model does not look at item positions (any item list, any budget): erasing
   the positions of the items erases the positions of the result and changes nothing else *)
Theorem C17_parser_ignores_positions : forall f ts,
  ExprParserStrip.zr strip_pos (parse_expr_top f ts) = parse_expr_top f (map strip_tok ts).
Proof. exact ExprParserStrip.parse_expr_top_strip. Qed.
Print Assumptions C17_parser_ignores_positions.

(* ---- print commands at text level ---- *)
(* lex(String(n)) for a print command n that is well-formed and lexically well-formed (lex_ok_print: as lex_ok for
   the expression and every directive argument; directive names are ASCII words that are not keywords): the
   scanner model in FILE mode returns "{", then items with the types and texts of tokens_of_print n, then EOF *)
Theorem C17_lex_print_command : forall n txt, wf_print n -> lex_ok_print n -> print_node n = Some txt ->
  exists ld mid e, lex_items is_letter_tbl is_digit_tbl (lex_budget txt) false txt = Ok (ld :: mid ++ [e]) /\
    t_typ ld = itemLeftDelim /\ t_val ld = [123] /\ map tv mid = map tv (tokens_of_print n) /\ t_typ e = itemEOF.
Proof. exact lex_print_command_tbl. Qed.
Print Assumptions C17_lex_print_command.

(* those items, after the opening "{", put through the parsePrint model (any budget above a bound, any position q
   for the command node): the print command itself, up to node positions *)
Theorem C17_print_command_text_roundtrip : forall p arg dirs txt,
  wf_print (NPrint p arg dirs) -> lex_ok_print (NPrint p arg dirs) -> print_node (NPrint p arg dirs) = Some txt ->
  exists ld its, lex_items is_letter_tbl is_digit_tbl (lex_budget txt) false txt = Ok (ld :: its) /\ t_typ ld = itemLeftDelim /\
    exists f0, forall f q, (f0 <= f)%nat ->
      exists n' st', parse_print f q (pst_init its) = POk n' st' /\ strip_pos n' = strip_pos (NPrint p arg dirs).
Proof. exact print_command_text_roundtrip. Qed.
Print Assumptions C17_print_command_text_roundtrip.

(* THROUGH THE FILE ENTRY POINT: parse.SoyFile(String(n)).  The scanner model run on the printed string as a
   file, then the model of parse.SoyFile (Model/Parser.v: itemList -> textOrTag -> beginTag, whose implicit-print
   case hands the items to parsePrint -- cmd_print / cmd_print_loop / directive_args) under the ENTRY POINT'S OWN
   BUDGET, returns a file whose one node is the print command, up to node positions.  [inlen] is len(text), as in
   the Go code; [lexq] (the nested scanner of quoted attribute expressions, never started on this input) is any
   scanner whose items are well-formed (lexq_wf: the scanner model is one, Proofs/LexParseBridge.v lexq_model_wf);
   [unq] (strconv.Unquote) is arbitrary.  Ingredients: the command-level parsePrint follows the expression-level
   parsePrint model on every successful run (Proofs/PrintCmdFile.v sim_print); the command-level parser model is
   monotone in its budget (Proofs/CmdParserFuel.v item_list_le, every procedure of Model/Parser.v) and never runs
   out of its own budget (Proofs/ParserProofs.v), so a tree obtained under SOME budget is the entry point's. *)
Theorem C17_print_command_file_roundtrip : forall lexq unq p arg dirs txt,
  lexq_wf lexq ->
  wf_print (NPrint p arg dirs) -> lex_ok_print (NPrint p arg dirs) -> print_node (NPrint p arg dirs) = Some txt ->
  exists items pos n' st,
    lex_items is_letter_tbl is_digit_tbl (lex_budget txt) false txt = Ok items /\
    po_result (soy_file (N.of_nat (length txt)) lexq unq items) = POk (NList pos [n']) st /\
    strip_pos n' = strip_pos (NPrint p arg dirs).
Proof. exact print_command_file_roundtrip. Qed.
Print Assumptions C17_print_command_file_roundtrip.

(* the budget lemma by itself: whatever item list and whatever until-set, two budgets that both suffice give the
   same result (tree or error) *)
Theorem C17_parser_budget_irrelevant : forall inlen lexq unq efuel f f' until s,
  item_list inlen lexq unq parse_expr efuel f until s <> CFuel -> item_list inlen lexq unq parse_expr efuel f' until s <> CFuel ->
  item_list inlen lexq unq parse_expr efuel f until s = item_list inlen lexq unq parse_expr efuel f' until s.
Proof. exact item_list_agree. Qed.
Print Assumptions C17_parser_budget_irrelevant.

(* ---- the keyword clause of lex_ok, as a decidable predicate ----
   lex_ok demands of every identifier the printer writes bare (function names, the first segment of a global's
   dotted name, directive names) that it is not an entry of the scanner's keyword table: a keyword printed bare is
   read back as its own item type (C17_ex_keyword_name: and() does not parse back).  The clause is the boolean
   function c17_kw_clause (Spec/LexKeyword.v) over the regenerated table: an identifier satisfies lex_ok's demand
   exactly when it has the shape of a word and c17_not_keyword holds, and lex_ok / lex_ok_print imply the clause
   for the whole tree.  The C17 harness evaluates c17_kw_clause (the extracted definition) on every tree the real
   parser returns; a parsed tree never has a keyword in these places, because the scanner never sends one as an
   identifier item (evidence: histogram lex_ok-keyword-clause). *)
Theorem C17_identifier_keyword_clause : forall w, plain_word w <-> word_shape w /\ c17_not_keyword w = true.
Proof. exact plain_word_iff. Qed.
Print Assumptions C17_identifier_keyword_clause.

Theorem C17_keyword_clause : forall e, lex_ok e -> c17_kw_clause e = true.
Proof. exact lex_ok_kw_clause. Qed.
Print Assumptions C17_keyword_clause.

Theorem C17_keyword_clause_print : forall n, lex_ok_print n -> c17_kw_clause n = true.
Proof. exact lex_ok_print_kw_clause. Qed.
Print Assumptions C17_keyword_clause_print.

(* the clause is needed: a function named like a keyword prints as text that the scanner reads differently *)
Example C17_ex_keyword_name :
  c17_kw_clause (NFunc 0 (b "and") []) = false /\ c17_kw_clause (NFunc 0 (b "round") [NGlobal 0 (b "a.and") (VNull)]) = true /\
  print_node (NFunc 0 (b "and") []) = Some (b "and()") /\
  match lex_items is_letter_tbl is_digit_tbl (lex_budget (b "and()")) true (b "and()") with
  | Ok items => match po_result (soy_expr 5 items) with POk _ _ => False | _ => True end
  | _ => False
  end.
Proof. split; [vm_compute; reflexivity|]. split; [vm_compute; reflexivity|]. split; [vm_compute; reflexivity|]. vm_compute. exact I. Qed.

(* two such print commands that print the same STRING are the same print command up to positions *)
Theorem C17_print_command_text_injective : forall n1 n2 txt,
  wf_print n1 -> lex_ok_print n1 -> wf_print n2 -> lex_ok_print n2 ->
  print_node n1 = Some txt -> print_node n2 = Some txt -> strip_pos n1 = strip_pos n2.
Proof. exact print_command_string_injective. Qed.
Print Assumptions C17_print_command_text_injective.

(* C17_placeholders_by_text (below) with the scanner MODEL in place of the abstract scanner and its hypothesis:
   two placeholders of one message whose texts are those of well-formed, lexically well-formed print commands
   get the same name only if they are the same print command up to positions *)
Theorem C17_placeholders_by_text_scanner : forall order body es nm,
  is_perm order -> msg_entries body = Ok es -> msg_names order body = Ok nm ->
  forall b1 b2 n1 n2 s1 s2,
  wf_print n1 -> lex_ok_print n1 -> wf_print n2 -> lex_ok_print n2 -> print_node n1 = Some s1 -> print_node n2 = Some s2 ->
  In (b1, s1) es -> In (b2, s2) es ->
  name_of nm b1 s1 = name_of nm b2 s2 -> b1 = b2 /\ strip_pos n1 = strip_pos n2.
Proof. exact placeholders_by_text_scanner. Qed.
Print Assumptions C17_placeholders_by_text_scanner.

(* The same for print commands: expression, directives with their arguments, closing brace. *)
Theorem C17_print_command_roundtrip : forall p arg dirs rest,
  wf_print (NPrint p arg dirs) ->
  exists st' f0, stream st' = rest /\
    forall f, (f0 <= f)%nat ->
      parse_print f p (pst_init (tokens_of_print (NPrint p arg dirs) ++ rest)) = POk (NPrint p arg dirs) st'.
Proof. exact parse_print_roundtrip_cmd. Qed.
Print Assumptions C17_print_command_roundtrip.

(* Print commands that print the same items (up to positions) are the same (up to positions). *)
Theorem C17_print_command_injective : forall n1 n2,
  wf_print n1 -> wf_print n2 ->
  map strip_tok (tokens_of_print n1) = map strip_tok (tokens_of_print n2) -> strip_pos n1 = strip_pos n2.
Proof. exact print_command_injective. Qed.
Print Assumptions C17_print_command_injective.

(* "The message extractor identifies placeholders by this text": in the model of
   setPlaceholderNames (Model/MsgId.v, where a placeholder is a pair of base name and String()
   text), two placeholders of one message whose texts are those of well-formed print commands
   get the same name ONLY IF they are the same print command up to positions, and the same
   print command under one base name always gets one name.  [lex] is the scanner, abstract
   here: its one assumed property -- the text printed for a well-formed print command is read
   as the items tokens_of_print gives, up to positions -- is the token correspondence that the
   harness checks on every run; everything else is proved. *)
Theorem C17_placeholders_by_text :
  forall (lex : bstr -> list tok),
  (forall n s, wf_print n -> print_node n = Some s -> map strip_tok (lex s) = map strip_tok (tokens_of_print n)) ->
  forall order body es nm, is_perm order -> msg_entries body = Ok es -> msg_names order body = Ok nm ->
  forall b1 b2 n1 n2 s1 s2,
  wf_print n1 -> wf_print n2 -> print_node n1 = Some s1 -> print_node n2 = Some s2 ->
  In (b1, s1) es -> In (b2, s2) es ->
  (name_of nm b1 s1 = name_of nm b2 s2 -> b1 = b2 /\ strip_pos n1 = strip_pos n2) /\
  (b1 = b2 -> strip_pos n1 = strip_pos n2 -> name_of nm b1 s1 = name_of nm b2 s2).
Proof.
  intros lex Hlex order body es nm Hp Hes Hnm b1 b2 n1 n2 s1 s2 W1 W2 P1 P2 I1 I2. split.
  - exact (same_name_same_command lex Hlex order body es nm Hp Hes Hnm b1 b2 n1 n2 s1 s2 W1 W2 P1 P2 I1 I2).
  - intros -> E. exact (same_command_same_name nm b2 n1 n2 s1 s2 P1 P2 E).
Qed.
Print Assumptions C17_placeholders_by_text.

(* The round trip holds for ANY placement of redundant parentheses, not only the printer's
   minimal one (the C01 syntax theorem; C17 is its instance sty_min). *)
Theorem C17_parse_show : forall sty path e t rest,
  wf_expr e -> closer t = true ->
  exists st' f0, stream st' = t :: rest /\
    forall f, (f0 <= f)%nat -> parse_expr_top f (show sty path e ++ t :: rest) = POk e st'.
Proof. exact parse_show_top. Qed.
Print Assumptions C17_parse_show.

(* The printer model parenthesises by the Soy operator table: finite checks on the tables
   regenerated from ast/node.go and parse/parse.go. *)
Theorem C17_printer_levels : forall e, level_of e = expr_level e.
Proof. exact ast_level_of_is_expr_level. Qed.
Print Assumptions C17_printer_levels.

Theorem C17_parser_levels : forall op,
  is_binary_op (op_tok_typ op) = true /\
  prec_of (op_tok_typ op) = match op with OElvis => 0 | _ => op_level op end.
Proof. intros op. split; [apply op_tok_binary | apply qlev_spec]. Qed.
Print Assumptions C17_parser_levels.

(* Side conditions of wf_expr that are theorems: every int64 literal (FormatInt then ParseInt)
   and every valid UTF-8 map key (escaped by the printer, read by unquoteString) reads back. *)
Theorem C17_int_literals : forall z, in_int64 z = true -> parse_int 10 (dec_of_Z z) = Some z.
Proof. exact LiteralProofs.parse_int_dec. Qed.
Print Assumptions C17_int_literals.

Theorem C17_map_keys : forall k, Utf8.utf8_valid k = true -> key_ok k.
Proof. exact key_ok_valid_utf8. Qed.
Print Assumptions C17_map_keys.

(* Float literals: the side condition of wf_expr ([float_ok f]: f is a finite float in normal form -- a signed
   zero or an odd mantissa, what every operation of Model/Num.v returns -- that the printer model prints) says
   nothing about reading back any more.  THEOREM (Proofs/FloatRt*.v, no sample, no bound on digits or exponent):
   the text FloatNode.String() writes for such a float (strconv 'g' -1: the shortest digits that identify the
   float64, in one of four layouts, ".0" appended to a bare integer) is a float literal of the scanner's syntax
   and strconv.ParseFloat's correctly rounded conversion (NumLit.parse_float_round) reads it back as the same
   float: the digits lie in the rounding interval of f (every exit of the digit search), and round_ratio returns f
   for every fraction in that interval, ties included when the mantissa is even.  16- and 17-digit floats such as
   599/2^20 = 0.00057125091552734375, printed as 0.0005712509155273438, are inside.
   What is left of the condition is the shape of the value: the printer model answers on every float of the model's
   window and on no other (C17_float_condition; Proofs/FloatRtTotal.v: the decimal exponent is among the four
   candidates around the estimate, and 17 digits always suffice). *)
Theorem C17_float_literals : forall f s, fl_finite_norm f -> fl_print f = Some s -> parse_float_round s = FRVal f.
Proof. exact FloatRtPrint.fl_print_parse. Qed.
Print Assumptions C17_float_literals.

(* and the printer model prints exactly the floats of the model: float_ok is a condition on the shape of the value *)
Theorem C17_float_condition : forall f, float_ok f <-> FloatRtMain.fl_in_window f.
Proof. exact FloatRtPrint.float_ok_iff_window. Qed.
Print Assumptions C17_float_condition.

(* the float clause of lex_ok (the printed float text is ONE float item for the scanner: sign, digits, then a fraction
   or an exponent) is a theorem too: lex_ok says nothing about floats that wf_expr does not already give *)
Theorem C17_float_texts : forall f s, fl_finite_norm f -> fl_print f = Some s -> float_txt_ok s.
Proof. exact FloatRtLex.fl_print_float_txt. Qed.
Print Assumptions C17_float_texts.
Theorem C17_float_lex_ok : forall p f, float_ok f -> lex_ok (NFloat p f).
Proof. intros p f [Hn _]. exact (FloatRtLex.lex_ok_float p f Hn). Qed.
Print Assumptions C17_float_lex_ok.

Theorem C17_float_checker_sound : forall f, float_okb f = true -> float_ok f.
Proof. exact float_okb_sound. Qed.
Print Assumptions C17_float_checker_sound.

Fixpoint c17_upto (n : nat) : list Z := match n with O => [] | S k => Z.of_nat k :: c17_upto k end.
Definition c17_float_samples : list fl :=
  flat_map (fun k => flat_map (fun j => match mk_fl (2 * k + 1) (- Z.of_nat j) with Some f => [f; fl_neg f] | None => [] end)
                              [0; 1; 2; 3; 5; 9; 10; 14; 20]%nat) (c17_upto 60).
Example C17_float_sample :
  forallb float_okb c17_float_samples = true /\ length c17_float_samples = 1080%nat /\
  fl_print (FFin 599 (-20)) = Some (b "0.0005712509155273438") /\ float_okb (FFin 599 (-20)) = true /\
  parse_float_round (b "0.0005712509155273438") = FRVal (FFin 599 (-20)).
Proof. vm_compute. repeat split; reflexivity. Qed.

(* ---- non-vacuity: concrete well-formed trees, printed and read back by computation ---- *)
Definition ex_nested : node :=            (* (1 + $a.b?[0]) * -(5) *)
  NBin OMul 9 (NBin OAdd 3 (NInt 2 1) (NDataRef 6 (b "a") [NAccKey 8 false (b "b"); NAccExpr 10 true (NInt 11 0)]))
              (NNeg 14 (NInt 16 5)).
Definition ex_tern : node :=              (* not ($x and y.z) ? ['k\'': 2.5, 'm': []] : f('s', 1e+06) ?: null *)
  NTern 1 (NNot 1 (NBin OAnd 4 (NDataRef 2 (b "x") []) (NGlobal 5 (b "y.z") VUndef)))
          (NMapLit 7 [(b "k'", NFloat 8 (FFin 5 (-1))); (b "m", NListLit 9 [])])
          (NBin OElvis 12 (NFunc 10 (b "f") [NString 11 (b "'s'") (b "s"); NFloat 13 (FFin 15625 6)]) (NNull 14)).

Example C17_wf_nonvacuous : wf_expr ex_nested /\ wf_expr ex_tern.
Proof.
  split; cbn [ex_nested ex_tern wf_expr allP keys_sorted map fst snd pos_of]; unfold key_ok, float_ok;
    repeat match goal with
           | |- _ /\ _ => split
           | |- True => exact I
           | |- exists _, _ => eexists
           | |- fl_finite_norm _ => vm_compute; reflexivity
           | |- _ = _ => vm_compute; reflexivity
           | |- (_ <= _)%Z => vm_compute; discriminate
           end.
Qed.

Example C17_tokens_nonvacuous :
  map t_typ (tokens_of ex_nested) =
    [pk_itemLeftParen; pk_itemInteger; pk_itemAdd; pk_itemDollarIdent; pk_itemDotIdent; pk_itemQuestionKey; pk_itemInteger;
     pk_itemRightBracket; pk_itemRightParen; pk_itemMul; pk_itemNegate; pk_itemLeftParen; pk_itemInteger; pk_itemRightParen]
  /\ print_node ex_nested = Some (b "(1 + $a.b?[0]) * -(5)")
  /\ print_node ex_tern = Some (b "not ($x and y.z) ? ['k\'': 2.5, 'm': []] : f('s',1e+06) ?: null").
Proof. vm_compute. repeat split; reflexivity. Qed.

Example C17_roundtrip_nonvacuous :
  (exists st, parse_expr_top 40 (tokens_of ex_nested ++ [T_rdelim]) = POk ex_nested st) /\
  (exists st, parse_expr_top 60 (tokens_of ex_tern ++ [T_rdelim]) = POk ex_tern st).
Proof. split; eexists; vm_compute; reflexivity. Qed.

(* text level, by computation: the printed strings of the two trees above go through scanner and parser
   models and come back as the trees, positions aside *)
Definition c17_text_rt (e : node) : Prop :=
  match print_node e with
  | Some txt => match parse_expr_string is_letter_tbl is_digit_tbl txt with
                | Ok (POk e' _) => strip_pos e' = strip_pos e
                | _ => False
                end
  | None => False
  end.
Example C17_text_roundtrip_nonvacuous : c17_text_rt ex_nested /\ c17_text_rt ex_tern.
Proof. split; vm_compute; reflexivity. Qed.

(* a print command with directives, by computation: its printed string, the scanner model's items in file mode,
   and the parsePrint model on them *)
Definition ex_print : node :=
  NPrint 0 ex_nested [NDirective 0 (b "truncate") [NInt 0 5; NBool 0 true]; NDirective 0 (b "noAutoescape") []].
Example C17_print_command_text_nonvacuous :
  print_node ex_print = Some (b "{(1 + $a.b?[0]) * -(5)|truncate:5,true|noAutoescape}") /\
  match print_node ex_print with
  | Some txt =>
      match lex_items is_letter_tbl is_digit_tbl (lex_budget txt) false txt with
      | Ok (ld :: its) =>
          map tv (removelast its) = map tv (tokens_of_print ex_print) /\
          match parse_print 60 0 (pst_init its) with POk n' _ => strip_pos n' = strip_pos ex_print | _ => False end
      | _ => False
      end
  | None => False
  end.
Proof. split; [vm_compute; reflexivity|]. vm_compute. split; reflexivity. Qed.
(* ... and through the file entry point, by computation: the one node of the file is the command *)
Example C17_print_command_file_nonvacuous :
  match print_node ex_print with
  | Some txt =>
      match lex_items is_letter_tbl is_digit_tbl (lex_budget txt) false txt with
      | Ok items =>
          match po_result (soy_file (N.of_nat (length txt)) (fun _ => []) (fun _ => None) items) with
          | POk (NList _ [n']) _ => strip_pos n' = strip_pos ex_print
          | _ => False
          end
      | _ => False
      end
  | None => False
  end.
Proof. vm_compute. reflexivity. Qed.
(* ---- extension to template bodies (the property's text speaks of expressions and print
   commands; this is the same statement for the command forms whose String() is source syntax
   the parser accepts again: raw text, print, {log}, {debugger}, {let} in both forms,
   {if}/{elseif}/{else}, {for}/{ifempty}, {switch}/{case}/{default}, {call} with data="all" /
   data="e" and {param k: e/} / {param k}..{/param}, {css}, {msg}, {plural} inside {msg}, nested to any depth).
   Model/Parser.v's itemList (parse.go itemList / textOrTag / beginTag and the command parsers,
   same next/backup/peek order as the Go code), started in ANY parser state (inside or outside a
   {msg}: flag m) that delivers the items of a well-formed body followed by "{" and an item u
   that ends the list, returns that body itself for every fuel above some bound, has consumed
   "{" and u, and leaves the items that follow; the state is unchanged but for the token plumbing
   and the log of nested scanners.
   External functions enter with their contracts: unq (strconv.Unquote inverts
   strconv.Quote on the printer model's domain); lexq (the nested scanner) enters through
   wf_body's clause quoted_ok: it reads the printed text of the expression as the expression's items.
   The budget of the nested expression parse of data="e" / {css e, x} is the one the model's entry
   points use (Model/Parser.v expr_fuel = number of items + 8); that it is enough is proved
   (Proofs/ExprParserMono.v expr_fuel_ok: termination below the measure + monotonicity in the fuel).
   {msg meaning= desc=} with raw text, html tags and command placeholders is covered ({msg} reads its
   body with tree.inmsg set and placeholderizes it; the theorem shows the children come back), and
   {plural} inside it in both forms the parser builds: as the only child of the {msg} (case bodies
   placeholderized, recursively through nested {plural}s) and as a command of a body nested in the
   {msg} ({msg}{log}{plural}..: case bodies stay bodies).
   wf_body excludes only: trees the parser cannot build (see Spec/CmdSyntax.v), raw text that is not
   in the form line joining leaves, and the file-level nodes (namespace, template, header parameter,
   soydoc, alias), which beginTag would accept in a body but whose String() is not source syntax
   (notes/astprint-reparse.md).  {literal}, {sp} {nil} {lb} .., {foreach}, {print e}, {let kind=}
   read to trees whose String() is another covered form. ---- *)
Theorem C17_parse_body_roundtrip :
  forall (ns : bstr) (al : list (bstr * bstr)) (inlen : N) (lexq : bstr -> list tok) (unq : bstr -> option bstr),
  (forall s q, go_quote s = Some q -> unq q = Some s) ->
  forall m x until u rest,
  wf_body lexq (nameok ns al) m x -> good_until until = true -> one_of (t_typ u) until = true ->
  forall s, stream (c_p s) = body_toks x ++ T_ldelim :: u :: rest -> inv (c_p s) ->
            c_inmsg s = m -> c_ns s = ns -> c_al s = al ->
  exists p' sc', stream p' = rest /\ inv p' /\
    exists f0, forall f, (f0 <= f)%nat -> item_list inlen lexq unq parse_expr expr_fuel f until s = COk x (set_ps s p' sc').
Proof.
  intros ns al inlen lexq unq Hunq m x until u rest Hwf Hg Hu s Hs Hi Hm Hns Hal.
  destruct (parse_body_roundtrip ns al inlen lexq unq expr_fuel expr_fuel_ok Hunq m x until u rest Hwf Hg Hu s (c_p s) (c_scans s) Hs Hi (conj Hm (conj Hns Hal)))
    as (p' & sc' & H1 & H2 & _ & _ & f0 & HF).
  exists p', sc'. split; [exact H1|]. split; [exact H2|]. exists f0. intros f Hf. rewrite <- (HF f f Hf Hf), set_ps_eta. reflexivity.
Qed.
Print Assumptions C17_parse_body_roundtrip.

(* every list of closing items the parser uses for a body is "good": no item that starts a
   command or text of a body can be mistaken for the end of the list *)
Example C17_until_lists_good :
  forallb good_until [u_log; u_let; u_if; u_for; u_ifempty; u_template; u_param; u_case; u_msg] = true.
Proof. vm_compute. reflexivity. Qed.

(* non-vacuity: a body with every covered form, well-formed, printed, and read back by computation *)
(* the nested scanner of the example: lexExpr("$d") *)
Definition ex_lexq (s : bstr) : list tok :=
  if bstr_eqb s (b "$d") then [tk pk_itemDollarIdent 2 (b "$d"); tk pit_Error 2 (b "unclosed tag")] else [].
Definition ex_unq (q : bstr) : option bstr := match q with _ :: r => Some (removelast r) | [] => None end.

Definition ex_body : node :=
  NList 5 [ NRawText 5 (b "Hi ");
            NPrint 7 (NDataRef 7 (b "a") []) [NDirective 8 (b "truncate") [NInt 9 5]];
            NIf 11 [ NIfCond 11 (Some (NBin OAnd 13 (NDataRef 12 (b "a") []) (NNot 14 (NDataRef 15 (b "b") [])))) (NList 16 [NRawText 16 (b "x")]);
                     NIfCond 11 (Some (NDataRef 17 (b "c") [])) (NList 0 []);
                     NIfCond 11 None (NList 0 [NDebugger 18]) ];
            NFor 20 (b "i") (NFunc 21 (b "range") [NInt 22 3])
                 (NList 0 [NLetValue 23 (b "v") (NBin OAdd 25 (NDataRef 24 (b "i") []) (NInt 26 1)); NPrint 27 (NDataRef 27 (b "v") []) []])
                 (Some (NList 28 [NRawText 28 (b "none")]));
            NLetContent 30 (b "w") (NList 0 [NLog 31 (NList 32 [NRawText 32 (b "in log")])]);
            NSwitch 40 (NDataRef 41 (b "k") [])
                 [ NSwitchCase 42 [NInt 43 1; NInt 44 2] (NList 45 [NRawText 45 (b "one")]);
                   NSwitchCase 46 [] (NList 0 [NCss 47 None (b "cls")]) ];
            NCall 50 (b "ns.other") false (Some (NDataRef 2 (b "d") []))
                 [ NParamValue 51 (b "k") (NInt 52 1);
                   NParamContent 53 (b "c") (NList 0 [NCss 54 (Some (NDataRef 2 (b "d") [])) (b "suf")]) ];
            NCall 60 (b "ns.third") true None [];
            NMsg 70 0 (b "verb") (b "greeting, imperative")
                 [ NRawText 71 (b "Click "); NMsgPlaceholder 77 [] (NMsgHtmlTag 77 (b "<a href=x>"));
                   NMsgPlaceholder 88 [] (NPrint 88 (NDataRef 88 (b "label") []) []);
                   NMsgPlaceholder 89 [] (NMsgHtmlTag 89 (b "</a>")); NRawText 93 (b " now") ] ].

Example C17_body_wf_nonvacuous : wf_body ex_lexq (nameok (b "ns") []) false ex_body.
Proof.
  cbn -[msg_raw_text rawtext_run go_quote print_node trim_space run_text run_pos split_dots].
  unfold key_ok, float_ok, quoted_ok, call_name_ok, nameok, plain, no_byte, run_ok.
  repeat match goal with
         | H : _ :: _ = [] |- _ => discriminate H
         | H : false = true |- _ => discriminate H
         | H : existsb _ _ = true |- _ => vm_compute in H; try discriminate H
         | |- _ /\ _ => split
         | |- True => exact I
         | |- exists _, _ => eexists
         | Ha : c_al ?s = _ |- resolve_name ?s _ = _ => unfold resolve_name; rewrite Ha; vm_compute; reflexivity
         | |- forall _, _ => intro
         | |- wf_expr _ => cbn
         | |- fl_finite_norm _ => vm_compute; reflexivity
         | |- _ = _ => vm_compute; reflexivity
         | |- _ <> _ => vm_compute; discriminate
         end.
Qed.

Example C17_body_prints_nonvacuous :
  print_tree ex_body = Some (b "Hi {$a|truncate:5}{if $a and not $b}x{elseif $c}{else}{debugger}{/if}{for $i in range(3)}{let $v: $i + 1 /}{$v}{ifempty}none{/for}{let $w}{log}in log{/log}{/let}{switch $k}{case 1,2}one{case }{css cls}{/switch}{call ns.other data=""$d""}{param k: 1/}{param c}{css $d, suf}{/param}{/call}{call ns.third data=""all""/}{msg meaning=""verb"" desc=""greeting, imperative""}Click <a href=x>{$label}</a> now{/msg}").
Proof. vm_compute. reflexivity. Qed.

Example C17_body_roundtrip_nonvacuous :
  exists s, item_list 0 ex_lexq ex_unq parse_expr (fun _ => 20%nat) 60 u_template
              (cst_init (body_toks ex_body ++ [T_ldelim; kw pit_TemplateEnd 0; T_rdelim])) = COk ex_body s.
Proof. eexists. vm_compute. reflexivity. Qed.

(* {plural}: the only child of its {msg}, with a nested {plural} in a case body, and a {plural} that is a
   command of a {log} inside a {msg} (its case bodies are not placeholderized) *)
Definition ex_plural_body : node :=
  NList 0 [ NMsg 1 0 [] (b "n items")
              [ NMsgPlural 2 [] (NDataRef 3 (b "n") [])
                  [ NMsgPluralCase 4 1 [ NRawText 5 (b "one "); NMsgPlaceholder 9 [] (NMsgHtmlTag 9 (b "<b>"));
                                         NMsgPlaceholder 12 [] (NPrint 12 (NDataRef 12 (b "x") []) []) ];
                    NMsgPluralCase 20 2 [ NMsgPlural 21 [] (NDataRef 22 (b "m") []) [] [ NRawText 23 (b "few") ] ] ]
                  [ NRawText 30 (b "many "); NMsgPlaceholder 35 [] (NPrint 35 (NDataRef 35 (b "n") []) []) ] ];
            NMsg 40 0 [] (b "d")
              [ NMsgPlaceholder 41 [] (NLog 41 (NList 0 [ NMsgPlural 42 [] (NDataRef 43 (b "k") [])
                                                           [ NMsgPluralCase 44 0 [ NRawText 45 (b "zero") ] ]
                                                           [ NPrint 46 (NDataRef 46 (b "k") []) [] ] ])) ] ].

Example C17_plural_wf_nonvacuous : wf_body ex_lexq (nameok (b "ns") []) false ex_plural_body.
Proof.
  cbn -[msg_raw_text rawtext_run go_quote print_node trim_space run_text run_pos split_dots in_int64].
  unfold run_ok.
  repeat match goal with
         | H : _ :: _ = [] |- _ => discriminate H
         | H : false = true |- _ => discriminate H
         | H : existsb _ _ = true |- _ => vm_compute in H; try discriminate H
         | |- _ /\ _ => split
         | |- True => exact I
         | |- forall _, _ => intro
         | |- wf_expr _ => cbn
         | |- (_ <= _)%Z => vm_compute; discriminate
         | |- _ = _ => vm_compute; reflexivity
         | |- _ <> _ => vm_compute; discriminate
         end.
Qed.

Example C17_plural_prints_nonvacuous :
  print_tree ex_plural_body = Some (b "{msg desc=""n items""}{plural $n}{case 1}one <b>{$x}{case 2}{plural $m}{default}few{/plural}{default}many {$n}{/plural}{/msg}{msg desc=""d""}{log}{plural $k}{case 0}zero{default}{$k}{/plural}{/log}{/msg}").
Proof. vm_compute. reflexivity. Qed.

Example C17_plural_roundtrip_nonvacuous :
  exists s, item_list 0 ex_lexq ex_unq parse_expr expr_fuel 60 u_template
              (cst_init (body_toks ex_plural_body ++ [T_ldelim; kw pit_TemplateEnd 0; T_rdelim])) = COk ex_plural_body s.
Proof. eexists. vm_compute. reflexivity. Qed.

(* ---- the body round trip for the items a scanner really sends.  [body_toks x] carries the node
   positions and 0 at the items that create no node; the scanner puts the offset of its end on every
   item.  The command-level parser model (all of Model/Parser.v: itemList, textOrTag, beginTag and every
   command parser, the nested scanners of data="e" / {css e, x}, placeholderize) does not look at item
   positions on a successful run (C17_cmd_parser_ignores_positions: two runs from states that agree up
   to positions both succeed, with trees equal up to positions and final states that agree up to
   positions; error runs are excluded because errorAt compares the position with the input length).
   Hence ANY item list with the types and texts of body_toks x ++ "{" u rest is read, from the initial
   state and under the entry points' budget, as x up to positions. ---- *)
Theorem C17_cmd_parser_ignores_positions :
  forall (inlen inlen' : N) (lexq : bstr -> list tok) (unq : bstr -> option bstr) f until its its' x s,
  map strip_tok its = map strip_tok its' ->
  item_list inlen lexq unq parse_expr expr_fuel f until (cst_init its) = COk x s ->
  exists x' s', item_list inlen' lexq unq parse_expr expr_fuel f until (cst_init its') = COk x' s' /\ cps_strip x = cps_strip x'.
Proof. exact cps_body_expr_fuel. Qed.
Print Assumptions C17_cmd_parser_ignores_positions.

Theorem C17_parse_body_roundtrip_any_positions :
  forall (inlen inlen' : N) (lexq : bstr -> list tok) (unq : bstr -> option bstr),
  (forall s q, go_quote s = Some q -> unq q = Some s) ->
  forall x until u rest its,
  wf_body lexq (nameok [] []) false x -> good_until until = true -> one_of (t_typ u) until = true ->
  map strip_tok its = map strip_tok (body_toks x ++ T_ldelim :: u :: rest) ->
  exists f0, forall f, (f0 <= f)%nat ->
    exists x' s', item_list inlen' lexq unq parse_expr expr_fuel f until (cst_init its) = COk x' s' /\ cps_strip x' = cps_strip x.
Proof. exact body_roundtrip_any_positions. Qed.
Print Assumptions C17_parse_body_roundtrip_any_positions.

(* non-vacuity: the items of the {plural} example with every position replaced by 7 *)
Example C17_any_positions_nonvacuous :
  match item_list 0 ex_lexq ex_unq parse_expr expr_fuel 60 u_template
          (cst_init (map (fun t => tk (t_typ t) 7 (t_val t)) (body_toks ex_plural_body ++ [T_ldelim; kw pit_TemplateEnd 0; T_rdelim]))) with
  | COk x' _ => cps_strip x' = cps_strip ex_plural_body /\ x' <> ex_plural_body
  | _ => False
  end.
Proof. vm_compute. split; [reflexivity | discriminate]. Qed.

(* ---- template bodies at TEXT level.  C17_lex_body_partial: the scanner model in file mode on the string
   String() writes for a body of the class lb17_okb (Proofs/LexBodyC17Body.v) sends exactly the items of
   body_toks (types and texts), then EOF: lexText on the text stretches, lexLeftDelim / lexBeginTag with the
   keyword table for "{if " "{let " "{for " ..., lexInsideTag for the expressions (lex_print), both right
   delimiters back to lexText, the closing tags "{/if}" .., lexCss, attribute strings.  PARTIAL in the class:
   raw text without "/" (no comment test), print, {debugger}, {log}, {let} in both forms, {if}/{elseif}/{else},
   {for}/{ifempty} with a plain variable as the list (lb17_anylast: the expression after "in" is lexed with
   a term as the previous item), {switch} whose cases all have values (the default case prints as "{case }": W1),
   {css}, {call} with data="all" / data="e" / content parameters; NOT {param k: e/} and the bare {call x.y/}
   (lex_print's follow set has no "/"), {msg} / {plural}.
   C17_template_body_text_roundtrip_partial: for such a body that is also well-formed (wf_body), the string
   String(body) ++ "{/template}" goes through the scanner model and then through the command-level parser model
   (from its initial state, for every budget above a bound, with the entry points' expression budget) to the
   body itself up to node positions: bytes -> items (above) -> any items with these types and texts are read as
   the body up to positions (C17_parse_body_roundtrip_any_positions). ---- *)
Theorem C17_lex_body_partial : forall q ns txt, lb17_okb ns -> print_tree (NList q ns) = Some txt ->
  exists its e, lex_items is_letter_tbl is_digit_tbl (lex_budget txt) false txt = Ok (its ++ [e]) /\ t_typ e = itemEOF /\
    map tv its = map tv (body_toks (NList q ns)).
Proof. exact lb17_lex_body_tbl. Qed.
Print Assumptions C17_lex_body_partial.

Theorem C17_template_body_text_roundtrip_partial :
  forall (inlen inlen' : N) (lexq : bstr -> list tok) (unq : bstr -> option bstr),
  (forall s q, go_quote s = Some q -> unq q = Some s) ->
  forall q ns txt,
  wf_body lexq (nameok [] []) false (NList q ns) -> lb17_okb ns -> print_tree (NList q ns) = Some txt ->
  exists its,
    lex_items is_letter_tbl is_digit_tbl (lex_budget (txt ++ b "{/template}")) false (txt ++ b "{/template}") = Ok its /\
    exists f0, forall f, (f0 <= f)%nat ->
      exists x' s', item_list inlen' lexq unq parse_expr expr_fuel f u_template (cst_init its) = COk x' s' /\
                    cps_strip x' = cps_strip (NList q ns).
Proof. exact template_body_text_roundtrip. Qed.
Print Assumptions C17_template_body_text_roundtrip_partial.

(* non-vacuity: a{if $x}b{else}{debugger}{/if}{let $y}c{/let} with positions that satisfy wf_body *)
Definition ex_bytes_nodes : list node :=
  [ NRawText 1 [97];
    NIf 3 [ NIfCond 3 (Some (NDataRef 4 [120] [])) (NList 5 [NRawText 5 [98]]);
            NIfCond 3 None (NList 0 [NDebugger 6]) ];
    NLetContent 7 [121] (NList 8 [NRawText 8 [99]]) ].
Example C17_bytes_example_wf : wf_body ex_lexq (nameok [] []) false (NList 1 ex_bytes_nodes).
Proof.
  cbn -[rawtext_run]. repeat split; try (vm_compute; reflexivity); try (vm_compute; discriminate).
Qed.
Example C17_bytes_example_ok : lb17_okb ex_bytes_nodes.
Proof.
  unfold ex_bytes_nodes.
  apply lb17_example_text; try lia; try reflexivity.
  apply lb17_ok_cmd.
  { apply lb17_ok_if. apply lb17_ok_conds_cond.
    - exact I.
    - split; [reflexivity|exact I].
    - apply lb17_example_text; try lia; try reflexivity. apply lb17_ok_nil.
    - apply lb17_ok_conds_else. apply lb17_ok_cmd; [apply lb17_ok_debugger|apply lb17_ok_nil]. }
  apply lb17_ok_cmd; [|apply lb17_ok_nil].
  apply lb17_ok_letc; [reflexivity|]. apply lb17_example_text; try lia; try reflexivity. apply lb17_ok_nil.
Qed.
Example C17_bytes_example_text :
  print_tree (NList 1 ex_bytes_nodes) = Some (b "a{if $x}b{else}{debugger}{/if}{let $y}c{/let}").
Proof. vm_compute. reflexivity. Qed.
