(* C17 -- a printed expression parses back to the same expression.

   Models: Model/ExprParser.v (parse/parse.go's expression parser and parsePrint, over the
   token plumbing of Model/Token.v), Model/AstPrint.v (the String methods of ast/node.go after
   the repairs a67ff8b a61ee13 980bf96 418294b 94b42ac), Model/Quote.v, Model/NumLit.v.
   Spec: Spec/ExprSyntax.v ([tokens_of e] = the items the printed text of [e] lexes to;
   [wf_expr] excludes only trees without concrete syntax).

   The theorems are at token level: they hold for every well-formed tree (no bound on size or
   nesting).  That the text printed by the model printer lexes to [tokens_of e] is not proved
   here (the lexer model belongs to another file); it is checked on every run by the
   correspondence harness (real scanner on the real String() vs [tokens_of] of the real tree).
   Property theorems only. *)
(* source tie by translation: the lemmas of these files are obligations of this property *)
From Soy Require Import Proofs.SourceTieExpr Proofs.SourceTieQuote Proofs.SourceTieAstPrint.
From Soy Require Import Model.Bytes Model.Num Model.Values Model.Ast Model.Token Model.NumLit Model.Quote Model.ExprParser
  Model.AstPrint Generated.Tables Spec.ExprSyntax Proofs.ExprParserRules Proofs.LiteralProofs Proofs.ExprParserProofs Proofs.PlaceholderTextProofs.
From Soy Require Import Model.Outcome Model.MsgId Proofs.MsgIdProofs.
From Soy Require Import Model.RawText Model.Parser Model.AstPrintCmd Spec.CmdSyntax Proofs.CmdRoundtripBase Proofs.CmdRoundtripRules Proofs.CmdRoundtrip.
Open Scope N_scope.

(* Parsing the items of the printed expression gives back the expression itself (positions
   included: every item carries the position of the node it creates), for every fuel above
   some bound, and leaves exactly the items that follow the expression. *)
Theorem C17_parse_print_roundtrip : forall e t rest,
  wf_expr e -> closer t = true ->
  exists st' f0, stream st' = t :: rest /\
    forall f, (f0 <= f)%nat -> parse_expr_top f (tokens_of e ++ t :: rest) = POk e st'.
Proof. exact parse_print_roundtrip. Qed.
Print Assumptions C17_parse_print_roundtrip.

(* Two expressions print the same items (up to positions) only if they are the same
   expression (up to positions). *)
Theorem C17_print_injective : forall e1 e2,
  wf_expr e1 -> wf_expr e2 ->
  map strip_tok (tokens_of e1) = map strip_tok (tokens_of e2) -> strip_pos e1 = strip_pos e2.
Proof. exact print_injective. Qed.
Print Assumptions C17_print_injective.

(* The same for print commands: expression, directives with their arguments, closing brace. *)
Theorem C17_print_command_roundtrip : forall p arg dirs rest,
  wf_print (NPrint p arg dirs) ->
  exists st' f0, stream st' = rest /\
    forall f, (f0 <= f)%nat ->
      parse_print f p (pst_init (tokens_of_print (NPrint p arg dirs) ++ rest)) = POk (NPrint p arg dirs) st'.
Proof. exact parse_print_roundtrip_cmd. Qed.
Print Assumptions C17_print_command_roundtrip.

(* Print commands that print the same items (up to positions) are the same (up to positions). *)
Theorem C17_print_command_injective : forall n1 n2,
  wf_print n1 -> wf_print n2 ->
  map strip_tok (tokens_of_print n1) = map strip_tok (tokens_of_print n2) -> strip_pos n1 = strip_pos n2.
Proof. exact print_command_injective. Qed.
Print Assumptions C17_print_command_injective.

(* "The message extractor identifies placeholders by this text": in the model of
   setPlaceholderNames (Model/MsgId.v, where a placeholder is a pair of base name and String()
   text), two placeholders of one message whose texts are those of well-formed print commands
   get the same name ONLY IF they are the same print command up to positions, and the same
   print command under one base name always gets one name.  [lex] is the scanner, abstract
   here: its one assumed property -- the text printed for a well-formed print command is read
   as the items tokens_of_print gives, up to positions -- is the token correspondence that the
   harness checks on every run; everything else is proved. *)
Theorem C17_placeholders_by_text :
  forall (lex : bstr -> list tok),
  (forall n s, wf_print n -> print_node n = Some s -> map strip_tok (lex s) = map strip_tok (tokens_of_print n)) ->
  forall order body es nm, is_perm order -> msg_entries body = Ok es -> msg_names order body = Ok nm ->
  forall b1 b2 n1 n2 s1 s2,
  wf_print n1 -> wf_print n2 -> print_node n1 = Some s1 -> print_node n2 = Some s2 ->
  In (b1, s1) es -> In (b2, s2) es ->
  (name_of nm b1 s1 = name_of nm b2 s2 -> b1 = b2 /\ strip_pos n1 = strip_pos n2) /\
  (b1 = b2 -> strip_pos n1 = strip_pos n2 -> name_of nm b1 s1 = name_of nm b2 s2).
Proof.
  intros lex Hlex order body es nm Hp Hes Hnm b1 b2 n1 n2 s1 s2 W1 W2 P1 P2 I1 I2. split.
  - exact (same_name_same_command lex Hlex order body es nm Hp Hes Hnm b1 b2 n1 n2 s1 s2 W1 W2 P1 P2 I1 I2).
  - intros -> E. exact (same_command_same_name nm b2 n1 n2 s1 s2 P1 P2 E).
Qed.
Print Assumptions C17_placeholders_by_text.

(* The round trip holds for ANY placement of redundant parentheses, not only the printer's
   minimal one (the C01 syntax theorem; C17 is its instance sty_min). *)
Theorem C17_parse_show : forall sty path e t rest,
  wf_expr e -> closer t = true ->
  exists st' f0, stream st' = t :: rest /\
    forall f, (f0 <= f)%nat -> parse_expr_top f (show sty path e ++ t :: rest) = POk e st'.
Proof. exact parse_show_top. Qed.
Print Assumptions C17_parse_show.

(* The printer model parenthesises by the Soy operator table: finite checks on the tables
   regenerated from ast/node.go and parse/parse.go. *)
Theorem C17_printer_levels : forall e, level_of e = expr_level e.
Proof. exact ast_level_of_is_expr_level. Qed.
Print Assumptions C17_printer_levels.

Theorem C17_parser_levels : forall op,
  is_binary_op (op_tok_typ op) = true /\
  prec_of (op_tok_typ op) = match op with OElvis => 0 | _ => op_level op end.
Proof. intros op. split; [apply op_tok_binary | apply qlev_spec]. Qed.
Print Assumptions C17_parser_levels.

(* Side conditions of wf_expr that are theorems: every int64 literal (FormatInt then ParseInt)
   and every valid UTF-8 map key (escaped by the printer, read by unquoteString) reads back. *)
Theorem C17_int_literals : forall z, in_int64 z = true -> parse_int 10 (dec_of_Z z) = Some z.
Proof. exact LiteralProofs.parse_int_dec. Qed.
Print Assumptions C17_int_literals.

Theorem C17_map_keys : forall k, Utf8.utf8_valid k = true -> key_ok k.
Proof. exact key_ok_valid_utf8. Qed.
Print Assumptions C17_map_keys.

(* The float side condition is decidable ([float_okb], sound: float_okb f = true -> float_ok f).
   NOT a universal theorem: a computed sample -- every dyadic (2k+1)/2^j, k < 300, j in
   {0,1,2,3,5,9,10,14,20}, of either sign, that the printer model can print at all
   (magnitude >= 2^-9, at most 15 significant digits) reads back as itself. *)
Theorem C17_float_checker_sound : forall f, float_okb f = true -> float_ok f.
Proof. exact float_okb_sound. Qed.
Print Assumptions C17_float_checker_sound.

Fixpoint c17_upto (n : nat) : list Z := match n with O => [] | S k => Z.of_nat k :: c17_upto k end.
Definition c17_float_samples : list fl :=
  flat_map (fun k => flat_map (fun j => match mk_fl (2 * k + 1) (- Z.of_nat j) with Some f => [f; fl_neg f] | None => [] end)
                              [0; 1; 2; 3; 5; 9; 10; 14; 20]%nat) (c17_upto 300).
Example C17_float_sample :
  forallb (fun f => match fl_print f with Some _ => float_okb f | None => true end) c17_float_samples = true
  /\ length (filter float_okb c17_float_samples) = 3600%nat.
Proof. vm_compute. split; reflexivity. Qed.

(* ---- non-vacuity: concrete well-formed trees, printed and read back by computation ---- *)
Definition ex_nested : node :=            (* (1 + $a.b?[0]) * -(5) *)
  NBin OMul 9 (NBin OAdd 3 (NInt 2 1) (NDataRef 6 (b "a") [NAccKey 8 false (b "b"); NAccExpr 10 true (NInt 11 0)]))
              (NNeg 14 (NInt 16 5)).
Definition ex_tern : node :=              (* not ($x and y.z) ? ['k\'': 2.5, 'm': []] : f('s', 1e+06) ?: null *)
  NTern 1 (NNot 1 (NBin OAnd 4 (NDataRef 2 (b "x") []) (NGlobal 5 (b "y.z") VUndef)))
          (NMapLit 7 [(b "k'", NFloat 8 (FFin 5 (-1))); (b "m", NListLit 9 [])])
          (NBin OElvis 12 (NFunc 10 (b "f") [NString 11 (b "'s'") (b "s"); NFloat 13 (FFin 15625 6)]) (NNull 14)).

Example C17_wf_nonvacuous : wf_expr ex_nested /\ wf_expr ex_tern.
Proof.
  split; cbn [ex_nested ex_tern wf_expr allP keys_sorted map fst snd pos_of]; unfold key_ok, float_ok;
    repeat match goal with
           | |- _ /\ _ => split
           | |- True => exact I
           | |- exists _, _ => eexists
           | |- _ = _ => vm_compute; reflexivity
           | |- (_ <= _)%Z => vm_compute; discriminate
           end.
Qed.

Example C17_tokens_nonvacuous :
  map t_typ (tokens_of ex_nested) =
    [pk_itemLeftParen; pk_itemInteger; pk_itemAdd; pk_itemDollarIdent; pk_itemDotIdent; pk_itemQuestionKey; pk_itemInteger;
     pk_itemRightBracket; pk_itemRightParen; pk_itemMul; pk_itemNegate; pk_itemLeftParen; pk_itemInteger; pk_itemRightParen]
  /\ print_node ex_nested = Some (b "(1 + $a.b?[0]) * -(5)")
  /\ print_node ex_tern = Some (b "not ($x and y.z) ? ['k\'': 2.5, 'm': []] : f('s',1e+06) ?: null").
Proof. vm_compute. repeat split; reflexivity. Qed.

Example C17_roundtrip_nonvacuous :
  (exists st, parse_expr_top 40 (tokens_of ex_nested ++ [T_rdelim]) = POk ex_nested st) /\
  (exists st, parse_expr_top 60 (tokens_of ex_tern ++ [T_rdelim]) = POk ex_tern st).
Proof. split; eexists; vm_compute; reflexivity. Qed.

(* ---- extension to template bodies (the property's text speaks of expressions and print
   commands; this is the same statement for the command forms whose String() is source syntax
   the parser accepts again: raw text, print, {log}, {debugger}, {let} in both forms,
   {if}/{elseif}/{else}, {for}/{ifempty}, nested to any depth).  Model/Parser.v's itemList
   (parse.go itemList / textOrTag / beginTag and the command parsers, same next/backup/peek
   order as the Go code), started in ANY parser state outside a {msg} that delivers the items
   of a well-formed body followed by "{" and an item u that ends the list, returns that body
   itself for every fuel above some bound, has consumed "{" and u, and leaves the items that
   follow.  Not covered: {switch} (its default case prints as "{case }"), {call}, {msg}, {css},
   templates, soydoc, namespace -- see notes/astprint-reparse.md. ---- *)
Theorem C17_parse_body_roundtrip_partial :
  forall (inlen : N) (lexq : bstr -> list tok) (unq : bstr -> option bstr) (efuel : list tok -> nat)
         x until u rest,
  wf_body x -> good_until until = true -> one_of (t_typ u) until = true ->
  forall s, stream (c_p s) = body_toks x ++ T_ldelim :: u :: rest -> inv (c_p s) -> c_inmsg s = false ->
  exists p', stream p' = rest /\ inv p' /\
    exists f0, forall f, (f0 <= f)%nat -> item_list inlen lexq unq parse_expr efuel f until s = COk x (set_p s p').
Proof.
  intros inlen lexq unq efuel x until u rest Hwf Hg Hu s Hs Hi Hm.
  destruct (parse_body_roundtrip inlen lexq unq efuel x until u rest Hwf Hg Hu s Hs Hi Hm) as (p' & H1 & H2 & _ & _ & f0 & HF).
  exists p'. split; [exact H1|]. split; [exact H2|]. exists f0. intros f Hf. exact (HF f f Hf Hf).
Qed.
Print Assumptions C17_parse_body_roundtrip_partial.

(* every list of closing items the parser uses for a body is "good": no item that starts a
   command or text of a body can be mistaken for the end of the list *)
Example C17_until_lists_good :
  forallb good_until [u_log; u_let; u_if; u_for; u_ifempty; u_template; u_param; u_case; u_msg] = true.
Proof. vm_compute. reflexivity. Qed.

(* non-vacuity: a body with every covered form, well-formed, printed, and read back by computation *)
Definition ex_body : node :=
  NList 5 [ NRawText 5 (b "Hi ");
            NPrint 7 (NDataRef 7 (b "a") []) [NDirective 8 (b "truncate") [NInt 9 5]];
            NIf 11 [ NIfCond 11 (Some (NBin OAnd 13 (NDataRef 12 (b "a") []) (NNot 14 (NDataRef 15 (b "b") [])))) (NList 16 [NRawText 16 (b "x")]);
                     NIfCond 11 (Some (NDataRef 17 (b "c") [])) (NList 0 []);
                     NIfCond 11 None (NList 0 [NDebugger 18]) ];
            NFor 20 (b "i") (NFunc 21 (b "range") [NInt 22 3])
                 (NList 0 [NLetValue 23 (b "v") (NBin OAdd 25 (NDataRef 24 (b "i") []) (NInt 26 1)); NPrint 27 (NDataRef 27 (b "v") []) []])
                 (Some (NList 28 [NRawText 28 (b "none")]));
            NLetContent 30 (b "w") (NList 0 [NLog 31 (NList 32 [NRawText 32 (b "in log")])]) ].

Example C17_body_wf_nonvacuous : wf_body ex_body.
Proof.
  cbn. unfold key_ok, float_ok.
  repeat match goal with
         | |- _ /\ _ => split
         | |- True => exact I
         | |- _ = _ => vm_compute; reflexivity
         | |- _ <> _ => discriminate
         end.
Qed.

Example C17_body_prints_nonvacuous :
  print_tree ex_body = Some (b "Hi {$a|truncate:5}{if $a and not $b}x{elseif $c}{else}{debugger}{/if}{for $i in range(3)}{let $v: $i + 1 /}{$v}{ifempty}none{/for}{let $w}{log}in log{/log}{/let}").
Proof. vm_compute. reflexivity. Qed.

Example C17_body_roundtrip_nonvacuous :
  exists s, item_list 0 (fun _ => []) (fun _ => None) parse_expr (fun _ => 0%nat) 60 u_template
              (cst_init (body_toks ex_body ++ [T_ldelim; kw pit_TemplateEnd 0; T_rdelim])) = COk ex_body s.
Proof. eexists. vm_compute. reflexivity. Qed.
