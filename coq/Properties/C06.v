(* C06 -- placeholder while the harness is brought up; theorems follow. *)
From Soy Require Import Model.InterpSafety Model.Globals.
