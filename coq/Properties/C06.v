(* C06 -- Rendering any compiled bundle with any data returns output or an error.

   "For any bundle the compiler accepts and any data and injected-data values,
   rendering a template, evaluating a standalone expression and parsing a
   globals file all return normally with either a result or an error value.  No
   Go panic escapes to the caller and no loop runs unboundedly on finite data,
   whatever the types or shapes of the data, the arities and argument types of
   functions and directives, or the failure inside a called template."

   Model: Model/Interp.v (tree walker, Renderer.Execute, errRecover inlined),
   Model/InterpSafety.v (funcRange's loop with its own fuel, errRecover /
   errFromNode / callAnnotation, EvalExpr through the handler), Model/Globals.v
   (ParseGlobals), Model/Compile.v (Registry.Add).  The model describes the tree
   AFTER the repairs 7dace66 (EvalExpr nil template), 1d02d41 (range step <= 0),
   3930821 (range index overflow), 4041f47 (duplicate template names), 1453953
   (message parts positioned inside the text); the pinned behaviour is kept as
   [..._refuted] / [..._diverges] witnesses.

   Outcomes: [Ok] / [Err] = returns with a result / an error value; [Crash] = a
   panic reaches the caller; [Diverge] = a loop never exits; [OutOfFuel] = the
   model's recursion budget (nesting + call depth) ran out -- "recursion
   restricted to data-bounded depth"; [OutOfModel] = the VALUE is outside the
   model: a float result that is not a dyadic rational of 53 bits (to_float /
   of_fl / fl_to_string, round with digits <> 0, floor/ceiling/round of a
   non-finite float), randomInt with a positive bound, the directives
   escapeJsString and json.  In Go all of these are total library calls made
   inside evalFunc's / evalPrint's recover wrappers, so they return or raise an
   [Err]; the correspondence checks exactly that on every such case. *)
From Coq Require Import Lia.
(* source tie by translation: the lemmas of these files are obligations of this property *)
From Soy Require Import Proofs.SourceTieData Proofs.SourceTieHtml Proofs.SourceTieScope Proofs.SourceTieRegistry Proofs.SourceTieDirectives Proofs.SourceTieWordBreaks.
From Soy Require Import Model.Bytes Model.Num Model.Values Model.Outcome Model.Ast
  Model.Escape Model.Directives Model.Print Generated.Tables Model.Interp Model.InterpSafety Model.Globals
  Model.Compile Model.ExprPipeline Model.InterpJson Spec.Safety
  Proofs.SafetyPure Proofs.SafetyProofs Proofs.SafetyEntry Proofs.SafetyFuel Proofs.SafetyCompile Proofs.SafetyMono
  Proofs.SafetyDepth Proofs.SafetyBytes Proofs.SafetyUser Proofs.SafetyExt Proofs.SafetyRefine Proofs.SafetyMarker.
From Soy Require Import Model.JsGen Spec.SafetyJs Proofs.SafetyJsGen Proofs.SafetyJsFuel Proofs.SafetyJsMono.
From Soy Require Import Model.NumJson Spec.Json Proofs.MsgIdProofs Proofs.CodecJsonNum Proofs.NumJsonProofs.
Open Scope N_scope.

(* ================================================================== *)
(* Rendering                                                           *)
(* ================================================================== *)

(* Renderer.Execute, for EVERY configuration with a well-formed registry (any injected data or none,
   any obligatory directive names), every template name, data map, writer fault automaton and fuel:
   never a panic out of Execute, never a loop that does not exit. *)
Theorem C06_render_no_escape :
  forall cf fuel name data_id data calls_left bytes_left first_id,
    reg_ok (c_reg cf) = true ->
    no_escape (rr_outcome (render cf fuel name data_id data calls_left bytes_left first_id)).
Proof. exact render_no_escape_lemma. Qed.
Print Assumptions C06_render_no_escape.

(* the part of [reg_ok] the proof uses: positions inside the source recorded under the template's name *)
Theorem C06_render_no_escape_pos :
  forall cf fuel name data_id data calls_left bytes_left first_id,
    reg_pos_ok (c_reg cf) = true ->
    no_escape (rr_outcome (render cf fuel name data_id data calls_left bytes_left first_id)).
Proof. exact render_no_escape_pos. Qed.
Print Assumptions C06_render_no_escape_pos.

(* the walker itself, on ANY node (ill-typed, wrong arities, unknown names, nodes no parser produces),
   in ANY state, under ANY registry: functions and directives of the regenerated tables only *)
Theorem C06_walk_no_escape :
  forall cf fuel n st, no_escape (fst (walk cf fuel n st)).
Proof. exact walk_no_escape. Qed.
Print Assumptions C06_walk_no_escape.

(* [OutOfFuel] is about nesting only.  For a bundle whose call graph is acyclic (ranks decrease along
   every call) the budget  (tallest template) x (rank of the entry + 1)  is enough, and then the
   outcome is a result, an error value, or a value outside the float/randomInt/json model. *)
Theorem C06_render_total_ranked :
  forall cf rank fuel name data_id data calls_left bytes_left first_id,
    reg_ok (c_reg cf) = true -> reg_ranked rank (c_reg cf) = true ->
    (reg_height (c_reg cf) * S (rank name) <= fuel)%nat ->
    match rr_outcome (render cf fuel name data_id data calls_left bytes_left first_id) with
    | Ok _ | Err _ | OutOfModel => True
    | _ => False
    end.
Proof. exact render_total_ranked. Qed.
Print Assumptions C06_render_total_ranked.

(* a call-free tree needs its own tree_height, under any registry and in any state *)
Theorem C06_walk_fuel_callfree :
  forall cf fuel n st, call_free n = true -> (tree_height n <= fuel)%nat -> nf (fst (walk cf fuel n st)).
Proof. intros cf fuel n st Hc Hf. apply fuel_ok_nf. apply walk_fuel_callfree; assumption. Qed.
Print Assumptions C06_walk_fuel_callfree.

(* the budget is only an approximation index: an outcome other than OutOfFuel obtained with some fuel is
   the outcome -- with the same accepted writes and the same reported file and line -- for every larger
   fuel.  So on a recursive bundle OutOfFuel can only mean "the calls nest deeper than the budget", never
   a hidden crash or a hidden endless loop: with C06_render_no_escape, either every budget is too small
   (unbounded recursion, outside the statement) or from some budget on the render gives one fixed
   result-or-error. *)
Theorem C06_render_fuel_monotone :
  forall cf f f' name data_id data calls_left bytes_left first_id,
    (f <= f')%nat ->
    rr_outcome (render cf f name data_id data calls_left bytes_left first_id) <> OutOfFuel ->
    render cf f' name data_id data calls_left bytes_left first_id
    = render cf f name data_id data calls_left bytes_left first_id.
Proof. exact render_fuel_monotone. Qed.
Print Assumptions C06_render_fuel_monotone.

Theorem C06_walk_fuel_monotone :
  forall cf f f' n st r st',
    (f <= f')%nat -> walk cf f n st = (r, st') -> r <> OutOfFuel -> walk cf f' n st = (r, st').
Proof. exact walk_fuel_monotone. Qed.
Print Assumptions C06_walk_fuel_monotone.

(* RECURSIVE bundles: the quantitative bound.  "The call depth a run reaches" is stated with the capped
   walker of Model/InterpSafety.v section 4 ([walk_cap cf d]: the walker that answers [Err e_capped] instead
   of walking a node at call depth above d): [run_depth_le cf d n st] (Spec/Safety.v) says that under some
   budget the d-capped walker finishes with an answer that is neither "budget exhausted" nor "cap hit".
   Then EVERY fuel >= (tallest template) x (d + 1) gives a result, an error value or a value outside the
   float model -- whatever the call graph -- and the whole render result is the same for all such fuels. *)
Theorem C06_render_total_depth :
  forall cf d fuel name data_id data calls_left bytes_left first_id t,
    reg_ok (c_reg cf) = true ->
    find_template (r_templates (c_reg cf)) name = Some t ->
    run_depth_le cf d (t_node t)
      (init_state (sc_enter (new_scope data_id data)) (entry_mode (t_ns_autoescape t)) name calls_left bytes_left first_id) ->
    (reg_height (c_reg cf) * S d <= fuel)%nat ->
    match rr_outcome (render cf fuel name data_id data calls_left bytes_left first_id) with
    | Ok _ | Err _ | OutOfModel => True
    | _ => False
    end
    /\ forall fuel', (reg_height (c_reg cf) * S d <= fuel')%nat ->
         render cf fuel' name data_id data calls_left bytes_left first_id
         = render cf fuel name data_id data calls_left bytes_left first_id.
Proof. exact render_total_depth. Qed.
Print Assumptions C06_render_total_depth.

(* the walker itself, from call depth 0 on any tree no taller than the tallest template *)
Theorem C06_walk_fuel_depth :
  forall cf d n st fuel,
    run_depth_le cf d n st ->
    depth_ st = 0%nat -> (tree_height n <= reg_height (c_reg cf))%nat ->
    (reg_height (c_reg cf) * S d <= fuel)%nat ->
    nf (fst (walk cf fuel n st)) /\
    forall fuel', (reg_height (c_reg cf) * S d <= fuel')%nat -> walk cf fuel' n st = walk cf fuel n st.
Proof. exact walk_fuel_depth. Qed.
Print Assumptions C06_walk_fuel_depth.

(* every run that does not run out of fuel has such a d: a run with fuel f cannot nest more than f calls, so
   started at call depth 0 the walker capped at f is the walker.  ([e_capped] is the instrument's own marker;
   that the plain walker never ends with it is C06_walk_never_capped below, so "the fuel sufficed" is the only
   hypothesis.) *)
Theorem C06_answer_has_depth :
  forall cf f n st, depth_ st = 0%nat -> fst (walk cf f n st) <> OutOfFuel -> run_depth_le cf f n st.
Proof. exact walk_answer_has_depth_nofuel. Qed.
Print Assumptions C06_answer_has_depth.

(* the error texts of the plain walker: an [Err e] of [Interp.walk] carries one of the finitely many texts of
   [walker_texts] (the constants Model/Interp.v fails with and those of the pure helpers it lifts), whatever
   the configuration, node, state and fuel; the marker of the depth instrument is not one of them *)
Theorem C06_walk_err_text :
  forall cf f n st e, fst (walk cf f n st) = Err e -> walker_text e = true.
Proof. exact walk_err_text. Qed.
Print Assumptions C06_walk_err_text.
Theorem C06_walk_never_capped :
  forall cf f n st, fst (walk cf f n st) <> Err e_capped.
Proof. exact walk_never_capped. Qed.
Print Assumptions C06_walk_never_capped.

(* the three facts behind it.  (a) the budget pays for every run that stays within d nested calls:
   started at call depth k <= d with tree_height n + reg_height * (d - k) fuel, the capped walker ends at
   call depth k and never in a crash, a divergence or fuel exhaustion *)
Theorem C06_walk_cap_fuel :
  forall cf d fuel n k st r st',
    (k <= d)%nat -> (tree_height n + reg_height (c_reg cf) * (d - k) <= fuel)%nat ->
    depth_ st = k -> walk_cap cf d fuel n st = (r, st') ->
    depth_ st' = k /\ nf r.
Proof. exact walk_cap_fuel_nf. Qed.
Print Assumptions C06_walk_cap_fuel.

(* (b) the capped walker reports the cap or IS the walker: same outcome, same final state *)
Theorem C06_walk_cap_is_walk :
  forall cf d f n st, fst (walk_cap cf d f n st) = Err e_capped \/ walk_cap cf d f n st = walk cf f n st.
Proof. exact walk_cap_approx. Qed.
Print Assumptions C06_walk_cap_is_walk.

(* (c) an answer of the capped walker does not depend on the budget or the cap that produced it, so
   [run_depth_le] is a property of the run, upward closed in d *)
Theorem C06_walk_cap_monotone :
  forall cf d d' f f' n st,
    (d <= d')%nat -> (f <= f')%nat -> is_answer (fst (walk_cap cf d f n st)) ->
    walk_cap cf d' f' n st = walk_cap cf d f n st.
Proof. exact walk_cap_monotone. Qed.
Print Assumptions C06_walk_cap_monotone.

(* ================================================================== *)
(* errRecover                                                          *)
(* ================================================================== *)

Theorem C06_err_recover_safe :
  forall v,
    match rv_tmpl v with
    | None => True
    | Some name =>
        match assoc_s name (r_sources (rv_reg v)) with
        | Some src => rv_pos v <= N.of_nat (length src)
        | None => True
        end
    end ->
    exists file line, err_recover true v = Ok (file, line).
Proof. exact err_recover_safe_lemma. Qed.
Print Assumptions C06_err_recover_safe.

(* Interp.render inlines exactly that handler: same outcome (up to the text of a crash), file and line *)
Theorem C06_render_uses_err_recover :
  forall cf fuel name data_id data calls_left bytes_left first_id t,
    find_template (r_templates (c_reg cf)) name = Some t ->
    (assoc_s name (r_sources (c_reg cf)) = None <-> assoc_s name (r_files (c_reg cf)) = None) ->
    let st0 := init_state (sc_enter (new_scope data_id data)) (entry_mode (t_ns_autoescape t)) name calls_left bytes_left first_id in
    let run := walk cf fuel (t_node t) st0 in
    let rr := render cf fuel name data_id data calls_left bytes_left first_id in
    (crash_class (rr_outcome rr), rr_file rr, rr_line rr) =
    (let '(o, f, l) := finish_render true {| rv_reg := c_reg cf; rv_tmpl := Some name; rv_pos := cur (snd run) |} (fst run) in
     (crash_class o, f, l)).
Proof. exact render_uses_err_recover. Qed.
Print Assumptions C06_render_uses_err_recover.

(* ================================================================== *)
(* range                                                               *)
(* ================================================================== *)

(* funcRange's loop, run with its own fuel: a positive step always leaves through the loop condition
   (or the overflow guard) and yields exactly i, i+step, ... below the limit; a step <= 0 is an error *)
Theorem C06_range_terminates :
  forall i limit step, (limit < two63)%Z ->
    func_range_repaired i limit step =
      if (step <=? 0)%Z then Err e_range
      else Ok (map (fun k => VInt (i + Z.of_nat k * step)) (seq 0 (range_count i limit step))).
Proof.
  intros i limit step Hl. destruct (Z.leb_spec step 0) as [Hs|Hs].
  - rewrite range_terminates_lemma by exact Hl. destruct (Z.leb_spec step 0); [reflexivity | lia].
  - apply range_result; [lia | exact Hl].
Qed.
Print Assumptions C06_range_terminates.

(* the list Interp.apply_func computes for range() is that loop's result *)
Theorem C06_range_model_agrees :
  forall i limit step, (limit < two63)%Z -> (0 < step)%Z ->
    func_range_repaired i limit step = Ok (range_list (Z.to_nat ((limit - i) / step + 1)) i limit step).
Proof.
  intros i limit step Hl Hs. rewrite range_terminates_lemma by exact Hl.
  destruct (Z.leb_spec step 0); [lia | reflexivity].
Qed.
Print Assumptions C06_range_model_agrees.

Theorem C06_range_no_escape : forall i limit step, no_escape (func_range_repaired i limit step).
Proof. exact range_no_escape. Qed.
Print Assumptions C06_range_no_escape.

(* ================================================================== *)
(* EvalExpr, ParseGlobals, Registry.Add                                *)
(* ================================================================== *)

Theorem C06_eval_expr_no_escape : forall fuel n, no_escape (eval_expr_impl true fuel n).
Proof. exact eval_expr_no_escape_lemma. Qed.
Print Assumptions C06_eval_expr_no_escape.

(* for every expression parser that itself returns a tree or an error (C05), every input *)
Theorem C06_parse_globals_no_escape :
  forall (parse : bstr -> outcome node), (forall t, no_escape (parse t)) ->
  forall fuel input, no_escape (parse_globals parse fuel input).
Proof. exact parse_globals_no_escape_lemma. Qed.
Print Assumptions C06_parse_globals_no_escape.

(* ---- the same two entry points as functions of BYTE STRINGS: scanner model (lexExpr, Model/Lexer.v),
   expression parser model (parse.Expr, Model/Parser.v + Model/ExprParser.v) and the evaluator with the nil
   template, composed (Model/ExprPipeline.v).  No hypothesis about a parser is left. ---- *)

(* parse.Expr on ANY bytes: a tree, an error, or a float literal outside the parser model's float domain *)
Theorem C06_parse_expr_bytes_total :
  forall s : bstr, match parse_expr_bytes s with Ok _ | Err _ | OutOfModel => True | _ => False end.
Proof. exact parse_expr_bytes_total. Qed.
Print Assumptions C06_parse_expr_bytes_total.

(* EvalExpr on what parse.Expr makes of ANY bytes *)
Theorem C06_eval_expr_bytes_no_escape : forall fuel (s : bstr), no_escape (eval_expr_bytes fuel s).
Proof. exact eval_expr_bytes_no_escape. Qed.
Print Assumptions C06_eval_expr_bytes_no_escape.

(* ParseGlobals on ANY input bytes *)
Theorem C06_parse_globals_bytes_no_escape : forall fuel (input : bstr), no_escape (parse_globals_bytes fuel input).
Proof. exact parse_globals_bytes_no_escape. Qed.
Print Assumptions C06_parse_globals_bytes_no_escape.

(* budgets: EvalExpr runs without a registry, so no callee is ever entered and the height of the tree is
   enough fuel for ANY tree; with it the three entry points answer -- a value, an error value, or a value
   outside the float model -- on every tree / every byte string *)
Theorem C06_eval_expr_total :
  forall fuel n, (tree_height n <= fuel)%nat ->
    match eval_expr_impl true fuel n with Ok _ | Err _ | OutOfModel => True | _ => False end.
Proof. exact eval_expr_impl_total. Qed.
Print Assumptions C06_eval_expr_total.

Theorem C06_eval_expr_text_total :
  forall s : bstr, match eval_expr_text s with Ok _ | Err _ | OutOfModel => True | _ => False end.
Proof. exact eval_expr_text_total. Qed.
Print Assumptions C06_eval_expr_text_total.

Theorem C06_parse_globals_bytes_total :
  forall fuel (input : bstr), (globals_fuel input <= fuel)%nat ->
    match parse_globals_bytes fuel input with Ok _ | Err _ | OutOfModel => True | _ => False end.
Proof. exact parse_globals_bytes_total. Qed.
Print Assumptions C06_parse_globals_bytes_total.

(* what Bundle.Compile's loop over Registry.Add builds is well-formed, given that the parser numbers
   the nodes of each template inside the file's text *)
Theorem C06_compiled_reg_ok :
  forall srcs r,
    (forall f, In (SrcOk f) srcs -> file_pos_ok f = true) ->
    add_all_files empty_creg srcs = COk r -> reg_ok (cr_reg r) = true.
Proof. exact compiled_reg_ok. Qed.
Print Assumptions C06_compiled_reg_ok.

Theorem C06_registry_add_never_panics : forall r f, registry_add r f <> inl AEIndexCrash.
Proof. exact registry_add_never_panics. Qed.
Print Assumptions C06_registry_add_never_panics.

(* ================================================================== *)
(* Functions and directives supplied by the user                       *)
(* ================================================================== *)

(* Model/InterpSafety.v section 5: the user's Go code is a parameter that returns a value (possibly nil),
   panics, or does not return.  What the recover wrappers of evalFunc / evalPrint guarantee: *)

(* returning anything or panicking with anything: a value or an error value *)
Theorem C06_recover_func_answers : forall r, r <> UNoReturn -> nf (recover_func r).
Proof. exact recover_func_answers. Qed.
Print Assumptions C06_recover_func_answers.

Theorem C06_recover_directive_answers : forall r, r <> UNoReturn -> nf (recover_directive r).
Proof. exact recover_directive_answers. Qed.
Print Assumptions C06_recover_directive_answers.

(* the walker with ANY user functions (they may shadow builtins) and ANY user directives (a directive
   receives and returns a VALUE): never a panic out, never a loop of the walker's own, provided each
   returns or panics on every input *)
Theorem C06_walk_user_no_escape :
  forall cf (ufuncs : bstr -> option user_func) (udirs : bstr -> option user_directive),
    (forall name uf vs, ufuncs name = Some uf -> uf_apply uf vs <> UNoReturn) ->
    (forall name ud v args, udirs name = Some ud -> ud_apply ud v args <> UNoReturn) ->
    forall fuel n st, no_escape (fst (walk_user cf ufuncs udirs fuel n st)).
Proof. exact walk_user_no_escape'. Qed.
Print Assumptions C06_walk_user_no_escape.

(* Renderer.Execute with them, incl. the code inside errRecover (positions stay inside the source) *)
Theorem C06_render_user_no_escape :
  forall cf (ufuncs : bstr -> option user_func) (udirs : bstr -> option user_directive)
         fuel name data_id data calls_left bytes_left first_id,
    (forall name uf vs, ufuncs name = Some uf -> uf_apply uf vs <> UNoReturn) ->
    (forall name ud v args, udirs name = Some ud -> ud_apply ud v args <> UNoReturn) ->
    reg_ok (c_reg cf) = true ->
    no_escape (rr_outcome (render_hook cf (funcs_with_user ufuncs) (dirs_with_user udirs)
                             fuel name data_id data calls_left bytes_left first_id)).
Proof. exact render_user_no_escape'. Qed.
Print Assumptions C06_render_user_no_escape.

(* the hooked walker satisfies EVERY walker logic of Proofs/InterpLogic.v whose pure-site condition holds
   of the hooked calls (the wrapped function calls; the Write calls of a print; the application of one directive
   inside evalPrint's loop, which applies each directive right after its own arguments): the other invariants of the
   walker (C08, C12, ...) extend to user code the same way *)
Theorem C06_walk_hook_logic :
  forall cf fhooks dir_table (Phi : forall A : Type, M A -> Prop) (pure_ok : forall A : Type, outcome A -> Prop),
    InterpLogic.walker_logic Phi pure_ok -> InterpLogic.pure_sites pure_ok ->
    (forall name h vs, fhooks name = Some h -> pure_ok _ (fh_apply h vs)) ->
    (forall mode ds v, pure_ok _ (print_writes_hook dir_table mode ds v)) ->
    (forall ds v esc, pure_ok _ (apply_dirs_hook dir_table ds v esc)) ->
    forall fuel n, Phi _ (walk_hook cf fhooks dir_table fuel n).
Proof. exact walk_hook_logic. Qed.
Print Assumptions C06_walk_hook_logic.

(* the limit: user code that does not return is not turned into an error by any wrapper *)
Theorem C06_user_noreturn_not_covered : recover_func UNoReturn = Diverge /\ recover_directive UNoReturn = Diverge.
Proof. exact user_noreturn_not_covered. Qed.
Print Assumptions C06_user_noreturn_not_covered.

(* ================================================================== *)
(* The extended model: escapeJsString, json, round with digits         *)
(* ================================================================== *)

(* Model/InterpJson.v: the three library calls Model/Interp.v answers [OutOfModel] for, as hooked entries:
   the walker and Renderer.Execute with them never let a panic out and never spin ... *)
Theorem C06_walk_x_no_escape : forall cf fuel n st, no_escape (fst (walk_xj cf fuel n st)).
Proof. exact walk_x_no_escape. Qed.
Print Assumptions C06_walk_x_no_escape.

Theorem C06_render_x_no_escape :
  forall cf fuel name data_id data calls_left bytes_left first_id,
    reg_ok (c_reg cf) = true ->
    no_escape (rr_outcome (render_xj cf fuel name data_id data calls_left bytes_left first_id)).
Proof. exact render_x_no_escape. Qed.
Print Assumptions C06_render_x_no_escape.

(* ... and the new entries are INSIDE the model: json of any value without floats is a string, whatever the
   value's String() does (a list holding undefined prints null); escapeJsString is a string wherever
   String() is; json / round on floats answer in the float model's domain, NaN and the infinities under
   json are directiveJson's panic, i.e. an error value *)
Theorem C06_json_total_float_free :
  forall v args, float_free v = true -> exists s, dir_json (Some v) args = Ok (Some (VStr s)).
Proof. exact json_total_float_free. Qed.
Print Assumptions C06_json_total_float_free.

Theorem C06_escape_js_total :
  forall v args s, value_string v = Ok s -> dir_escape_js (Some v) args = Ok (Some (VStr (JsEscape.js_escape_soy jsstr_pair_html is_print_tbl s))).
Proof. exact dir_escape_js_total. Qed.
Print Assumptions C06_escape_js_total.

(* the extended model is a conservative extension of the shared walker: every successful run of
   Interp.walk (outcome Ok) is reproduced exactly -- value, final state, Write calls -- by walk_xj, and every
   successful render by render_xj.  (Where Interp.walk answers OutOfModel the extended model computes; where
   it answers an error the extended model answers an error too except under |json, which prints values
   whose String() panics.) *)
Theorem C06_walk_x_agrees :
  forall cf f n st v st', walk cf f n st = (Ok v, st') -> walk_xj cf f n st = (Ok v, st').
Proof. exact walk_x_agrees. Qed.
Print Assumptions C06_walk_x_agrees.

Theorem C06_render_x_agrees :
  forall cf fuel name data_id data calls_left bytes_left first_id,
    rr_outcome (render cf fuel name data_id data calls_left bytes_left first_id) = Ok tt ->
    render_xj cf fuel name data_id data calls_left bytes_left first_id
    = render cf fuel name data_id data calls_left bytes_left first_id.
Proof. exact render_x_agrees. Qed.
Print Assumptions C06_render_x_agrees.

Example C06_ex_json :
  dir_json (Some (VList 5 [VInt 1; VUndef; VStr (b "a<b"); VMap 6 [(b "k", VBool true); (b "a", VNull)]])) []
    = Ok (Some (VStr (b "[1,null,""a\u003cb"",{""a"":null,""k"":true}]")))
  /\ is_err (dir_json (Some (VFloat FNaN)) []) = true
  /\ dir_json (Some (VFloat (FFin 3 (-1)))) [] = Ok (Some (VStr (b "1.5")))
  /\ dir_json (Some (VList 0 [])) [] = Ok (Some (VStr (if json_nil_null then b "null" else b "[]")))   (* a nil list: [] since /repo 234aef6, read from the source *)
  /\ dir_json None [] = Ok (Some (VStr (b "null"))).
Proof. vm_compute. repeat split; reflexivity. Qed.
Example C06_ex_round_digits :
  round_x [VFloat (FFin 5 (-1)); VInt 1] = Ok (VFloat (FFin 5 (-1)))           (* round(2.5, 1) = 2.5 *)
  /\ round_x [VFloat (FFin 5 (-2)); VInt 1] = OutOfModel                        (* round(1.25, 1) = 1.3 *)
  /\ round_x [VFloat (FFin 5 (-1))] = Ok (VInt 3).
Proof. vm_compute. repeat split; reflexivity. Qed.

(* ================================================================== *)
(* Non-vacuity                                                         *)
(* ================================================================== *)

Definition ex_src : bstr := Eval vm_compute in
  b "{namespace a}{template .t}x{1 < 'a'}{call .u /}{/template}{template .u}y{$ij.k}{/template}".
Definition ex_t : node :=
  NTemplate 13 (b "a.t") (NList 26 [NRawText 26 (b "x");
                                    NPrint 27 (NBin OLt 28 (NInt 28 1) (NString 32 (b "'a'") (b "a"))) [];
                                    NCall 37 (b "a.u") false None []]) 0 false.
Definition ex_u : node :=
  NTemplate 59 (b "a.u") (NList 72 [NRawText 72 (b "y"); NPrint 73 (NDataRef 74 (b "ij") [NAccKey 77 false (b "k")]) []]) 0 false.
Definition ex_reg : registry :=
  {| r_templates := [ {| t_name := b "a.t"; t_node := ex_t; t_ns_name := b "a"; t_ns_autoescape := 0; t_params := []; t_file := b "f.soy" |};
                      {| t_name := b "a.u"; t_node := ex_u; t_ns_name := b "a"; t_ns_autoescape := 0; t_params := []; t_file := b "f.soy" |} ];
     r_sources := [(b "a.t", ex_src); (b "a.u", ex_src)];
     r_files := [(b "a.t", b "f.soy"); (b "a.u", b "f.soy")] |}.
Definition ex_cf : cfg := {| c_reg := ex_reg; c_ij := None; c_oblig := []; c_msgs := None |}.
Definition ex_rank (name : bstr) : nat := if bstr_eqb name (b "a.t") then 1%nat else 0%nat.

Example C06_ex_reg_ok : reg_ok ex_reg = true.
Proof. vm_compute. reflexivity. Qed.
Example C06_ex_reg_ranked : reg_ranked ex_rank ex_reg = true.
Proof. vm_compute. reflexivity. Qed.
(* the ill-typed comparison is an error value with file and line, after one accepted write *)
Example C06_ex_render_err :
  let r := render ex_cf 100 (b "a.t") 2 [] None None 10 in
  is_err (rr_outcome r) = true /\ rr_writes r = [b "x"] /\ rr_file r = b "f.soy" /\ rr_line r = 1.
Proof. vm_compute. repeat split; reflexivity. Qed.
(* an error raised inside the called template (no injected data) comes back as an error value too *)
Example C06_ex_render_nested_err :
  is_err (rr_outcome (render ex_cf 100 (b "a.u") 2 [] None None 10)) = true.
Proof. vm_compute. reflexivity. Qed.
(* the fuel bound of C06_render_total_ranked on this bundle *)
Example C06_ex_fuel : (reg_height ex_reg * S (ex_rank (b "a.t")) = 10)%nat.
Proof. vm_compute. reflexivity. Qed.

(* two inputs under the same (empty) file name, a long one and a short one: well-formed, and an error at
   the end of the long one is reported against the long one's own text (line 3) *)
Definition same_long : bstr := Eval vm_compute in
  b ("{namespace l}" ++ String (ascii_of_N 10) ("// padding padding padding padding padding" ++ String (ascii_of_N 10) "{template .t}{1 < 'a'}{/template}")).
Definition same_short : bstr := Eval vm_compute in b "{namespace s}{template .t}x{/template}".
Definition same_reg : registry :=
  {| r_templates := [ {| t_name := b "l.t"; t_node := NTemplate 57 (b "l.t") (NList 70 [NPrint 70 (NBin OLt 71 (NInt 71 1) (NString 75 (b "'a'") (b "a"))) []]) 0 false;
                         t_ns_name := b "l"; t_ns_autoescape := 0; t_params := []; t_file := [] |};
                      {| t_name := b "s.t"; t_node := NTemplate 13 (b "s.t") (NList 26 [NRawText 26 (b "x")]) 0 false;
                         t_ns_name := b "s"; t_ns_autoescape := 0; t_params := []; t_file := [] |} ];
     r_sources := [(b "l.t", same_long); (b "s.t", same_short)];
     r_files := [(b "l.t", []); (b "s.t", [])] |}.
Example C06_ex_same_file_name :
  reg_ok same_reg = true /\
  let r := render {| c_reg := same_reg; c_ij := None; c_oblig := []; c_msgs := None |} 100 (b "l.t") 2 [] None None 10 in
  is_err (rr_outcome r) = true /\ rr_line r = 3.
Proof. vm_compute. repeat split; reflexivity. Qed.

(* a RECURSIVE bundle: .down calls itself n times on the data.  The run on n = 3 stays within 3 nested
   calls and not within 2; reg_height * (3 + 1) = 36 fuel gives the output *)
Definition rec_down : node :=
  NTemplate 13 (b "r.down")
    (NList 30 [NIf 30 [NIfCond 30 (Some (NBin OGt 37 (NDataRef 34 (b "n") []) (NInt 39 0)))
                          (NList 41 [NPrint 41 (NDataRef 42 (b "n") []) [];
                                     NCall 45 (b "r.down") false None
                                       [NParamValue 57 (b "n") (NBin OSub 69 (NDataRef 66 (b "n") []) (NInt 71 1))]]);
                        NIfCond 82 None (NList 88 [NRawText 88 (b "end")])]]) 0 false.
Definition rec_reg : registry :=
  {| r_templates := [ {| t_name := b "r.down"; t_node := rec_down; t_ns_name := b "r"; t_ns_autoescape := 0; t_params := [(b "n", true)]; t_file := b "r.soy" |} ];
     r_sources := [(b "r.down", repeat 32 100)];
     r_files := [(b "r.down", b "r.soy")] |}.
Definition rec_cf : cfg := {| c_reg := rec_reg; c_ij := None; c_oblig := []; c_msgs := None |}.
Definition rec_st0 (n : Z) : mstate :=
  init_state (sc_enter (new_scope 2 [(b "n", VInt n)])) (entry_mode 0) (b "r.down") None None 10.

Example C06_ex_rec_reg_ok : reg_ok rec_reg = true /\ reg_height rec_reg = 9%nat.
Proof. vm_compute. split; reflexivity. Qed.
Example C06_ex_rec_depth : run_depth_le rec_cf 3 rec_down (rec_st0 3).
Proof. exists 100%nat. split; vm_compute; discriminate. Qed.
Example C06_ex_rec_depth_tight : fst (walk_cap rec_cf 2 100 rec_down (rec_st0 3)) = Err e_capped.
Proof. vm_compute. reflexivity. Qed.
Example C06_ex_rec_render :
  let r := render rec_cf 36 (b "r.down") 2 [(b "n", VInt 3)] None None 10 in
  rr_outcome r = Ok tt /\ concat_b (rr_writes r) = b "321end".
Proof. vm_compute. split; reflexivity. Qed.

(* the byte-string entry points really scan, parse and evaluate *)
Example C06_ex_eval_bytes :
  eval_expr_bytes 20 (b "1 + 2 * 3") = Ok (VInt 7)
  /\ is_err (eval_expr_bytes 20 (b "1 < 'a'")) = true
  /\ is_err (eval_expr_bytes 20 (b "1 +")) = true
  /\ is_err (eval_expr_bytes 20 (b "'unterminated")) = true.
Proof. vm_compute. repeat split; reflexivity. Qed.
Example C06_ex_globals_bytes :
  parse_globals_bytes 20 (b ("a = 1 + 1" ++ String (ascii_of_N 10) ("// c = 3" ++ String (ascii_of_N 10) "b.c = 'x'")))
  = Ok [(b "a", VInt 2); (b "b.c", VStr (b "x"))]
  /\ is_err (parse_globals_bytes 20 (b "a = -'x'")) = true.
Proof. vm_compute. split; reflexivity. Qed.

(* ================================================================== *)
(* The pinned behaviours, as witnesses                                 *)
(* ================================================================== *)

(* a template name defined in two files: Template() finds the first file's nodes, the source map
   holds the last file's text; an error at a node beyond that text panics inside errRecover *)
Definition dup_reg : registry :=
  {| r_templates := [ {| t_name := b "a.t"; t_node := NTemplate 300 (b "a.t") (NList 309 [NPrint 309 (NBin OLt 310 (NInt 310 1) (NString 314 (b "'a'") (b "a"))) []]) 0 false;
                         t_ns_name := b "a"; t_ns_autoescape := 0; t_params := []; t_file := b "short.soy" |};
                      {| t_name := b "a.t"; t_node := NTemplate 14 (b "a.t") (NList 27 [NRawText 27 (b "x")]) 0 false;
                         t_ns_name := b "a"; t_ns_autoescape := 0; t_params := []; t_file := b "short.soy" |} ];
     r_sources := [(b "a.t", b "{namespace a}{template .t}x{/template}")];
     r_files := [(b "a.t", b "short.soy")] |}.

Theorem C06_duplicate_names_refuted :
  reg_ok dup_reg = false /\
  exists m, rr_outcome (render {| c_reg := dup_reg; c_ij := None; c_oblig := []; c_msgs := None |} 100 (b "a.t") 2 [] None None 10) = Crash m.
Proof. split; [vm_compute; reflexivity | eexists; vm_compute; reflexivity]. Qed.
Print Assumptions C06_duplicate_names_refuted.

(* before 7dace66: every evaluation error of EvalExpr escapes through the handler; witness 1 < 'a' *)
Theorem C06_eval_expr_pinned_refuted :
  exists n m, eval_expr_impl false 10 n = Crash m.
Proof. exists (NBin OLt 2 (NInt 0 1) (NString 4 (b "'a'") (b "a"))). eexists. vm_compute. reflexivity. Qed.
Print Assumptions C06_eval_expr_pinned_refuted.

(* before 1d02d41 / 3930821: the loop of range(0, 5, 0) and of range(0, MaxInt64, 2^62) has no exit
   (for EVERY budget the loop is still running: divergence, not a large finite run) *)
Theorem C06_range_pinned_step0_diverges : forall fuel, range_loop_pinned fuel 0 5 0 = Diverge.
Proof. exact range_pinned_step0_diverges. Qed.
Print Assumptions C06_range_pinned_step0_diverges.

Theorem C06_range_pinned_overflow_diverges : forall fuel, range_loop_pinned fuel 0 max_int two62 = Diverge.
Proof. intros fuel. apply range_pinned_overflow_diverges. Qed.
Print Assumptions C06_range_pinned_overflow_diverges.

(* ================================================================== *)
(* The JavaScript generator: soyjs.Write                               *)
(* ================================================================== *)
(* soyjs.Write runs under `defer errRecover(&err)`, and soyjs's errRecover turns EVERY recovered panic value
   into the returned error (unlike soyhtml's, it does not re-panic run-time errors).  So for Go "Write returns
   nil or an error" can fail in two ways only: the call does not end, or the run time dies of something recover
   cannot catch (stack exhaustion).  Model/JsGen.v [gen_file] is a total function with explicit outcomes:
   [Err] = s.errorf (a deliberate panic, recovered into the error), [Crash] = a RUN-TIME panic inside the
   generator (it would be recovered into an error too, but it is the generator's defect, not an answer),
   [Diverge] = a loop without exit, [OutOfFuel] = the recursion budget.  The theorem: whatever the options,
   the file and the budget, [gen_file] never yields [Crash] or [Diverge] -- in the model recover only ever
   sees s.errorf's own panics: the only origin of a Crash is scope.go's stack[len-1] on an empty stack, and
   the walker keeps the scope stack balanced (Hoare triple on its length through every visitor).

   Second theorem (fuel adequacy): the budgets of the model are only there to make its definitions structural.
   With a budget of the HEIGHT of the file's tree (Spec/SafetyJs.v [jw_height]: one level per node along the
   children the walker hands to s.walk / s.block; a global counts the depth of its value, which nodeFromValue
   turns into nested literals) [gen_file] ANSWERS: Ok (the script), Err (s.errorf) or OutOfModel (a float literal
   outside the printer's domain, a node of a kind the Go field types exclude) -- so the Go recursion is bounded by
   the nesting of the tree and ends.  The inner loops never run out of the budget the model gives them, on any
   tree: MsgNode.Placeholder's queue and visitMsg's children loop under [msg_size body], visitNamespace under the
   length of the name ([inner_budgets_suffice] for the two that are not inside the walker's recursion).
   The harness runs soyjs.Write on accepted bundles (deep nests, stale message bundles, failing and panicking
   writers) in worker subprocesses and observes {nil, error, escaped panic, fatal, hang}.
   Run-time panics the harness does see recovered ("index out of range" for a builtin called with too few
   arguments: C14 finding js-write-error-function-arity; every such case is explained in the worker by an
   under-arity call in the file) are sites Model/JsGen.v models as [Err]. *)
Theorem C06_js_write_no_escape :
  forall o fuel name body,
    match gen_file o fuel name body with Crash _ | Diverge => False | _ => True end.
Proof. exact gen_file_no_crash. Qed.
Print Assumptions C06_js_write_no_escape.

Theorem C06_js_write_answers :
  forall o fuel name body,
    (jw_hmax body <= fuel)%nat ->
    match gen_file o fuel name body with Ok _ | Err _ | OutOfModel => True | _ => False end.
Proof. exact gen_file_answers. Qed.
Print Assumptions C06_js_write_answers.

Theorem C06_js_inner_budgets_suffice :
  (forall body name, jfind_placeholder (msg_size body) body name <> OutOfFuel) /\
  (forall name, jnf (ns_decls (S (length name)) name 0)).
Proof. exact inner_budgets_suffice. Qed.
Print Assumptions C06_js_inner_budgets_suffice.

(* the budget is only an approximation index: an answer obtained with some budget is the answer with every larger
   one (relation "OutOfFuel, or both agree" between two recursive calls, through every visitor:
   Proofs/SafetyJsMono.v), so from the height of the tree on the answer does not depend on the budget *)
Theorem C06_js_write_fuel_monotone :
  forall o f k name body,
    gen_file o f name body <> OutOfFuel -> gen_file o (f + k) name body = gen_file o f name body.
Proof. exact gen_file_fuel_monotone. Qed.
Print Assumptions C06_js_write_fuel_monotone.

Theorem C06_js_write_fuel_independent :
  forall o f1 f2 name body,
    (jw_hmax body <= f1)%nat -> (jw_hmax body <= f2)%nat -> gen_file o f1 name body = gen_file o f2 name body.
Proof. exact gen_file_fuel_independent. Qed.
Print Assumptions C06_js_write_fuel_independent.

(* the bound is the height, and it is tight: the example file has height 3; 3 suffices, 2 does not *)
Example C06_ex_js_height :
  let body := [NNamespace 0 (b "a") 0; NTemplate 0 (b "a.t") (NList 0 [NRawText 0 (b "x")]) 0 false] in
  let o := {| o_fmt := ES5; o_msgs := None; o_order := fun l => l |} in
  jw_hmax body = 3%nat /\
  (exists cs, gen_file o 3 (b "f.soy") body = Ok cs) /\ gen_file o 2 (b "f.soy") body = OutOfFuel.
Proof. vm_compute. split; [reflexivity|]. split; [eexists; reflexivity | reflexivity]. Qed.

(* encoding/json's float layout (Model/NumJson.v, used by the extended model's |json): whatever the float and its
   digits, the text consists of digits, sign, point and exponent mark; and each of the four layouts is one RFC 8259
   number for every digit string without a leading zero.  (That the DIGITS are the shortest that read back as the
   float is tied by correspondence only: op c06_fl_json against json.Marshal.) *)
Theorem C06_json_float_chars :
  forall x s, fl_to_json x = Some s -> Forall jnum_char s.
Proof. exact fl_to_json_chars. Qed.
Print Assumptions C06_json_float_chars.

Theorem C06_json_float_layout_reads :
  forall sign ds dp rest,
    (sign = [] \/ sign = [45]) -> (exists d r, ds = d :: r /\ d <> 48) -> Forall is_digit_byte ds -> stop_num rest ->
    exists v, json_number (fmt_json sign ds dp ++ rest) = Some (v, rest).
Proof. exact fmt_json_reads. Qed.
Print Assumptions C06_json_float_layout_reads.

(* ... and the digit string of the shortest-digits search is that of a positive integer (no sign, no leading zero),
   so the text of EVERY float json.Marshal has a text for is ONE number of RFC 8259, read completely *)
Theorem C06_json_float_is_number :
  forall x s rest, fl_to_json x = Some s -> stop_num rest -> exists v, json_number (s ++ rest) = Some (v, rest).
Proof. exact fl_to_json_reads. Qed.
Print Assumptions C06_json_float_is_number.

Example C06_ex_json_float_layouts :
  fl_to_json (FFin 1 70) = Some (b "1.1805916207174113e+21") /\ fl_to_json (FFin 5 (-1)) = Some (b "2.5") /\
  fl_to_json (FFin 1 (-20)) = Some (b "9.5367431640625e-7") /\ fl_to_json (FFin 25 2) = Some (b "100").
Proof. vm_compute. repeat split; reflexivity. Qed.

(* non-vacuity: a file with a template (let, foreach, call) is generated *)
Example C06_ex_js_gen :
  exists cs, gen_file {| o_fmt := ES5; o_msgs := None; o_order := fun l => l |} 50 (b "f.soy")
    [NNamespace 0 (b "a") 0; NTemplate 0 (b "a.t") (NList 0 [NRawText 0 (b "x")]) 0 false] = Ok cs.
Proof. eexists. vm_compute. reflexivity. Qed.
