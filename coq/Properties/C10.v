(* C10 — Message ids are a stable function of message content and meaning.
   Property theorems only; proofs are in Proofs/MsgIdProofs.v.  The model
   (Model/MsgId.v) is the tree with the two C10 repairs applied; the algorithm
   as pinned is refuted at the end. *)
From Coq Require Import Permutation.
(* source tie by translation: the lemmas of these files are obligations of this property *)
From Soy Require Import Proofs.SourceTieMsg Proofs.MsgIdSourceTie Proofs.SourceTieMsgLoops Proofs.SourceTieState.
From Soy Require Import Model.Bytes Model.Outcome Generated.Tables Model.MsgId Spec.Msg Proofs.MsgIdProofs Proofs.MsgIdInj.
(* scopes *) Open Scope N_scope.

(* ---- the id fits in 63 bits, for every string and meaning ---- *)
Theorem C10_id_lt_2_63 : forall fpstr meaning, calc_id fpstr meaning < 9223372036854775808.
Proof. exact id_lt_2_63. Qed.
Print Assumptions C10_id_lt_2_63.

(* ---- the budgets of the two modelled loops suffice: naming always succeeds ---- *)
Theorem C10_naming_total : forall order body, is_perm order -> exists named, msg_named order body = Ok named.
Proof. exact msg_named_total. Qed.
Print Assumptions C10_naming_total.

(* ---- the id is calcID of (string written by writeFingerprint, meaning) ---- *)
Theorem C10_id_function_of_content : forall order m named,
  msg_named order (m_body m) = Ok named ->
  msg_id order m = Ok (calc_id (write_fp_list false named) (m_meaning m)).
Proof. exact id_function_of_content. Qed.
Print Assumptions C10_id_function_of_content.

(* ... so it ignores the description, *)
Theorem C10_id_ignores_desc : forall order m desc,
  msg_id order {| m_meaning := m_meaning m; m_desc := desc; m_body := m_body m |} = msg_id order m.
Proof. exact id_ignores_desc. Qed.
Print Assumptions C10_id_ignores_desc.

(* ... two messages with the same fingerprinted string and meaning share it, *)
Theorem C10_id_same_fingerprint_string : forall order m m' named named',
  msg_named order (m_body m) = Ok named -> msg_named order (m_body m') = Ok named' ->
  write_fp_list false named = write_fp_list false named' -> m_meaning m = m_meaning m' ->
  msg_id order m = msg_id order m'.
Proof. exact id_same_fingerprint_string. Qed.
Print Assumptions C10_id_same_fingerprint_string.

(* ... and surrounding code and other messages of the file do not enter *)
Theorem C10_id_ignores_context : forall order pre m post,
  process_messages order (pre ++ IMsg m :: post) =
  process_messages order pre ++ msg_id order m :: process_messages order post.
Proof. exact id_ignores_context. Qed.
Print Assumptions C10_id_ignores_context.

Theorem C10_id_ignores_code : forall order file,
  process_messages order file =
  process_messages order (filter (fun it => match it with IMsg _ => true | ICode _ => false end) file).
Proof. exact id_ignores_code. Qed.
Print Assumptions C10_id_ignores_code.

(* ---- names (hence PlaceholderString and id) do not depend on the order in
        which Go iterates over baseNameToRepNodes ---- *)
Theorem C10_names_order_independent : forall order order' body,
  is_perm order -> is_perm order' -> msg_named order body = msg_named order' body.
Proof. exact names_order_independent. Qed.
Print Assumptions C10_names_order_independent.

Theorem C10_id_order_independent : forall order order' m,
  is_perm order -> is_perm order' -> msg_id order m = msg_id order' m.
Proof. exact id_order_independent. Qed.
Print Assumptions C10_id_order_independent.

(* ---- names are the official ones ---- *)
Theorem C10_names_follow_official : forall order body es nm,
  is_perm order -> msg_entries body = Ok es -> msg_names order body = Ok nm ->
  follows_official es (name_of nm).
Proof. exact names_follow_official. Qed.
Print Assumptions C10_names_follow_official.

(* the rule leaves no choice *)
Theorem C10_official_name_unique : forall es base j name name',
  official_name es base j name -> official_name es base j name' -> name = name'.
Proof. exact official_name_unique. Qed.
Print Assumptions C10_official_name_unique.

(* a name is never used for two distinct placeholders *)
Theorem C10_names_distinct : forall order body es nm,
  is_perm order -> msg_entries body = Ok es -> msg_names order body = Ok nm ->
  forall b s b' s', In (b, s) es -> In (b', s') es -> name_of nm b s = name_of nm b' s' -> (b, s) = (b', s').
Proof. exact names_distinct. Qed.
Print Assumptions C10_names_distinct.

(* ---- the braced placeholder string determines text, names, order and plural
        structure.  Guard: raw text contains no brace, names contain neither
        brace nor comma; adjacent raw texts are read as one. ---- *)
Theorem C10_phstring_injective : forall l1 l2,
  parts_ok l1 -> parts_ok l2 -> write_fp_list true l1 = write_fp_list true l2 -> l1 = l2.
Proof. exact phstring_injective. Qed.
Print Assumptions C10_phstring_injective.

Theorem C10_phstring_injective_normalized : forall l1 l2,
  guard_list l1 -> guard_list l2 -> write_fp_list true l1 = write_fp_list true l2 -> normalize l1 = normalize l2.
Proof. exact phstring_injective_normalized. Qed.
Print Assumptions C10_phstring_injective_normalized.

Theorem C10_phstring_determines_message : forall order m1 m2 str,
  is_perm order -> mguard_list (m_body m1) -> mguard_list (m_body m2) ->
  placeholder_string order m1 = Ok str -> placeholder_string order m2 = Ok str ->
  exists n1 n2, msg_named order (m_body m1) = Ok n1 /\ msg_named order (m_body m2) = Ok n2 /\
                normalize n1 = normalize n2.
Proof. exact phstring_determines_message. Qed.
Print Assumptions C10_phstring_determines_message.

(* "The id changes when the content changes" cannot be a theorem: a 63-bit hash
   has collisions, and -- as in official Soy -- the id is computed from the
   string without braces, so a text that spells a placeholder name collides with
   the placeholder.  Stated and refuted; the harness samples it for changes of
   text and meaning. *)
Definition ex_text_name : msg := {| m_meaning := []; m_desc := []; m_body := [MText (b "Hello NAME")] |}.
Definition ex_ph_name : msg := {| m_meaning := []; m_desc := [];
                                  m_body := [MText (b "Hello "); MPh (b "NAME") (b "{$name}")] |}.
Lemma id_determines_content_refuted :
  exists m m', placeholder_string (fun l => l) m <> placeholder_string (fun l => l) m' /\
               msg_id (fun l => l) m = msg_id (fun l => l) m'.
Proof. exists ex_text_name, ex_ph_name. split; [vm_compute; discriminate | vm_compute; reflexivity]. Qed.

(* ---- what the id itself determines.  The strongest true reading of "the id changes
        when text, placeholder structure or meaning changes": calcID re-arranges the two
        32-bit words hash32(str, 0) and hash32(str, 102072) of the fingerprinted string
        bijectively (up to the two designated pairs of the 0/1 adjustment) and then drops
        exactly one bit; so two contents share an id only if hash32 collides. ---- *)

(* the fingerprint is the (adjusted) pair of hashes, nothing lost *)
Theorem C10_fingerprint_is_hash_pair : forall s s', fingerprint s = fingerprint s' <-> fp_pair s = fp_pair s'.
Proof. exact fingerprint_eq_iff_pair. Qed.
Print Assumptions C10_fingerprint_is_hash_pair.

Theorem C10_adjust_inj : forall p q, adjust p = adjust q -> p = q \/ degenerate p = true \/ degenerate q = true.
Proof. exact adjust_inj. Qed.
Print Assumptions C10_adjust_inj.

(* calcID as arithmetic: without a meaning the fingerprint minus its top bit, with a meaning
   the fingerprint rotated left by one plus the meaning's fingerprint, minus the top bit *)
Theorem C10_id_no_meaning : forall s, calc_id s [] = fingerprint s mod two63.
Proof. exact calc_id_no_meaning. Qed.
Print Assumptions C10_id_no_meaning.
Theorem C10_id_meaning : forall s m, m <> [] -> calc_id s m = (rot1 (fingerprint s) + fingerprint m) mod two63.
Proof. exact calc_id_meaning. Qed.
Print Assumptions C10_id_meaning.

(* exactly which contents share an id *)
Theorem C10_same_id_no_meaning_iff : forall s s',
  calc_id s [] = calc_id s' [] <-> fingerprint s mod two63 = fingerprint s' mod two63.
Proof. exact same_id_no_meaning_iff. Qed.
Print Assumptions C10_same_id_no_meaning_iff.
Theorem C10_same_id_same_meaning_iff : forall s s' m, m <> [] ->
  (calc_id s m = calc_id s' m <->
   fingerprint s mod two62 = fingerprint s' mod two62 /\ fingerprint s / two63 = fingerprint s' / two63).
Proof. exact same_id_same_meaning_iff. Qed.
Print Assumptions C10_same_id_same_meaning_iff.
(* ... and which meanings *)
Theorem C10_same_id_two_meanings_iff : forall s m m', m <> [] -> m' <> [] ->
  (calc_id s m = calc_id s m' <-> fingerprint m mod two63 = fingerprint m' mod two63).
Proof. exact same_id_two_meanings_iff. Qed.
Print Assumptions C10_same_id_two_meanings_iff.

(* headline: equal ids under one meaning force the two hashes of the two fingerprinted strings to
   agree on 62 of their 64 bits (agree62: low words equal, high words equal modulo 2^30) *)
Theorem C10_same_id_only_by_collision : forall s s' m,
  calc_id s m = calc_id s' m -> agree62 (fp_pair s) (fp_pair s').
Proof. exact same_id_only_by_collision. Qed.
Print Assumptions C10_same_id_only_by_collision.
Theorem C10_id_changes_unless_collision : forall s s' m,
  ~ agree62 (fp_pair s) (fp_pair s') -> calc_id s m <> calc_id s' m.
Proof. exact id_changes_unless_collision. Qed.
Print Assumptions C10_id_changes_unless_collision.
Theorem C10_msg_same_id_only_by_collision : forall order m m' named named',
  msg_named order (m_body m) = Ok named -> msg_named order (m_body m') = Ok named' ->
  m_meaning m = m_meaning m' -> msg_id order m = msg_id order m' ->
  agree62 (fp_pair (write_fp_list false named)) (fp_pair (write_fp_list false named')).
Proof. exact msg_same_id_only_by_collision. Qed.
Print Assumptions C10_msg_same_id_only_by_collision.

(* non-vacuity: the hypothesis of C10_id_changes_unless_collision holds of concrete contents, and the
   one collision exhibited above (id_determines_content_refuted) is a collision of the fingerprinted
   STRINGS ("Hello NAME" both times), not of hash32 *)
Example ex_no_collision : ~ agree62 (fp_pair (b "Archive")) (fp_pair (b "Help")).
Proof. intros [H _]. vm_compute in H. discriminate. Qed.
Example ex_pair_archive : fp_pair (b "Archive") = (fingerprint (b "Archive") / two32, fingerprint (b "Archive") mod two32).
Proof. vm_compute. reflexivity. Qed.
Example ex_same_fp_string :
  (named <- msg_named (fun l => l) (m_body ex_text_name) ;; Ok (write_fp_list false named)) =
  (named <- msg_named (fun l => l) (m_body ex_ph_name) ;; Ok (write_fp_list false named)).
Proof. vm_compute. reflexivity. Qed.
(* the bit that is dropped is the only thing lost: fingerprints differing in it alone give one id *)
Example ex_dropped_bit : forall fp, fp < two63 -> fp mod two63 = (fp + two63) mod two63.
Proof. intros fp H. unfold two63 in *. rewrite N.add_mod, N.mod_same, N.add_0_r, N.mod_mod by discriminate. reflexivity. Qed.

(* ---- source tie by translation, lifted to the model's composite functions
        (Proofs/MsgIdSourceTie.v; notes/gotrans-msgid-needs.md lists what is NOT tied this way) ---- *)
Theorem C10_calc_id_matches_source : forall fpstr meaning,
  Z.of_N (calc_id fpstr meaning) = src_soymsg_calcID_tail hash32_z meaning (src_soymsg_fingerprint hash32_z fpstr).
Proof. exact calc_id_matches_source_full. Qed.
Print Assumptions C10_calc_id_matches_source.
Theorem C10_tag_loop_matches_source : forall s p,
  alnum_prefix s = Some p <-> exists c r, s = p ++ c :: r /\ forallb src_alnum p = true /\ src_alnum c = false.
Proof. exact alnum_prefix_matches_source. Qed.
Print Assumptions C10_tag_loop_matches_source.
(* hash32, tagName and genBasePlaceholderNameFromHtml as WHOLE functions (Proofs/SourceTieMsgLoops.v) *)
Theorem C10_hash32_matches_source : forall s seed,
  st_small (go_len s) -> seed < 4294967296 ->
  src_soymsg_hash32 s 0 (go_len s) (Z.of_N seed) = Some (Z.of_N (hash32 s seed)).
Proof. exact hash32_matches_source. Qed.
Print Assumptions C10_hash32_matches_source.
Theorem C10_tag_name_matches_source : forall text,
  match src_soymsg_tagName (map ascii_lower) text with
  | Some r => tag_name text = Ok r
  | None => tag_name text = Crash s_no_tag_name
  end.
Proof. exact tag_name_matches_source. Qed.
Print Assumptions C10_tag_name_matches_source.
Theorem C10_base_from_html_matches_source : forall text,
  match src_soymsg_genBasePlaceholderNameFromHtml (map ascii_lower) to_upper_underscore text with
  | Some r => base_from_html text = Ok r
  | None => base_from_html text = Crash s_no_tag_name
  end.
Proof. exact base_from_html_matches_source. Qed.
Print Assumptions C10_base_from_html_matches_source.

(* ---- the model reproduces the ids of the official compiler that the existing
        tests contain (soymsg/soymsg_test.go, soymsg/pomsg/testdata) ---- *)
Example ex_archive_noun : calc_id (b "Archive") (b "noun") = 7224011416745566687.
Proof. vm_compute. reflexivity. Qed.
Example ex_archive_verb : calc_id (b "Archive") (b "verb") = 4826315192146469447.
Proof. vm_compute. reflexivity. Qed.
Example ex_trip : calc_id (b "A trip was taken.") [] = 3329840836245051515.
Proof. vm_compute. reflexivity. Qed.
Example ex_keyword : calc_id (b "Your favorite keyword") [] = 2209690285855487595.
Proof. vm_compute. reflexivity. Qed.
Example ex_help : calc_id (b "Help") [] = 7911416166208830577.
Proof. vm_compute. reflexivity. Qed.

Definition dref (key : string) : ph_node := PhPrint (PeDataRef (b key) []).
Definition observe (meaning : string) (body : list spart) :=
  m <- msg_of_source (b meaning) (b "some description") body ;; o <- msg_observe m ;; Ok (fst o, fst (snd o)).

(* {$name} took a trip to {$destination}. *)
Example ex_name_destination :
  observe "" [SPh (dref "name") (b "{$name}"); SText (b " took a trip to ");
              SPh (dref "destination") (b "{$destination}"); SText (b ".")]
  = Ok (768490705511913603, b "{NAME} took a trip to {DESTINATION}.").
Proof. vm_compute. reflexivity. Qed.

Example ex_pi :
  observe "" [SPh (dref "pi") (b "{$pi}"); SText (b " is nowhere near the value of pi.")]
  = Ok (889614911019327165, b "{PI} is nowhere near the value of pi.").
Proof. vm_compute. reflexivity. Qed.

Example ex_hello_name :
  observe "" [SText (b "Hello "); SPh (dref "name") (b "{$name}"); SText (b "!")]
  = Ok (6936162475751860807, b "Hello {NAME}!").
Proof. vm_compute. reflexivity. Qed.

(* The set of {$setName} is {lb}{call .buildCommaSeparatedList_}...{/call}, ...{rb}. *)
Example ex_set_of :
  observe "" [SText (b "The set of "); SPh (dref "setName") (b "{$setName}"); SText (b " is {");
              SPh PhOther (b "{call .buildCommaSeparatedList_}{param items: $setMembers /}{/call}"); SText (b ", ...}.")]
  = Ok (135956960462609535, b "The set of {SET_NAME} is {{XXX}, ...}.").
Proof. vm_compute. reflexivity. Qed.

(* {plural $eggs}{case 1}You have one egg{default}You have {$eggs} eggs{/plural} *)
Example ex_eggs :
  observe "" [SPlural (PhExpr (PeDataRef (b "eggs") []))
                      (b "{plural $eggs}{case 1}You have one egg{default}You have {$eggs} eggs{/plural}")
                      [(1%Z, [SText (b "You have one egg")])]
                      [SText (b "You have "); SPh (dref "eggs") (b "{$eggs}"); SText (b " eggs")]]
  = Ok (176798647517908084, b "{EGGS_1,plural,=1{You have one egg}other{You have {EGGS_2} eggs}}").
Proof. vm_compute. reflexivity. Qed.

(* placeholder_test.go: HTML tags, equal and distinct placeholders *)
Example ex_links :
  observe "" [SPh (PhHtml (b "<a href=foo>")) (b "<a href=foo>"); SText (b "Click"); SPh (PhHtml (b "</a>")) (b "</a>"); SText (b " ");
              SPh (PhHtml (b "<a href=bar>")) (b "<a href=bar>"); SText (b "here"); SPh (PhHtml (b "</a >")) (b "</a >")]
  = Ok (calc_id (b "START_LINK_1ClickEND_LINK_1 START_LINK_2hereEND_LINK_2") [],
        b "{START_LINK_1}Click{END_LINK_1} {START_LINK_2}here{END_LINK_2}").
Proof. vm_compute. reflexivity. Qed.

Example ex_breaks :
  observe "" [SPh (PhHtml (b "<br>")) (b "<br>"); SPh (PhHtml (b "<br/>")) (b "<br/>"); SPh (PhHtml (b "<br/>")) (b "<br/>")]
  = Ok (calc_id (b "START_BREAKBREAKBREAK") [], b "{START_BREAK}{BREAK}{BREAK}").
Proof. vm_compute. reflexivity. Qed.

Example ex_to_upper_underscore :
  map to_upper_underscore [b "booFoo"; b "_booFoo"; b "__BOO__FOO__"; b "boo8Foo"; b "booFoo88"; b "boo88_foo"; b "_boo_8foo"; b "_BOO__8_FOO_"]
  = [b "BOO_FOO"; b "BOO_FOO"; b "BOO_FOO"; b "BOO_8_FOO"; b "BOO_FOO_88"; b "BOO_88_FOO"; b "BOO_8_FOO"; b "BOO_8_FOO"].
Proof. vm_compute. reflexivity. Qed.

(* hypotheses of the theorems are satisfiable *)
Example ex_perm_rev : is_perm (@rev bstr).
Proof. exact is_perm_rev. Qed.
Example ex_parts_ok :
  parts_ok [NmText (b "Hello "); NmPh (b "NAME"); NmText (b "!");
            NmPlural (b "N") [(1%Z, [NmText (b "one")])] [NmPh (b "N_2"); NmText (b " many")]].
Proof.
  vm_compute.
  repeat (first [ exact I | split | constructor
                | (let H := fresh in intros H; repeat (destruct H as [H|H]; try discriminate); discriminate) ]).
Qed.

(* ---- the algorithm as pinned (collision test against the names handed out so
        far; a lone node writes its base name unconditionally) depends on the
        iteration order, and can leave a placeholder without a name ---- *)
Definition ex_collide : list mpart :=
  [MPh (b "X") (b "{$a.x}"); MPh (b "X") (b "{$b.x}"); MPh (b "X_1") (b "{$x_1}")].

Lemma names_order_dependent_refuted :
  exists body order order', is_perm order /\ is_perm order' /\
    msg_named_pinned order body <> msg_named_pinned order' body.
Proof.
  exists ex_collide, (fun l => l), (@rev bstr).
  split; [exact is_perm_id | split; [exact is_perm_rev | vm_compute; discriminate]].
Qed.

Lemma pinned_ids_differ_refuted :
  exists m order order', is_perm order /\ is_perm order' /\ msg_id_pinned order m <> msg_id_pinned order' m.
Proof.
  exists {| m_meaning := []; m_desc := []; m_body := ex_collide |}, (fun l => l), (@rev bstr).
  split; [exact is_perm_id | split; [exact is_perm_rev | vm_compute; discriminate]].
Qed.

(* in insertion order -- the order a deterministic loop over a slice of base
   names would use -- the first placeholder loses its name: iterating
   deterministically is not enough, the collision rule itself has to change *)
Lemma pinned_insertion_order_loses_name :
  msg_named_pinned (fun l => l) ex_collide = Ok [NmPh []; NmPh (b "X_2"); NmPh (b "X_1")].
Proof. vm_compute. reflexivity. Qed.

(* the repaired algorithm on the same message: the official names *)
Example repaired_collide :
  msg_named (fun l => l) ex_collide = Ok [NmPh (b "X_2"); NmPh (b "X_3"); NmPh (b "X_1")]
  /\ msg_named (@rev bstr) ex_collide = Ok [NmPh (b "X_2"); NmPh (b "X_3"); NmPh (b "X_1")].
Proof. split; vm_compute; reflexivity. Qed.
