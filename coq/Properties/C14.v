(* C14 — generated JavaScript is well-formed and preserves every literal.
   Property theorems only.  Model: Model/JsGen.v (soyjs.Write as a list of
   chunks, tied byte for byte to the real output by the correspondence);
   the ECMAScript string-literal reader is Spec/Codec.v (js_read_literal_q).
   No JavaScript grammar is formalised: syntactic validity of the whole file
   rests on node compiling the real output (go/cmd/soyverif/c14.go). *)
(* source tie by translation: the lemmas of these files are obligations of this property *)
From Soy Require Import Proofs.SourceTieJs Proofs.SourceTieJsScope Proofs.SourceTieJsText.
From Soy Require Import Model.Bytes Model.Num Model.Values Model.Outcome Model.Ast Model.Utf8 Model.JsEscape
  Generated.Tables Model.JsGen Spec.Codec Spec.JsOut Proofs.Utf8Proofs Proofs.CodecProofs
  Proofs.JsGenProofs Proofs.JsGenInv Proofs.JsGenLit Proofs.JsGenDef.
Open Scope N_scope.

(* ---------------- what the escaper guarantees for one literal ---------------- *)
(* A CStrLit chunk is rendered as quote, JSEscape(s), quote.  For valid UTF-8
   whose runes are in the BMP or printable, the ECMAScript reader gives back
   exactly s -- in particular the body has no unescaped quote of its kind, no
   raw LF / CR / U+2028 / U+2029 and no dangling backslash (the reader rejects
   those) -- and, for EVERY s, the body contains no LF CR < > & = bytes, hence
   no "</" (so no "</script>"), no "<!--", no "-->", no "]]>". *)
Theorem C14_strlit_denotes : forall q s, q = 39 \/ q = 34 -> lit_guard s ->
  render_chunk is_print_tbl (CStrLit q s) = q :: js_escape is_print_tbl s ++ [q]
  /\ js_read_literal_q q (js_escape is_print_tbl s) = Some s
  /\ Forall js_inert (js_escape is_print_tbl s).
Proof. exact strlit_denotes. Qed.
Print Assumptions C14_strlit_denotes.

(* ---------------- every chunk of every generated file ---------------- *)
(* For every file, formatter, message bundle, map-order oracle and fuel: when
   the generator succeeds, each chunk is well-formed:
   - CText: the text belongs to a vocabulary fixed in advance (constants of
     the generator, indentation, operator symbols, the regenerated function /
     directive / formatter tables) -- it does not depend on the input, so no
     template-originated string reaches the output as generator text;
   - CStrLit: the quote is the single or the double quote;
   - CNum: a decimal integer or a float as ast.FloatNode.String prints it;
   - CFile (the name in the header comment) contains no line terminator. *)
Theorem C14_gen_chunks_wf : forall o fuel name body cs, gen_file o fuel name body = Ok cs -> Forall chunk_wf cs.
Proof. exact gen_chunks_wf. Qed.
Print Assumptions C14_gen_chunks_wf.

(* no template-originated byte reaches the output as generator text: every
   CText chunk of every generated file is in [in_vocabulary], a set of byte
   strings that mentions neither the file nor the options; template strings go
   through CStrLit (the escaper), identifiers through CName, numbers through
   CNum, the file name through CFile *)
Theorem C14_no_template_bytes_in_text : forall o fuel name body cs, gen_file o fuel name body = Ok cs ->
  forall c, In c cs ->
    match c with
    | CText t => in_vocabulary t
    | CStrLit q _ => q = 39 \/ q = 34
    | CName _ | CNum _ | CFile _ => True
    end.
Proof. exact no_template_bytes_in_text. Qed.
Print Assumptions C14_no_template_bytes_in_text.

(* the same for the walk of ANY node from ANY state (not only whole files): the
   emission sites below are therefore exhaustive -- whatever constructor carries
   a template string, walking it appends well-formed chunks only *)
Theorem C14_walk_chunks_wf : forall o fuel n st x st', jwalk o fuel n st = Ok (x, st') ->
  Forall (fun kv : bstr * list chunk => Forall chunk_wf (snd kv)) (j_called st) ->
  exists cs, j_out st' = rev cs ++ j_out st /\ Forall chunk_wf cs.
Proof. exact walk_chunks_wf. Qed.
Print Assumptions C14_walk_chunks_wf.

(* literals_denote: every template-originated string written anywhere in a
   generated file is a literal chunk that reads back as the original bytes *)
Theorem C14_literals_denote : forall o fuel name body cs, gen_file o fuel name body = Ok cs ->
  forall q s, In (CStrLit q s) cs -> lit_guard s ->
    (q = 39 \/ q = 34)
    /\ js_read_literal_q q (js_escape is_print_tbl s) = Some s
    /\ Forall js_inert (js_escape is_print_tbl s).
Proof. exact literals_denote. Qed.
Print Assumptions C14_literals_denote.

(* FULL statement (no guard on astral non-printable runes) is FALSE of the
   faithful model: text/template.JSEscape writes such a rune with five or six
   hex digits (finding js-literal-astral-nonprint-5hex). *)
Theorem C14_literals_astral_refuted :
  exists s, utf8_valid s = true
            /\ render_chunk is_print_tbl (CStrLit 39 s) = [39; 92; 117; 70; 48; 48; 48; 48; 39]
            /\ js_read_literal_q 39 (js_escape is_print_tbl s) <> Some s.
Proof. exact literals_astral_refuted. Qed.
Print Assumptions C14_literals_astral_refuted.

(* ---------------- the emission sites ---------------- *)
(* raw text, message html tags, css names, string literals, global string
   values, map keys and translation text are written as CStrLit chunks that
   carry exactly the original bytes *)
Theorem C14_site_raw_text : forall o w prev p t st,
  out_after (jwalk_node o w prev (NRawText p t)) st
  = Some (rev [CText (indent_text (j_indent st)); CName (j_buf st); CText t_pluseq; CStrLit 39 t; CText t_semi_nl] ++ j_out st).
Proof. exact site_raw_text. Qed.
Theorem C14_site_msg_html_tag : forall o w prev p t st,
  out_after (jwalk_node o w prev (NMsgHtmlTag p t)) st
  = Some (rev [CText (indent_text (j_indent st)); CName (j_buf st); CText t_pluseq; CStrLit 39 t; CText t_semi_nl] ++ j_out st).
Proof. exact site_msg_html_tag. Qed.
Theorem C14_site_css_suffix : forall o w prev p sfx st,
  out_after (jwalk_node o w prev (NCss p None sfx)) st
  = Some (rev [CText (indent_text (j_indent st)); CName (j_buf st); CText t_pluseq; CStrLit 39 sfx; CText t_semi_nl] ++ j_out st).
Proof. exact site_css_suffix. Qed.
Theorem C14_site_string_literal : forall o w prev p quoted v st,
  out_after (jwalk_node o w prev (NString p quoted v)) st = Some (CStrLit 39 v :: j_out st).
Proof. exact site_string_literal. Qed.
Theorem C14_site_global_string : forall o w prev p name s,
  jwalk_node o w prev (NGlobal p name (VStr s)) = w (NString p n_unused s).
Proof. exact site_global_string. Qed.
Theorem C14_site_map_key : forall w first k x r,
  map_items w first ((k, x) :: r)
  = jbind (if first then jret tt else jtxt t_comma)
      (fun _ => jbind (jemit [CStrLit 34 k; CText t_colon]) (fun _ => jbind (w x) (fun _ => map_items w false r))).
Proof. exact site_map_key. Qed.
Theorem C14_site_translation_text : forall w body t, jeval_part w body (JMRaw t) = write_raw_text t.
Proof. exact site_translation_text. Qed.
Print Assumptions C14_site_raw_text.

(* ---------------- one function per template ---------------- *)
(* gen_defines_templates: for a file whose top-level nodes are the namespace,
   soydoc comments and templates (no template or namespace node nested inside
   a template body), the function headers of the generated chunk list are
   exactly the file's templates, in order, under their qualified names (ES5)
   or ES6 identifiers (ES6), and the namespace-object declarations are exactly
   the dotted prefixes of the namespace, in order, before the first header. *)
Theorem C14_gen_defines_templates : forall o fuel name body cs, Forall top_ok body -> gen_file o fuel name body = Ok cs ->
  defined_names cs = map (fun t => fmt_bytes (fmt_template_name (o_fmt o)) t) (template_names body)
  /\ declared_objects cs = flat_map ns_prefix_list (namespace_names body).
Proof. exact gen_defines_templates. Qed.
Print Assumptions C14_gen_defines_templates.

(* the declared objects of a namespace are its dotted prefixes: the last one
   is the namespace itself and every declared name is a prefix of it *)
Theorem C14_ns_prefixes : forall name, name <> [] ->
  last (ns_prefix_list name) [] = name /\ Forall (fun p => exists k, p = take k name) (ns_prefix_list name).
Proof. exact ns_prefixes_spec. Qed.
Print Assumptions C14_ns_prefixes.

(* ---------------- non-vacuity ---------------- *)
Definition ex_opts : jopts := {| o_fmt := ES5; o_msgs := None; o_order := fun l => l |}.
Definition ex_body : list node := Eval vm_compute in
  [ NNamespace 0 (b "ns.a") 0; NSoyDoc 0 [];
    NTemplate 0 (b "ns.a.t")
      (NList 0 [NRawText 0 (b "it's </script>");
                NLetValue 0 (b "m") (NMapLit 0 [(b "a""b", NInt 0 1)]);
                NPrint 0 (NString 0 [] [226; 128; 168; 92]) []]) 0 false ].

(* the generated text of a small file: the raw text, the map key and the
   string literal (U+2028, backslash) are escaped; the literals satisfy the
   guard and read back; one function, two namespace objects *)
Example C14_nonvacuous :
  exists cs, gen_file ex_opts 50 (b "f.soy") ex_body = Ok cs
    /\ render_chunks is_print_tbl cs = b
"// This file was automatically generated from f.soy.
// Please don't edit this file by hand.

if (typeof ns == 'undefined') { var ns = {}; }
if (typeof ns.a == 'undefined') { ns.a = {}; }

ns.a.t = function(opt_data, opt_sb, opt_ijData) {
  var output = '';
  output += 'it\'s \u003C/script\u003E';
  var m_1 = {""a\""b"":1};
  output += soy.$$escapeHtml('\u2028\\');
  return output;
};
"
    /\ In (CStrLit 39 (b "it's </script>")) cs /\ In (CStrLit 34 (b "a""b")) cs /\ In (CStrLit 39 [226; 128; 168; 92]) cs
    /\ js_read_literal_q 34 (js_escape is_print_tbl (b "a""b")) = Some (b "a""b")
    /\ js_read_literal_q 39 (js_escape is_print_tbl [226; 128; 168; 92]) = Some [226; 128; 168; 92]
    /\ defined_names cs = [b "ns.a.t"] /\ declared_objects cs = [b "ns"; b "ns.a"].
Proof.
  eexists. split; [vm_compute; reflexivity|]. vm_compute.
  repeat split; try reflexivity; repeat (first [left; reflexivity | right]).
Qed.

Ltac reach_tac Hm :=
  apply reach_inv in Hm;
  let c := fresh "c" in let Hc := fresh "Hc" in
  destruct Hm as [->|(c & Hc & Hm)];
  [exact I | cbn in Hc; repeat (destruct Hc as [<-|Hc]; [reach_tac Hm|]); contradiction].

Lemma ex_body_top_ok : Forall top_ok ex_body.
Proof.
  unfold ex_body. repeat constructor; cbn [top_ok]; intros m Hm; reach_tac Hm.
Qed.

Example C14_guard_nonvacuous :
  lit_guard (b "it's </script>") /\ lit_guard (b "a""b") /\ lit_guard [226; 128; 168; 92] /\ Forall top_ok ex_body.
Proof.
  split; [apply lit_guard_b_ok; vm_compute; reflexivity|].
  split; [apply lit_guard_b_ok; vm_compute; reflexivity|].
  split; [apply lit_guard_b_ok; vm_compute; reflexivity|].
  exact ex_body_top_ok.
Qed.

(* the reader rejects what the escaper must prevent *)
Example C14_reader_rejects :
  js_read_literal_q 34 (b "a""b") = None /\ js_read_literal_q 39 (b "it's") = None
  /\ js_read_literal_q 39 [226; 128; 168] = None /\ js_read_literal_q 39 [97; 10] = None /\ js_read_literal_q 39 [92] = None.
Proof. vm_compute. repeat split; reflexivity. Qed.
