(* C14 — generated JavaScript is well-formed and preserves every literal.
   Property theorems only.  Model: Model/JsGen.v (soyjs.Write as a list of
   chunks, tied byte for byte to the real output by the correspondence);
   the ECMAScript string-literal reader is Spec/Codec.v (js_read_literal_q).
   The token grammar of the emitted JavaScript subset is Spec/JsSyntax.v
   (lexers, the recogniser js_parse, bracket_balanced); the files the grammar
   theorem talks about are those of Spec/JsShape.v (file_chk).  That grammar
   is a subset of ECMAScript by construction and by test against V8
   (go/cmd/soyverif/c14_wf.go), not by proof. *)
(* source tie by translation: the lemmas of these files are obligations of this property *)
From Soy Require Import Proofs.JsWfFlag.
From Soy Require Import Proofs.SourceTieJs Proofs.SourceTieJsScope Proofs.SourceTieJsText.
From Soy Require Import Model.Bytes Model.Num Model.Values Model.Outcome Model.Ast Model.Utf8 Model.JsEscape
  Generated.Tables Model.JsGen Spec.Codec Spec.JsOut Proofs.Utf8Proofs Proofs.CodecProofs
  Proofs.JsGenProofs Proofs.JsGenInv Proofs.JsGenLit Proofs.JsGenDef
  Spec.JsSyntax Spec.JsShape Proofs.JsWfBalance Proofs.JsWfFile Proofs.JsWfStr.
Open Scope N_scope.

(* ---------------- what the escaper guarantees for one literal ---------------- *)
(* A CStrLit chunk is rendered as quote, lit_body s, quote, where lit_body s is
   the escaper soy calls applied to s (C14_lit_body: text/template's JSEscape, or
   internal/jsescape when the tree under test calls that -- jsstr_pair_js is read
   from soyjs/exec.go by tablegen).  For valid UTF-8 -- and, only while the
   library's escaper is called, runes in the BMP or printable (lit_guard) -- the
   ECMAScript reader gives back exactly s -- in particular the body has no
   unescaped quote of its kind, no raw LF / CR / U+2028 / U+2029 and no dangling
   backslash (the reader rejects those) -- and, for EVERY s, the body contains no
   LF CR < > & = bytes, hence no "</" (so no "</script>"), no "<!--", no "-->",
   no "]]>". *)
Theorem C14_lit_body : forall s, lit_body s = js_escape_soy jsstr_pair_js is_print_tbl s.
Proof. exact lit_body_eq. Qed.
Print Assumptions C14_lit_body.

Theorem C14_strlit_denotes : forall q s, q = 39 \/ q = 34 -> lit_guard s ->
  render_chunk is_print_tbl (CStrLit q s) = q :: lit_body s ++ [q]
  /\ js_read_literal_q q (lit_body s) = Some s
  /\ Forall js_inert (lit_body s).
Proof. exact strlit_denotes. Qed.
Print Assumptions C14_strlit_denotes.

(* ---------------- every chunk of every generated file ---------------- *)
(* For every file, formatter, message bundle, map-order oracle and fuel: when
   the generator succeeds, each chunk is well-formed:
   - CText: the text belongs to a vocabulary fixed in advance (constants of
     the generator, indentation, operator symbols, the regenerated function /
     directive / formatter tables) -- it does not depend on the input, so no
     template-originated string reaches the output as generator text;
   - CStrLit: the quote is the single or the double quote;
   - CNum: a decimal integer or a float as ast.FloatNode.String prints it;
   - CFile (the name in the header comment) contains no line terminator. *)
Theorem C14_gen_chunks_wf : forall o fuel name body cs, gen_file o fuel name body = Ok cs -> Forall chunk_wf cs.
Proof. exact gen_chunks_wf. Qed.
Print Assumptions C14_gen_chunks_wf.

(* no template-originated byte reaches the output as generator text: every
   CText chunk of every generated file is in [in_vocabulary], a set of byte
   strings that mentions neither the file nor the options; template strings go
   through CStrLit (the escaper), identifiers through CName, numbers through
   CNum, the file name through CFile *)
Theorem C14_no_template_bytes_in_text : forall o fuel name body cs, gen_file o fuel name body = Ok cs ->
  forall c, In c cs ->
    match c with
    | CText t => in_vocabulary t
    | CStrLit q _ => q = 39 \/ q = 34
    | CName _ | CNum _ | CFile _ => True
    end.
Proof. exact no_template_bytes_in_text. Qed.
Print Assumptions C14_no_template_bytes_in_text.

(* the same for the walk of ANY node from ANY state (not only whole files): the
   emission sites below are therefore exhaustive -- whatever constructor carries
   a template string, walking it appends well-formed chunks only *)
Theorem C14_walk_chunks_wf : forall o fuel n st x st', jwalk o fuel n st = Ok (x, st') ->
  Forall (fun kv : bstr * list chunk => Forall chunk_wf (snd kv)) (j_called st) ->
  exists cs, j_out st' = rev cs ++ j_out st /\ Forall chunk_wf cs.
Proof. exact walk_chunks_wf. Qed.
Print Assumptions C14_walk_chunks_wf.

(* literals_denote: every template-originated string written anywhere in a
   generated file is a literal chunk that reads back as the original bytes *)
Theorem C14_literals_denote : forall o fuel name body cs, gen_file o fuel name body = Ok cs ->
  forall q s, In (CStrLit q s) cs -> lit_guard s ->
    (q = 39 \/ q = 34)
    /\ js_read_literal_q q (lit_body s) = Some s
    /\ Forall js_inert (lit_body s).
Proof. exact literals_denote. Qed.
Print Assumptions C14_literals_denote.

(* While the tree calls the library's escaper (jsstr_pair_js = false) the FULL
   statement (no guard on astral non-printable runes) is FALSE of the faithful
   model: text/template.JSEscape writes such a rune with five or six hex digits
   (finding js-literal-astral-nonprint-5hex).  With internal/jsescape
   (jsstr_pair_js = true) lit_guard is utf8_valid alone and the theorems above
   are the full statement. *)
Theorem C14_literals_astral_refuted : jsstr_pair_js = false ->
  exists s, utf8_valid s = true
            /\ render_chunk is_print_tbl (CStrLit 39 s) = [39; 92; 117; 70; 48; 48; 48; 48; 39]
            /\ js_read_literal_q 39 (lit_body s) <> Some s.
Proof. exact literals_astral_refuted. Qed.

(* the full statement, for a tree that calls internal/jsescape *)
Theorem C14_literals_denote_repaired : jsstr_pair_js = true ->
  forall o fuel name body cs, gen_file o fuel name body = Ok cs ->
  forall q s, In (CStrLit q s) cs -> utf8_valid s = true ->
    (q = 39 \/ q = 34)
    /\ js_read_literal_q q (lit_body s) = Some s
    /\ Forall js_inert (lit_body s).
Proof. exact literals_denote_repaired. Qed.
Print Assumptions C14_literals_denote_repaired.
Print Assumptions C14_literals_astral_refuted.

(* ---------------- the emission sites ---------------- *)
(* raw text, message html tags, css names, string literals, global string
   values, map keys and translation text are written as CStrLit chunks that
   carry exactly the original bytes *)
Theorem C14_site_raw_text : forall o w prev p t st,
  out_after (jwalk_node o w prev (NRawText p t)) st
  = Some (rev [CText (indent_text (j_indent st)); CName (j_buf st); CText t_pluseq; CStrLit 39 t; CText t_semi_nl] ++ j_out st).
Proof. exact site_raw_text. Qed.
Theorem C14_site_msg_html_tag : forall o w prev p t st,
  out_after (jwalk_node o w prev (NMsgHtmlTag p t)) st
  = Some (rev [CText (indent_text (j_indent st)); CName (j_buf st); CText t_pluseq; CStrLit 39 t; CText t_semi_nl] ++ j_out st).
Proof. exact site_msg_html_tag. Qed.
Theorem C14_site_css_suffix : forall o w prev p sfx st,
  out_after (jwalk_node o w prev (NCss p None sfx)) st
  = Some (rev [CText (indent_text (j_indent st)); CName (j_buf st); CText t_pluseq; CStrLit 39 sfx; CText t_semi_nl] ++ j_out st).
Proof. exact site_css_suffix. Qed.
Theorem C14_site_string_literal : forall o w prev p quoted v st,
  out_after (jwalk_node o w prev (NString p quoted v)) st = Some (CStrLit 39 v :: j_out st).
Proof. exact site_string_literal. Qed.
Theorem C14_site_global_string : forall o w prev p name s,
  jwalk_node o w prev (NGlobal p name (VStr s)) = w (NString p n_unused s).
Proof. exact site_global_string. Qed.
Theorem C14_site_map_key : forall w first k x r,
  map_items w first ((k, x) :: r)
  = jbind (if first then jret tt else jtxt t_comma)
      (fun _ => jbind (jemit [CStrLit 34 k; CText t_colon]) (fun _ => jbind (w x) (fun _ => map_items w false r))).
Proof. exact site_map_key. Qed.
Theorem C14_site_translation_text : forall w body t, jeval_part w body (JMRaw t) = write_raw_text t.
Proof. exact site_translation_text. Qed.
Print Assumptions C14_site_raw_text.

(* ---------------- one function per template ---------------- *)
(* gen_defines_templates: for a file whose top-level nodes are the namespace,
   soydoc comments and templates (no template or namespace node nested inside
   a template body), the function headers of the generated chunk list are
   exactly the file's templates, in order, under their qualified names (ES5)
   or ES6 identifiers (ES6), and the namespace-object declarations are exactly
   the dotted prefixes of the namespace, in order, before the first header. *)
Theorem C14_gen_defines_templates : forall o fuel name body cs, Forall top_ok body -> gen_file o fuel name body = Ok cs ->
  defined_names cs = map (fun t => fmt_bytes (fmt_template_name (o_fmt o)) t) (template_names body)
  /\ declared_objects cs = flat_map ns_prefix_list (namespace_names body).
Proof. exact gen_defines_templates. Qed.
Print Assumptions C14_gen_defines_templates.

(* the declared objects of a namespace are its dotted prefixes: the last one
   is the namespace itself and every declared name is a prefix of it *)
Theorem C14_ns_prefixes : forall name, name <> [] ->
  last (ns_prefix_list name) [] = name /\ Forall (fun p => exists k, p = take k name) (ns_prefix_list name).
Proof. exact ns_prefixes_spec. Qed.
Print Assumptions C14_ns_prefixes.

(* ---------------- non-vacuity ---------------- *)
Definition ex_opts : jopts := {| o_fmt := ES5; o_msgs := None; o_order := fun l => l |}.
Definition ex_body : list node := Eval vm_compute in
  [ NNamespace 0 (b "ns.a") 0; NSoyDoc 0 [];
    NTemplate 0 (b "ns.a.t")
      (NList 0 [NRawText 0 (b "it's </script>");
                NLetValue 0 (b "m") (NMapLit 0 [(b "a""b", NInt 0 1)]);
                NPrint 0 (NString 0 [] [226; 128; 168; 92]) []]) 0 false ].

(* the generated text of a small file: the raw text, the map key and the
   string literal (U+2028, backslash) are escaped; the literals satisfy the
   guard and read back; one function, two namespace objects *)
Example C14_nonvacuous :
  exists cs, gen_file ex_opts 50 (b "f.soy") ex_body = Ok cs
    /\ render_chunks is_print_tbl cs = b
"// This file was automatically generated from f.soy.
// Please don't edit this file by hand.

if (typeof ns == 'undefined') { var ns = {}; }
if (typeof ns.a == 'undefined') { ns.a = {}; }

ns.a.t = function(opt_data, opt_sb, opt_ijData) {
  var output = '';
  output += 'it\'s \u003C/script\u003E';
  var m_1 = {""a\""b"":1};
  output += soy.$$escapeHtml('\u2028\\');
  return output;
};
"
    /\ In (CStrLit 39 (b "it's </script>")) cs /\ In (CStrLit 34 (b "a""b")) cs /\ In (CStrLit 39 [226; 128; 168; 92]) cs
    /\ js_read_literal_q 34 (lit_body (b "a""b")) = Some (b "a""b")
    /\ js_read_literal_q 39 (lit_body [226; 128; 168; 92]) = Some [226; 128; 168; 92]
    /\ defined_names cs = [b "ns.a.t"] /\ declared_objects cs = [b "ns"; b "ns.a"].
Proof.
  eexists. split; [vm_compute; reflexivity|]. vm_compute.
  repeat split; try reflexivity; repeat (first [left; reflexivity | right]).
Qed.

Ltac reach_tac Hm :=
  apply reach_inv in Hm;
  let c := fresh "c" in let Hc := fresh "Hc" in
  destruct Hm as [->|(c & Hc & Hm)];
  [exact I | cbn in Hc; repeat (destruct Hc as [<-|Hc]; [reach_tac Hm|]); contradiction].

Lemma ex_body_top_ok : Forall top_ok ex_body.
Proof.
  unfold ex_body. repeat constructor; cbn [top_ok]; intros m Hm; reach_tac Hm.
Qed.

Example C14_guard_nonvacuous :
  lit_guard (b "it's </script>") /\ lit_guard (b "a""b") /\ lit_guard [226; 128; 168; 92] /\ Forall top_ok ex_body.
Proof.
  split; [apply lit_guard_b_ok; vm_compute; reflexivity|].
  split; [apply lit_guard_b_ok; vm_compute; reflexivity|].
  split; [apply lit_guard_b_ok; vm_compute; reflexivity|].
  exact ex_body_top_ok.
Qed.

(* the reader rejects what the escaper must prevent *)
Example C14_reader_rejects :
  js_read_literal_q 34 (b "a""b") = None /\ js_read_literal_q 39 (b "it's") = None
  /\ js_read_literal_q 39 [226; 128; 168] = None /\ js_read_literal_q 39 [97; 10] = None /\ js_read_literal_q 39 [92] = None.
Proof. vm_compute. repeat split; reflexivity. Qed.

(* ---------------- the generated file is a program of the token grammar ---------------- *)
(* FULL STATEMENT (not proved as such): for every file the Soy parser and checker accept, the BYTES soyjs.Write
   produces are a syntactically valid ECMAScript Script (ES5 formatter) / Module (ES6 formatter), with one function
   definition per template under its qualified name.

   PROVED, for every option record (formatter, message bundle, map-order oracle), fuel, file name and body: when the
   body passes the decidable shape check file_chk of Spec/JsShape.v (expressions where expressions are expected,
   names that are identifiers, the first namespace segment not reserved, finite floats, functions and directives soyjs
   knows -- their table texts are NOT assumed well formed, the check runs the recogniser over them with a hole per
   argument --, one default per switch; {msg} with and without a translation bundle, plurals included) and the
   generator model succeeds, then
     - the chunk list lexes (lex_chunks: every CText scanned byte by byte, a CStrLit one string token, a CName a
       dotted identifier, a CNum a signed number, the header a comment),
     - the recogniser js_parse of Spec/JsSyntax.v accepts the tokens (Script or Module according to the formatter),
     - the function definitions of the parse are exactly the file's templates, in order, under their qualified
       names (ES5) / ES6 identifiers,
     - the tokens are bracket balanced: every ) ] } closes the innermost open bracket, of its own kind,
     - and the BYTES of the file -- the rendering of the chunk list, for every predicate is_print that
       text/template.JSEscape may consult -- lex, with the byte lexer lex_bytes, to exactly these tokens: no two
       adjacent chunks share a token, no chunk boundary splits one (identifiers, numbers, punctuators by maximal
       munch, the header comment, string literals, the 'line break before' flag).  So the statement is about the
       file soyjs writes (the model's bytes are tied byte for byte to soyjs.Write by the correspondence).
   MISSING for the full statement: (2) that the Soy parser's output satisfies file_chk -- the harness evaluates
   file_chk on every accepted file it generates and reports how many pass; (4) that the grammar is a subset of
   ECMAScript -- tested against V8 on the generated files and on mutants, no formal ECMAScript grammar exists here. *)
Theorem C14_gen_output_parses_partial : forall o fuel fk name body cs,
  file_chk (o_fmt o) fk body = true -> gen_file o fuel name body = Ok cs ->
  exists ts prog, lex_chunks cs = Some ts /\ js_parse (is_module (o_fmt o)) ts = Some prog
    /\ prog_funs prog = map (fname o) (template_names body) /\ bracket_balanced ts = true
    /\ forall is_print, lex_bytes (render_chunks is_print cs) = Some ts.
Proof. exact gen_file_parses. Qed.
Print Assumptions C14_gen_output_parses_partial.

(* the same, said of the bytes alone: the file soyjs writes lexes and parses, and defines its templates *)
Theorem C14_gen_bytes_parse_partial : forall o fuel fk name body cs is_print,
  file_chk (o_fmt o) fk body = true -> gen_file o fuel name body = Ok cs ->
  exists ts prog, lex_bytes (render_chunks is_print cs) = Some ts /\ js_parse (is_module (o_fmt o)) ts = Some prog
    /\ prog_funs prog = map (fname o) (template_names body) /\ bracket_balanced ts = true.
Proof.
  intros o fuel fk name body cs ip Hc Hg. destruct (gen_file_parses o fuel fk name body cs Hc Hg) as (ts & prog & _ & P & F & B & Y).
  exists ts, prog. auto.
Qed.
Print Assumptions C14_gen_bytes_parse_partial.

(* a token the lexers flagged 'line break before' is never part of an accepted token list: the restricted production
   (no line terminator before a postfix ++) is enforced by the recogniser, not by refusing the text in the lexer *)
Theorem C14_js_parse_unflagged : forall md ts p, js_parse md ts = Some p -> existsb tok_flagged ts = false.
Proof. exact js_parse_unflagged. Qed.
Print Assumptions C14_js_parse_unflagged.

(* whatever the recogniser accepts -- model tokens, tokens of real bytes, anything -- is bracket balanced *)
Theorem C14_js_parse_balanced : forall md ts p, js_parse md ts = Some p -> bracket_balanced ts = true.
Proof. exact js_parse_balanced. Qed.
Print Assumptions C14_js_parse_balanced.

(* a string literal as soyjs writes it -- quote, JSEscape of ANY byte string (valid UTF-8 or not, astral runes, quotes,
   backslashes, line terminators, </script>), quote -- followed by anything: the byte lexer reads exactly one string
   token and is back in normal mode right after the closing quote.  No template string can end its literal early or
   swallow the text that follows it.  (This is the CStrLit case of "lex_bytes of the rendered chunks = lex_chunks".) *)
Theorem C14_strlit_one_token : forall is_print q s rest, q = 39 \/ q = 34 ->
  lex_text 0 LNormal (render_chunk is_print (CStrLit q s) ++ rest)
  = option_map (fun '(ts, m) => (TStr :: ts, m)) (lex_text 0 LNormal rest).
Proof. intros is_print q s rest Hq. exact (strlit_one_token is_print q Hq s rest). Qed.
Print Assumptions C14_strlit_one_token.

(* non-vacuity: the example file passes the check, its chunks and its BYTES lex to the same tokens, the parse
   defines ns.a.t; and the recogniser rejects what JavaScript rejects: 5.length, a missing bracket, a second default *)
Example C14_grammar_nonvacuous :
  file_chk ES5 20 ex_body = true
  /\ (exists cs ts, gen_file ex_opts 50 (b "f.soy") ex_body = Ok cs /\ lex_chunks cs = Some ts
       /\ lex_bytes (render_chunks is_print_tbl cs) = Some ts
       /\ js_parse false ts = Some [DFun (b "ns.a.t")])
  /\ (exists ts, lex_bytes (b "x = a.length;") = Some ts /\ js_parse false ts = Some [])
  /\ (exists ts, lex_chunks [CName (b "x"); CText (b " = "); CNum (b "5"); CText (b ".length;")] = Some ts /\ js_parse false ts = None)
  /\ (exists ts, lex_bytes (b "x = 5.length;") = Some ts /\ js_parse false ts = None)
  /\ (exists ts, lex_bytes (b "x = f(a;") = Some ts /\ js_parse false ts = None)
  /\ (exists ts, lex_bytes (b "switch (x) { default: break; default: break; }") = Some ts /\ js_parse false ts = None)
  /\ (exists ts, lex_bytes (b "export function f(opt_data, opt_sb, opt_ijData) { return 1; };") = Some ts
       /\ js_parse false ts = None /\ js_parse true ts = Some [DFun (b "f")]).
Proof.
  split; [vm_compute; reflexivity|]. split; [eexists; eexists; split; [vm_compute; reflexivity|]; vm_compute; repeat split; reflexivity|].
  repeat split; try (eexists; split; [vm_compute; reflexivity|]; vm_compute; repeat split; reflexivity); vm_compute; reflexivity.
Qed.
