(* C16 — print directives encode faithfully.  Property theorems only; every
   statement holds for ALL byte strings (no length bound).  Models:
   Model/Directives.v (insertWordBreaks, changeNewlineToBr, truncate,
   url.QueryEscape), Model/JsEscape.v (template.JSEscapeString, json.Marshal of
   a string); decoders: Spec/Codec.v, Spec/Html.v. *)
From Soy Require Import Proofs.SourceTieDirectives Proofs.SourceTieWordBreaks.
From Soy Require Import Model.Bytes Generated.Tables Model.Utf8 Model.Num Model.Outcome Model.Values Model.Escape Model.Directives Model.JsEscape
  Model.JsonEncode Spec.Html Spec.Codec Spec.Json Proofs.Utf8Proofs Proofs.CodecProofs Proofs.CodecJsPair Proofs.CodecJsonNum Proofs.CodecJson Proofs.CodecJsonInert
  Model.JsDirectives Spec.JsUnits Proofs.CodecJsUnits Proofs.CodecJsAgree Proofs.CodecJsTie Model.InterpJson Proofs.CodecWalkerJson.
Open Scope N_scope.

(* ---------------- escapeUri ---------------- *)
(* bytes are < 256 (always true of the strings the harness and Go produce) *)
Theorem C16_uri_roundtrip : forall s, Forall (fun c => c < 256) s -> pct_decode (escape_uri s) = Some s.
Proof. exact uri_roundtrip. Qed.
Print Assumptions C16_uri_roundtrip.

(* only A-Z a-z 0-9 - _ . ~ + % *)
Theorem C16_uri_safe_alphabet : forall s, Forall (fun c => c < 256) s -> Forall (fun c => uri_safe_byte c = true) (escape_uri s).
Proof. exact uri_safe_alphabet. Qed.
Print Assumptions C16_uri_safe_alphabet.

Example C16_uri_nonvacuous :
  Forall (fun c => c < 256) (b "a%b > c" ++ [255; 0]) /\ escape_uri (b "a%b > c") = b "a%25b+%3E+c"
  /\ pct_decode (b "a%25b+%3E+c") = Some (b "a%b > c") /\ pct_decode (b "%zz") = None /\ pct_decode (b "%4") = None.
Proof. split; [repeat constructor|vm_compute; repeat split; reflexivity]. Qed.

(* ---------------- truncate ---------------- *)
Theorem C16_truncate_fits : forall s n e, (Z.of_nat (length s) <= n)%Z -> truncate s n e = Ok s.
Proof. exact truncate_fits. Qed.
Print Assumptions C16_truncate_fits.

(* otherwise, when a result is returned: a prefix (plus "..." exactly when
   the ellipsis applies), never longer than the limit, cut where a rune
   starts (and at the last such place not after the limit), valid UTF-8 if
   the input is *)
Theorem C16_truncate_spec : forall s n e out, (n < Z.of_nat (length s))%Z -> truncate s n e = Ok out ->
  exists k c,
    out = take k s ++ (if trunc_ell n e then dots else [])
    /\ (Z.of_nat (length out) <= n)%Z /\ (0 <= n)%Z
    /\ nth_error s k = Some c /\ rune_start c = true
    /\ (Z.of_nat k <= trunc_cut n e)%Z
    /\ (forall i, (k < i <= Z.to_nat (trunc_cut n e))%nat -> exists c', nth_error s i = Some c' /\ is_cont c' = true)
    /\ (utf8_valid s = true -> utf8_valid out = true).
Proof. exact truncate_cut. Qed.
Print Assumptions C16_truncate_spec.

(* the outcome is a result or a (recovered) error, never a crash, a
   divergence or the model's fuel running out ... *)
Theorem C16_truncate_total : forall s n e, (n < Z.of_nat (length s))%Z ->
  (exists out, truncate s n e = Ok out) \/ (exists m, truncate s n e = Err m).
Proof. exact truncate_total. Qed.
Print Assumptions C16_truncate_total.

(* ... and it is an error exactly for a negative limit or when every byte up
   to the cut is a continuation byte (the Go loop indexes str[-1]) *)
Theorem C16_truncate_err_when : forall s n e, (n < Z.of_nat (length s))%Z ->
  ((exists m, truncate s n e = Err m) <->
   ((n < 0)%Z \/ forall i, (i <= Z.to_nat (trunc_cut n e))%nat -> exists c, nth_error s i = Some c /\ is_cont c = true)).
Proof. exact truncate_err_when. Qed.
Print Assumptions C16_truncate_err_when.

Example C16_truncate_nonvacuous :
  truncate (b "Lorem Ipsum") 8 true = Ok (b "Lorem...")
  /\ truncate [97; 240; 159; 152; 128; 98] 3 false = Ok [97]          (* a, U+1F600, b cut inside the rune: backs up *)
  /\ truncate [97; 195; 169; 98; 99; 100; 101] 5 true = Ok [97; 46; 46; 46]
  /\ (exists m, truncate [128; 128; 97; 98] 1 false = Err m)
  /\ (exists m, truncate (b "abc") (-1) false = Err m).
Proof. vm_compute. repeat split; eexists; reflexivity. Qed.

(* ---------------- changeNewlineToBr / insertWordBreaks ---------------- *)
(* nothing but line breaks changes in the escaped text *)
Theorem C16_br_only : forall s, remove_tok br (change_newline_to_br s) = tmpl_html_escape (remove_newlines s).
Proof. exact br_only. Qed.
Print Assumptions C16_br_only.

Theorem C16_br_no_newline : forall s, Forall (fun d => d <> 10 /\ d <> 13) (change_newline_to_br s).
Proof. exact br_no_newline. Qed.
Print Assumptions C16_br_no_newline.

(* nothing but break opportunities changes in the escaped text *)
Theorem C16_wbr_only : forall s n, remove_tok wbr (insert_word_breaks s n) = tmpl_html_escape s.
Proof. exact wbr_only. Qed.
Print Assumptions C16_wbr_only.

(* no <wbr> inside a character reference: the output is a concatenation of
   units, each either <wbr> or the whole escaped image of one input byte, and
   the non-<wbr> units concatenate to the escaped text *)
Theorem C16_wbr_units : forall s n, exists us, Forall iwb_unit us /\ insert_word_breaks s n = concat_b us
  /\ concat_b (filter (fun u => negb (bstr_eqb u wbr)) us) = tmpl_html_escape s.
Proof. exact wbr_units. Qed.
Print Assumptions C16_wbr_units.

Example C16_wbr_nonvacuous :
  insert_word_breaks (b "a<b&cd") 2 = b "a&lt;<wbr>b&amp;<wbr>cd"
  /\ change_newline_to_br ([97; 13; 10; 60; 10; 13]) = b "a<br>&lt;<br><br>"
  /\ remove_tok wbr (b "a&lt;<wbr>b&amp;<wbr>cd") = b "a&lt;b&amp;cd".
Proof. vm_compute. repeat split; reflexivity. Qed.

(* ---------------- escapeJsString ---------------- *)
(* for every predicate standing for unicode.IsPrint that rejects U+2028 and
   U+2029, and both quote characters *)
Theorem C16_jsstr_roundtrip_any_isprint : forall is_print : N -> bool,
  is_print 8232 = false -> is_print 8233 = false ->
  forall q, q = 39 \/ q = 34 ->
  forall s, utf8_valid s = true -> Forall (fun r => r < 65536 \/ is_print r = true) (runes s) ->
  js_read_literal_q q (js_escape is_print s) = Some s.
Proof. exact jsstr_roundtrip_q. Qed.
Print Assumptions C16_jsstr_roundtrip_any_isprint.

(* for Go's unicode.IsPrint (table regenerated from the toolchain) *)
Theorem C16_jsstr_roundtrip : forall s,
  (Forall (fun r => r < 65536 \/ is_print_tbl r = true) (runes s)) -> utf8_valid s = true ->
  js_read_literal (js_escape is_print_tbl s) = Some s.
Proof. exact jsstr_roundtrip. Qed.
Print Assumptions C16_jsstr_roundtrip.

Theorem C16_jsstr_roundtrip_double_quotes : forall s,
  (Forall (fun r => r < 65536 \/ is_print_tbl r = true) (runes s)) -> utf8_valid s = true ->
  js_read_literal_q 34 (js_escape is_print_tbl s) = Some s.
Proof. exact jsstr_roundtrip_dq. Qed.
Print Assumptions C16_jsstr_roundtrip_double_quotes.

(* no line feed, carriage return, < > & = in the escaped text, for every
   byte string and every is_print (a raw quote or U+2028/U+2029 would make
   js_read_literal fail, so their absence is part of the round trip) *)
Theorem C16_jsstr_inert : forall is_print s, Forall js_inert (js_escape is_print s).
Proof. exact js_escape_inert. Qed.
Print Assumptions C16_jsstr_inert.

(* FULL statement (without the guard on astral non-printable runes):
     forall s, utf8_valid s = true -> js_read_literal (js_escape is_print_tbl s) = Some s
   is FALSE of the faithful model, because text/template.JSEscape formats the
   rune with %04X (finding jsstr-astral-nonprint-5hex): *)
Theorem C16_jsstr_astral_refuted :
  exists s, utf8_valid s = true /\ js_escape is_print_tbl s = [92; 117; 70; 48; 48; 48; 48]
            /\ js_read_literal (js_escape is_print_tbl s) = Some [239; 128; 128; 48]
            /\ js_read_literal (js_escape is_print_tbl s) <> Some s.
Proof. exact jsstr_astral_refuted. Qed.
Print Assumptions C16_jsstr_astral_refuted.

(* ---- the escaper soy calls (Model/JsEscape.v js_escape_soy): text/template's, or -- once the repair
   notes/pending/C16-jsstr-astral-surrogate-pair.diff is applied -- internal/jsescape, which writes a
   non-printable rune above U+FFFF as its surrogate pair.  Which one the tree under test calls is
   regenerated from its source (Generated/Tables.v jsstr_pair_html). ---- *)

(* the directive as the tree under test implements it: the guard is needed only while the library is called *)
Theorem C16_jsstr_roundtrip_soy : forall s,
  (jsstr_pair_html = true \/ Forall (fun r => r < 65536 \/ is_print_tbl r = true) (runes s)) -> utf8_valid s = true ->
  js_read_literal (js_escape_soy jsstr_pair_html is_print_tbl s) = Some s.
Proof.
  intros s Hg Hv. apply (jsstr_roundtrip_soy_q jsstr_pair_html is_print_tbl is_print_tbl_ls is_print_tbl_ps 39 (or_introl eq_refl)); [exact Hv|].
  destruct Hg as [Hp|Hg]; [apply Forall_forall; intros; left; exact Hp|].
  eapply Forall_impl; [|exact Hg]. intros r Hr. right. exact Hr.
Qed.
Print Assumptions C16_jsstr_roundtrip_soy.

(* the FULL statement, without the BMP-or-printable guard, for the repaired escaper *)
Theorem C16_jsstr_roundtrip_repaired : forall s, utf8_valid s = true ->
  js_read_literal (js_escape_soy true is_print_tbl s) = Some s.
Proof. exact jsstr_roundtrip_repaired. Qed.
Print Assumptions C16_jsstr_roundtrip_repaired.

Theorem C16_jsstr_roundtrip_repaired_double_quotes : forall s, utf8_valid s = true ->
  js_read_literal_q 34 (js_escape_soy true is_print_tbl s) = Some s.
Proof. exact jsstr_roundtrip_repaired_dq. Qed.
Print Assumptions C16_jsstr_roundtrip_repaired_double_quotes.

Theorem C16_jsstr_soy_inert : forall pair is_print s, Forall js_inert (js_escape_soy pair is_print s).
Proof. exact js_escape_soy_inert. Qed.
Print Assumptions C16_jsstr_soy_inert.

(* with pair = false it IS the library's escaper, so the theorems above about js_escape carry over *)
Theorem C16_jsstr_soy_library : forall is_print s, js_escape_soy false is_print s = js_escape is_print s.
Proof. exact js_escape_soy_false. Qed.
Print Assumptions C16_jsstr_soy_library.

(* the witness of the finding: U+F0000 z  ->  backslash-u DB80 backslash-u DC00 z, which reads back *)
Example C16_jsstr_repaired_nonvacuous :
  js_escape_soy true is_print_tbl [243; 176; 128; 128; 122] = [92; 117; 68; 66; 56; 48; 92; 117; 68; 67; 48; 48; 122]
  /\ js_read_literal [92; 117; 68; 66; 56; 48; 92; 117; 68; 67; 48; 48; 122] = Some [243; 176; 128; 128; 122]
  /\ utf8_valid [243; 176; 128; 128; 122] = true /\ is_print_tbl 983040 = false.
Proof. vm_compute. repeat split; reflexivity. Qed.

(* a, less-than, b, apostrophe, c, quote, backslash, LF, U+00A0, U+00E9, U+2028, U+1F600;
   the escapes xHH, backslash-slash and a surrogate pair are read *)
Example C16_jsstr_nonvacuous :
  let s := [97; 60; 98; 39; 99; 34; 92; 10; 194; 160; 195; 169; 226; 128; 168; 240; 159; 152; 128] in
  utf8_valid s = true /\ forallb (fun r => (r <? 65536) || is_print_tbl r) (runes s) = true
  /\ js_escape is_print_tbl s =
       [97; 92; 117; 48; 48; 51; 67; 98; 92; 39; 99; 92; 34; 92; 92; 92; 117; 48; 48; 48; 65; 92; 117; 48; 48; 65; 48;
        195; 169; 92; 117; 50; 48; 50; 56; 240; 159; 152; 128]
  /\ js_read_literal [92; 120; 52; 49; 92; 47; 240; 159; 152; 128; 92; 117; 68; 56; 51; 68; 92; 117; 68; 69; 48; 48]
       = Some [65; 47; 240; 159; 152; 128; 240; 159; 152; 128]
  /\ js_read_literal (b "it's") = None /\ js_read_literal [97; 10] = None /\ js_read_literal [226; 128; 168] = None.
Proof. vm_compute. repeat split; reflexivity. Qed.

(* ---------------- json (string values) ---------------- *)
Theorem C16_json_string_roundtrip : forall s, utf8_valid s = true -> json_parse_string (json_string s) = Some s.
Proof. exact json_string_roundtrip. Qed.
Print Assumptions C16_json_string_roundtrip.

Theorem C16_json_string_inert : forall s, Forall html_inert (json_string s).
Proof. exact json_string_inert. Qed.
Print Assumptions C16_json_string_inert.

(* a, less-than, b, quote, backslash, slash, BS, LF, 0x01, DEL, U+00A0, U+2029, U+1F600;
   an invalid byte becomes the escape for U+FFFD *)
Example C16_json_nonvacuous :
  let s := [97; 60; 98; 34; 92; 47; 8; 10; 1; 127; 194; 160; 226; 128; 169; 240; 159; 152; 128] in
  utf8_valid s = true
  /\ json_string s = [34; 97; 92; 117; 48; 48; 51; 99; 98; 92; 34; 92; 92; 47; 92; 98; 92; 110; 92; 117; 48; 48; 48; 49;
                      127; 194; 160; 92; 117; 50; 48; 50; 57; 240; 159; 152; 128; 34]
  /\ json_string [255] = [34; 92; 117; 102; 102; 102; 100; 34]
  /\ json_parse_string [34; 92; 117; 100; 56; 51; 100; 92; 117; 100; 101; 48; 48; 92; 47; 34] = Some [240; 159; 152; 128; 47]
  /\ json_parse_string [34; 97] = None /\ json_parse_string [34; 10; 34] = None /\ json_parse_string [34; 97; 34; 98] = None.
Proof. vm_compute. repeat split; reflexivity. Qed.

(* ---------------- json (every value) ---------------- *)
(* json.Marshal of a Soy value (Model/JsonEncode.v: null / bool / int64 / float64 of the exact printing
   domain / string / list / map with sorted keys, at any nesting depth), read by the RFC 8259 reader of
   Spec/Json.v, is the JSON value the Soy value denotes (jv_of_value: undefined and null are null, a
   number is the exact decimal it denotes, collections keep their elements).  json_ok: strings and keys
   are valid UTF-8, floats are normalised, keys strictly increase (the invariants of Model/Values.v), and
   -- only while the tree writes a nil collection as null (Tables.json_nil_null) -- no collection is nil. *)
Theorem C16_json_roundtrip : forall v s, json_ok json_nil_null v -> json_encode json_nil_null v = Ok s ->
  exists j, jv_of_value v = Some j /\ json_parse s = Some j.
Proof. exact (json_roundtrip json_nil_null). Qed.
Print Assumptions C16_json_roundtrip.

(* for both kinds of tree; nn = false (repair notes/pending/C16-json-nil-list.diff) has no nil clause *)
Theorem C16_json_roundtrip_any_tree : forall nn v s, json_ok nn v -> json_encode nn v = Ok s ->
  exists j, jv_of_value v = Some j /\ json_parse s = Some j.
Proof. exact json_roundtrip. Qed.
Print Assumptions C16_json_roundtrip_any_tree.

(* the encoder gives a text for every value without NaN / infinities whose floats are in the exact printing domain *)
Theorem C16_json_encode_total : forall nn v, json_finite v -> exists s, json_encode nn v = Ok s.
Proof. exact json_encode_total. Qed.
Print Assumptions C16_json_encode_total.

(* HTML-safe at any depth: no raw < > & in the text of any value *)
Theorem C16_json_inert : forall nn v s, json_encode nn v = Ok s -> Forall html_inert s.
Proof. exact json_encode_inert. Qed.
Print Assumptions C16_json_inert.

(* numbers: an int64 (indeed any integer) and a float of the exact printing domain read back exactly *)
Theorem C16_json_number_int : forall z rest, stop_num rest -> json_number (dec_of_Z z ++ rest) = Some (num_of_Z z, rest).
Proof. exact json_number_int. Qed.
Print Assumptions C16_json_number_int.

Theorem C16_json_number_float : forall x s rest, fl_norm x -> fl_to_string_dom x = Some s -> stop_num rest ->
  forall j, num_of_fl x = Some j -> json_number (s ++ rest) = Some (j, rest).
Proof. exact json_number_float. Qed.
Print Assumptions C16_json_number_float.

(* {"a<":[-12,2.5,null,true,"x",[]],"b":{}} ; 2.5 is the number 25e-1 ; 1, 1.0 and 10e-1 are one number;
   a nil list is null on a tree without the repair; malformed texts are rejected *)
Example C16_json_value_nonvacuous :
  let v := VMap 5 [([97; 60], VList 6 [VInt (-12); VFloat (FFin 5 (-1)); VNull; VBool true; VStr [120]; VList 1 []]); ([98], VMap 7 [])] in
  json_ok true v
  /\ json_encode true v = Ok (b "{""a\u003c"":[-12,2.5,null,true,""x"",[]],""b"":{}}")
  /\ json_parse (b "{""a\u003c"":[-12,2.5,null,true,""x"",[]],""b"":{}}")
      = Some (JvObj [([97; 60], JvArr [JvNum true 12 0; JvNum false 25 (-1); JvNull; JvBool true; JvStr [120]; JvArr []]); ([98], JvObj [])])
  /\ jv_of_value v = json_parse (b "{""a\u003c"":[-12,2.5,null,true,""x"",[]],""b"":{}}")
  /\ json_parse (b "1") = json_parse (b " 10e-1 ") /\ json_parse (b "1.0") = Some (JvNum false 1 0) /\ json_parse (b "-0") = Some (JvNum true 0 0)
  /\ json_encode true (VList 0 []) = Ok (b "null") /\ json_encode false (VList 0 []) = Ok (b "[]")
  /\ json_parse (b "[1,]") = None /\ json_parse (b "01") = None /\ json_parse (b "{""a"":1} x") = None /\ json_parse (b "1.") = None.
Proof. vm_compute. repeat split; reflexivity. Qed.

(* ---------------- chains ---------------- *)
Theorem C16_chain_any_uri : forall (f : bstr -> bstr) s, Forall (fun c => c < 256) (f s) -> pct_decode (escape_uri (f s)) = Some (f s).
Proof. exact chain_any_uri. Qed.
Print Assumptions C16_chain_any_uri.

Theorem C16_chain_truncate_json : forall s n e out, utf8_valid s = true -> truncate s n e = Ok out ->
  json_parse_string (json_string out) = Some out.
Proof. exact chain_truncate_json. Qed.
Print Assumptions C16_chain_truncate_json.

Theorem C16_chain_truncate_jsstr : forall s n e out, utf8_valid s = true ->
  Forall (fun r => r < 65536 \/ is_print_tbl r = true) (runes s) -> truncate s n e = Ok out ->
  js_read_literal (js_escape is_print_tbl out) = Some out.
Proof. intros s n e out. exact (chain_truncate_jsstr is_print_tbl is_print_tbl_ls is_print_tbl_ps 39 (or_introl eq_refl) s n e out). Qed.
Print Assumptions C16_chain_truncate_jsstr.

Theorem C16_chain_escapehtml_json : forall s, utf8_valid s = true ->
  json_parse_string (json_string (tmpl_html_escape s)) = Some (tmpl_html_escape s).
Proof. exact chain_escapehtml_json. Qed.
Print Assumptions C16_chain_escapehtml_json.

Theorem C16_chain_truncate_wbr : forall s n e out k, truncate s n e = Ok out ->
  remove_tok wbr (insert_word_breaks out k) = tmpl_html_escape out.
Proof. exact chain_truncate_wbr. Qed.
Print Assumptions C16_chain_truncate_wbr.

Theorem C16_chain_truncate_br : forall s n e out, truncate s n e = Ok out ->
  remove_tok br (change_newline_to_br out) = tmpl_html_escape (remove_newlines out).
Proof. exact chain_truncate_br. Qed.
Print Assumptions C16_chain_truncate_br.

(* ---------------- the JavaScript counterparts (soyjs/lib/soyutils.js, over UTF-16 code units) ---------------- *)
(* Model/JsDirectives.v; tied to node on every run (all 65536 single units + code-unit strings) *)

(* soy.$$escapeJsString: between single or double quotes the escaped text denotes the value,
   for EVERY code-unit string (lone surrogates included) *)
Theorem C16_js_jsstr_roundtrip : forall q s, q = 39 \/ q = 34 -> jsu_read q (u_escape_js_string s) = Some s.
Proof. exact u_jsstr_roundtrip. Qed.
Print Assumptions C16_js_jsstr_roundtrip.

Theorem C16_js_jsstr_inert : forall s, Forall u_js_inert (u_escape_js_string s).
Proof. exact u_jsstr_inert. Qed.
Print Assumptions C16_js_jsstr_inert.

(* soy.$$escapeUri: safe alphabet, query-decodes to the UTF-8 form of the value; throws exactly on an unpaired surrogate *)
Theorem C16_js_uri_roundtrip : forall s, Forall (fun c => c < 65536) s ->
  match u_escape_uri s with
  | Ok out => exists bs, units_utf8 s = Some bs /\ pct_decode out = Some bs /\ Forall u_uri_byte out
  | Err _ => units_utf8 s = None
  | _ => False
  end.
Proof. intros s. exact (u_uri_roundtrip (length s) s (le_n _)). Qed.
Print Assumptions C16_js_uri_roundtrip.

(* soy.$$truncate *)
Theorem C16_js_truncate_fits : forall s n e, (Z.of_nat (length s) <= n)%Z -> u_truncate s n e = s.
Proof. exact u_truncate_fits. Qed.
Print Assumptions C16_js_truncate_fits.

Theorem C16_js_truncate_spec : forall s n e, (n < Z.of_nat (length s))%Z ->
  exists k : nat,
    u_truncate s n e = take k s ++ (if trunc_ell n e then dots else [])
    /\ (k <= length s)%nat
    /\ (Z.of_nat k <= Z.max 0 (trunc_cut n e))%Z
    /\ (0 <= n -> Z.of_nat (length (u_truncate s n e)) <= n)%Z
    /\ (u_high_at s (Z.of_nat k - 1) && u_low_at s (Z.of_nat k) = false).
Proof. exact u_truncate_cut. Qed.
Print Assumptions C16_js_truncate_spec.

(* what the generated code computes for changeNewlineToBr / insertWordBreaks: helper(soy.$$escapeHtml(x)) *)
Theorem C16_js_br_only : forall s, remove_tok br (u_change_newline_to_br s) = u_escape_html (remove_newlines s).
Proof. exact u_br_only. Qed.
Print Assumptions C16_js_br_only.

Theorem C16_js_wbr_only : forall s n, remove_tok wbr (u_insert_word_breaks s n) = u_escape_html s.
Proof. exact u_wbr_only. Qed.
Print Assumptions C16_js_wbr_only.

(* no <wbr> inside a character reference, for every limit >= 1: the output is a concatenation of units,
   each <wbr> or the whole escaped image of one code unit *)
Theorem C16_js_wbr_units : forall s maxc, (1 <= maxc)%Z ->
  exists us, Forall u_iwb_unit us /\ u_insert_word_breaks s maxc = concat_b us.
Proof. exact u_wbr_units. Qed.
Print Assumptions C16_js_wbr_units.

(* the limit must be >= 1: with 0 the shim breaks inside the reference (outside the statement's
   "in-range integer arguments"; the Go directive does not: it escapes rune by rune) *)
Example C16_js_wbr_limit_zero :
  u_insert_word_breaks [60] 0 = b "<wbr>&<wbr>l<wbr>t<wbr>;" /\ insert_word_breaks [60] 0 = b "<wbr>&lt;".
Proof. vm_compute. split; reflexivity. Qed.

(* apostrophe ( LF U+2028 lone-high a  ->  backslash-x27 ( backslash-n backslash-u2028 lone-high a ;
   U+1F600 (D83D DE00) encodes as %F0%9F%98%80 ; a lone surrogate makes escapeUri throw ;
   truncate backs out of a surrogate pair *)
Example C16_js_nonvacuous :
  u_escape_js_string [39; 40; 10; 8232; 55357; 97] = [92; 120; 50; 55; 40; 92; 110; 92; 117; 50; 48; 50; 56; 55357; 97]
  /\ jsu_read 39 [92; 120; 50; 55; 40; 92; 110; 92; 117; 50; 48; 50; 56; 55357; 97] = Some [39; 40; 10; 8232; 55357; 97]
  /\ jsu_read 39 [97; 39] = None /\ jsu_read 34 [8232] = None
  /\ u_escape_uri [97; 32; 39; 55357; 56832] = Ok (b "a%20%27%F0%9F%98%80")
  /\ (exists m, u_escape_uri [97; 55357] = Err m)
  /\ u_truncate [97; 55357; 56832; 98] 2 false = [97]
  /\ u_truncate [97; 98; 99; 100; 101; 102] 5 true = [97; 98; 46; 46; 46]
  /\ u_insert_word_breaks [97; 60; 98; 99; 100] 2 = b "a&lt;<wbr>bc<wbr>d"
  /\ u_change_newline_to_br [97; 13; 10; 60] = b "a<br>&lt;".
Proof. vm_compute. repeat split; try reflexivity. eexists; reflexivity. Qed.

(* ---------------- Go directive == JavaScript helper on the common domain ---------------- *)
(* truncate counts bytes in Go and code units in JavaScript; on ASCII text and a non-negative limit they agree *)
Theorem C16_truncate_go_js_agree_ascii : forall s n e, Forall (fun c => c < 128) s -> (0 <= n)%Z ->
  truncate s n e = Ok (u_truncate s n e).
Proof. exact truncate_agrees_ascii. Qed.
Print Assumptions C16_truncate_go_js_agree_ascii.

(* ---------------- the JavaScript helper models are soyutils.js, by translation ---------------- *)
(* tablegen generator 16-soyutils-js reads the escape maps, the matcher classes, the regex of newLineToBr, the
   surrogate bounds, WORD_BREAK and the code of $$truncate / insertWordBreaks out of the TEXT of
   soyjs/lib/soyutils.js (Generated/Tables.v, names jsu_...); Proofs/CodecJsTie.v: jst_replace is
   str.replace(class, ch => table[ch]) unit by unit, jst_replace_alts is str.replace(/(a|b|c)/g, text). *)
Theorem C16_js_tie_escape_js_string : forall s, Forall (fun c => c < 65536) s ->
  jst_replace jsu_js_matcher jsu_js_escape_map s = Some (u_escape_js_string s).
Proof. exact u_escape_js_string_matches_source. Qed.
Print Assumptions C16_js_tie_escape_js_string.

Theorem C16_js_tie_escape_html : forall s, Forall (fun c => c < 65536) s ->
  jst_replace jsu_html_matcher jsu_html_escape_map s = Some (u_escape_html s).
Proof. exact u_escape_html_matches_source. Qed.
Print Assumptions C16_js_tie_escape_html.

(* escapeUri: urlEncode is encodeURIComponent (ECMA-262, modelled); the units it leaves alone are then written
   through soy.$$problematicUriMarks_ / soy.$$pctEncode_ exactly as the model does *)
Theorem C16_js_tie_escape_uri : jsu_uri_encoder = jst_encodeURIComponent /\ jsu_pct_lower_hex = true
  /\ forall c, c < 65536 -> uri_unescaped c = true ->
       u_escape_uri [c] = Ok (jst_uri_mark_piece c) /\ (jst_in_class jsu_uri_marks c = true -> 16 <= c < 256).
Proof.
  destruct u_escape_uri_encoder_matches_source as [H1 H2]. split; [exact H1|]. split; [exact H2|].
  exact u_escape_uri_marks_matches_source.
Qed.
Print Assumptions C16_js_tie_escape_uri.

Theorem C16_js_tie_newline_to_br : forall s,
  u_newline_to_br s = jst_replace_alts jsu_br_alternatives jsu_br_replacement 0 s.
Proof. exact u_newline_to_br_matches_source. Qed.
Print Assumptions C16_js_tie_newline_to_br.

Theorem C16_js_tie_surrogates : forall c,
  u_is_high c = in_range (fst jsu_high_surrogate) (snd jsu_high_surrogate) c
  /\ u_is_low c = in_range (fst jsu_low_surrogate) (snd jsu_low_surrogate) c.
Proof. exact u_surrogates_match_source. Qed.
Print Assumptions C16_js_tie_surrogates.

(* $$truncate and the insertWordBreaks loop: the code is compared as text with what the model was written against *)
Theorem C16_js_tie_truncate_text : jsu_truncate_src = jst_truncate_text /\ jsu_insert_word_breaks_src = jst_insert_word_breaks_text
  /\ jsu_word_break = wbr /\ jsu_br_replacement = br.
Proof.
  split; [exact u_truncate_source_text|]. split; [exact u_insert_word_breaks_source_text|]. exact u_word_break_matches_source.
Qed.
Print Assumptions C16_js_tie_truncate_text.

(* the tables are not empty shells: ' is matched and written as backslash-x27, a is copied *)
Example C16_js_tie_nonvacuous :
  jst_replace jsu_js_matcher jsu_js_escape_map [39; 97] = Some [92; 120; 50; 55; 97]
  /\ jst_replace_alts jsu_br_alternatives jsu_br_replacement 0 [97; 13; 10; 98; 13] = b "a<br>b<br>"
  /\ jst_in_class jsu_uri_marks 40 = true /\ jst_uri_mark_piece 40 = b "%28".
Proof. vm_compute. repeat split; reflexivity. Qed.

(* ---------------- the directives inside the walker-level model ---------------- *)
(* Model/Directives.v apply_fn (base walker) answers OutOfModel for escapeJsString and json; the extended walker
   walk_xj of Model/InterpJson.v (C06) applies them through hooks.  Its json hook computes exactly json_encode --
   the encoder of the theorems above -- on values with sorted keys whose floats both float printers write alike,
   so a {$v|json} rendered through walk_xj parses back to the value. *)
Theorem C16_walker_json_is_json_encode : forall v args, cwj_sorted v ->
  dir_json (Some v) args = (s <- json_encode json_nil_null v ;; Ok (Some (VStr s))).
Proof. exact cwj_dir_json. Qed.
Print Assumptions C16_walker_json_is_json_encode.

Theorem C16_walker_json_roundtrip : forall v args s, json_ok json_nil_null v -> cwj_floats v ->
  dir_json (Some v) args = Ok (Some (VStr s)) ->
  exists j, jv_of_value v = Some j /\ json_parse s = Some j.
Proof. exact cwj_dir_json_roundtrip. Qed.
Print Assumptions C16_walker_json_roundtrip.
