(* C16 — print directives encode faithfully.  Property theorems only; every
   statement holds for ALL byte strings (no length bound).  Models:
   Model/Directives.v (insertWordBreaks, changeNewlineToBr, truncate,
   url.QueryEscape), Model/JsEscape.v (template.JSEscapeString, json.Marshal of
   a string); decoders: Spec/Codec.v, Spec/Html.v. *)
From Soy Require Import Proofs.SourceTieDirectives.
From Soy Require Import Model.Bytes Generated.Tables Model.Utf8 Model.Outcome Model.Escape Model.Directives Model.JsEscape
  Spec.Html Spec.Codec Proofs.Utf8Proofs Proofs.CodecProofs.
Open Scope N_scope.

(* ---------------- escapeUri ---------------- *)
(* bytes are < 256 (always true of the strings the harness and Go produce) *)
Theorem C16_uri_roundtrip : forall s, Forall (fun c => c < 256) s -> pct_decode (escape_uri s) = Some s.
Proof. exact uri_roundtrip. Qed.
Print Assumptions C16_uri_roundtrip.

(* only A-Z a-z 0-9 - _ . ~ + % *)
Theorem C16_uri_safe_alphabet : forall s, Forall (fun c => c < 256) s -> Forall (fun c => uri_safe_byte c = true) (escape_uri s).
Proof. exact uri_safe_alphabet. Qed.
Print Assumptions C16_uri_safe_alphabet.

Example C16_uri_nonvacuous :
  Forall (fun c => c < 256) (b "a%b > c" ++ [255; 0]) /\ escape_uri (b "a%b > c") = b "a%25b+%3E+c"
  /\ pct_decode (b "a%25b+%3E+c") = Some (b "a%b > c") /\ pct_decode (b "%zz") = None /\ pct_decode (b "%4") = None.
Proof. split; [repeat constructor|vm_compute; repeat split; reflexivity]. Qed.

(* ---------------- truncate ---------------- *)
Theorem C16_truncate_fits : forall s n e, (Z.of_nat (length s) <= n)%Z -> truncate s n e = Ok s.
Proof. exact truncate_fits. Qed.
Print Assumptions C16_truncate_fits.

(* otherwise, when a result is returned: a prefix (plus "..." exactly when
   the ellipsis applies), never longer than the limit, cut where a rune
   starts (and at the last such place not after the limit), valid UTF-8 if
   the input is *)
Theorem C16_truncate_spec : forall s n e out, (n < Z.of_nat (length s))%Z -> truncate s n e = Ok out ->
  exists k c,
    out = take k s ++ (if trunc_ell n e then dots else [])
    /\ (Z.of_nat (length out) <= n)%Z /\ (0 <= n)%Z
    /\ nth_error s k = Some c /\ rune_start c = true
    /\ (Z.of_nat k <= trunc_cut n e)%Z
    /\ (forall i, (k < i <= Z.to_nat (trunc_cut n e))%nat -> exists c', nth_error s i = Some c' /\ is_cont c' = true)
    /\ (utf8_valid s = true -> utf8_valid out = true).
Proof. exact truncate_cut. Qed.
Print Assumptions C16_truncate_spec.

(* the outcome is a result or a (recovered) error, never a crash, a
   divergence or the model's fuel running out ... *)
Theorem C16_truncate_total : forall s n e, (n < Z.of_nat (length s))%Z ->
  (exists out, truncate s n e = Ok out) \/ (exists m, truncate s n e = Err m).
Proof. exact truncate_total. Qed.
Print Assumptions C16_truncate_total.

(* ... and it is an error exactly for a negative limit or when every byte up
   to the cut is a continuation byte (the Go loop indexes str[-1]) *)
Theorem C16_truncate_err_when : forall s n e, (n < Z.of_nat (length s))%Z ->
  ((exists m, truncate s n e = Err m) <->
   ((n < 0)%Z \/ forall i, (i <= Z.to_nat (trunc_cut n e))%nat -> exists c, nth_error s i = Some c /\ is_cont c = true)).
Proof. exact truncate_err_when. Qed.
Print Assumptions C16_truncate_err_when.

Example C16_truncate_nonvacuous :
  truncate (b "Lorem Ipsum") 8 true = Ok (b "Lorem...")
  /\ truncate [97; 240; 159; 152; 128; 98] 3 false = Ok [97]          (* a, U+1F600, b cut inside the rune: backs up *)
  /\ truncate [97; 195; 169; 98; 99; 100; 101] 5 true = Ok [97; 46; 46; 46]
  /\ (exists m, truncate [128; 128; 97; 98] 1 false = Err m)
  /\ (exists m, truncate (b "abc") (-1) false = Err m).
Proof. vm_compute. repeat split; eexists; reflexivity. Qed.

(* ---------------- changeNewlineToBr / insertWordBreaks ---------------- *)
(* nothing but line breaks changes in the escaped text *)
Theorem C16_br_only : forall s, remove_tok br (change_newline_to_br s) = tmpl_html_escape (remove_newlines s).
Proof. exact br_only. Qed.
Print Assumptions C16_br_only.

Theorem C16_br_no_newline : forall s, Forall (fun d => d <> 10 /\ d <> 13) (change_newline_to_br s).
Proof. exact br_no_newline. Qed.
Print Assumptions C16_br_no_newline.

(* nothing but break opportunities changes in the escaped text *)
Theorem C16_wbr_only : forall s n, remove_tok wbr (insert_word_breaks s n) = tmpl_html_escape s.
Proof. exact wbr_only. Qed.
Print Assumptions C16_wbr_only.

(* no <wbr> inside a character reference: the output is a concatenation of
   units, each either <wbr> or the whole escaped image of one input byte, and
   the non-<wbr> units concatenate to the escaped text *)
Theorem C16_wbr_units : forall s n, exists us, Forall iwb_unit us /\ insert_word_breaks s n = concat_b us
  /\ concat_b (filter (fun u => negb (bstr_eqb u wbr)) us) = tmpl_html_escape s.
Proof. exact wbr_units. Qed.
Print Assumptions C16_wbr_units.

Example C16_wbr_nonvacuous :
  insert_word_breaks (b "a<b&cd") 2 = b "a&lt;<wbr>b&amp;<wbr>cd"
  /\ change_newline_to_br ([97; 13; 10; 60; 10; 13]) = b "a<br>&lt;<br><br>"
  /\ remove_tok wbr (b "a&lt;<wbr>b&amp;<wbr>cd") = b "a&lt;b&amp;cd".
Proof. vm_compute. repeat split; reflexivity. Qed.

(* ---------------- escapeJsString ---------------- *)
(* for every predicate standing for unicode.IsPrint that rejects U+2028 and
   U+2029, and both quote characters *)
Theorem C16_jsstr_roundtrip_any_isprint : forall is_print : N -> bool,
  is_print 8232 = false -> is_print 8233 = false ->
  forall q, q = 39 \/ q = 34 ->
  forall s, utf8_valid s = true -> Forall (fun r => r < 65536 \/ is_print r = true) (runes s) ->
  js_read_literal_q q (js_escape is_print s) = Some s.
Proof. exact jsstr_roundtrip_q. Qed.
Print Assumptions C16_jsstr_roundtrip_any_isprint.

(* for Go's unicode.IsPrint (table regenerated from the toolchain) *)
Theorem C16_jsstr_roundtrip : forall s,
  (Forall (fun r => r < 65536 \/ is_print_tbl r = true) (runes s)) -> utf8_valid s = true ->
  js_read_literal (js_escape is_print_tbl s) = Some s.
Proof. exact jsstr_roundtrip. Qed.
Print Assumptions C16_jsstr_roundtrip.

Theorem C16_jsstr_roundtrip_double_quotes : forall s,
  (Forall (fun r => r < 65536 \/ is_print_tbl r = true) (runes s)) -> utf8_valid s = true ->
  js_read_literal_q 34 (js_escape is_print_tbl s) = Some s.
Proof. exact jsstr_roundtrip_dq. Qed.
Print Assumptions C16_jsstr_roundtrip_double_quotes.

(* no line feed, carriage return, < > & = in the escaped text, for every
   byte string and every is_print (a raw quote or U+2028/U+2029 would make
   js_read_literal fail, so their absence is part of the round trip) *)
Theorem C16_jsstr_inert : forall is_print s, Forall js_inert (js_escape is_print s).
Proof. exact js_escape_inert. Qed.
Print Assumptions C16_jsstr_inert.

(* FULL statement (without the guard on astral non-printable runes):
     forall s, utf8_valid s = true -> js_read_literal (js_escape is_print_tbl s) = Some s
   is FALSE of the faithful model, because text/template.JSEscape formats the
   rune with %04X (finding jsstr-astral-nonprint-5hex): *)
Theorem C16_jsstr_astral_refuted :
  exists s, utf8_valid s = true /\ js_escape is_print_tbl s = [92; 117; 70; 48; 48; 48; 48]
            /\ js_read_literal (js_escape is_print_tbl s) = Some [239; 128; 128; 48]
            /\ js_read_literal (js_escape is_print_tbl s) <> Some s.
Proof. exact jsstr_astral_refuted. Qed.
Print Assumptions C16_jsstr_astral_refuted.

(* a, less-than, b, apostrophe, c, quote, backslash, LF, U+00A0, U+00E9, U+2028, U+1F600;
   the escapes xHH, backslash-slash and a surrogate pair are read *)
Example C16_jsstr_nonvacuous :
  let s := [97; 60; 98; 39; 99; 34; 92; 10; 194; 160; 195; 169; 226; 128; 168; 240; 159; 152; 128] in
  utf8_valid s = true /\ forallb (fun r => (r <? 65536) || is_print_tbl r) (runes s) = true
  /\ js_escape is_print_tbl s =
       [97; 92; 117; 48; 48; 51; 67; 98; 92; 39; 99; 92; 34; 92; 92; 92; 117; 48; 48; 48; 65; 92; 117; 48; 48; 65; 48;
        195; 169; 92; 117; 50; 48; 50; 56; 240; 159; 152; 128]
  /\ js_read_literal [92; 120; 52; 49; 92; 47; 240; 159; 152; 128; 92; 117; 68; 56; 51; 68; 92; 117; 68; 69; 48; 48]
       = Some [65; 47; 240; 159; 152; 128; 240; 159; 152; 128]
  /\ js_read_literal (b "it's") = None /\ js_read_literal [97; 10] = None /\ js_read_literal [226; 128; 168] = None.
Proof. vm_compute. repeat split; reflexivity. Qed.

(* ---------------- json (string values) ---------------- *)
Theorem C16_json_string_roundtrip : forall s, utf8_valid s = true -> json_parse_string (json_string s) = Some s.
Proof. exact json_string_roundtrip. Qed.
Print Assumptions C16_json_string_roundtrip.

Theorem C16_json_string_inert : forall s, Forall html_inert (json_string s).
Proof. exact json_string_inert. Qed.
Print Assumptions C16_json_string_inert.

(* a, less-than, b, quote, backslash, slash, BS, LF, 0x01, DEL, U+00A0, U+2029, U+1F600;
   an invalid byte becomes the escape for U+FFFD *)
Example C16_json_nonvacuous :
  let s := [97; 60; 98; 34; 92; 47; 8; 10; 1; 127; 194; 160; 226; 128; 169; 240; 159; 152; 128] in
  utf8_valid s = true
  /\ json_string s = [34; 97; 92; 117; 48; 48; 51; 99; 98; 92; 34; 92; 92; 47; 92; 98; 92; 110; 92; 117; 48; 48; 48; 49;
                      127; 194; 160; 92; 117; 50; 48; 50; 57; 240; 159; 152; 128; 34]
  /\ json_string [255] = [34; 92; 117; 102; 102; 102; 100; 34]
  /\ json_parse_string [34; 92; 117; 100; 56; 51; 100; 92; 117; 100; 101; 48; 48; 92; 47; 34] = Some [240; 159; 152; 128; 47]
  /\ json_parse_string [34; 97] = None /\ json_parse_string [34; 10; 34] = None /\ json_parse_string [34; 97; 34; 98] = None.
Proof. vm_compute. repeat split; reflexivity. Qed.

(* ---------------- chains ---------------- *)
Theorem C16_chain_any_uri : forall (f : bstr -> bstr) s, Forall (fun c => c < 256) (f s) -> pct_decode (escape_uri (f s)) = Some (f s).
Proof. exact chain_any_uri. Qed.
Print Assumptions C16_chain_any_uri.

Theorem C16_chain_truncate_json : forall s n e out, utf8_valid s = true -> truncate s n e = Ok out ->
  json_parse_string (json_string out) = Some out.
Proof. exact chain_truncate_json. Qed.
Print Assumptions C16_chain_truncate_json.

Theorem C16_chain_truncate_jsstr : forall s n e out, utf8_valid s = true ->
  Forall (fun r => r < 65536 \/ is_print_tbl r = true) (runes s) -> truncate s n e = Ok out ->
  js_read_literal (js_escape is_print_tbl out) = Some out.
Proof. intros s n e out. exact (chain_truncate_jsstr is_print_tbl is_print_tbl_ls is_print_tbl_ps 39 (or_introl eq_refl) s n e out). Qed.
Print Assumptions C16_chain_truncate_jsstr.

Theorem C16_chain_escapehtml_json : forall s, utf8_valid s = true ->
  json_parse_string (json_string (tmpl_html_escape s)) = Some (tmpl_html_escape s).
Proof. exact chain_escapehtml_json. Qed.
Print Assumptions C16_chain_escapehtml_json.

Theorem C16_chain_truncate_wbr : forall s n e out k, truncate s n e = Ok out ->
  remove_tok wbr (insert_word_breaks out k) = tmpl_html_escape out.
Proof. exact chain_truncate_wbr. Qed.
Print Assumptions C16_chain_truncate_wbr.

Theorem C16_chain_truncate_br : forall s n e out, truncate s n e = Ok out ->
  remove_tok br (change_newline_to_br out) = tmpl_html_escape (remove_newlines out).
Proof. exact chain_truncate_br. Qed.
Print Assumptions C16_chain_truncate_br.
