(* placeholder until the interleaving theory is in *)
