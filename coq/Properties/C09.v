(* C09 — one compiled bundle can be rendered from many goroutines at once.

   "Concurrent renders of the same or different templates of one compiled
   bundle, concurrent JavaScript generation from it, and concurrent
   compilation of independent bundles are free of data races, and each
   concurrent render writes exactly the bytes it writes when run alone."

   THIS PROPERTY IS PARTIAL BY NATURE for a proof assistant.  The Go memory
   model, the scheduler and the accesses inside the runtime and the libraries
   are not modelled.  What Coq carries is the LOGIC:

     (i)  a render's accesses to locations shared between goroutines are reads
          only: [C09_render_no_shared_writes], [C09_render_trace] -- about the
          renderer model Model/Interp.v (the tree AFTER the repair of ledger
          I5, /repo commit 25f4246, notes/applied/C09-directive-list-local.diff: on the pinned tree
          evalPrint appended the obligatory directives to the shared
          PrintNode.Directives, a write to the registry by every render,
          which the immutable [cfg] of the model cannot express and which
          [C09_pinned_directive_append_races] shows the theory would flag);
     (ii) threads that only read shared state (and write only locations they
          own) are race-free under EVERY interleaving, for ANY number of
          threads, and each computes what it computes alone:
          [C09_readonly_sharing_race_free], [C09_readonly_sharing_sequential]
          (Model/Conc.v: the definitions of thread, schedule and race);
     and their combination [C09_concurrent_renders_partial].

   The full statement (kept here; NOT a theorem of this development):

     for every Go execution in which G goroutines call Renderer.Execute on
     one Tofu (any templates, shared data maps, $ij, message bundle) while
     others call soyjs.Write on its registry and others compile independent
     bundles, no two accesses to one memory location of which one is a write
     are unordered by happens-before (Go memory model), and each Execute
     passes its writer the bytes it passes when it is the only goroutine.

   What is missing for it: a model of Go memory and of the accesses of the
   real code (every field and slice access, regexp, bytes.Buffer, math/rand,
   the allocator); JavaScript generation and compilation enter here as
   arbitrary functions ([jsgen], [compile]) wrapped in the access pattern
   "reads the registry / writes only its own memory", which is assumed of
   them, not proved; the scanner goroutine and its channel (private to each
   parse) are not modelled at all.  That part is OBSERVED: the harness
   (go/cmd/soyverif/c09.go) is built with -race and runs the real code. *)
From Coq Require Import List Arith.
From Soy Require Import Model.Bytes Model.Values Model.Outcome Model.Ast Model.Interp Model.Conc Model.ConcRender
  Proofs.ConcProofs Proofs.PurityProofs Proofs.ConcRenderProofs.
Import ListNotations.
Open Scope N_scope.

(* ---------------- (ii) the interleaving theory ---------------- *)

(* Any locations, values, results; any ownership map; ANY number of threads;
   ANY schedule.  [all_disciplined]: in its solo run on the initial store,
   thread i writes only locations it owns and reads only shared locations or
   its own -- "no thread's trace contains a write to a shared location". *)
Theorem C09_readonly_sharing_race_free :
  forall (loc val res : Type) (loc_eqb : loc -> loc -> bool),
    (forall a c, loc_eqb a c = true <-> a = c) ->
    forall (owner : loc -> option nat) (ps : list (prog loc val res)) (s0 : store loc val) (sched : list nat),
      all_disciplined loc_eqb owner ps s0 ->
      ~ has_race (snd (run loc_eqb sched (Build_config ps s0))).
Proof. exact readonly_sharing_race_free. Qed.
Print Assumptions C09_readonly_sharing_race_free.

Theorem C09_readonly_sharing_sequential :
  forall (loc val res : Type) (loc_eqb : loc -> loc -> bool),
    (forall a c, loc_eqb a c = true <-> a = c) ->
    forall (owner : loc -> option nat) (ps : list (prog loc val res)) (s0 : store loc val) (sched : list nat) c tr,
      all_disciplined loc_eqb owner ps s0 ->
      run loc_eqb sched (Build_config ps s0) = (c, tr) ->
      (forall l, owner l = None -> shared c l = s0 l)
      /\ length (threads c) = length ps
      /\ forall i p, nth_error ps i = Some p ->
           proj i tr = firstn (count_occ Nat.eq_dec sched i) (solo_trace loc_eqb p s0)
           /\ (forall r, nth_error (threads c) i = Some (Done r) ->
                 r = solo_result loc_eqb p s0 /\ forall l, owner l = Some i -> shared c l = solo_store loc_eqb p s0 l)
           /\ ((length (solo_trace loc_eqb p s0) <= count_occ Nat.eq_dec sched i)%nat ->
                 nth_error (threads c) i = Some (Done (solo_result loc_eqb p s0))).
Proof. exact readonly_sharing_sequential. Qed.
Print Assumptions C09_readonly_sharing_sequential.

(* the special case without private locations: threads whose solo trace has no write at all *)
Theorem C09_write_free_race_free :
  forall (loc val res : Type) (loc_eqb : loc -> loc -> bool),
    (forall a c, loc_eqb a c = true <-> a = c) ->
    forall (ps : list (prog loc val res)) (s0 : store loc val) (sched : list nat),
      (forall p, In p ps -> write_free loc_eqb p s0) ->
      ~ has_race (snd (run loc_eqb sched (Build_config ps s0))).
Proof. exact write_free_race_free. Qed.
Print Assumptions C09_write_free_race_free.

(* ---------------- (i) a render only reads what it shares ---------------- *)

(* every [set] of every render -- succeeding or failing, whatever its writer
   does -- lands on a frame the render allocated itself (C08's lemma) *)
Theorem C09_render_no_shared_writes :
  forall cf fuel name id data cl bl fid,
    rr_shared_writes (render cf fuel name id data cl bl fid) = [].
Proof. exact render_no_shared_writes. Qed.
Print Assumptions C09_render_no_shared_writes.

(* hence the accesses of a render to shared locations, on ANY store, are the
   reads of the registry, the configuration, the message bundle and the
   caller's maps, and nothing else; and what it returns is the model's render
   of the values it read *)
Theorem C09_render_trace :
  forall (J : Type) (rq : creq) (s : store rloc sval),
    render_trace J rq s = [Rd LRegistry; Rd LConfig; Rd LMessages; Rd LHeap]
    /\ solo_result rloc_eqb (render_prog J rq) s = RRender J (render_alone rq s).
Proof. intros J rq s. split; [apply render_trace_reads | apply render_result_alone]. Qed.
Print Assumptions C09_render_trace.

(* ---------------- the combination ---------------- *)

(* Any family of tasks over one store -- renders of any templates with any
   data, JavaScript generation (any function of the registry), compilations
   of independent bundles (any function; each writes only its own location)
   -- under ANY schedule: no race at the model's abstract locations. *)
Theorem C09_concurrent_race_free_partial :
  forall (J : Type) (jsgen : registry -> N -> J) (compile : bstr -> registry)
         (ts : list task) (s0 : store rloc sval) (sched : list nat),
    ~ has_race (snd (run rloc_eqb sched (Build_config (task_progs J jsgen compile ts) s0))).
Proof. exact concurrent_tasks_race_free. Qed.
Print Assumptions C09_concurrent_race_free_partial.

(* ... registry, configuration, message bundle and caller's maps are unchanged,
   and every task that has finished has the result of its solo run on the
   initial store (a render: the same outcome, the same Write calls with the
   same bytes, the same error position); it has finished once it was scheduled
   as often as it has accesses. *)
Theorem C09_concurrent_renders_partial :
  forall (J : Type) (jsgen : registry -> N -> J) (compile : bstr -> registry)
         (ts : list task) (s0 : store rloc sval) (sched : list nat) c tr,
    run rloc_eqb sched (Build_config (task_progs J jsgen compile ts) s0) = (c, tr) ->
    shared c LRegistry = s0 LRegistry /\ shared c LConfig = s0 LConfig
    /\ shared c LMessages = s0 LMessages /\ shared c LHeap = s0 LHeap
    /\ forall i t, nth_error ts i = Some t ->
         (forall r, nth_error (threads c) i = Some (Done r) -> r = task_alone J jsgen compile i t s0)
         /\ ((task_accesses t <= count_occ Nat.eq_dec sched i)%nat ->
               nth_error (threads c) i = Some (Done (task_alone J jsgen compile i t s0)))
         /\ proj i tr = firstn (count_occ Nat.eq_dec sched i) (solo_trace rloc_eqb (task_prog J jsgen compile i t) s0).
Proof. exact concurrent_tasks_sequential. Qed.
Print Assumptions C09_concurrent_renders_partial.

(* spelled out for the bytes of a render over one compiled bundle *)
Corollary C09_concurrent_render_bytes :
  forall (J : Type) (jsgen : registry -> N -> J) (compile : bstr -> registry)
         reg oblig msgs h (ts : list task) (sched : list nat) c tr i rq rr,
    run rloc_eqb sched (Build_config (task_progs J jsgen compile ts) (bundle_store reg oblig msgs h)) = (c, tr) ->
    nth_error ts i = Some (TRender rq) ->
    nth_error (threads c) i = Some (Done (RRender J (Some rr))) ->
    render_on rq (SRegistry reg) (SConfig oblig) (SMessages msgs) (SHeap h) = Some rr
    /\ shared c LRegistry = SRegistry reg /\ shared c LHeap = SHeap h.
Proof.
  intros J jsgen compile reg oblig msgs h ts sched c tr i rq rr Hrun Ht Hd.
  destruct (concurrent_tasks_sequential J jsgen compile ts _ sched c tr Hrun) as (Hr & _ & _ & Hh & Hth).
  destruct (Hth i _ Ht) as (Hdone & _ & _). specialize (Hdone _ Hd). cbn in Hdone.
  split; [|split; [exact Hr|exact Hh]].
  unfold render_alone in Hdone. cbn in Hdone. now inversion Hdone.
Qed.
Print Assumptions C09_concurrent_render_bytes.

(* The granularity of the reads does not matter.  [render_prog] reads each
   shared object once; the real renderer reads registry, maps and bundle
   piecemeal.  ANY thread programs that, alone on the initial store, perform no
   write and return the renders' results (however many reads they make, wherever
   they place them) are race-free under every schedule and return those results. *)
Theorem C09_any_read_placement_partial :
  forall (J : Type) (ps : list (rprog J)) (rqs : list creq) (s0 : store rloc sval) (sched : list nat) c tr,
    Forall2 (implements_render J s0) ps rqs ->
    run rloc_eqb sched (Build_config ps s0) = (c, tr) ->
    ~ has_race tr
    /\ (forall l, shared c l = s0 l)
    /\ forall i rq r, nth_error rqs i = Some rq -> nth_error (threads c) i = Some (Done r) ->
         r = RRender J (render_alone rq s0).
Proof. exact any_read_placement. Qed.
Print Assumptions C09_any_read_placement_partial.

(* ---------------- what the theory rules out ---------------- *)

(* the pinned evalPrint (reads the node's directive list, writes the appended list back): two such renders race *)
Theorem C09_pinned_directive_append_races :
  has_race (snd (run rloc_eqb [0; 0; 1]%nat (Build_config [pinned_print_prog unit; pinned_print_prog unit] (fun _ => SClobbered)))).
Proof. exact pinned_print_races. Qed.

(* a render whose [set] landed on a caller's map would race with any other render *)
Theorem C09_shared_set_would_race :
  let p : rprog unit := Read LHeap (fun _ => write_ids unit [5] (Done (RRender unit None))) in
  has_race (snd (run rloc_eqb [0; 0; 1]%nat (Build_config [p; p] (fun _ => SClobbered)))).
Proof. exact shared_set_races. Qed.

(* ---------------- non-vacuity ---------------- *)

(* One bundle ({template .t}{$x}{/template}, obligatory directive escapeUri),
   one data map shared by two renders, a JavaScript generation and a
   compilation, interleaved access by access: everything finishes, both renders
   wrote "a+b", the compile thread left its registry in its own location. *)
Definition ex_rq : creq :=
  {| cq_name := wit_name; cq_data := Some 7; cq_ij := None; cq_fuel := 10%nat; cq_calls := None; cq_bytes := None; cq_first_id := 100 |}.
Definition ex_store : store rloc sval := bundle_store wit_reg [b "escapeUri"] None [(7, [(wit_x, VStr (b "a b"))])].
Definition ex_tasks : list task := [TRender ex_rq; TJsGen 0; TRender ex_rq; TCompile (b "{namespace n}")].
Definition ex_sched : list nat := [0; 2; 3; 0; 1; 2; 2; 0; 3; 9; 2; 0; 1]%nat.
Definition ex_jsgen (r : registry) (f : N) : nat := length (r_templates r).
Definition ex_compile (_ : bstr) : registry := empty_registry.

Example C09_nonvacuous :
  let '(c, tr) := run rloc_eqb ex_sched (Build_config (task_progs nat ex_jsgen ex_compile ex_tasks) ex_store) in
  map (fun p => match p with
                | Done (RRender _ (Some rr)) => Some (is_ok (rr_outcome rr), concat_b (rr_writes rr))
                | Done (RJs _ (Some n)) => Some (true, [N.of_nat n])
                | Done (RCompiled _ (SRegistry _)) => Some (true, [])
                | _ => None
                end) (threads c)
  = [Some (true, b "a+b"); Some (true, [1]); Some (true, b "a+b"); Some (true, [])]
  /\ length tr = 11%nat
  /\ proj 2 tr = [Rd LRegistry; Rd LConfig; Rd LMessages; Rd LHeap]
  /\ match shared c (LOwn 3) with SRegistry _ => True | _ => False end.
Proof. vm_compute. repeat split; reflexivity. Qed.

(* a render that re-reads the caller's maps and the registry between its steps implements the same render *)
Definition ex_piecemeal : rprog nat :=
  Read LHeap (fun _ => Read LRegistry (fun vr => Read LHeap (fun _ => Read LConfig (fun vc => Read LRegistry (fun _ =>
  Read LMessages (fun vm => Read LHeap (fun vh => Done (RRender nat (render_on ex_rq vr vc vm vh))))))))).
Example C09_piecemeal_nonvacuous :
  Forall2 (implements_render nat ex_store) [ex_piecemeal; render_prog nat ex_rq] [ex_rq; ex_rq].
Proof.
  constructor; [|constructor; [apply render_prog_implements|constructor]].
  split; [unfold write_free; vm_compute; repeat constructor | vm_compute; reflexivity].
Qed.

(* the hypotheses of the general theorems are satisfiable with private locations in play *)
Example C09_discipline_nonvacuous :
  all_disciplined rloc_eqb rowner (task_progs nat ex_jsgen ex_compile ex_tasks) ex_store
  /\ ~ write_free rloc_eqb (compile_prog nat ex_compile 3 []) ex_store.
Proof.
  split; [apply tasks_disciplined|].
  unfold write_free, solo_trace. rewrite compile_exec. intros H. inversion H as [|? ? Hw _]. discriminate.
Qed.
