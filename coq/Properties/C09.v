(* C09 — one compiled bundle can be rendered from many goroutines at once.

   "Concurrent renders of the same or different templates of one compiled
   bundle, concurrent JavaScript generation from it, and concurrent
   compilation of independent bundles are free of data races, and each
   concurrent render writes exactly the bytes it writes when run alone."

   THIS PROPERTY IS PARTIAL BY NATURE for a proof assistant.  The Go memory
   model, the scheduler and the accesses inside the runtime and the libraries
   are not modelled.  What Coq carries is the LOGIC:

     (i)  a render's accesses to locations shared between goroutines are reads
          only: [C09_render_no_shared_writes], [C09_render_trace] -- about the
          renderer model Model/Interp.v (the tree AFTER the repair of ledger
          I5, /repo commit 25f4246, notes/applied/C09-directive-list-local.diff: on the pinned tree
          evalPrint appended the obligatory directives to the shared
          PrintNode.Directives, a write to the registry by every render,
          which the immutable [cfg] of the model cannot express and which
          [C09_pinned_directive_append_races] shows the theory would flag);
     (ii) threads that only read shared state (and write only locations they
          own) are race-free under EVERY interleaving, for ANY number of
          threads, and each computes what it computes alone:
          [C09_readonly_sharing_race_free], [C09_readonly_sharing_sequential]
          (Model/Conc.v: the definitions of thread, schedule and race);
     and their combination [C09_concurrent_renders_partial].

   The full statement (kept here; NOT a theorem of this development):

     for every Go execution in which G goroutines call Renderer.Execute on
     one Tofu (any templates, shared data maps, $ij, message bundle) while
     others call soyjs.Write on its registry and others compile independent
     bundles, no two accesses to one memory location of which one is a write
     are unordered by happens-before (Go memory model), and each Execute
     passes its writer the bytes it passes when it is the only goroutine.

   What is missing for it: a model of Go memory and of the accesses of the
   real code (every field and slice access, regexp, bytes.Buffer, math/rand,
   the allocator); the scanner goroutine and its channel (private to each
   parse) are not modelled at all.  That part is OBSERVED: the harness
   (go/cmd/soyverif/c09.go) is built with -race and runs the real code.

   JavaScript generation and compilation are no longer arbitrary functions
   with an assumed access pattern: JavaScript generation is the model
   Model/JsGen.v ([gen_file]) as a thread (Model/ConcJs.v).
   Everything [gen_file] mutates is its own record [jstate]; the derived,
   access-logging copy of the generator (Generated/JsGenTrace.v, regenerated
   from the text of Model/JsGen.v on every run) records one entry per look at
   a tree node and per read / update of that record;
   [C09_jsgen_traced_is_model] proves that it computes what the model computes
   (a simulation lemma per definition, Generated/JsGenSim.v, regenerated with
   the copy) and [C09_jsgen_no_shared_writes] says that nothing else is ever
   logged, on succeeding and on failing generations;
   a compilation is a private computation (any number of updates of the
   registry it builds, in the thread's own location, then a result of any
   type); Proofs/ConcCompileInst.v instantiates it with [compile] of
   Model/Compile.v, which folds [registry_add] from the empty registry (that
   file is built on every run but kept out of this property's imports, so
   that the message-id tables Model/Compile.v depends on are not C09's tie).  That the Go code has no OTHER mutation is tied to
   the source by (iii): the package-level variables, the writes to them, the
   methods called on them and the writes through syntax-tree / registry /
   bundle typed values in soyhtml, soyjs and template are enumerated from the
   source on every run and must satisfy what the review concluded
   ([C09_package_state_quiet]).

   Generated inputs of this property (tablegen): Generated/PkgState.v by
   90-pkgvars (marker pkg_state_generated in Generated/Tables.v),
   Generated/JsGenTrace.v and Generated/JsGenSim.v by 95-jsgen-trace (marker
   jsgen_trace_derived);
   a failure of either generator is charged to this property. *)
From Coq Require Import List Arith.
From Soy Require Import Model.Bytes Model.Values Model.Outcome Model.Ast Model.Interp Model.JsGen Generated.JsGenTrace
  Model.Conc Model.ConcRender Model.ConcJs Generated.PkgState Model.ConcGlobals
  Proofs.ConcProofs Proofs.PurityProofs Proofs.ConcRenderProofs Proofs.ConcJsProofs Proofs.ConcGlobalsProofs.
Import ListNotations.
Open Scope N_scope.

(* ---------------- (ii) the interleaving theory ---------------- *)

(* Any locations, values, results; any ownership map; ANY number of threads;
   ANY schedule.  [all_disciplined]: in its solo run on the initial store,
   thread i writes only locations it owns and reads only shared locations or
   its own -- "no thread's trace contains a write to a shared location". *)
Theorem C09_readonly_sharing_race_free :
  forall (loc val res : Type) (loc_eqb : loc -> loc -> bool),
    (forall a c, loc_eqb a c = true <-> a = c) ->
    forall (owner : loc -> option nat) (ps : list (prog loc val res)) (s0 : store loc val) (sched : list nat),
      all_disciplined loc_eqb owner ps s0 ->
      ~ has_race (snd (run loc_eqb sched (Build_config ps s0))).
Proof. exact readonly_sharing_race_free. Qed.
Print Assumptions C09_readonly_sharing_race_free.

Theorem C09_readonly_sharing_sequential :
  forall (loc val res : Type) (loc_eqb : loc -> loc -> bool),
    (forall a c, loc_eqb a c = true <-> a = c) ->
    forall (owner : loc -> option nat) (ps : list (prog loc val res)) (s0 : store loc val) (sched : list nat) c tr,
      all_disciplined loc_eqb owner ps s0 ->
      run loc_eqb sched (Build_config ps s0) = (c, tr) ->
      (forall l, owner l = None -> shared c l = s0 l)
      /\ length (threads c) = length ps
      /\ forall i p, nth_error ps i = Some p ->
           proj i tr = firstn (count_occ Nat.eq_dec sched i) (solo_trace loc_eqb p s0)
           /\ (forall r, nth_error (threads c) i = Some (Done r) ->
                 r = solo_result loc_eqb p s0 /\ forall l, owner l = Some i -> shared c l = solo_store loc_eqb p s0 l)
           /\ ((length (solo_trace loc_eqb p s0) <= count_occ Nat.eq_dec sched i)%nat ->
                 nth_error (threads c) i = Some (Done (solo_result loc_eqb p s0))).
Proof. exact readonly_sharing_sequential. Qed.
Print Assumptions C09_readonly_sharing_sequential.

(* the special case without private locations: threads whose solo trace has no write at all *)
Theorem C09_write_free_race_free :
  forall (loc val res : Type) (loc_eqb : loc -> loc -> bool),
    (forall a c, loc_eqb a c = true <-> a = c) ->
    forall (ps : list (prog loc val res)) (s0 : store loc val) (sched : list nat),
      (forall p, In p ps -> write_free loc_eqb p s0) ->
      ~ has_race (snd (run loc_eqb sched (Build_config ps s0))).
Proof. exact write_free_race_free. Qed.
Print Assumptions C09_write_free_race_free.

(* ---------------- (i) a render only reads what it shares ---------------- *)

(* every [set] of every render -- succeeding or failing, whatever its writer
   does -- lands on a frame the render allocated itself (C08's lemma) *)
Theorem C09_render_no_shared_writes :
  forall cf fuel name id data cl bl fid,
    rr_shared_writes (render cf fuel name id data cl bl fid) = [].
Proof. exact render_no_shared_writes. Qed.
Print Assumptions C09_render_no_shared_writes.

(* hence the accesses of a render to shared locations, on ANY store, are the
   reads of the registry, the configuration, the message bundle and the
   caller's maps, and nothing else; and what it returns is the model's render
   of the values it read *)
Theorem C09_render_trace :
  forall (J : Type) (rq : creq) (s : store rloc sval),
    render_trace J rq s = [Rd LRegistry; Rd LConfig; Rd LMessages; Rd LHeap]
    /\ solo_result rloc_eqb (render_prog J rq) s = RRender J (render_alone rq s).
Proof. intros J rq s. split; [apply render_trace_reads | apply render_result_alone]. Qed.
Print Assumptions C09_render_trace.

(* ---------------- (i') JavaScript generation and compilation only write their own memory ---------------- *)

(* THE ACCESS-LOGGING GENERATOR IS THE MODEL, for EVERY options (formatter, message bundle, map order),
   fuel and file: its outcome (the chunks, or the failure) is [gen_file]'s.  Proved definition by
   definition (Generated/JsGenSim.v: one simulation lemma per J-typed definition of Model/JsGen.v,
   statements computed from the types and proofs by the generic tactics of Proofs/ConcJsSimBase.v,
   regenerated together with the instrumented copy on every run), for ANY lawful lens [gen_file_sim] *)
Theorem C09_jsgen_traced_is_model :
  forall (o : jopts) (fuel : nat) (name : bstr) (body : list node),
    fst (gen_file_traced o fuel name body) = JsGen.gen_file o fuel name body.
Proof. exact gen_file_traced_result. Qed.
Print Assumptions C09_jsgen_traced_is_model.

(* ... and whatever it logged -- on a generation that succeeds AND on one that fails half way (the
   instrumented monad keeps its state on failure) -- is a look at a tree node or an access to the
   generator's own record; there is no entry that is a write to shared memory (true by the
   construction of the instrumented primitives: stated so, not more) *)
Theorem C09_jsgen_no_shared_writes :
  forall (o : jopts) (fuel : nat) (name : bstr) (body : list node),
    Forall (fun a => jacc_shared_write a = false) (snd (gen_file_traced o fuel name body)).
Proof. exact jsgen_log_no_shared_write. Qed.
Print Assumptions C09_jsgen_no_shared_writes.

(* as threads: soyjs.Write of any file of the bundle (at object granularity, and access by access as
   logged) and Bundle.Compile of any independent bundle keep the ownership discipline on ANY store,
   and return [gen_file] of the model / the compilation's result *)
Theorem C09_jsgen_compile_threads_disciplined :
  forall (CR : Type) (i : nat) (s : store rloc sval),
    (forall o fuel file,
        disciplined rloc_eqb rowner i (cjsgen_prog CR i o fuel file) s
        /\ solo_result rloc_eqb (cjsgen_prog CR i o fuel file) s = CRJs (js_on o fuel file (s LFiles))
        /\ disciplined rloc_eqb rowner i (cjsgen_fine_prog CR i o fuel file) s
        /\ solo_result rloc_eqb (cjsgen_fine_prog CR i o fuel file) s = CRJs (js_on o fuel file (s LFiles)))
    /\ (forall c : ccompile CR,
        disciplined rloc_eqb rowner i (ccompile_prog i c) s
        /\ solo_result rloc_eqb (ccompile_prog i c) s = CRCompiled (cc_result c)).
Proof.
  intros CR i s. split.
  - intros o fuel file. split; [apply cjsgen_disciplined|]. split; [apply cjsgen_result|].
    split; [apply cjsgen_fine_disciplined|]. rewrite cjsgen_fine_result. now rewrite js_fine_on_model.
  - intros c. split; [apply ccompile_disciplined|apply ccompile_result].
Qed.
Print Assumptions C09_jsgen_compile_threads_disciplined.

(* ---------------- the combination ---------------- *)

(* Any family of tasks over one store -- renders of any templates with any
   data, JavaScript generation of any file with any options (Model/JsGen.v),
   compilations of any independent bundles (private computations of any
   length and result; Model/Compile.v is one: Proofs/ConcCompileInst.v) -- under ANY
   schedule: no race at the model's abstract locations. *)
Theorem C09_concurrent_race_free :
  forall (CR : Type) (ts : list (ctask CR)) (s0 : store rloc sval) (sched : list nat),
    ~ has_race (snd (run rloc_eqb sched (Build_config (ctask_progs ts) s0))).
Proof. exact concurrent_ctasks_race_free. Qed.
Print Assumptions C09_concurrent_race_free.

(* ... every shared location (registry, file trees, configuration, message
   bundle, caller's maps) is unchanged, and every task that has finished has
   the result of its solo run on the initial store (a render: the same outcome,
   the same Write calls with the same bytes, the same error position; a
   generation: the chunks of [gen_file]; a compilation: [compile]); it has
   finished once it was scheduled as often as it has accesses. *)
Theorem C09_concurrent_results :
  forall (CR : Type) (ts : list (ctask CR)) (s0 : store rloc sval) (sched : list nat) c tr,
    run rloc_eqb sched (Build_config (ctask_progs ts) s0) = (c, tr) ->
    (forall l, rowner l = None -> shared c l = s0 l)
    /\ forall i t, nth_error ts i = Some t ->
         (forall r, nth_error (threads c) i = Some (Done r) -> r = ctask_alone t s0)
         /\ ((length (solo_trace rloc_eqb (ctask_prog i t) s0) <= count_occ Nat.eq_dec sched i)%nat ->
               nth_error (threads c) i = Some (Done (ctask_alone t s0)))
         /\ proj i tr = firstn (count_occ Nat.eq_dec sched i) (solo_trace rloc_eqb (ctask_prog i t) s0).
Proof. exact concurrent_ctasks_sequential. Qed.
Print Assumptions C09_concurrent_results.

(* spelled out for the bytes of a render over one compiled bundle *)
Corollary C09_concurrent_render_bytes :
  forall (CR : Type) reg fs oblig msgs h (ts : list (ctask CR)) (sched : list nat) c tr i rq rr,
    run rloc_eqb sched (Build_config (ctask_progs ts) (bundle_store_files reg fs oblig msgs h)) = (c, tr) ->
    nth_error ts i = Some (CRender rq) ->
    nth_error (threads c) i = Some (Done (CRRender (Some rr))) ->
    render_on rq (SRegistry reg) (SConfig oblig) (SMessages msgs) (SHeap h) = Some rr
    /\ shared c LRegistry = SRegistry reg /\ shared c LFiles = SFiles fs /\ shared c LHeap = SHeap h.
Proof.
  intros CR reg fs oblig msgs h ts sched c tr i rq rr Hrun Ht Hd.
  destruct (concurrent_ctasks_sequential CR ts _ sched c tr Hrun) as (Hsh & Hth).
  destruct (Hth i _ Ht) as (Hdone & _ & _). specialize (Hdone _ Hd). cbn in Hdone.
  split; [|split; [apply (Hsh LRegistry); reflexivity|split; [apply (Hsh LFiles); reflexivity|apply (Hsh LHeap); reflexivity]]].
  unfold render_alone in Hdone. cbn in Hdone. now inversion Hdone.
Qed.
Print Assumptions C09_concurrent_render_bytes.

(* The granularity and placement of the accesses does not matter.  The
   threads above read each shared object once; the real code reads registry,
   maps and bundle piecemeal.  ANY thread programs that, alone on the initial
   store, keep the discipline and return the tasks' results (however many
   reads they make, wherever they place them) are race-free under every
   schedule and return those results. *)
Theorem C09_any_access_placement :
  forall (CR : Type) (ps : list (cprog CR)) (ts : list (ctask CR)) (s0 : store rloc sval) (sched : list nat) c tr,
    length ps = length ts ->
    (forall i p t, nth_error ps i = Some p -> nth_error ts i = Some t -> implements_task CR s0 i p t) ->
    run rloc_eqb sched (Build_config ps s0) = (c, tr) ->
    ~ has_race tr
    /\ (forall l, rowner l = None -> shared c l = s0 l)
    /\ forall i t r, nth_error ts i = Some t -> nth_error (threads c) i = Some (Done r) -> r = ctask_alone t s0.
Proof. exact any_access_placement. Qed.
Print Assumptions C09_any_access_placement.

(* ---------------- (iii) the package-level state of the source is quiet ---------------- *)

(* Generated/PkgState.v lists, from the current Go sources: every package-level variable, every write
   to one in a function body, every method called on one, every write through a syntax-tree / registry /
   bundle typed value in soyhtml, soyjs, template.  By computation on those lists:
   - every package-level variable is a regexp, replacer, logger, error, reflect.Type, flag, literal or a
     table built by its initialiser -- the only variable of a kind that can hold mutable state is the
     verification hook: there is no package-level pool, lock, Once, channel, lazily assigned variable;
   - every write to a package-level variable is in an init function (commands excepted);
   - every method called on one is a reviewed read-only / internally locked method;
   - every write through a shared type -- directly, or in a callee of any package of the repository (the
     sources are type-checked; calls through interfaces are resolved to every implementing type) -- is
     Registry.Add building the registry under compilation, a capped append, or the one reviewed LATENT
     HAZARD the callee analysis found: ast.MsgNode.Placeholder, called by evalMsgParts of the renderer and
     of the JavaScript generator, appends to a queue that starts as the body's own (shared) child slice;
     no input makes that append write shared memory (a message body with a non-placeholder parent child
     is a single plural node, built with capacity = length = 1 by the parser: Model/ConcGlobals.v,
     [reviewed_latent_writes]; the race harness probes that invariant on every parsed bundle).  The
     JavaScript generator has no other, the renderer only the capped append besides. *)
Theorem C09_package_state_quiet :
  (forall d n k, In (d, n, k) pkg_vars -> kind_quiet k = true \/ In (d, n, k) reviewed_loud_vars)
  /\ (forall w, In w pkg_var_writes -> write_in_init w = true)
  /\ (forall m, In m pkg_var_methods -> method_reviewed m = true)
  /\ (forall w, In w shared_type_writes -> shared_write_benign w = true)
  /\ (forall w, In w (filter (in_pkg k_soyjs) shared_type_writes) -> reviewed_latent w = true)
  /\ (forall w, In w (filter (in_pkg k_soyhtml) shared_type_writes) -> kind_of_write w = k_capped \/ reviewed_latent w = true).
Proof.
  split; [exact package_vars_quiet|]. split; [exact package_writes_only_in_init|].
  split; [exact package_methods_reviewed|]. split; [exact shared_type_writes_benign|].
  split; [exact soyjs_never_writes_through_shared_types|].
  exact soyhtml_writes_through_shared_types_only_capped.
Qed.
Print Assumptions C09_package_state_quiet.

(* the predicates are not vacuous: they reject a pool, a write outside init, a cache's method, a write
   through a node in the renderer *)
Example C09_package_predicates_reject :
  kind_quiet (b "pool") = false /\ kind_quiet (b "zero:int") = false /\ kind_quiet (b "sync") = false
  /\ write_in_init (b "template", b "cache", b "template:(*Registry).Template", b "assign-element") = false
  /\ method_reviewed (b "parse", b "lexers", b "parse:startLexer", b "Get") = false
  /\ shared_write_benign (b "soyhtml", b "node.Directives", b "soyhtml:(*state).evalPrint", b "assign-through") = false
  /\ shared_write_benign (b "soyjs", b "directives", b "soyjs:(*state).visitPrint", b "append-to") = false
  /\ (1 < length pkg_vars /\ 0 < length pkg_var_writes /\ 0 < length pkg_var_methods /\ 0 < length shared_type_writes)%nat.
Proof. vm_compute. repeat split; try reflexivity; repeat constructor. Qed.

(* ---------------- what the theory rules out ---------------- *)

(* the pinned evalPrint (reads the node's directive list, writes the appended list back): two such renders race *)
Theorem C09_pinned_directive_append_races :
  has_race (snd (run rloc_eqb [0; 0; 1]%nat (Build_config [pinned_print_prog unit; pinned_print_prog unit] (fun _ => SClobbered)))).
Proof. exact pinned_print_races. Qed.

(* a render whose [set] landed on a caller's map would race with any other render *)
Theorem C09_shared_set_would_race :
  let p : rprog unit := Read LHeap (fun _ => write_ids unit [5] (Done (RRender unit None))) in
  has_race (snd (run rloc_eqb [0; 0; 1]%nat (Build_config [p; p] (fun _ => SClobbered)))).
Proof. exact shared_set_races. Qed.

(* ---------------- non-vacuity ---------------- *)

(* One bundle ({namespace ns}{template .t}{$x}{/template}, obligatory directive
   escapeUri), one data map shared by two renders, two JavaScript generations
   of its file (one at object granularity, one access by access) and a
   compilation, interleaved access by access: everything
   finishes, both renders wrote "a+b", both generations produced the same text,
   the compile thread left its result in its own location. *)
Definition ex_rq : creq :=
  {| cq_name := wit_name; cq_data := Some 7; cq_ij := None; cq_fuel := 10%nat; cq_calls := None; cq_bytes := None; cq_first_id := 100 |}.
Definition ex_file : jfile :=
  {| jf_name := b "f.soy";
     jf_body := [NNamespace 0 (b "ns") 0; NSoyDoc 0 [NSoyDocParam 0 wit_x false]; NTemplate 0 wit_name (NList 0 [NPrint 4 (NDataRef 5 wit_x []) []]) 0 false] |}.
Definition ex_store : store rloc sval :=
  bundle_store_files wit_reg [ex_file] [b "escapeUri"] None [(7, [(wit_x, VStr (b "a b"))])].
Definition ex_opts : jopts := {| o_fmt := ES5; o_msgs := None; o_order := fun l => l |}.
Definition ex_compile : ccompile nat := {| cc_steps := 2; cc_result := 1%nat |}.
Definition ex_tasks : list (ctask nat) :=
  [CRender ex_rq; CJsGen ex_opts 20 0; CRender ex_rq; CCompile ex_compile; CJsGenFine ex_opts 20 0].
Definition ex_sched : list nat := [0; 2; 3; 0; 1; 2; 2; 0; 3; 9; 2; 0; 1; 1; 3; 3; 4; 3]%nat ++ repeat 4%nat 400.

Definition ex_summary (p : cprog nat) : option (bool * bstr) :=
  match p with
  | Done (CRRender (Some rr)) => Some (is_ok (rr_outcome rr), concat_b (rr_writes rr))
  | Done (CRJs (Some (Ok cs))) => Some (true, [N.of_nat (length cs)])
  | Done (CRCompiled n) => Some (true, [N.of_nat n])
  | _ => None
  end.

Example C09_nonvacuous :
  let '(c, tr) := run rloc_eqb ex_sched (Build_config (ctask_progs ex_tasks) ex_store) in
  match map ex_summary (threads c) with
  | [Some (true, r0); Some (true, [j1]); Some (true, r2); Some (true, [1]); Some (true, [j4])] =>
      r0 = b "a+b" /\ r2 = b "a+b" /\ j1 = j4 /\ (0 < j1)
  | _ => False
  end
  /\ proj 2 tr = [Rd LRegistry; Rd LConfig; Rd LMessages; Rd LHeap]
  /\ proj 1 tr = [Rd LFiles; Rd LMessages; Wr (LOwn 1) SClobbered]
  /\ Nat.ltb 10 (length (proj 4 tr)) = true
  /\ match shared c (LOwn 3) with SClobbered => true | _ => false end = true.
Proof. vm_compute. repeat split; reflexivity. Qed.

(* the traced generator logs tree reads and own accesses on this file, and produces the text of gen_file *)
Example C09_trace_nonvacuous :
  match gen_file_traced ex_opts 20 (jf_name ex_file) (jf_body ex_file) with
  | (Ok cs, t) =>
      Ok cs = JsGen.gen_file ex_opts 20 (jf_name ex_file) (jf_body ex_file)
      /\ (let '(r, o, w) := jacc_count t in Nat.leb 4 r && Nat.leb 10 o && Nat.leb 10 w = true)
  | _ => False
  end.
Proof. vm_compute. split; reflexivity. Qed.

(* a generation that fails half way (the second template prints through a directive the generator does
   not know) still has its log: the accesses up to the failure *)
Definition ex_bad_file : jfile :=
  {| jf_name := b "bad.soy";
     jf_body := jf_body ex_file ++
       [NTemplate 9 (b "ns.t2") (NList 9 [NPrint 10 (NDataRef 11 wit_x []) [NDirective 12 (b "noSuchDirective") []]]) 0 false] |}.
Example C09_failing_trace_nonvacuous :
  match gen_file_traced ex_opts 20 (jf_name ex_bad_file) (jf_body ex_bad_file) with
  | (Err e, t) =>
      Err e = JsGen.gen_file ex_opts 20 (jf_name ex_bad_file) (jf_body ex_bad_file)
      /\ (let '(r, o, w) := jacc_count t in Nat.leb 6 r && Nat.leb 10 o && Nat.leb 10 w = true)
  | _ => False
  end.
Proof. vm_compute. split; reflexivity. Qed.

(* a render that re-reads the caller's maps and the registry between its steps implements the same render *)
Definition ex_piecemeal : cprog nat :=
  Read LHeap (fun _ => Read LRegistry (fun vr => Read LHeap (fun _ => Read LConfig (fun vc => Read LRegistry (fun _ =>
  Read LMessages (fun vm => Read LHeap (fun vh => Done (CRRender (render_on ex_rq vr vc vm vh))))))))).
Example C09_piecemeal_nonvacuous :
  implements_task nat ex_store 0 ex_piecemeal (CRender ex_rq) /\ implements_task nat ex_store 1 (ctask_prog 1 (CRender ex_rq)) (CRender ex_rq).
Proof.
  split; [|apply ctask_prog_implements].
  split; [unfold disciplined; vm_compute; repeat constructor | vm_compute; reflexivity].
Qed.

(* the hypotheses of the general theorems are satisfiable with private locations in play *)
Example C09_discipline_nonvacuous :
  all_disciplined rloc_eqb rowner (ctask_progs ex_tasks) ex_store
  /\ ~ write_free rloc_eqb (ccompile_prog 3 ex_compile) ex_store.
Proof.
  split; [apply ctasks_disciplined|].
  unfold write_free. vm_compute. intros H. inversion H as [|? ? Hw _]. discriminate.
Qed.
