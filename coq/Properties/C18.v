(* C18 — No parse leaves a goroutine behind.  Property theorems only. *)
From Soy Require Import Model.Bytes Model.Ast Model.Token Model.ExprParser Model.Parser.
From Soy Require Import Proofs.ParserProofs.
Open Scope N_scope.

(* The pinned parse.Expr (no drain on the success path) leaves the scanner of "1 2 3" blocked;
   the repaired one (notes/applied/C18-expr-drain.diff (applied: /repo 8031664)) does not. *)
Theorem C18_expr_pinned_refuted :
  map scan_done (po_scans (soy_expr_pinned 5 toks_1_2_3)) = [false]
  /\ map scan_done (po_scans (soy_expr 5 toks_1_2_3)) = [true].
Proof. exact expr_pinned_leaks. Qed.
Print Assumptions C18_expr_pinned_refuted.
