(* C18 -- No parse leaves a goroutine behind.  Property theorems only.

   Model: every scanner a parse starts is recorded as (items it sends, receives the parser made on
   its channel, drained); its goroutine has exited iff it was drained or every item was received
   ([scan_done]; that reading of the record is itself proved from a small-step model of the
   unbuffered channel, Model/Chan.v: C18_chan_* below).  Entry points: parse.SoyFile ([parse_file] /
   [soy_file]; its own scanner and the nested scanner of every quoted attribute expression),
   parse.Expr ([soy_expr]), and soy.ParseGlobals, which calls parse.Expr once per line.  The models
   describe /repo after 5b2986c (parseSwitch) and 8031664 (parse.Expr drains).

   Headline theorems: C18_scanner_fully_consumed_or_drained_file / _expr, for EVERY byte string --
   the scanner model of C05 (Model/Lexer.v) produces the items, the nested scanner of quoted attribute
   expressions IS that scanner model in expression mode ([lexq_model]), strconv.Unquote is universally
   quantified (any function).  No hypothesis about items is left.  The item-level statements they are
   composed from (any well-formed item stream, any well-formed nested scanner) follow as
   C18_..._items. *)
(* source tie by translation: the lemmas of these files are obligations of this property *)
From Soy Require Import Proofs.SourceTieParser Proofs.SourceTieLexer.
From Soy Require Import Model.Bytes Model.Outcome Model.Ast Model.Token Model.ExprParser Model.Parser Model.Lexer Model.ParseBytes Model.Chan.
From Soy Require Import Generated.Tables Proofs.ParserMeasure Proofs.ParserProofs Proofs.LexerProofs Proofs.LexParseBridge Proofs.ChanProofs Proofs.ChanParser.
Open Scope N_scope.

(* parse.SoyFile(name, s) for EVERY byte string s: the scanner model returns its items; the call
   returns a tree or an error (no run-time panic, so recover is never skipped); the first record is
   the entry point's own scanner; and every scanner started -- its own and the expression-mode
   scanner of every quoted attribute expression -- is drained or fully read, on success and on every
   error path.  unicode.IsLetter / IsDigit: any predicates false of eof; strconv.Unquote: any function. *)
Theorem C18_scanner_fully_consumed_or_drained_file :
  forall (uni_letter uni_digit : Z -> bool), uni_letter (-1)%Z = false -> uni_digit (-1)%Z = false ->
  forall (unq : bstr -> option bstr) (s : bstr),
  exists ts, lex_items uni_letter uni_digit (lex_budget s) false s = Ok ts /\
    let o := soy_file (N.of_nat (length s)) (lexq_model uni_letter uni_digit) unq ts in
    is_tree_or_error (po_result o)
    /\ (exists own nested, po_scans o = own :: nested /\ sc_sent own = length ts)
    /\ Forall (fun r => scan_done r = true) (po_scans o).
Proof. exact scanner_fully_consumed_or_drained_file_all. Qed.
Print Assumptions C18_scanner_fully_consumed_or_drained_file.

(* parse.Expr(s), hence every line of soy.ParseGlobals, for EVERY byte string s *)
Theorem C18_scanner_fully_consumed_or_drained_expr :
  forall (uni_letter uni_digit : Z -> bool), uni_letter (-1)%Z = false -> uni_digit (-1)%Z = false ->
  forall (s : bstr),
  exists ts, lex_items uni_letter uni_digit (lex_budget s) true s = Ok ts /\
    let o := soy_expr (N.of_nat (length s)) ts in
    is_tree_or_error (po_result o)
    /\ (exists own, po_scans o = [own] /\ sc_sent own = length ts)
    /\ Forall (fun r => scan_done r = true) (po_scans o).
Proof. exact scanner_fully_consumed_or_drained_expr_all. Qed.
Print Assumptions C18_scanner_fully_consumed_or_drained_expr.

(* the same, about the composed functions bytes -> parse_out of Model/ParseBytes.v *)
Theorem C18_no_goroutine_left_file :
  forall (uni_letter uni_digit : Z -> bool), uni_letter (-1)%Z = false -> uni_digit (-1)%Z = false ->
  forall (unq : bstr -> option bstr) (s : bstr),
  exists o, soy_file_bytes uni_letter uni_digit unq s = Ok o /\
            is_tree_or_error (po_result o) /\ po_scans o <> [] /\ Forall (fun r => scan_done r = true) (po_scans o).
Proof. exact soy_file_bytes_no_goroutine_left. Qed.
Print Assumptions C18_no_goroutine_left_file.

Theorem C18_no_goroutine_left_expr :
  forall (uni_letter uni_digit : Z -> bool), uni_letter (-1)%Z = false -> uni_digit (-1)%Z = false ->
  forall (s : bstr),
  exists o, soy_expr_bytes uni_letter uni_digit s = Ok o /\
            is_tree_or_error (po_result o) /\ po_scans o <> [] /\ Forall (fun r => scan_done r = true) (po_scans o).
Proof. exact soy_expr_bytes_no_goroutine_left. Qed.
Print Assumptions C18_no_goroutine_left_expr.

(* the instance the model runner executes: the unicode tables regenerated from the toolchain; nothing
   is assumed at all *)
Theorem C18_scanner_fully_consumed_or_drained_file_tbl :
  forall (unq : bstr -> option bstr) (s : bstr),
  exists ts, lex_items is_letter_tbl is_digit_tbl (lex_budget s) false s = Ok ts /\
    let o := soy_file (N.of_nat (length s)) (lexq_model is_letter_tbl is_digit_tbl) unq ts in
    is_tree_or_error (po_result o) /\ Forall (fun r => scan_done r = true) (po_scans o).
Proof. exact scanner_fully_consumed_or_drained_file_tbl. Qed.
Print Assumptions C18_scanner_fully_consumed_or_drained_file_tbl.

(* the nested scanner used above is the scanner model itself: its run never takes the dead branch *)
Theorem C18_nested_scanner_is_the_scanner_model :
  forall (uni_letter uni_digit : Z -> bool), uni_letter (-1)%Z = false -> uni_digit (-1)%Z = false ->
  forall str, exists ts, lex_items uni_letter uni_digit (lex_budget str) true str = Ok ts
                         /\ lexq_model uni_letter uni_digit str = ts /\ scan_ok (N.of_nat (length str)) ts.
Proof. exact lexq_model_runs. Qed.
Print Assumptions C18_nested_scanner_is_the_scanner_model.

(* ... and the items Model/Parser.v hands to the nested parse (those items shifted to the attribute's place
   in the file) are exactly what the scanner model started at that base -- lexExprAt -- sends *)
Theorem C18_nested_scanner_at_base :
  forall (uni_letter uni_digit : Z -> bool), uni_letter (-1)%Z = false -> uni_digit (-1)%Z = false ->
  forall (base : N) str,
  lex_items_at uni_letter uni_digit (Z.of_N base) (lex_budget str) str
  = Ok (map (shift_tok base) (lexq_model uni_letter uni_digit str)).
Proof. exact nested_scanner_at_base. Qed.
Print Assumptions C18_nested_scanner_at_base.

(* ---------- the item-level statements (any item stream, any nested scanner) ---------- *)
(* parse.SoyFile: for every stream of well-formed items in which an EOF item is the last item the
   scanner sends, and every well-formed nested scanner: the call returns a tree or an error (no
   run-time panic, so recover is never skipped), the first record is the entry point's own scanner,
   and every scanner started is drained or fully read -- on success and on every error path. *)
Theorem C18_scanner_fully_consumed_or_drained_file_items :
  forall inlen lexq unq, lexq_wf lexq ->
  forall ts fuel, items_wf inlen ts -> eof_last ts -> (length ts + 2 <= fuel)%nat ->
  let o := parse_file inlen lexq unq parse_expr expr_fuel fuel ts in
  is_tree_or_error (po_result o)
  /\ (exists own nested, po_scans o = own :: nested /\ sc_sent own = length ts)
  /\ Forall (fun r => scan_done r = true) (po_scans o).
Proof. exact scanner_fully_consumed_or_drained_file. Qed.
Print Assumptions C18_scanner_fully_consumed_or_drained_file_items.

(* parse.Expr, hence every line of soy.ParseGlobals: whatever follows the expression, the scanner
   is drained when the call returns *)
Theorem C18_scanner_fully_consumed_or_drained_expr_items :
  forall inlen ts, items_wf inlen ts ->
  is_tree_or_error (po_result (soy_expr inlen ts))
  /\ (exists own, po_scans (soy_expr inlen ts) = [own] /\ sc_sent own = length ts)
  /\ Forall (fun r => scan_done r = true) (po_scans (soy_expr inlen ts)).
Proof. exact scanner_fully_consumed_or_drained_expr. Qed.
Print Assumptions C18_scanner_fully_consumed_or_drained_expr_items.

(* the dependency named in the design: no parse ends in a run-time panic (which would skip the drain
   in recover) or exhausts the model's budget; and the receives are linear in the items *)
Theorem C18_parse_file_total :
  forall inlen lexq unq, lexq_wf lexq ->
  forall ts fuel, items_wf inlen ts -> (length ts + 2 <= fuel)%nat ->
  is_tree_or_error (po_result (parse_file inlen lexq unq parse_expr expr_fuel fuel ts)).
Proof. exact parse_file_total. Qed.
Print Assumptions C18_parse_file_total.

Theorem C18_parse_linear :
  forall inlen lexq unq, lexq_wf lexq ->
  forall ts fuel, items_wf inlen ts -> (length ts + 2 <= fuel)%nat ->
  (recv_of (po_result (parse_file inlen lexq unq parse_expr expr_fuel fuel ts)) <= length ts + 4)%nat
  /\ Forall (fun r => (sc_recv r <= sc_sent r + 4)%nat) (po_scans (parse_file inlen lexq unq parse_expr expr_fuel fuel ts)).
Proof. exact parse_linear. Qed.
Print Assumptions C18_parse_linear.

(* The pinned parse.Expr (no drain on the success path) leaves the scanner of "1 2 3" blocked;
   the repaired one does not. *)
Theorem C18_expr_pinned_refuted :
  map scan_done (po_scans (soy_expr_pinned 5 toks_1_2_3)) = [false]
  /\ map scan_done (po_scans (soy_expr 5 toks_1_2_3)) = [true].
Proof. exact expr_pinned_leaks. Qed.
Print Assumptions C18_expr_pinned_refuted.

(* the well-formedness hypothesis is needed: an item no scanner produces makes the Go code panic *)
Theorem C18_ill_formed_item_crashes :
  exists m, po_result (soy_file 9 (fun _ => []) (fun _ => None) toks_bad_let) = PCrash m.
Proof. exact ill_formed_item_crashes. Qed.

(* ---------- the channel protocol behind the (sent, received, drained) record (Model/Chan.v) ---------- *)
(* Single producer, single consumer over an unbuffered channel, EVERY schedule: a parse that returns
   returns what the functional reading gives (the consumer fed with the list of items, then zero
   items), so two interleavings cannot make one parse return two results: the parse result is a
   function of the bytes (used by C13). *)
Theorem C18_chan_result_of_items :
  forall (A R : Type) (zero : A) (p : prod A) (c : cons A R) sched r,
  g_cons (run zero sched (cfg_init p c)) = CRet r -> feeds zero c (items p) r.
Proof. exact chan_result_of_items. Qed.
Print Assumptions C18_chan_result_of_items.

Theorem C18_chan_result_deterministic :
  forall (A R : Type) (zero : A) (p : prod A) (c : cons A R) sched1 sched2 r1 r2,
  g_cons (run zero sched1 (cfg_init p c)) = CRet r1 -> g_cons (run zero sched2 (cfg_init p c)) = CRet r2 -> r1 = r2.
Proof. exact chan_result_deterministic. Qed.
Print Assumptions C18_chan_result_deterministic.

(* scan_done is the right reading: when it holds (at any point of any execution) the scanner
   goroutine returns after finitely many steps of its own; when the parse has returned and it does
   not hold, the goroutine never exits under any continuation *)
Theorem C18_chan_scan_done_exits :
  forall (A R : Type) (zero : A) (p : prod A) (c : cons A R) sched,
  let g := run zero sched (cfg_init p c) in
  chan_scan_done (length (items p)) g = true -> exists k, exited (run zero (repeat MP k) g).
Proof. exact chan_scan_done_exits. Qed.
Print Assumptions C18_chan_scan_done_exits.

Theorem C18_chan_not_done_leaks :
  forall (A R : Type) (zero : A) (p : prod A) (c : cons A R) sched r,
  let g := run zero sched (cfg_init p c) in
  g_cons g = CRet r -> chan_scan_done (length (items p)) g = false -> forall more, ~ exited (run zero more g).
Proof. exact chan_not_done_leaks. Qed.
Print Assumptions C18_chan_not_done_leaks.

(* the record of Model/Parser.v in the channel model: a parse that makes n receives on the channel of the
   scanner of the items ts, then drains iff d, then returns -- under every schedule, once it has returned,
   Parser.scan_done of (|ts|, n, d) says exactly whether the scanner goroutine exits *)
Theorem C18_scan_done_reading :
  forall (A : Type) (zero : A) (n : nat) (d : bool) (ts : list A) sched,
  let g := run zero sched (cfg_init (prod_of A ts) (cons_of_record A n d)) in
  g_cons g = CRet tt ->
  (scan_done {| sc_sent := length ts; sc_recv := n; sc_drained := d |} = true -> exists k, exited (run zero (repeat MP k) g))
  /\ (scan_done {| sc_sent := length ts; sc_recv := n; sc_drained := d |} = false -> forall more, ~ exited (run zero more g)).
Proof. exact scan_done_reading. Qed.
Print Assumptions C18_scan_done_reading.

(* ---- the parser model IS a consumer of that channel, by theorem ---- *)
From Soy Require Proofs.RecvOnlyTok Proofs.RecvOnlyExpr Proofs.RecvOnlyCmd Proofs.ChanConsumer Proofs.ChanConsumerFile Proofs.ChanCount Proofs.ChanConsumerCount.

(* Model/Parser.v looks at the items only through Token.recv: a run (explicit budget F) that made no more receives
   than the list has items is the same run on every longer list -- same tree or error, same token state, the
   extension left over -- and conversely (so what the parse returns depends on the items it received and on nothing
   else); [ro_parse_zero_padding] is the same for receives past the end (a receive from the closed channel is a
   receive of a zero item).  By a walk over every procedure of Model/ExprParser.v and Model/Parser.v. *)
Theorem C18_parser_reads_only_received :
  forall inlen lexq unq F ts e,
  (forall r, item_list inlen lexq unq parse_expr expr_fuel F u_eof (cst_init ts) = r ->
     match RecvOnlyTok.ro_cfin r with Some q => (p_recv q <= length ts)%nat | None => False end ->
     item_list inlen lexq unq parse_expr expr_fuel F u_eof (cst_init (ts ++ e)) = RecvOnlyTok.ro_crext e r) /\
  (forall r', item_list inlen lexq unq parse_expr expr_fuel F u_eof (cst_init (ts ++ e)) = r' ->
     match RecvOnlyTok.ro_cfin r' with Some q => (p_recv q <= length ts)%nat | None => False end ->
     r' = RecvOnlyTok.ro_crext e (item_list inlen lexq unq parse_expr expr_fuel F u_eof (cst_init ts))).
Proof. exact RecvOnlyCmd.ro_parse_depends_on_received. Qed.
Print Assumptions C18_parser_reads_only_received.

Theorem C18_expr_parser_reads_only_received :
  forall F ts e,
  (forall r, parse_expr F 0 (pst_init ts) = r ->
     match RecvOnlyTok.ro_fin r with Some q => (p_recv q <= length ts)%nat | None => False end ->
     parse_expr F 0 (pst_init (ts ++ e)) = RecvOnlyTok.ro_rext e r) /\
  (forall r', parse_expr F 0 (pst_init (ts ++ e)) = r' ->
     match RecvOnlyTok.ro_fin r' with Some q => (p_recv q <= length ts)%nat | None => False end ->
     r' = RecvOnlyTok.ro_rext e (parse_expr F 0 (pst_init ts))).
Proof. exact RecvOnlyExpr.ro_parse_expr_depends_on_received. Qed.
Print Assumptions C18_expr_parser_reads_only_received.

(* hence parse.SoyFile (soy_file, with its own budget) is a consumer PROGRAM of Model/Chan.v -- ro_parser_prog,
   built from the functional model without the item list: it receives item after item and returns as soon as the
   model's run on the items received so far stays within them -- and C18_chan_result_of_items applies to it: for a
   scanner with well-formed items (what C05 proves of the scanner model), any budget F >= |items| + 8 and step
   bound k >= |items| + 4, under EVERY schedule of the two goroutines the parse, if it returns, returns soy_file's
   tree or error on the items the scanner sends *)
Theorem C18_parser_is_chan_consumer :
  forall inlen lexq unq, lexq_wf lexq ->
  forall (p : prod tok) sched F k r0,
  items_wf inlen (items p) -> (length (items p) + 8 <= F)%nat -> (length (items p) + 4 <= k)%nat ->
  g_cons (run zero_tok sched (cfg_init p (ChanConsumer.ro_parser_prog inlen lexq unq F k))) = CRet r0 ->
  match po_result (soy_file inlen lexq unq (items p)), r0 with
  | POk a q, COk a' s => a = a' /\ ChanConsumer.ro_pclear q = c_p s
  | PErr t c q, CErr t' c' s => t = t' /\ c = c' /\ ChanConsumer.ro_pclear q = c_p s
  | _, _ => False
  end.
Proof. exact ChanConsumerFile.ro_chan_soy_file. Qed.
Print Assumptions C18_parser_is_chan_consumer.

(* the same for parse.Expr (soy_expr, the repaired entry point: drained on every return), hence for every line of
   soy.ParseGlobals *)
Theorem C18_expr_parser_is_chan_consumer :
  forall inlen (p : prod tok) sched F k r0,
  items_wf inlen (items p) -> (length (items p) + 8 <= F)%nat -> (length (items p) + 4 <= k)%nat ->
  g_cons (run zero_tok sched (cfg_init p (ChanConsumer.ro_expr_prog inlen true F k))) = CRet r0 ->
  match po_result (soy_expr inlen (items p)), r0 with
  | POk a q, POk a' q' => a = a' /\ ChanConsumer.ro_pclear q = q'
  | PErr t c q, PErr t' c' q' => t = t' /\ c = c' /\ ChanConsumer.ro_pclear q = q'
  | _, _ => False
  end.
Proof. exact ChanConsumerFile.ro_chan_soy_expr. Qed.
Print Assumptions C18_expr_parser_is_chan_consumer.

(* and for that program -- the parser, not a stand-in built from its record -- the record parse_file reports for
   its own scanner is what happened on the channel, and Parser.scan_done of it says exactly whether the scanner
   goroutine exits *)
Theorem C18_parser_program_scan_done :
  forall inlen lexq unq F (p : prod tok) sched k n d r r0,
  ChanConsumer.ro_file_obs inlen lexq unq F (items p) = Some (n, d, r) -> (n <= k)%nat ->
  let g := run zero_tok sched (cfg_init p (ChanConsumer.ro_parser_prog inlen lexq unq F k)) in
  g_cons g = CRet r0 ->
  hd_error (po_scans (parse_file inlen lexq unq parse_expr expr_fuel F (items p))) = Some (own_scan (length (items p)) n d) /\
  (scan_done (own_scan (length (items p)) n d) = true -> exists j, exited (run zero_tok (repeat MP j) g)) /\
  (scan_done (own_scan (length (items p)) n d) = false -> forall more, ~ exited (run zero_tok more g)).
Proof. exact ChanConsumerCount.rc_parser_scan_done. Qed.
Print Assumptions C18_parser_program_scan_done.

(* Non-vacuity of the channel model: the scanner of "1 2 3" (four items) against a consumer that
   receives two items and returns (the pinned parse.Expr) under the schedule sync, sync: not scan_done,
   the producer is parked on its third send; with the drain (the repaired parse.Expr) and the schedule
   sync x4, producer closes, consumer sees the close: drained, and the producer has exited. *)
Definition ex_prod : prod N := PSend 1 (PSend 2 (PSend 3 (PSend 9 PClose))).
Definition ex_cons_pinned : cons N N := CRecv (fun a => CRecv (fun c => CRet (a + c))).
Definition ex_cons_drain : cons N N := CRecv (fun a => CRecv (fun c => CDrain (CRet (a + c)))).
Example C18_chan_example_leak :
  let g := run 0 [MS; MS] (cfg_init ex_prod ex_cons_pinned) in
  g_cons g = CRet 3 /\ chan_scan_done 4 g = false /\ parked g.
Proof. cbn. repeat split. eexists; eexists; reflexivity. Qed.
Example C18_chan_example_drained :
  let g := run 0 [MS; MS; MS; MS; MP; MC] (cfg_init ex_prod ex_cons_drain) in
  g_cons g = CRet 3 /\ chan_scan_done 4 g = true /\ exited g.
Proof. cbn. repeat split. Qed.

(* Non-vacuity: the items of  {call .u data="$x"/}  (20 bytes), the nested scanner's items for the
   attribute string $x, strconv.Unquote of the string item: the hypotheses hold, two scanners are
   started, the file's own is read to its EOF item, the nested one is drained. *)
Definition ex_mk (ty p : N) (v : bstr) : tok := {| t_typ := ty; t_pos := p; t_val := v |}.
Definition ex_toks : list tok := Eval vm_compute in
  [ ex_mk pit_LeftDelim 1 (b "{"); ex_mk pit_Call 5 (b "call"); ex_mk pit_DotIdent 8 (b ".u");
    ex_mk pit_Ident 13 (b "data"); ex_mk pit_Equals 14 (b "="); ex_mk pit_String 18 [34; 36; 120; 34];
    ex_mk pit_RightDelimEnd 20 (b "/}"); ex_mk pit_EOF 20 [] ].
Definition ex_lexq (s : bstr) : list tok :=
  if bstr_eqb s [36; 120] then [ ex_mk pit_DollarIdent 2 [36; 120]; ex_mk pit_Error 2 [] ] else [].
Definition ex_unq (s : bstr) : option bstr := if bstr_eqb s [34; 36; 120; 34] then Some [36; 120] else None.

Example C18_example_hypotheses : items_wf 20 ex_toks /\ eof_last ex_toks /\ lexq_wf ex_lexq.
Proof.
  split; [|split].
  - unfold items_wf, twf. apply Forall_forall. assert (H : forallb (twfb 20) ex_toks = true) by (vm_compute; reflexivity).
    rewrite forallb_forall in H. exact H.
  - vm_compute. repeat split; intros; try discriminate; reflexivity.
  - intros str. unfold items_wf, ex_lexq. destruct (bstr_eqb str [36; 120]) eqn:E; [|constructor].
    assert (L : length str = 2%nat).
    { destruct str as [|a str]; [discriminate|].
      destruct str as [|c str]; [cbn in E; destruct (a =? 36); discriminate|].
      destruct str as [|d r]; [reflexivity|].
      cbn in E. destruct (a =? 36); destruct (c =? 120); discriminate. }
    rewrite L. repeat constructor; vm_compute; reflexivity.
Qed.
Example C18_example_run :
  po_result (soy_file 20 ex_lexq ex_unq ex_toks)
  = POk (NList 1 [NCall 5 [46; 117] false (Some (NDataRef 20 [120] [])) []])
        {| p_rest := []; p_tok0 := ex_mk pit_EOF 20 []; p_tok1 := zero_tok; p_peek := 0; p_recv := 8 |}
  /\ po_scans (soy_file 20 ex_lexq ex_unq ex_toks)
     = [ {| sc_sent := 8; sc_recv := 8; sc_drained := false |}; {| sc_sent := 2; sc_recv := 2; sc_drained := true |} ].
Proof. vm_compute. split; reflexivity. Qed.

(* the same file from its BYTES: scanner model, nested scanner model and parser model together *)
Definition ex_bytes : bstr := Eval vm_compute in b "{call .u data=""$x""/}".
Example C18_example_from_bytes :
  match lex_items is_letter_tbl is_digit_tbl (lex_budget ex_bytes) false ex_bytes with
  | Ok ts => ts = ex_toks /\
             po_scans (soy_file 20 (lexq_model is_letter_tbl is_digit_tbl) ex_unq ts)
             = [ {| sc_sent := 8; sc_recv := 8; sc_drained := false |}; {| sc_sent := 2; sc_recv := 2; sc_drained := true |} ]
  | _ => False
  end.
Proof. vm_compute. split; reflexivity. Qed.

(* the parser as a consumer program on the same file: the scanner goroutine sends the eight items, eight
   rendezvous later the program has returned the tree, after 8 receives and no drain: scan_done *)
Example C18_example_consumer :
  let g := run zero_tok (repeat MS 8) (cfg_init (prod_of tok ex_toks) (ChanConsumer.ro_parser_prog 20 ex_lexq ex_unq 16 12)) in
  match g_cons g with
  | CRet (COk n _) => n = NList 1 [NCall 5 [46; 117] false (Some (NDataRef 20 [120] [])) []]
  | _ => False
  end /\ g_recv g = 8%nat /\ g_drained g = false /\ chan_scan_done 8 g = true.
Proof. vm_compute. repeat split; reflexivity. Qed.
