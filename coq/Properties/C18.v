(* C18 — No parse leaves a goroutine behind.  Property theorems only.

   Model: every scanner a parse starts is recorded as (items it sends, receives the parser made on
   its channel, drained); its goroutine has exited iff it was drained or every item was received
   ([scan_done]).  Entry points: parse.SoyFile ([parse_file] / [soy_file]; its own scanner and the
   nested scanner of every quoted attribute expression), parse.Expr ([soy_expr]), and soy.ParseGlobals,
   which calls parse.Expr once per line.  The models describe /repo after 5b2986c (parseSwitch) and
   8031664 (parse.Expr drains). *)
(* source tie by translation: the lemmas of these files are obligations of this property *)
From Soy Require Import Proofs.SourceTieParser.
From Soy Require Import Model.Bytes Model.Ast Model.Token Model.ExprParser Model.Parser.
From Soy Require Import Generated.Tables Proofs.ParserMeasure Proofs.ParserProofs.
Open Scope N_scope.

(* parse.SoyFile: for every stream of well-formed items in which an EOF item is the last item the
   scanner sends, and every well-formed nested scanner: the call returns a tree or an error (no
   run-time panic, so recover is never skipped), the first record is the entry point's own scanner,
   and every scanner started is drained or fully read -- on success and on every error path. *)
Theorem C18_scanner_fully_consumed_or_drained_file :
  forall inlen lexq unq, lexq_wf lexq ->
  forall ts fuel, items_wf inlen ts -> eof_last ts -> (length ts + 2 <= fuel)%nat ->
  let o := parse_file inlen lexq unq parse_expr expr_fuel fuel ts in
  is_tree_or_error (po_result o)
  /\ (exists own nested, po_scans o = own :: nested /\ sc_sent own = length ts)
  /\ Forall (fun r => scan_done r = true) (po_scans o).
Proof. exact scanner_fully_consumed_or_drained_file. Qed.
Print Assumptions C18_scanner_fully_consumed_or_drained_file.

(* parse.Expr, hence every line of soy.ParseGlobals: whatever follows the expression, the scanner
   is drained when the call returns *)
Theorem C18_scanner_fully_consumed_or_drained_expr :
  forall inlen ts, items_wf inlen ts ->
  is_tree_or_error (po_result (soy_expr inlen ts))
  /\ (exists own, po_scans (soy_expr inlen ts) = [own] /\ sc_sent own = length ts)
  /\ Forall (fun r => scan_done r = true) (po_scans (soy_expr inlen ts)).
Proof. exact scanner_fully_consumed_or_drained_expr. Qed.
Print Assumptions C18_scanner_fully_consumed_or_drained_expr.

(* the dependency named in the design: no parse ends in a run-time panic (which would skip the drain
   in recover) or exhausts the model's budget; and the receives are linear in the items *)
Theorem C18_parse_file_total :
  forall inlen lexq unq, lexq_wf lexq ->
  forall ts fuel, items_wf inlen ts -> (length ts + 2 <= fuel)%nat ->
  is_tree_or_error (po_result (parse_file inlen lexq unq parse_expr expr_fuel fuel ts)).
Proof. exact parse_file_total. Qed.
Print Assumptions C18_parse_file_total.

Theorem C18_parse_linear :
  forall inlen lexq unq, lexq_wf lexq ->
  forall ts fuel, items_wf inlen ts -> (length ts + 2 <= fuel)%nat ->
  (recv_of (po_result (parse_file inlen lexq unq parse_expr expr_fuel fuel ts)) <= length ts + 4)%nat
  /\ Forall (fun r => (sc_recv r <= sc_sent r + 4)%nat) (po_scans (parse_file inlen lexq unq parse_expr expr_fuel fuel ts)).
Proof. exact parse_linear. Qed.
Print Assumptions C18_parse_linear.

(* The pinned parse.Expr (no drain on the success path) leaves the scanner of "1 2 3" blocked;
   the repaired one does not. *)
Theorem C18_expr_pinned_refuted :
  map scan_done (po_scans (soy_expr_pinned 5 toks_1_2_3)) = [false]
  /\ map scan_done (po_scans (soy_expr 5 toks_1_2_3)) = [true].
Proof. exact expr_pinned_leaks. Qed.
Print Assumptions C18_expr_pinned_refuted.

(* the well-formedness hypothesis is needed: an item no scanner produces makes the Go code panic *)
Theorem C18_ill_formed_item_crashes :
  exists m, po_result (soy_file 9 (fun _ => []) (fun _ => None) toks_bad_let) = PCrash m.
Proof. exact ill_formed_item_crashes. Qed.

(* Non-vacuity: the items of  {call .u data="$x"/}  (20 bytes), the nested scanner's items for the
   attribute string $x, strconv.Unquote of the string item: the hypotheses hold, two scanners are
   started, the file's own is read to its EOF item, the nested one is drained. *)
Definition ex_mk (ty p : N) (v : bstr) : tok := {| t_typ := ty; t_pos := p; t_val := v |}.
Definition ex_toks : list tok := Eval vm_compute in
  [ ex_mk pit_LeftDelim 1 (b "{"); ex_mk pit_Call 5 (b "call"); ex_mk pit_DotIdent 8 (b ".u");
    ex_mk pit_Ident 13 (b "data"); ex_mk pit_Equals 14 (b "="); ex_mk pit_String 18 [34; 36; 120; 34];
    ex_mk pit_RightDelimEnd 20 (b "/}"); ex_mk pit_EOF 20 [] ].
Definition ex_lexq (s : bstr) : list tok :=
  if bstr_eqb s [36; 120] then [ ex_mk pit_DollarIdent 2 [36; 120]; ex_mk pit_Error 2 [] ] else [].
Definition ex_unq (s : bstr) : option bstr := if bstr_eqb s [34; 36; 120; 34] then Some [36; 120] else None.

Example C18_example_hypotheses : items_wf 20 ex_toks /\ eof_last ex_toks /\ lexq_wf ex_lexq.
Proof.
  split; [|split].
  - unfold items_wf, twf. apply Forall_forall. assert (H : forallb (twfb 20) ex_toks = true) by (vm_compute; reflexivity).
    rewrite forallb_forall in H. exact H.
  - vm_compute. repeat split; intros; try discriminate; reflexivity.
  - intros str. unfold items_wf, ex_lexq. destruct (bstr_eqb str [36; 120]) eqn:E; [|constructor].
    assert (L : length str = 2%nat).
    { destruct str as [|a str]; [discriminate|].
      destruct str as [|c str]; [cbn in E; destruct (a =? 36); discriminate|].
      destruct str as [|d r]; [reflexivity|].
      cbn in E. destruct (a =? 36); destruct (c =? 120); discriminate. }
    rewrite L. repeat constructor; vm_compute; reflexivity.
Qed.
Example C18_example_run :
  po_result (soy_file 20 ex_lexq ex_unq ex_toks)
  = POk (NList 1 [NCall 5 [46; 117] false (Some (NDataRef 20 [120] [])) []])
        {| p_rest := []; p_tok0 := ex_mk pit_EOF 20 []; p_tok1 := zero_tok; p_peek := 0; p_recv := 8 |}
  /\ po_scans (soy_file 20 ex_lexq ex_unq ex_toks)
     = [ {| sc_sent := 8; sc_recv := 8; sc_drained := false |}; {| sc_sent := 2; sc_recv := 2; sc_drained := true |} ].
Proof. vm_compute. split; reflexivity. Qed.
