(* String level of C17 / C01: the expression-mode scanner on the text the printer writes.

   For every expression e that is well-formed (Spec/ExprSyntax.v wf_expr) and lexically well-formed
   (Proofs/LexPrintMain.v lex_ok: identifiers are ASCII words that are not keywords, access keys do not
   start with a digit, string literals and printed map keys are a quote, valid UTF-8 runes with the quote
   only after a backslash, a quote; float literals have the shape -?D+(.D+)?(e[+-]?D+)? with a fraction or
   an exponent), if the printer model writes txt = print_node e, then the scanner model of parse/lexer.go,
   run as lexExpr on txt, returns normally the items of tokens_of e -- same types, same texts, in order
   (positions aside: tokens_of carries node positions) -- followed by the error item lexExpr sends at the
   end of an expression.  Composed with C17_parse_print_roundtrip (tokens -> tree) this is
   text -> tokens -> the same tree.

   Covered item kinds: all the printer emits -- null true false, integers, floats, strings, identifiers
   and dotted names, $x .x .N ?.x ?.N [ ?[ ] ( ) , : ? ?: | and every operator, including the
   lastEmit-based decision between unary and binary minus and the negative number literal.
   lex_ok is a hypothesis (decidable per literal/identifier), not derived from wf_expr: trees built
   from non-ASCII identifiers are outside the statement. *)
From Soy Require Import Model.Bytes Model.Outcome Model.Ast Model.Token Model.AstPrint Generated.Tables Model.Lexer Spec.ExprSyntax
  Proofs.LexTokens Proofs.LexPrintMain Proofs.LexPrintTop.
Open Scope Z_scope.

Theorem lex_expr_print : forall (uni_letter uni_digit : Z -> bool),
  (forall c, (c < 128)%N -> uni_letter (Z.of_N c) = ((65 <=? c) && (c <=? 90) || (97 <=? c) && (c <=? 122))%N) ->
  (forall c, (c < 128)%N -> uni_digit (Z.of_N c) = digit_b c) ->
  uni_letter (-1) = false -> uni_digit (-1) = false ->
  forall e txt, wf_expr e -> lex_ok e -> print_node e = Some txt ->
  exists ts err, lex_items uni_letter uni_digit (lex_budget txt) true txt = Ok (ts ++ [err]) /\
                 map tv ts = toks e /\ t_typ err = itemError.
Proof. exact LexPrintTop.lex_expr_print. Qed.
Print Assumptions lex_expr_print.

(* with the unicode tables regenerated from the toolchain *)
Theorem lex_expr_print_tbl : forall e txt, wf_expr e -> lex_ok e -> print_node e = Some txt ->
  exists ts err, lex_items is_letter_tbl is_digit_tbl (lex_budget txt) true txt = Ok (ts ++ [err]) /\
                 map tv ts = toks e /\ t_typ err = itemError.
Proof. exact LexPrintTop.lex_expr_print_tbl. Qed.
Print Assumptions lex_expr_print_tbl.

(* non-vacuity: a tree with every kind of item satisfies the hypotheses, and the scanner run by
   computation on its printed text gives its tokens *)
Definition ex_tree : node :=
  NBin OSub 0 (NNeg 0 (NDataRef 0 (b "a") [NAccKey 0 false (b "b"); NAccIndex 0 true 3; NAccExpr 0 false (NInt 0 (-5))]))
             (NFunc 0 (b "f") [NString 0 (b "'x\'y'") (b "x'y"); NListLit 0 [NBool 0 true; NNull 0]]).

Example ex_tree_lexes :
  match print_node ex_tree with
  | Some txt =>
      match lex_items is_letter_tbl is_digit_tbl (lex_budget txt) true txt with
      | Ok ts => map tv (removelast ts) = toks ex_tree
      | _ => False
      end
  | None => False
  end.
Proof. vm_compute. reflexivity. Qed.
