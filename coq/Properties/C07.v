(* C07 — the compiler accepts exactly the bundles satisfying the data-reference
   rules.  Property theorems only.

   Model: Model/RefView.v (the view of an AST node that the rules talk about:
   kind + children in the order of the Go Children() method), Model/Checker.v
   (Registry.Add and parsepasses.CheckDataRefs as they are in /repo after
   cb3f9df, 3fac11a and 4041f47: the binding stack with used flags, recurse's
   save/pop, checkCall, the used keys).  Spec: Spec/Wf.v (lexical reading of the
   rules; no stack, no flags).

   [files_shaped] / [registry_loops_ok] are decidable facts about parsed trees that
   the Go types and the parser guarantee (a template body is a ListNode, soydoc
   params are SoyDocParamNodes, the list/body/ifempty of a loop are not
   themselves {let} commands); the harness evaluates them on every parsed bundle. *)
From Soy Require Import Model.Bytes Model.Values Model.Ast Model.RefView Model.Checker Spec.Wf Proofs.CheckerProofs.
Open Scope N_scope.

(* Registry.Add for every file followed by CheckDataRefs succeeds exactly when the
   bundle is well-formed: both directions, all bundles, unbounded nesting. *)
Theorem C07_check_iff_wf : forall fs, files_shaped fs = true ->
  (compile_check fs = Accept <-> wf_bundle fs = true).
Proof. exact check_iff_wf. Qed.
Print Assumptions C07_check_iff_wf.

(* the same for CheckDataRefs alone on a registry *)
Theorem C07_check_registry_iff : forall reg, registry_loops_ok reg = true ->
  (check_registry reg = Accept <-> wf_registry reg = true).
Proof. exact check_registry_iff. Qed.
Print Assumptions C07_check_registry_iff.

(* the loop functions the model special-cases are soyhtml's loopFuncs (table regenerated from funcs.go) *)
Theorem C07_loop_funcs_tied : loop_func_names = Generated.Tables.html_loop_funcs.
Proof. exact loop_func_names_table. Qed.
