(* C07 — the compiler accepts exactly the bundles satisfying the data-reference
   rules; rendering an accepted template never looks up a name that nothing
   binds.  Property theorems only.

   Model: Model/RefView.v (the view of an AST node that the rules talk about:
   kind + children in the order of the Go Children() method), Model/Checker.v
   (Registry.Add and parsepasses.CheckDataRefs as they are in /repo after
   cb3f9df, 3fac11a and 4041f47: the binding stack with used flags, recurse's
   save/pop, checkCall, the used keys), Model/Interp.v (the tree walker with its
   scope stack and unbound-lookup counter).  Spec: Spec/Wf.v (lexical reading of
   the rules; no stack, no flags).

   [files_shaped] / [registry_loops_ok] / [registry_shaped] are decidable facts about
   parsed trees that the Go types and the parser guarantee (a template body is
   a ListNode, soydoc params are SoyDocParamNodes, a {let} is a direct child of
   a ListNode); the harness evaluates them on every parsed bundle. *)
(* source tie by translation: the lemmas of these files are obligations of this property *)
From Soy Require Import Proofs.SourceTieChecker Proofs.SourceTieChildren Proofs.CheckerDispatchTie.
From Soy Require Import Model.Bytes Model.Num Model.Values Model.Outcome Model.Ast Model.Interp Model.RefView Model.Checker
  Spec.Wf Proofs.CheckerProofs Proofs.CheckerInterpProofs.
From Coq Require Import Permutation.
From Soy Require Import Model.MsgId Model.Compile Proofs.CheckerCompileTie Proofs.CheckerAddTie.
From Soy Require Import Model.CheckerRun Proofs.CheckerExcuseProofs Proofs.CheckerExcuseRel.
Open Scope N_scope.

(* ------------------------------------------------------------------ *)
(* 1. accept = well-formed *)

(* Registry.Add for every file followed by CheckDataRefs succeeds exactly when the
   bundle is well-formed: both directions, all bundles, unbounded nesting. *)
Theorem C07_check_iff_wf : forall fs, files_shaped fs = true ->
  (compile_check fs = Accept <-> wf_bundle fs = true).
Proof. exact check_iff_wf. Qed.
Print Assumptions C07_check_iff_wf.

(* the same for CheckDataRefs alone on a registry *)
Theorem C07_check_registry_iff : forall reg, registry_loops_ok reg = true ->
  (check_registry reg = Accept <-> wf_registry reg = true).
Proof. exact check_registry_iff. Qed.
Print Assumptions C07_check_registry_iff.

(* the loop functions the model special-cases are soyhtml's loopFuncs (table regenerated from funcs.go) *)
Theorem C07_loop_funcs_tied : loop_func_names = Generated.Tables.html_loop_funcs.
Proof. exact loop_func_names_table. Qed.
Print Assumptions C07_loop_funcs_tied.

(* Registry.Add's expression for the Optional flag of a folded header param, regenerated from
   registry.go on every run, is the ? marker alone (a default value does not make a param optional:
   the renderer never applies defaults) *)
Theorem C07_header_param_optional : forall opt has_default has_type,
  Generated.Tables.header_param_optional opt has_default has_type = opt.
Proof. exact header_param_optional_spec. Qed.
Print Assumptions C07_header_param_optional.

(* There are two hand-written models of parsepasses.CheckDataRefs: Model/Checker.v (this property: over the
   view of RefView.v) and Model/Compile.v (C13: fuel recursion over ast nodes through Children(), with the Go
   map order of MapLiteralNode.Children as the parameter ko0, sorted since b9a4d3a).  They are the same
   function: same verdict, same class of error, on every registry whose map literals list their items by
   strictly increasing key (what the parser builds and the AST dump transmits), for every map iteration order. *)
Theorem C07_checker_models_agree : forall ko0 reg,
  (forall ks, Permutation (ko0 ks) ks) ->
  forallb (fun t => maps_sorted (t_node t)) (r_templates reg) = true ->
  verdict_of_failure (first_failure (check_template (sorted_after ko0) (find_template (r_templates reg))) (r_templates reg))
  = check_registry reg.
Proof. exact check_data_refs_models_agree. Qed.
Print Assumptions C07_checker_models_agree.

(* The same for the whole of compile_check: Model/Compile.v has a second model of Registry.Add too (registry_add, with
   the source/file maps and the processed bodies); on parsed files the two build the same template list and fail for
   the same class of reason, so C07's compile_check is the Add + CheckDataRefs part of C13's compile_gen. *)
Theorem C07_compile_models_agree : forall ko0 fs,
  (forall ks, Permutation (ko0 ks) ks) ->
  files_shaped fs = true ->
  (forall ts, add_files [] fs = AddOk ts -> registry_maps_sorted (registry_of ts fs) = true) ->
  compile_check_c13 ko0 fs = compile_check fs.
Proof. exact compile_check_models_agree. Qed.
Print Assumptions C07_compile_models_agree.

(* the form the harness evaluates on every compiled registry (both verdicts, and the hypothesis) *)
Theorem C07_checker_models_agree_run : forall reg,
  registry_maps_sorted reg = true -> check_registry_c13 reg = check_registry reg.
Proof. exact check_registry_c13_agrees. Qed.
Print Assumptions C07_checker_models_agree_run.

(* The tree shape both models walk -- which fields of a node Children() returns, in which order -- is read from
   ast/node.go on every run: tablegen translates every Children() method into selectors over the receiver's
   fields (Generated.Tables.ast_children), and the model of Children() (Model/Compile.v [children], to which the
   view of Model/RefView.v is tied node by node by Proofs/CheckerCompileTie.v kids_tie) is that list for every
   node of the model; the nodes outside the table have no children.  [go_type] / [field] (which Go type and
   field a component of the model's node stands for) are the hand-written part, shared with the AST dump. *)
Theorem C07_children_match_source : forall ko0 n,
  match go_type n with
  | Some t => match assoc_s t Generated.Tables.ast_children with
              | Some l => sels ko0 n l = Some (children (sorted_after ko0) n)
              | None => False
              end
  | None => children (sorted_after ko0) n = []
  end.
Proof. exact children_matches_source. Qed.
Print Assumptions C07_children_match_source.

(* The dispatch of the checker -- which node types checkTemplate's type switch has a clause for, which checker
   operations (checkLet, recurse, the pushes and the pop of tc.vars, checkTemplate on a field, checkCall, visitKey,
   checkLoopFunc, the panic) a clause performs on which fields of the node, in which order, whether it returns
   early, and that every other node is only recursed into -- is read from parsepasses/datarefcheck.go on every run:
   tablegen (81-check-dispatch; helper methods of templateChecker are inlined) translates the switch into step lists
   (Generated.Tables.src_check_dispatch / src_check_default), [cd_run] interprets a step list with the model's own
   operations and [w] as the recursive call, and one level of the model's checkTemplate (Compile.check_body, to
   which Model/Checker.v is tied by C07_checker_models_agree) is the run of the steps of the clause of the node's
   Go type, for every node, state and [w].  The bodies of the operations themselves stay modelled (compared with
   the compiler on every run). *)
Theorem C07_dispatch_matches_source : forall ko lookup params w st n,
  cd_run ko lookup params w n (cd_steps_of n) st = Some (check_body ko lookup params w st n).
Proof. exact check_body_matches_source. Qed.
Print Assumptions C07_dispatch_matches_source.

(* no clause of the source is skipped: every type a clause names is one [cd_type] can return *)
Theorem C07_dispatch_types_known :
  forallb (fun c => forallb (fun t => mem_s t cd_known_types) (fst c)) Generated.Tables.src_check_dispatch = true.
Proof. exact cd_types_known. Qed.
Print Assumptions C07_dispatch_types_known.

(* ------------------------------------------------------------------ *)
(* 2. static scoping is sound for the scope stack *)

(* DESIGN.md states: check b = Ok -> supplies data (params t) -> unbound_lookups (render b t data) = 0.
   The interpreter's counter [rr_unbound] counts EVERY scope.lookup miss.  A caller may omit an optional
   param of its callee, and data="$e" passes a map the checker cannot see; the callee then looks up a
   DECLARED param that is absent ([C07_declared_param_may_be_absent] below).  Such a name is bound
   statically (by the declaration): it is not a name that nothing binds.  What a callee may assume is
   exactly this: the variables of its enclosing {let}s and loops and the counters of its enclosing loops
   are bound; each of its declared params is either supplied or reads as undefined.

   The full statement is therefore about [render_xc] (Model/CheckerRun.v): [render] with the counter that
   does not count the miss of a declared param of the template being executed (the params of the entry
   template at the start, those of the callee across every {call}).  For EVERY accepted registry whose
   trees have the parser's shape -- calls omitting optional params, data="all", data="$e", $ij,
   recursion; any data, any fuel, any writer fault; on every outcome -- that counter is 0, and
   [render_xc] is [render] in every other observable (so no lookup of [render] misses on anything but a
   declared param of the template it is executing). *)
Theorem C07_accepted_no_unbound_lookup :
  forall cf fuel name data_id data cl bl first_id,
  check_registry (c_reg cf) = Accept ->
  registry_shaped (c_reg cf) = true ->
  let rx := render_xc cf fuel name data_id data cl bl first_id in
  let r := render cf fuel name data_id data cl bl first_id in
  rr_unbound rx = 0%nat
  /\ rr_outcome rx = rr_outcome r /\ rr_writes rx = rr_writes r /\ rr_file rx = rr_file r /\ rr_line rx = rr_line r
  /\ rr_shared_writes rx = rr_shared_writes r.
Proof. exact accepted_no_unbound_lookup_full. Qed.
Print Assumptions C07_accepted_no_unbound_lookup.

(* the refined counter is the counter minus the excused misses: for every registry (accepted or not) *)
Theorem C07_render_x_is_render : forall cf fuel name data_id data cl bl first_id,
  let rx := render_xc cf fuel name data_id data cl bl first_id in
  let r := render cf fuel name data_id data cl bl first_id in
  rr_outcome rx = rr_outcome r /\ rr_writes rx = rr_writes r /\ rr_file rx = rr_file r /\ rr_line rx = rr_line r
  /\ rr_shared_writes rx = rr_shared_writes r /\ (rr_unbound rx <= rr_unbound r)%nat.
Proof. exact render_x_is_render. Qed.
Print Assumptions C07_render_x_is_render.

(* the same starting from the files Bundle.Compile accepted *)
Theorem C07_accepted_bundle_no_unbound_lookup :
  forall fs cf fuel name data_id data cl bl first_id,
  compile_check fs = Accept ->
  (forall ts, add_files [] fs = AddOk ts -> c_reg cf = registry_of ts fs) ->
  registry_shaped (c_reg cf) = true ->
  rr_unbound (render_xc cf fuel name data_id data cl bl first_id) = 0%nat.
Proof. exact accepted_bundle_no_unbound_name. Qed.
Print Assumptions C07_accepted_bundle_no_unbound_lookup.

(* When, moreover, every call passes every param its callee declares ([calls_total]: explicitly, or through
   data="all" for params the caller declares; no data="$e") and the data supplies every declared param of
   the entry template, no lookup misses at all -- not even on a declared param: the unrefined counter is 0. *)
Theorem C07_all_params_supplied_no_miss :
  forall cf fuel name t data_id data cl bl first_id,
  check_registry (c_reg cf) = Accept ->
  registry_shaped (c_reg cf) = true ->
  calls_total (c_reg cf) = true ->
  find_template (r_templates (c_reg cf)) name = Some t ->
  (forall p, In p (map fst (t_params t)) -> assoc_s p data <> None) ->       (* all declared params supplied *)
  rr_unbound (render cf fuel name data_id data cl bl first_id) = 0%nat.       (* on every outcome, for every fuel *)
Proof. exact accepted_no_unbound_lookup. Qed.
Print Assumptions C07_all_params_supplied_no_miss.

Theorem C07_bundle_all_params_supplied_no_miss :
  forall fs cf fuel name t data_id data cl bl first_id,
  compile_check fs = Accept ->
  (forall ts, add_files [] fs = AddOk ts -> c_reg cf = registry_of ts fs) ->
  registry_shaped (c_reg cf) = true ->
  calls_total (c_reg cf) = true ->
  find_template (r_templates (c_reg cf)) name = Some t ->
  (forall p, In p (map fst (t_params t)) -> assoc_s p data <> None) ->
  rr_unbound (render cf fuel name data_id data cl bl first_id) = 0%nat.
Proof. exact accepted_bundle_no_unbound_lookup. Qed.
Print Assumptions C07_bundle_all_params_supplied_no_miss.

(* ------------------------------------------------------------------ *)
(* 3. non-vacuity *)

Definition ref (k : string) : node := NDataRef 0 (b k) [].
Definition pr (e : node) : node := NPrint 0 e [].

(* {namespace ns}
   /** @param p */ {template .t}
     {let $x: $p /}{foreach $i in [$x]}{index($i)}{$i}{/foreach}{call ns.u data="all"}{param q: $x /}{/call}
   /** @param p  @param q */ {template .u} {$p}{$q} *)
Definition ex_t_body : list node :=
  [ NLetValue 0 (b "x") (ref "p");
    NFor 0 (b "i") (NListLit 0 [ref "x"])
         (NList 0 [pr (NFunc 0 (b "index") [ref "i"]); pr (ref "i")]) None;
    NCall 0 (b "ns.u") true None [NParamValue 0 (b "q") (ref "x")] ].
Definition ex_file (tbody : list node) : soyfile :=
  {| sf_name := b "f.soy"; sf_text := [];
     sf_body := [ NNamespace 0 (b "ns") 0;
                  NSoyDoc 0 [NSoyDocParam 0 (b "p") false];
                  NTemplate 0 (b "ns.t") (NList 0 tbody) 0 false;
                  NSoyDoc 0 [NSoyDocParam 0 (b "p") false; NSoyDocParam 0 (b "q") false];
                  NTemplate 0 (b "ns.u") (NList 0 [pr (ref "p"); pr (ref "q")]) 0 false ] |}.
Definition ex_cfg (tbody : list node) : cfg :=
  {| c_reg := match add_files [] [ex_file tbody] with AddOk ts => registry_of ts [ex_file tbody] | AddRej _ => empty_registry end;
     c_ij := None; c_oblig := []; c_msgs := None |}.

(* a bundle with a let, a loop with a loop function, shadowing-free references and a data="all" call
   satisfies every hypothesis, is accepted, and renders with no unbound lookup *)
Example C07_nonvacuous_accept :
  files_shaped [ex_file ex_t_body] = true /\ compile_check [ex_file ex_t_body] = Accept /\ wf_bundle [ex_file ex_t_body] = true
  /\ check_registry (c_reg (ex_cfg ex_t_body)) = Accept /\ registry_shaped (c_reg (ex_cfg ex_t_body)) = true
  /\ calls_total (c_reg (ex_cfg ex_t_body)) = true
  /\ (let r := render (ex_cfg ex_t_body) 100 (b "ns.t") 7 [(b "p", VInt 5)] None None 100 in
      rr_outcome r = Ok tt /\ rr_unbound r = 0%nat /\ rr_writes r = [b "0"; b "5"; b "5"; b "5"]).
Proof. vm_compute. repeat split; reflexivity. Qed.

(* single-rule violations of the same bundle are rejected, each for its own reason, and are ill-formed *)
Example C07_nonvacuous_reject :
  let bad body := (compile_check [ex_file body], wf_bundle [ex_file body]) in
  (* undeclared name *)            bad (ex_t_body ++ [pr (ref "zz")]) = (Reject RUnbound, false)
  (* use after the block ends *) /\ bad (ex_t_body ++ [pr (ref "i")]) = (Reject RUnbound, false)
  (* use before definition *)    /\ bad (pr (ref "x") :: ex_t_body) = (Reject RUnbound, false)
  (* let in its own value *)     /\ bad (NLetValue 0 (b "y") (ref "y") :: pr (ref "y") :: ex_t_body) = (Reject RUnbound, false)
  (* unused let *)               /\ bad (ex_t_body ++ [NLetValue 0 (b "y") (NInt 0 1)]) = (Reject RUnusedLet, false)
  (* let named ij *)             /\ bad (ex_t_body ++ [NLetValue 0 (b "ij") (NInt 0 1); pr (ref "ij")]) = (Reject RLetIj, false)
  (* undeclared call param *)    /\ bad (ex_t_body ++ [NCall 0 (b "ns.u") true None [NParamValue 0 (b "q") (NInt 0 1); NParamValue 0 (b "r") (NInt 0 1)]])
                                      = (Reject RUndeclaredParam, false)
  (* missing required param *)   /\ bad (ex_t_body ++ [NCall 0 (b "ns.u") true None []]) = (Reject RMissingParam, false)
  (* unknown callee *)           /\ bad (ex_t_body ++ [NCall 0 (b "ns.nope") false None []]) = (Reject RNoTemplate, false)
  (* loop function, no loop *)   /\ bad (ex_t_body ++ [pr (NFunc 0 (b "index") [ref "p"])]) = (Reject RLoopFunc, false)
  (* loop function, inside the loop over i, on anything but the one plain variable (C14-loopfunc-shape) *)
                                 /\ (let inloop e := [NFor 0 (b "i") (NListLit 0 [ref "p"]) (NList 0 [pr (ref "i"); pr e]) None] in
                                     bad (inloop (NFunc 0 (b "isLast") [])) = (Reject RLoopFunc, false)
                                  /\ bad (inloop (NFunc 0 (b "isLast") [NInt 0 1])) = (Reject RLoopFunc, false)
                                  /\ bad (inloop (NFunc 0 (b "isFirst") [NDataRef 0 (b "i") [NAccKey 0 false (b "y")]])) = (Reject RLoopFunc, false)
                                  /\ bad (inloop (NFunc 0 (b "index") [ref "i"; ref "i"])) = (Reject RLoopFunc, false)
                                  /\ bad (inloop (NFunc 0 (b "index") [ref "i"])) = (Accept, true))
  (* soydoc and header params *) /\ bad (NHeaderParam 0 false (b "h") (b "int") None :: pr (ref "h") :: ex_t_body) = (Reject RBothParamKinds, false)
  (* param used only under a same-named let: unused *)
                                 /\ bad [NLetValue 0 (b "p") (NInt 0 1); pr (ref "p")] = (Reject RUnusedParam, false).
Proof. vm_compute. repeat split; reflexivity. Qed.

(* the hypotheses of C07_checker_models_agree hold of a bundle with a map literal (keys listed in order), for a
   map iteration order that is not the identity; both models accept it, and both reject the same violation *)
Example C07_models_agree_nonvacuous :
  let lit := NMapLit 0 [(b "a", ref "p"); (b "b", NInt 0 1)] in
  let reg body := c_reg (ex_cfg body) in
  let c13 body := first_failure (check_template (sorted_after (@rev bstr)) (find_template (r_templates (reg body)))) (r_templates (reg body)) in
  registry_maps_sorted (reg [pr lit]) = true /\ check_registry_c13 (reg [pr lit]) = Accept
  /\ forallb (fun t => maps_sorted (t_node t)) (r_templates (reg [pr lit])) = true
  /\ c13 [pr lit] = None /\ check_registry (reg [pr lit]) = Accept
  /\ verdict_of_failure (c13 [pr lit; pr (ref "zz")]) = Reject RUnbound /\ check_registry (reg [pr lit; pr (ref "zz")]) = Reject RUnbound
  /\ maps_sorted (NMapLit 0 [(b "b", NInt 0 1); (b "a", NInt 0 2)]) = false.
Proof. vm_compute. repeat split; reflexivity. Qed.

(* K3 of the defect ledger, repaired by cb3f9df: a param referenced before a same-named let is used *)
Example C07_param_then_same_named_let :
  compile_check [ex_file (pr (ref "p") :: NLetValue 0 (b "p") (NInt 0 1) :: [pr (ref "p")])] = Accept.
Proof. vm_compute. reflexivity. Qed.

(* the refined counter is live: on a bundle the checker rejects (a reference to a name that nothing binds) it counts
   the miss; and it excuses only the params of the template being executed (q is declared by ns.u, not by ns.t) *)
Example C07_refined_counter_counts :
  let cfx body := ex_cfg body in
  check_registry (c_reg (cfx [pr (ref "zz"); pr (ref "p")])) = Reject RUnbound
  /\ rr_unbound (render_xc (cfx [pr (ref "zz"); pr (ref "p")]) 100 (b "ns.t") 7 [(b "p", VInt 5)] None None 100) = 1%nat
  /\ check_registry (c_reg (cfx [pr (ref "q"); pr (ref "p")])) = Reject RUnbound
  /\ rr_unbound (render_xc (cfx [pr (ref "q"); pr (ref "p")]) 100 (b "ns.t") 7 [(b "p", VInt 5)] None None 100) = 1%nat
  /\ rr_unbound (render_xc (cfx [pr (ref "p")]) 100 (b "ns.t") 7 [] None None 100) = 0%nat
  /\ rr_unbound (render (cfx [pr (ref "p")]) 100 (b "ns.t") 7 [] None None 100) = 1%nat.
Proof. vm_compute. repeat split; reflexivity. Qed.

(* why [calls_total] is needed: an accepted bundle whose caller omits an optional param of the callee;
   the callee looks up its declared param q and misses (the counter counts it) *)
Definition ex_opt_file : soyfile :=
  {| sf_name := b "g.soy"; sf_text := [];
     sf_body := [ NNamespace 0 (b "ns") 0;
                  NSoyDoc 0 [NSoyDocParam 0 (b "p") false];
                  NTemplate 0 (b "ns.t") (NList 0 [pr (ref "p"); NCall 0 (b "ns.u") false None []]) 0 false;
                  NSoyDoc 0 [NSoyDocParam 0 (b "q") true];
                  NTemplate 0 (b "ns.u") (NList 0 [NIf 0 [NIfCond 0 (Some (ref "q")) (NList 0 [])]]) 0 false ] |}.
Example C07_declared_param_may_be_absent :
  let reg := match add_files [] [ex_opt_file] with AddOk ts => registry_of ts [ex_opt_file] | AddRej _ => empty_registry end in
  let cf := {| c_reg := reg; c_ij := None; c_oblig := []; c_msgs := None |} in
  compile_check [ex_opt_file] = Accept /\ registry_shaped reg = true /\ calls_total reg = false
  /\ rr_unbound (render cf 100 (b "ns.t") 7 [(b "p", VInt 5)] None None 100) = 1%nat
  /\ rr_unbound (render_xc cf 100 (b "ns.t") 7 [(b "p", VInt 5)] None None 100) = 0%nat.
Proof. vm_compute. repeat split; reflexivity. Qed.

(* the same through data="$m": the map behind $m lacks the callee's REQUIRED param q (the checker cannot know), the callee
   is entered with data="all" from there and recurses once; two misses on declared params, none on anything else *)
Definition ex_dataexpr_file : soyfile :=
  {| sf_name := b "h.soy"; sf_text := [];
     sf_body := [ NNamespace 0 (b "ns") 0;
                  NSoyDoc 0 [NSoyDocParam 0 (b "m") false];
                  NTemplate 0 (b "ns.t") (NList 0 [NCall 0 (b "ns.u") false (Some (ref "m")) []]) 0 false;
                  NSoyDoc 0 [NSoyDocParam 0 (b "q") false; NSoyDocParam 0 (b "again") true];
                  NTemplate 0 (b "ns.u")
                    (NList 0 [NIf 0 [NIfCond 0 (Some (ref "q")) (NList 0 [])];
                              NIf 0 [NIfCond 0 (Some (ref "again")) (NList 0 [NCall 0 (b "ns.u") true None [NParamValue 0 (b "again") (NBool 0 false)]])]])
                    0 false ] |}.
Example C07_data_expr_and_recursion :
  let reg := match add_files [] [ex_dataexpr_file] with AddOk ts => registry_of ts [ex_dataexpr_file] | AddRej _ => empty_registry end in
  let cf := {| c_reg := reg; c_ij := None; c_oblig := []; c_msgs := None |} in
  let d := [(b "m", VMap 9 [(b "again", VBool true)])] in
  compile_check [ex_dataexpr_file] = Accept /\ registry_shaped reg = true /\ calls_total reg = false
  /\ rr_outcome (render cf 100 (b "ns.t") 7 d None None 100) = Ok tt
  /\ rr_unbound (render cf 100 (b "ns.t") 7 d None None 100) = 2%nat
  /\ rr_unbound (render_xc cf 100 (b "ns.t") 7 d None None 100) = 0%nat.
Proof. vm_compute. repeat split; reflexivity. Qed.
