(* C07 — the compiler accepts exactly the bundles satisfying the data-reference
   rules; rendering an accepted template never looks up a name that nothing
   binds.  Property theorems only.

   Model: Model/RefView.v (the view of an AST node that the rules talk about:
   kind + children in the order of the Go Children() method), Model/Checker.v
   (Registry.Add and parsepasses.CheckDataRefs as they are in /repo after
   cb3f9df, 3fac11a and 4041f47: the binding stack with used flags, recurse's
   save/pop, checkCall, the used keys), Model/Interp.v (the tree walker with its
   scope stack and unbound-lookup counter).  Spec: Spec/Wf.v (lexical reading of
   the rules; no stack, no flags).

   [files_shaped] / [registry_loops_ok] / [registry_shaped] are decidable facts about
   parsed trees that the Go types and the parser guarantee (a template body is
   a ListNode, soydoc params are SoyDocParamNodes, a {let} is a direct child of
   a ListNode); the harness evaluates them on every parsed bundle. *)
(* source tie by translation: the lemmas of these files are obligations of this property *)
From Soy Require Import Proofs.SourceTieChecker.
From Soy Require Import Model.Bytes Model.Num Model.Values Model.Outcome Model.Ast Model.Interp Model.RefView Model.Checker
  Spec.Wf Proofs.CheckerProofs Proofs.CheckerInterpProofs.
Open Scope N_scope.

(* ------------------------------------------------------------------ *)
(* 1. accept = well-formed *)

(* Registry.Add for every file followed by CheckDataRefs succeeds exactly when the
   bundle is well-formed: both directions, all bundles, unbounded nesting. *)
Theorem C07_check_iff_wf : forall fs, files_shaped fs = true ->
  (compile_check fs = Accept <-> wf_bundle fs = true).
Proof. exact check_iff_wf. Qed.
Print Assumptions C07_check_iff_wf.

(* the same for CheckDataRefs alone on a registry *)
Theorem C07_check_registry_iff : forall reg, registry_loops_ok reg = true ->
  (check_registry reg = Accept <-> wf_registry reg = true).
Proof. exact check_registry_iff. Qed.
Print Assumptions C07_check_registry_iff.

(* the loop functions the model special-cases are soyhtml's loopFuncs (table regenerated from funcs.go) *)
Theorem C07_loop_funcs_tied : loop_func_names = Generated.Tables.html_loop_funcs.
Proof. exact loop_func_names_table. Qed.

(* Registry.Add's expression for the Optional flag of a folded header param, regenerated from
   registry.go on every run, is the ? marker alone (a default value does not make a param optional:
   the renderer never applies defaults) *)
Theorem C07_header_param_optional : forall opt has_default has_type,
  Generated.Tables.header_param_optional opt has_default has_type = opt.
Proof. exact header_param_optional_spec. Qed.

(* ------------------------------------------------------------------ *)
(* 2. static scoping is sound for the scope stack *)

(* DESIGN.md states: check b = Ok -> supplies data (params t) -> unbound_lookups (render b t data) = 0.
   Read with the interpreter's counter (EVERY scope.lookup miss) that statement is false:
   a caller may omit an optional param of its callee, and data="$e" passes a map the
   checker cannot see; the callee then looks up a DECLARED param that is absent
   ([C07_declared_param_may_be_absent] below).  Such a name is bound statically (by
   the declaration), so this is not the defect the property talks about; but the
   counter cannot tell the two apart.  The theorem therefore covers the bundles in
   which every call passes every param its callee declares ([calls_total]: explicitly,
   or through data="all" for params the caller declares; no data="$e").  For the
   other bundles the harness checks that every missed key is a declared param.
   Hence the name _partial. *)
Theorem C07_accepted_no_unbound_lookup_partial :
  forall cf fuel name t data_id data cl bl first_id,
  check_registry (c_reg cf) = Accept ->
  registry_shaped (c_reg cf) = true ->
  calls_total (c_reg cf) = true ->
  find_template (r_templates (c_reg cf)) name = Some t ->
  (forall p, In p (map fst (t_params t)) -> assoc_s p data <> None) ->       (* all declared params supplied *)
  rr_unbound (render cf fuel name data_id data cl bl first_id) = 0%nat.       (* on every outcome, for every fuel *)
Proof. exact accepted_no_unbound_lookup. Qed.
Print Assumptions C07_accepted_no_unbound_lookup_partial.

(* the same starting from the files Bundle.Compile accepted *)
Theorem C07_accepted_bundle_no_unbound_lookup_partial :
  forall fs cf fuel name t data_id data cl bl first_id,
  compile_check fs = Accept ->
  (forall ts, add_files [] fs = AddOk ts -> c_reg cf = registry_of ts fs) ->
  registry_shaped (c_reg cf) = true ->
  calls_total (c_reg cf) = true ->
  find_template (r_templates (c_reg cf)) name = Some t ->
  (forall p, In p (map fst (t_params t)) -> assoc_s p data <> None) ->
  rr_unbound (render cf fuel name data_id data cl bl first_id) = 0%nat.
Proof. exact accepted_bundle_no_unbound_lookup. Qed.
Print Assumptions C07_accepted_bundle_no_unbound_lookup_partial.

(* ------------------------------------------------------------------ *)
(* 3. non-vacuity *)

Definition ref (k : string) : node := NDataRef 0 (b k) [].
Definition pr (e : node) : node := NPrint 0 e [].

(* {namespace ns}
   /** @param p */ {template .t}
     {let $x: $p /}{foreach $i in [$x]}{index($i)}{$i}{/foreach}{call ns.u data="all"}{param q: $x /}{/call}
   /** @param p  @param q */ {template .u} {$p}{$q} *)
Definition ex_t_body : list node :=
  [ NLetValue 0 (b "x") (ref "p");
    NFor 0 (b "i") (NListLit 0 [ref "x"])
         (NList 0 [pr (NFunc 0 (b "index") [ref "i"]); pr (ref "i")]) None;
    NCall 0 (b "ns.u") true None [NParamValue 0 (b "q") (ref "x")] ].
Definition ex_file (tbody : list node) : soyfile :=
  {| sf_name := b "f.soy"; sf_text := [];
     sf_body := [ NNamespace 0 (b "ns") 0;
                  NSoyDoc 0 [NSoyDocParam 0 (b "p") false];
                  NTemplate 0 (b "ns.t") (NList 0 tbody) 0 false;
                  NSoyDoc 0 [NSoyDocParam 0 (b "p") false; NSoyDocParam 0 (b "q") false];
                  NTemplate 0 (b "ns.u") (NList 0 [pr (ref "p"); pr (ref "q")]) 0 false ] |}.
Definition ex_cfg (tbody : list node) : cfg :=
  {| c_reg := match add_files [] [ex_file tbody] with AddOk ts => registry_of ts [ex_file tbody] | AddRej _ => empty_registry end;
     c_ij := None; c_oblig := []; c_msgs := None |}.

(* a bundle with a let, a loop with a loop function, shadowing-free references and a data="all" call
   satisfies every hypothesis, is accepted, and renders with no unbound lookup *)
Example C07_nonvacuous_accept :
  files_shaped [ex_file ex_t_body] = true /\ compile_check [ex_file ex_t_body] = Accept /\ wf_bundle [ex_file ex_t_body] = true
  /\ check_registry (c_reg (ex_cfg ex_t_body)) = Accept /\ registry_shaped (c_reg (ex_cfg ex_t_body)) = true
  /\ calls_total (c_reg (ex_cfg ex_t_body)) = true
  /\ (let r := render (ex_cfg ex_t_body) 100 (b "ns.t") 7 [(b "p", VInt 5)] None None 100 in
      rr_outcome r = Ok tt /\ rr_unbound r = 0%nat /\ rr_writes r = [b "0"; b "5"; b "5"; b "5"]).
Proof. vm_compute. repeat split; reflexivity. Qed.

(* single-rule violations of the same bundle are rejected, each for its own reason, and are ill-formed *)
Example C07_nonvacuous_reject :
  let bad body := (compile_check [ex_file body], wf_bundle [ex_file body]) in
  (* undeclared name *)            bad (ex_t_body ++ [pr (ref "zz")]) = (Reject RUnbound, false)
  (* use after the block ends *) /\ bad (ex_t_body ++ [pr (ref "i")]) = (Reject RUnbound, false)
  (* use before definition *)    /\ bad (pr (ref "x") :: ex_t_body) = (Reject RUnbound, false)
  (* let in its own value *)     /\ bad (NLetValue 0 (b "y") (ref "y") :: pr (ref "y") :: ex_t_body) = (Reject RUnbound, false)
  (* unused let *)               /\ bad (ex_t_body ++ [NLetValue 0 (b "y") (NInt 0 1)]) = (Reject RUnusedLet, false)
  (* let named ij *)             /\ bad (ex_t_body ++ [NLetValue 0 (b "ij") (NInt 0 1); pr (ref "ij")]) = (Reject RLetIj, false)
  (* undeclared call param *)    /\ bad (ex_t_body ++ [NCall 0 (b "ns.u") true None [NParamValue 0 (b "q") (NInt 0 1); NParamValue 0 (b "r") (NInt 0 1)]])
                                      = (Reject RUndeclaredParam, false)
  (* missing required param *)   /\ bad (ex_t_body ++ [NCall 0 (b "ns.u") true None []]) = (Reject RMissingParam, false)
  (* unknown callee *)           /\ bad (ex_t_body ++ [NCall 0 (b "ns.nope") false None []]) = (Reject RNoTemplate, false)
  (* loop function, no loop *)   /\ bad (ex_t_body ++ [pr (NFunc 0 (b "index") [ref "p"])]) = (Reject RLoopFunc, false)
  (* soydoc and header params *) /\ bad (NHeaderParam 0 false (b "h") (b "int") None :: pr (ref "h") :: ex_t_body) = (Reject RBothParamKinds, false)
  (* param used only under a same-named let: unused *)
                                 /\ bad [NLetValue 0 (b "p") (NInt 0 1); pr (ref "p")] = (Reject RUnusedParam, false).
Proof. vm_compute. repeat split; reflexivity. Qed.

(* K3 of the defect ledger, repaired by cb3f9df: a param referenced before a same-named let is used *)
Example C07_param_then_same_named_let :
  compile_check [ex_file (pr (ref "p") :: NLetValue 0 (b "p") (NInt 0 1) :: [pr (ref "p")])] = Accept.
Proof. vm_compute. reflexivity. Qed.

(* why [calls_total] is needed: an accepted bundle whose caller omits an optional param of the callee;
   the callee looks up its declared param q and misses (the counter counts it) *)
Definition ex_opt_file : soyfile :=
  {| sf_name := b "g.soy"; sf_text := [];
     sf_body := [ NNamespace 0 (b "ns") 0;
                  NSoyDoc 0 [NSoyDocParam 0 (b "p") false];
                  NTemplate 0 (b "ns.t") (NList 0 [pr (ref "p"); NCall 0 (b "ns.u") false None []]) 0 false;
                  NSoyDoc 0 [NSoyDocParam 0 (b "q") true];
                  NTemplate 0 (b "ns.u") (NList 0 [NIf 0 [NIfCond 0 (Some (ref "q")) (NList 0 [])]]) 0 false ] |}.
Example C07_declared_param_may_be_absent :
  let reg := match add_files [] [ex_opt_file] with AddOk ts => registry_of ts [ex_opt_file] | AddRej _ => empty_registry end in
  let cf := {| c_reg := reg; c_ij := None; c_oblig := []; c_msgs := None |} in
  compile_check [ex_opt_file] = Accept /\ registry_shaped reg = true /\ calls_total reg = false
  /\ rr_unbound (render cf 100 (b "ns.t") 7 [(b "p", VInt 5)] None None 100) = 1%nat.
Proof. vm_compute. repeat split; reflexivity. Qed.
