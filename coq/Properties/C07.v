(* C07 — placeholder while the proofs are being written. *)
From Soy Require Import Model.Bytes Model.Ast Model.RefView Model.Checker Spec.Wf.
