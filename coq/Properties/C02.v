(* C02 -- Commands, variable scoping and calls behave as the language defines.

   Spec/Cmd.v is a big-step semantics with LEXICAL environments (nothing in it
   returns an environment; see the header of that file).  Model/Interp.v is the
   soyhtml tree walker over the scope STACK of scope.go, tied to the Go code by
   the correspondence of go/cmd/soyverif/c02.go.  The theorem says the stack
   machine implements the lexical semantics, for EVERY registry of parser-shaped
   trees, entry template, data map, injected data, obligatory directives and
   fuel, under a fault-free writer -- all commands, including call (all data
   forms, value and content params), msg/plural, css, log, foreach/ifempty,
   switch, if, let, print. *)
From Soy Require Import Proofs.SourceTieScope.
From Soy Require Import Model.Bytes Model.Num Model.Values Model.Outcome Model.Ast
  Model.Escape Model.Interp Spec.Cmd Proofs.ScopeRel Proofs.ScopeProofs Proofs.ScopeSpecProofs.
Open Scope N_scope.

(* ------------------------------------------------------------------ *)
(* the stack machine implements the lexical semantics *)

(* [render] of the model and [render_spec] produce the same bytes -- also the
   bytes written before an error -- and the same outcome (Ok, or the same error
   class Err/Crash/OutOfModel/OutOfFuel), except that an [Err] of the Spec may
   surface in the model as the slice panic of Registry.LineNumber inside
   errRecover ([outcome_agrees]; that is C19's subject). *)
Theorem exec_impl_spec : forall cf fuel name data_id data first_id,
  wf_registry (c_reg cf) = true ->
  let r := render cf fuel name data_id data None None first_id in
  let s := render_spec cf fuel name data first_id in
  concat_b (rr_writes r) = sr_out s /\ outcome_agrees (rr_outcome r) (sr_outcome s).
Proof. exact exec_impl_spec_lemma. Qed.
Print Assumptions exec_impl_spec.

(* in particular: same ok/error class *)
Corollary exec_impl_spec_ok : forall cf fuel name data_id data first_id,
  wf_registry (c_reg cf) = true ->
  (rr_outcome (render cf fuel name data_id data None None first_id) = Ok tt <->
   sr_outcome (render_spec cf fuel name data first_id) = Ok tt).
Proof. exact exec_impl_spec_ok_lemma. Qed.
Print Assumptions exec_impl_spec_ok.

(* the simulation itself, for every node kind and every amount of fuel
   (expressions, commands, lets, templates: the four clauses of [w_ok]) *)
Theorem stack_simulates_lexical : forall cf fuel,
  wf_registry (c_reg cf) = true -> ScopeExprProofs.w_ok (walk cf fuel) (spec_level cf fuel).
Proof. exact walk_sim. Qed.
Print Assumptions stack_simulates_lexical.

(* "pop restores the caller's stack exactly": a command that returns leaves the
   scope stack and the autoescape mode as it found them *)
Theorem command_restores_scope : forall cf fuel c st en entry v st',
  wf_registry (c_reg cf) = true -> wf KCmd c = true -> good st -> R (ctx st) en entry ->
  walk cf fuel c st = (Ok v, st') -> ctx st' = ctx st /\ mode st' = mode st.
Proof. exact walk_restores_scope. Qed.
Print Assumptions command_restores_scope.

(* ------------------------------------------------------------------ *)
(* the two scoping sentences, as lemmas of the Spec *)

Theorem let_not_visible_after_block : forall l entry md en c rest,
  is_let c = false ->
  block l entry md en (c :: rest) = (_ <~~ l_exec l entry en md c ;; block l entry md en rest).
Proof. exact ScopeSpecProofs.let_not_visible_after_block. Qed.
Print Assumptions let_not_visible_after_block.

Theorem let_binds_rest_of_its_block : forall l entry md en p x e rest,
  block l entry md en (NLetValue p x e :: rest) =
  (v <~~ l_let l entry en md (NLetValue p x e) ;; block l entry md ((x, v) :: en) rest).
Proof. exact let_scope_value. Qed.
Theorem let_shadows_that_name_only : forall x y v (en : env),
  env_lookup x ((x, v) :: en) = v /\ (bstr_eqb y x = false -> env_lookup y ((x, v) :: en) = env_lookup y en).
Proof. exact shadow_lookup. Qed.
Theorem loop_variable_in_body_only : forall l entry md en var body last i x r,
  for_spec l entry md en var body last i (x :: r) =
  (_ <~~ l_exec l entry ((var ++ s_index, VInt i) :: (var, x) :: (var ++ s_lastindex, VInt last) :: en) md body ;;
   for_spec l entry md en var body last (i + 1)%Z r).
Proof. exact loop_var_scope. Qed.

Theorem callee_env_exact : forall cf l entry md en p name alldata dat params callee,
  find_template (r_templates (c_reg cf)) name = Some callee ->
  exec_body cf l entry md en (NCall p name alldata dat params) =
  (base <~~ base_spec l entry en alldata dat ;;
   ps <~~ params_spec l entry md en params [] ;;
   l_exec l (ps ++ base) (ps ++ base) (call_mode (t_ns_autoescape callee)) (t_node callee)).
Proof. exact ScopeSpecProofs.callee_env_exact. Qed.
Print Assumptions callee_env_exact.
Theorem callee_sees_params_over_data : forall (ps base : env) k,
  env_lookup k (ps ++ base) = match assoc_s k ps with Some v => v | None => env_lookup k base end.
Proof. exact callee_lookup. Qed.
Theorem caller_locals_never_passed : forall cf l entry md en1 en2 p name dat,
  exec_body cf l entry md en1 (NCall p name true dat []) = exec_body cf l entry md en2 (NCall p name true dat []).
Proof. exact caller_locals_not_passed. Qed.

Theorem caller_env_restored : forall l entry md en p name alldata dat params rest,
  block l entry md en (NCall p name alldata dat params :: rest) =
  (_ <~~ l_exec l entry en md (NCall p name alldata dat params) ;; block l entry md en rest).
Proof. exact ScopeSpecProofs.caller_env_restored. Qed.
Print Assumptions caller_env_restored.

(* ------------------------------------------------------------------ *)
(* non-vacuity: a bundle with a let that shadows a param inside an {if},
   data="all" from under that let, a foreach whose variable shadows the same
   param, a call with an explicit param computed from index($a).
     {template .t0}{if true}{let $a: 9/}{$a}{call .t1 data="all"/}{/if}{$a}
        {foreach $a in [5,6]}{$a}{call .t1}{param a: index($a)/}{/call}{/foreach}{$a}{/template}
     {template .t1}{$a}{/template}            data: a = 1 *)
Definition ex_a := b "a".
Definition ex_ref := NDataRef 0 ex_a [].
Definition ex_t1 : template :=
  {| t_name := b "ns.t1"; t_node := NTemplate 0 (b "ns.t1") (NList 0 [NPrint 0 ex_ref []]) 0 false;
     t_ns_name := b "ns"; t_ns_autoescape := 0; t_params := [(ex_a, false)]; t_file := b "f.soy" |}.
Definition ex_t0 : template :=
  {| t_name := b "ns.t0";
     t_node := NTemplate 0 (b "ns.t0")
       (NList 0 [
          NIf 0 [NIfCond 0 (Some (NBool 0 true))
                   (NList 0 [NLetValue 0 ex_a (NInt 0 9); NPrint 0 ex_ref []; NCall 0 (b "ns.t1") true None []])];
          NPrint 0 ex_ref [];
          NFor 0 ex_a (NListLit 0 [NInt 0 5; NInt 0 6])
            (NList 0 [NPrint 0 ex_ref [];
                      NCall 0 (b "ns.t1") false None [NParamValue 0 ex_a (NFunc 0 (b "index") [ex_ref])]]) None;
          NPrint 0 ex_ref []]) 0 false;
     t_ns_name := b "ns"; t_ns_autoescape := 0; t_params := [(ex_a, false)]; t_file := b "f.soy" |}.
Definition ex_cf : cfg :=
  {| c_reg := {| r_templates := [ex_t0; ex_t1]; r_sources := []; r_files := [] |};
     c_ij := None; c_oblig := []; c_msgs := None |}.
Definition ex_data : env := [(ex_a, VInt 1)].

Example C02_example_wf : wf_registry (c_reg ex_cf) = true.
Proof. vm_compute. reflexivity. Qed.
Example C02_example_spec :
  render_spec ex_cf 50 (b "ns.t0") ex_data 1000 = {| sr_out := b "91150611"; sr_outcome := Ok tt |}.
Proof. vm_compute. reflexivity. Qed.
Example C02_example_model :
  let r := render ex_cf 50 (b "ns.t0") 2 ex_data None None 1000 in
  concat_b (rr_writes r) = b "91150611" /\ rr_outcome r = Ok tt.
Proof. vm_compute. split; reflexivity. Qed.
(* and an erroring one: too little fuel is reported by both sides alike *)
Example C02_example_fuel :
  sr_outcome (render_spec ex_cf 3 (b "ns.t0") ex_data 1000) = OutOfFuel /\
  rr_outcome (render ex_cf 3 (b "ns.t0") 2 ex_data None None 1000) = OutOfFuel.
Proof. vm_compute. split; reflexivity. Qed.
