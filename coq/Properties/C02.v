(* C02 -- Commands, variable scoping and calls behave as the language defines.

   Spec/Cmd.v is a big-step semantics with LEXICAL environments (nothing in it
   returns an environment; see the header of that file).  Model/Interp.v is the
   soyhtml tree walker over the scope STACK of scope.go, tied to the Go code by
   the correspondence of go/cmd/soyverif/c02.go.  The theorem says the stack
   machine implements the lexical semantics, for EVERY registry of parser-shaped
   trees, entry template, data map, injected data, obligatory directives and
   fuel, under a fault-free writer -- all commands, including call (all data
   forms, value and content params), msg/plural, css, log, foreach/ifempty,
   switch, if, let, print. *)
From Soy Require Import Proofs.SourceTieScope.
From Soy Require Import Model.Bytes Model.Num Model.Values Model.Outcome Model.Ast
  Model.Escape Model.Interp Spec.Expr Spec.Cmd Spec.CmdIndep Proofs.ScopeRel Proofs.ScopeProofs Proofs.ScopeSpecProofs
  Proofs.ScopeIndepProofs Proofs.ScopeIndepBridge
  Model.Token Model.Parser Model.Compile Spec.CallNames Proofs.CompilePermProofs Proofs.ScopeNames Proofs.ScopeRegistry
  Model.RawText Spec.Text Spec.CmdText Proofs.ScopeText Proofs.ScopeCmdLemmas Proofs.ScopeNsOnce
  Model.ExprParser Model.RefView Proofs.ScopeExprWf Proofs.ScopeParseShape Proofs.ScopeParseWf Proofs.ScopeCompileWf.
From Soy Require Model.Checker.
Open Scope N_scope.

(* ------------------------------------------------------------------ *)
(* the stack machine implements the lexical semantics *)

(* [render] of the model and [render_spec] produce the same bytes -- also the
   bytes written before an error -- and the same outcome (Ok, or the same error
   class Err/Crash/OutOfModel/OutOfFuel), except that an [Err] of the Spec may
   surface in the model as the slice panic of Registry.LineNumber inside
   errRecover ([outcome_agrees]; that is C19's subject). *)
Theorem exec_impl_spec : forall cf fuel name data_id data first_id,
  wf_registry (c_reg cf) = true ->
  let r := render cf fuel name data_id data None None first_id in
  let s := render_spec cf fuel name data first_id in
  concat_b (rr_writes r) = sr_out s /\ outcome_agrees (rr_outcome r) (sr_outcome s).
Proof. exact exec_impl_spec_lemma. Qed.
Print Assumptions exec_impl_spec.

(* in particular: same ok/error class *)
Corollary exec_impl_spec_ok : forall cf fuel name data_id data first_id,
  wf_registry (c_reg cf) = true ->
  (rr_outcome (render cf fuel name data_id data None None first_id) = Ok tt <->
   sr_outcome (render_spec cf fuel name data first_id) = Ok tt).
Proof. exact exec_impl_spec_ok_lemma. Qed.
Print Assumptions exec_impl_spec_ok.

(* the simulation itself, for every node kind and every amount of fuel
   (expressions, commands, lets, templates: the four clauses of [w_ok]) *)
Theorem stack_simulates_lexical : forall cf fuel,
  wf_registry (c_reg cf) = true -> ScopeExprProofs.w_ok (walk cf fuel) (spec_level cf fuel).
Proof. exact walk_sim. Qed.
Print Assumptions stack_simulates_lexical.

(* "pop restores the caller's stack exactly": a command that returns leaves the
   scope stack and the autoescape mode as it found them *)
Theorem command_restores_scope : forall cf fuel c st en entry v st',
  wf_registry (c_reg cf) = true -> wf KCmd c = true -> good st -> R (ctx st) en entry ->
  walk cf fuel c st = (Ok v, st') -> ctx st' = ctx st /\ mode st' = mode st.
Proof. exact walk_restores_scope. Qed.
Print Assumptions command_restores_scope.

(* ------------------------------------------------------------------ *)
(* C02 composed with C01: the same theorem against a Spec that shares NO
   operator / function / access clause with the model.

   Spec/CmdIndep.v [render_spec_indep] = the command clauses of Spec/Cmd.v
   (blocks, lets, loops, calls: lexical environments) with every expression
   that [of_node] can read back (literals, list/map literals, data references
   and $ij with all access forms, the thirteen built-in functions, unary and
   binary operators, ?: and the ternary) evaluated by Spec/Expr.v [eval_spec]
   -- the declarative expression semantics of C01, written from the language
   description over its own syntax, with its own operator semantics
   (sem_strict, apply_fn_spec) and NO fuel.  Only an expression that mentions
   index/isFirst/isLast or a compile-time global keeps Spec/Cmd.v's clause.

   The statement has two escape clauses, both about the comparison and not
   about the code: the model ran out of fuel (excluded by giving it more:
   C06 render_fuel_monotone), or the composed Spec leaves the language's
   answer open (OutOfModel: a float result that is not a binary64, an integer
   outside int64, randomInt).  Otherwise: same bytes, same outcome class
   (error MESSAGES are not compared: Spec/Expr.v has one). *)
Theorem exec_impl_spec_indep : forall cf fuel name data_id data first_id,
  wf_registry (c_reg cf) = true ->
  let r := render cf fuel name data_id data None None first_id in
  let s := render_spec_indep cf fuel name data first_id in
  rr_outcome r = OutOfFuel \/ sr_outcome s = OutOfModel \/
  (concat_b (rr_writes r) = sr_out s /\ outcome_class_agrees (rr_outcome r) (sr_outcome s)).
Proof. exact exec_impl_spec_indep_lemma. Qed.
Print Assumptions exec_impl_spec_indep.

(* the two Specs, level by level (expressions, commands, lets) *)
Theorem specs_agree : forall cf, wf_registry (c_reg cf) = true ->
  forall fuel, lv_agree (spec_level cf fuel) (indep_level cf fuel).
Proof. exact indep_levels_agree. Qed.
Print Assumptions specs_agree.

(* one expression: Spec/Cmd.v's clause against Spec/Expr.v, positions and the
   quoted source text of string literals being irrelevant *)
Theorem expression_clause_is_C01 : forall cf fuel en n nid x,
  wf_registry (c_reg cf) = true -> of_node n = Some x ->
  cagree (sE (l_eval (spec_level cf fuel) en n) nid) (sE (Expr.eval_spec [] en (c_ij cf) x) nid).
Proof. exact expr_bridge. Qed.
Print Assumptions expression_clause_is_C01.

(* ------------------------------------------------------------------ *)
(* the two scoping sentences, as lemmas of the Spec *)

Theorem let_not_visible_after_block : forall l entry md en c rest,
  is_let c = false ->
  block l entry md en (c :: rest) = (_ <~~ l_exec l entry en md c ;; block l entry md en rest).
Proof. exact ScopeSpecProofs.let_not_visible_after_block. Qed.
Print Assumptions let_not_visible_after_block.

Theorem let_binds_rest_of_its_block : forall l entry md en p x e rest,
  block l entry md en (NLetValue p x e :: rest) =
  (v <~~ l_let l entry en md (NLetValue p x e) ;; block l entry md ((x, v) :: en) rest).
Proof. exact let_scope_value. Qed.
Theorem let_shadows_that_name_only : forall x y v (en : env),
  env_lookup x ((x, v) :: en) = v /\ (bstr_eqb y x = false -> env_lookup y ((x, v) :: en) = env_lookup y en).
Proof. exact shadow_lookup. Qed.
Theorem loop_variable_in_body_only : forall l entry md en var body last i x r,
  for_spec l entry md en var body last i (x :: r) =
  (_ <~~ l_exec l entry ((var ++ s_index, VInt i) :: (var, x) :: (var ++ s_lastindex, VInt last) :: en) md body ;;
   for_spec l entry md en var body last (i + 1)%Z r).
Proof. exact loop_var_scope. Qed.

Theorem callee_env_exact : forall cf l entry md en p name alldata dat params callee,
  find_template (r_templates (c_reg cf)) name = Some callee ->
  exec_body cf l entry md en (NCall p name alldata dat params) =
  (base <~~ base_spec l entry en alldata dat ;;
   ps <~~ params_spec l entry md en params [] ;;
   l_exec l (ps ++ base) (ps ++ base) (call_mode (t_ns_autoescape callee)) (t_node callee)).
Proof. exact ScopeSpecProofs.callee_env_exact. Qed.
Print Assumptions callee_env_exact.
Theorem callee_sees_params_over_data : forall (ps base : env) k,
  env_lookup k (ps ++ base) = match assoc_s k ps with Some v => v | None => env_lookup k base end.
Proof. exact callee_lookup. Qed.
Theorem caller_locals_never_passed : forall cf l entry md en1 en2 p name dat,
  exec_body cf l entry md en1 (NCall p name true dat []) = exec_body cf l entry md en2 (NCall p name true dat []).
Proof. exact caller_locals_not_passed. Qed.

Theorem caller_env_restored : forall l entry md en p name alldata dat params rest,
  block l entry md en (NCall p name alldata dat params :: rest) =
  (_ <~~ l_exec l entry en md (NCall p name alldata dat params) ;; block l entry md en rest).
Proof. exact ScopeSpecProofs.caller_env_restored. Qed.
Print Assumptions caller_env_restored.

(* ------------------------------------------------------------------ *)
(* which template a call denotes: same-namespace (.x), aliased and fully
   qualified names.  The resolution happens in the parser (Model/Parser.v,
   parse_call / parse_alias / parse_template, tied to parse/parse.go by the
   parser harnesses and by this property's resolve_name check) and in
   Registry.Add (Model/Compile.v registry_add, tied by C13's harness); the
   walker only looks the resolved name up.  Spec/CallNames.v says what the
   language defines; these theorems say the parser and the registry do that,
   for every token stream / every list of files. *)

(* the parser's resolution function computes the Spec's relation, which is a function *)
Theorem call_name_resolution : forall s written,
  resolves (c_ns s) (c_al s) written (resolve_name s written) /\
  (forall full, resolves (c_ns s) (c_al s) written full -> resolve_name s written = full).
Proof. intros s written. split; [apply resolve_name_spec | apply resolve_name_complete]. Qed.
Print Assumptions call_name_resolution.

(* whatever {call ...} parses to carries the written name (before the attributes, or name="...")
   resolved against the namespace and aliases in force where the call stands *)
Theorem call_node_name_resolved : forall inlen unq lexq pexpr efuel pe w lf token s n s',
  parse_call inlen lexq unq pexpr efuel pe w lf token s = Parser.COk n s' ->
  exists name0 s1 attrs s2 full alldata dat params,
    call_name lf s = Parser.COk name0 s1 /\
    attrs_loop inlen unq lf [k_name; k_data] [] s1 = Parser.COk attrs s2 /\
    written_name name0 attrs <> [] /\
    resolves (c_ns s) (c_al s) (written_name name0 attrs) full /\
    n = NCall (t_pos token) full alldata dat params.
Proof. exact parse_call_resolves. Qed.
Print Assumptions call_node_name_resolved.

(* {alias a.b.c} puts c -> a.b.c in front of the aliases and leaves the namespace alone *)
Theorem alias_binds_last_segment : forall inlen f s s',
  parse_alias inlen f s = Parser.COk tt s' ->
  exists first segs, c_ns s' = c_ns s /\ c_al s' = (alias_key first segs, alias_target first segs) :: c_al s.
Proof. exact parse_alias_binds. Qed.
Print Assumptions alias_binds_last_segment.

(* {template .x} is named namespace + .x (the namespace in force at its end tag; that a second
   {namespace} is a parse error is parse_namespace's first clause) *)
Theorem template_node_name : forall inlen unq w lf token s n s',
  parse_template inlen unq w lf token s = Parser.COk n s' ->
  exists id body ae priv, n = NTemplate (t_pos token) (declared_name (c_ns s') (t_val id)) body ae priv.
Proof. exact parse_template_name. Qed.
Print Assumptions template_node_name.

(* tree.namespace is written once: EVERY procedure of the command parser, down to itemList (and so
   parse.SoyFile), leaves a non-empty namespace as it is; only {namespace} assigns it, only while it is
   empty, and the node it returns carries the same name *)
Theorem namespace_written_once : forall inlen lexq unq pexpr efuel fuel unt s,
  mono s (item_list inlen lexq unq pexpr efuel fuel unt s).
Proof. exact item_list_ns_once. Qed.
Print Assumptions namespace_written_once.
Theorem namespace_tag_sets : forall inlen unq f token s n s',
  parse_namespace inlen unq f token s = Parser.COk n s' ->
  exists name ae, n = NNamespace (t_pos token) name ae /\ c_ns s' = name /\ c_ns s = [].
Proof. exact parse_namespace_sets. Qed.
Print Assumptions namespace_tag_sets.
(* hence a {template .x} whose start tag is read under the namespace ns <> "" is named ns.x, whatever its body holds *)
Theorem template_named_by_file_namespace : forall inlen lexq unq pexpr efuel fuel token s n s',
  c_ns s <> [] ->
  parse_template inlen unq (item_list inlen lexq unq pexpr efuel fuel) fuel token s = Parser.COk n s' ->
  exists id body ae priv, n = NTemplate (t_pos token) (declared_name (c_ns s) (t_val id)) body ae priv /\ c_ns s' = c_ns s.
Proof. exact ScopeNsOnce.template_named_by_file_namespace. Qed.
Print Assumptions template_named_by_file_namespace.

(* Bundle.Compile's loop over the files: the lookup of a name finds exactly the templates the
   files declare, and names are unique *)
Theorem registry_lookup_exact : forall srcs r, add_all_files empty_creg srcs = COk r ->
  exists fs, srcs = map SrcOk fs /\ NoDup (map t_name (all_ts fs)) /\
    forall name t, find_template (r_templates (cr_reg r)) name = Some t <-> (In t (all_ts fs) /\ t_name t = name).
Proof. exact ScopeRegistry.registry_lookup_exact. Qed.
Print Assumptions registry_lookup_exact.

Theorem declared_template_found : forall srcs r, add_all_files empty_creg srcs = COk r ->
  forall f l1 p name body ae priv l2,
  In (SrcOk f) srcs -> sfile_body f = l1 ++ NTemplate p name body ae priv :: l2 ->
  exists t lp nodes,
    body = NList lp nodes /\
    find_template (r_templates (cr_reg r)) name = Some t /\
    t_name t = name /\ t_node t = NTemplate p name (NList lp (snd (span_headers nodes))) ae priv /\
    find_namespace (sfile_body f) = inr (t_ns_name t, t_ns_autoescape t) /\ t_file t = sfile_name f.
Proof. exact ScopeRegistry.declared_template_found. Qed.
Print Assumptions declared_template_found.

Theorem found_template_declared : forall srcs r, add_all_files empty_creg srcs = COk r ->
  forall name t, find_template (r_templates (cr_reg r)) name = Some t ->
  exists f l1 p lp nodes ae priv l2,
    In (SrcOk f) srcs /\ sfile_body f = l1 ++ NTemplate p name (NList lp nodes) ae priv :: l2 /\
    t_node t = NTemplate p name (NList lp (snd (span_headers nodes))) ae priv /\
    find_namespace (sfile_body f) = inr (t_ns_name t, t_ns_autoescape t) /\ t_file t = sfile_name f.
Proof. exact ScopeRegistry.found_template_declared. Qed.
Print Assumptions found_template_declared.

(* end to end on the Spec side: a call whose resolved name is that of a {template} tag of some file
   of the bundle runs that tag's body (header params taken out) in the callee environment, under the
   autoescape mode of the namespace of the CALLEE's file *)
Theorem call_runs_declared_template : forall cf srcs r f l1 p name body ae priv l2 l entry md en pc alldata dat params,
  add_all_files empty_creg srcs = COk r -> c_reg cf = cr_reg r ->
  In (SrcOk f) srcs -> sfile_body f = l1 ++ NTemplate p name body ae priv :: l2 ->
  exists lp nodes ns nsae,
    body = NList lp nodes /\ find_namespace (sfile_body f) = inr (ns, nsae) /\
    exec_body cf l entry md en (NCall pc name alldata dat params) =
    (base <~~ base_spec l entry en alldata dat ;;
     ps <~~ params_spec l entry md en params [] ;;
     l_exec l (ps ++ base) (ps ++ base) (call_mode nsae)
            (NTemplate p name (NList lp (snd (span_headers nodes))) ae priv)).
Proof. exact ScopeRegistry.call_runs_declared_template. Qed.
Print Assumptions call_runs_declared_template.

(* ------------------------------------------------------------------ *)
(* the commands that only produce text, at the token level (Model/Parser.v):
   special-character commands, {literal}, and plain template text.  In the tree
   all three are raw-text nodes; these theorems say WHICH bytes the node holds,
   and raw_text_written_exactly that the walker writes those bytes as they are
   (exec_impl_spec already says the same of the Spec: exec_body of NRawText is
   [semit text]). *)

(* the lexer's keyword table and the parser's character table together realise the language's list
   {sp} {nil} {\n} {\r} {\t} {lb} {rb}, and nothing more *)
Theorem special_char_tables :
  Forall (fun kc => exists ty, assoc_s (fst kc) Tables.builtin_idents = Some ty /\
                               assoc ty Tables.parser_special_chars = Some (snd kc)) special_char_commands /\
  length Tables.parser_special_chars = length special_char_commands.
Proof. exact ScopeText.special_char_tables. Qed.
Print Assumptions special_char_tables.

(* "{" already read; the command token and "}" follow: one raw-text node holding the table's characters *)
Theorem special_char_tag : forall inlen lexq unq pexpr efuel pe w lf s ty p v prd vrd rest txt,
  assoc ty Tables.parser_special_chars = Some txt ->
  reads s [tk ty p v; tk Tables.pit_RightDelim prd vrd] rest ->
  exists s', begin_tag inlen lexq unq pexpr efuel pe w lf s = Parser.COk (Some (NRawText p txt)) s' /\
             reads s' [] rest /\ same_names s s'.
Proof. exact ScopeText.special_char_tag. Qed.
Print Assumptions special_char_tag.

(* {literal}body{/literal}: a raw-text node holding exactly the body -- no line joining, no comments, no tags *)
Theorem literal_tag : forall inlen lexq unq pexpr efuel pe w lf s p v p1 v1 pb body p2 v2 p3 v3 p4 v4 rest,
  reads s [tk Tables.pit_Literal p v; tk Tables.pit_RightDelim p1 v1; tk Tables.pit_Text pb body;
           tk Tables.pit_LeftDelim p2 v2; tk Tables.pit_LiteralEnd p3 v3; tk Tables.pit_RightDelim p4 v4] rest ->
  exists s', begin_tag inlen lexq unq pexpr efuel pe w lf s = Parser.COk (Some (NRawText pb (literal_text body))) s' /\
             reads s' [] rest /\ same_names s s'.
Proof. exact ScopeText.literal_tag. Qed.
Print Assumptions literal_tag.

(* a run of text tokens (the first one just read), followed by any other token: one raw-text node holding the
   concatenation normalised by C15's line-joining rule (with NUL as a third tight joiner, see
   C15_rawtext_run_general), trimmed at the end when a comment follows; nothing when that is empty;
   the token after the run is backed up *)
Theorem text_run_node : forall inlen lexq unq pexpr efuel pe w lf until s p0 v0 more nx rest,
  (length more + 1 < lf)%nat -> one_of Tables.pit_Text until = false ->
  reads s (text_toks more ++ [nx]) rest -> tis nx Tables.pit_Text = false ->
  let joined := normalize_with is_tight_joiner false (tis nx Tables.pit_Comment) (v0 ++ concat (map snd more)) in
  exists s',
    text_or_tag inlen lexq unq pexpr efuel pe w lf (tk Tables.pit_Text p0 v0) until s =
      Parser.COk (match joined with [] => None | _ => Some (NRawText p0 joined) end, false) s' /\
    p_peek (c_p s') = 1%nat /\ p_tok0 (c_p s') = nx /\ p_rest (c_p s') = rest /\ same_names s s'.
Proof. exact ScopeText.text_run_node. Qed.
Print Assumptions text_run_node.

Theorem raw_text_written_exactly : forall cf f p t st,
  good st -> bufs st = [] ->
  exists st', walk cf (S f) (NRawText p t) st = (Ok VUndef, st') /\ out st' = t :: out st /\
              bufs st' = [] /\ ctx st' = ctx st /\ mode st' = mode st.
Proof. exact ScopeText.rawtext_written_exactly. Qed.
Print Assumptions raw_text_written_exactly.

(* ------------------------------------------------------------------ *)
(* switch with several values per case, css, log, debugger, plural: what the
   Spec (and so, by exec_impl_spec, the walker) does, in readable form; and the
   parser's side of {case v1, v2, ...} and {css ...} *)

(* a case is taken iff the switch value equals one of its values (tried left to right, stopping at the
   first hit); {default} is always taken; no case: nothing *)
Theorem switch_case_taken : forall l entry md en sv p vs vals body r n,
  pure_vals l en vs vals -> existsb (equals sv) vals = true ->
  switch_spec l entry md en sv (NSwitchCase p vs body :: r) n = l_exec l entry en md body n.
Proof. exact ScopeCmdLemmas.switch_case_taken. Qed.
Theorem switch_case_skipped : forall l entry md en sv p vs vals body r n,
  pure_vals l en vs vals -> vs <> [] -> existsb (equals sv) vals = false ->
  switch_spec l entry md en sv (NSwitchCase p vs body :: r) n = switch_spec l entry md en sv r n.
Proof. exact ScopeCmdLemmas.switch_case_skipped. Qed.
Theorem switch_values_stop_at_first_hit : forall l en sv x xs v n n',
  l_eval l en x n = Ok (v, n') -> equals sv v = true -> case_hit_spec l en sv (x :: xs) n = Ok (true, n').
Proof. exact case_hit_stops. Qed.
Theorem switch_default_taken : forall l entry md en sv p body r n,
  switch_spec l entry md en sv (NSwitchCase p [] body :: r) n = l_exec l entry en md body n.
Proof. exact ScopeCmdLemmas.switch_default_taken. Qed.
Print Assumptions switch_case_taken.
Print Assumptions switch_case_skipped.

(* the parser puts into a {case} node exactly the expressions between the commas, in source order:
   at least one for {case}, none for {default} *)
Theorem case_values_in_order : forall inlen pe w f token values s n s',
  case_loop inlen pe w f token values s = Parser.COk n s' ->
  exists more body, n = NSwitchCase (t_pos token) (values ++ more) body /\
    Forall (fun v => exists s0 s1, pe 0 s0 = Parser.COk v s1) more /\
    (if tis token Tables.pit_Default then more = [] else more <> []).
Proof. exact ScopeCmdLemmas.case_values_in_order. Qed.
Print Assumptions case_values_in_order.

(* css: the suffix; with an expression, its string, a dash, the suffix *)
Theorem css_plain : forall cf l entry md en p suffix n,
  exec_body cf l entry md en (NCss p None suffix) n = (suffix, Ok (tt, n)).
Proof. exact ScopeCmdLemmas.css_plain. Qed.
Theorem css_expr : forall cf l entry md en p x suffix n v n' s,
  l_eval l en x n = Ok (v, n') -> value_string v = Ok s ->
  exec_body cf l entry md en (NCss p (Some x) suffix) n = ((s ++ s_dash) ++ suffix, Ok (tt, n')).
Proof. exact ScopeCmdLemmas.css_expr. Qed.
Theorem css_tag_shape : forall inlen lexq pexpr efuel token s n s',
  parse_css inlen lexq pexpr efuel token s = Parser.COk n s' ->
  exists cmd : tok,
    match last_index_of 44 (t_val cmd) with
    | None => n = NCss (t_pos token) None (trim_space (t_val cmd))
    | Some i => exists e s2 s3,
        parse_quoted_expr inlen lexq pexpr efuel (trim_space (take i (t_val cmd))) s2 = Parser.COk e s3 /\
        n = NCss (t_pos token) (Some e) (trim_space (drop (S i) (t_val cmd)))
    end.
Proof. exact ScopeCmdLemmas.css_tag_shape. Qed.
Print Assumptions css_tag_shape.

(* log renders its body and writes nothing; debugger does nothing *)
Theorem log_writes_nothing : forall cf l entry md en p body n, fst (exec_body cf l entry md en (NLog p body) n) = [].
Proof. exact ScopeCmdLemmas.log_writes_nothing. Qed.
Theorem debugger_nothing : forall cf l entry md en p n, exec_body cf l entry md en (NDebugger p) n = ([], Ok (tt, n)).
Proof. exact ScopeCmdLemmas.debugger_nothing. Qed.

(* plural without a bundle: the explicit case equal to the number, else the default *)
Theorem plural_explicit_case : forall l entry md en mp i dflt cs1 p body cs2 n,
  forallb (fun c => negb (plural_case_is i c)) cs1 = true ->
  plural_spec l entry md en mp i dflt (cs1 ++ NMsgPluralCase p i body :: cs2) n =
  l_exec l entry en md (NMsg mp 0 [] [] body) n.
Proof. exact ScopeCmdLemmas.plural_explicit_case. Qed.
Theorem plural_default : forall l entry md en mp i dflt cs n,
  forallb (fun c => negb (plural_case_is i c)) cs = true ->
  plural_spec l entry md en mp i dflt cs n = l_exec l entry en md (NMsg mp 0 [] [] dflt) n.
Proof. exact ScopeCmdLemmas.plural_default. Qed.
Print Assumptions plural_explicit_case.

(* ------------------------------------------------------------------ *)
(* wf_registry, the hypothesis of exec_impl_spec, as a THEOREM about parse + check.

   Chain: (1) every tree the expression parser returns is an expression; (2) every tree the command
   parser returns has the parser's shape [pwf] (ScopeParseShape.v: blocks where blocks belong, IfCond /
   SwitchCase / param / msg-item nodes in their positions, expressions in expression positions), and
   every NCall below the root carries a written name resolved against the namespace and aliases in
   force at the call; (3) CheckDataRefs (Model/Checker.v) rejects every template in which a let is
   the only child of a non-block parent -- what a {let} written directly inside {msg} parses to;
   (4) [pwf] + accepted + [file_grammar] = Spec/Cmd.v's [wf].

   [file_grammar] is the ONE thing neither the parser nor the checker enforces (refuted below):
   inside a template, {namespace} / {template} / a soydoc comment, and a {plural} nested in a
   {param} / {let} / {log} inside a {msg}, are ACCEPTED by parse.SoyFile and by Bundle.Compile
   (robfig/soy renders `{template .x}A{template .y}B{/template}C{/template}` as "ABC", and fails at
   render time with "unknown node: *ast.MsgPluralNode" / "*ast.SoyDocNode" on the others).  The
   property's grammar has none of these. *)

Theorem expression_parser_returns_expressions : forall fuel prec st n st',
  parse_expr fuel prec st = POk n st' -> wf KExpr n = true.
Proof. exact parse_expr_wf. Qed.
Print Assumptions expression_parser_returns_expressions.

(* itemList at every budget, from every parser state, over ANY expression parser that returns expressions:
   the state's (namespace, aliases) only moves up, the tree is a block of the parser's shape, and every call
   below it is resolved between [lo] and the final state, whatever the state does afterwards *)
Theorem parser_tree_shape : forall inlen lexq unq pexpr efuel,
  (forall f prec p n p', pexpr f prec p = POk n p' -> wf KExpr n = true) ->
  forall fuel lo unt s, nle lo (st s) ->
  stepr s (nodeP PBlock lo) (item_list inlen lexq unq pexpr efuel fuel unt s).
Proof. exact item_list_shape. Qed.
Print Assumptions parser_tree_shape.

(* parse.SoyFile: every NCall below the root of a parsed file is a written, non-empty name resolved
   (Spec/CallNames.v) against a (namespace, aliases) between the empty start state and the final one:
   the namespace is "" or the file's (written once), the aliases are a suffix of the final list *)
Theorem parsed_calls_resolved : forall inlen lexq unq ts n p,
  po_result (soy_file inlen lexq unq ts) = POk n p ->
  pwf PBlock n = true /\ exists hi, Forall (resolved_in ([], []) hi) (calls_of n).
Proof. exact soy_file_shape. Qed.
Print Assumptions parsed_calls_resolved.

(* ... and below a {template} read under the namespace ns: against ns itself *)
Theorem template_calls_resolved : forall inlen lexq unq fuel token s n s',
  c_ns s <> [] ->
  parse_template inlen unq (item_list inlen lexq unq parse_expr expr_fuel fuel) fuel token s = Parser.COk n s' ->
  Forall (fun name => exists al written, al_ext (c_al s) al /\ al_ext al (c_al s') /\ written <> [] /\
                                         resolves (c_ns s) al written name) (calls_of n).
Proof. exact ScopeParseWf.template_calls_resolved. Qed.
Print Assumptions template_calls_resolved.

(* CheckDataRefs rejects (in every checker state) a template whose view holds a let as the only child
   of a non-block parent: the let can never be used *)
Theorem let_in_msg_rejected : forall templates params t,
  rt_bad t = true -> forall st0, exists r, Checker.chk templates params t st0 = Checker.CR r.
Proof. exact bad_rejected. Qed.
Print Assumptions let_in_msg_rejected.

(* FULL statement: parsed files on which Registry.Add and CheckDataRefs succeed give a wf registry.
   FALSE of the faithful model (next theorem); proved under [file_grammar]. *)
Theorem compiled_registry_wf_partial : forall fs ts,
  (forall f, In f fs -> parsed_file f) ->
  (forall f, In f fs -> file_grammar f = true) ->
  Checker.add_files [] fs = Checker.AddOk ts -> Checker.compile_check fs = Checker.Accept ->
  wf_registry (Checker.registry_of ts fs) = true.
Proof. exact compiled_registry_wf_parsed. Qed.
Print Assumptions compiled_registry_wf_partial.

(* {namespace a}{template .x}A{template .y}B{/template}C{/template} *)
Definition ex_tk (ty : N) (v : bstr) : tok := {| t_typ := ty; t_pos := 0; t_val := v |}.
Definition ex_nested_tokens : list tok := Eval vm_compute in
  [ex_tk Tables.pit_LeftDelim []; ex_tk Tables.pit_Namespace []; ex_tk Tables.pit_Ident (b "a"); ex_tk Tables.pit_RightDelim [];
   ex_tk Tables.pit_LeftDelim []; ex_tk Tables.pit_Template []; ex_tk Tables.pit_DotIdent (b ".x"); ex_tk Tables.pit_RightDelim [];
   ex_tk Tables.pit_Text (b "A");
   ex_tk Tables.pit_LeftDelim []; ex_tk Tables.pit_Template []; ex_tk Tables.pit_DotIdent (b ".y"); ex_tk Tables.pit_RightDelim [];
   ex_tk Tables.pit_Text (b "B");
   ex_tk Tables.pit_LeftDelim []; ex_tk Tables.pit_TemplateEnd []; ex_tk Tables.pit_RightDelim [];
   ex_tk Tables.pit_Text (b "C");
   ex_tk Tables.pit_LeftDelim []; ex_tk Tables.pit_TemplateEnd []; ex_tk Tables.pit_RightDelim [];
   ex_tk Tables.pit_EOF []].
Definition ex_body_of (ts : list tok) : list node :=
  match po_result (soy_file 100 (fun _ => []) (fun _ => None) ts) with POk (NList _ l) _ => l | _ => [] end.
Definition ex_nested_body : list node := Eval vm_compute in ex_body_of ex_nested_tokens.
Definition ex_nested_file : soyfile := {| sf_name := b "n.soy"; sf_text := []; sf_body := ex_nested_body |}.

Theorem compiled_registry_wf_refuted : exists fs ts,
  (forall f, In f fs -> parsed_file f) /\
  Checker.add_files [] fs = Checker.AddOk ts /\ Checker.compile_check fs = Checker.Accept /\
  wf_registry (Checker.registry_of ts fs) = false.
Proof.
  exists [ex_nested_file]. eexists. split.
  - intros f [<-|[]]. exists 100, (fun _ => []), (fun _ => None), ex_nested_tokens. do 2 eexists. vm_compute. reflexivity.
  - split; [vm_compute; reflexivity|]. split; vm_compute; reflexivity.
Qed.
Print Assumptions compiled_registry_wf_refuted.

(* exec_impl_spec's hypothesis discharged for compiled bundles of the property's grammar *)
Theorem C02_compiled_bundle_renders_spec_partial : forall cf fs ts fuel name data_id data first_id,
  (forall f, In f fs -> parsed_file f) ->
  (forall f, In f fs -> file_grammar f = true) ->
  Checker.add_files [] fs = Checker.AddOk ts -> Checker.compile_check fs = Checker.Accept ->
  c_reg cf = Checker.registry_of ts fs ->
  let r := render cf fuel name data_id data None None first_id in
  let s := render_spec cf fuel name data first_id in
  concat_b (rr_writes r) = sr_out s /\ outcome_agrees (rr_outcome r) (sr_outcome s).
Proof.
  intros cf fs ts fuel name data_id data first_id Hp Hg Ha Hc Hr. apply exec_impl_spec_lemma.
  rewrite Hr. exact (compiled_registry_wf_parsed fs ts Hp Hg Ha Hc).
Qed.
Print Assumptions C02_compiled_bundle_renders_spec_partial.

(* the same for Model/Compile.v's [compile] -- C13's model of the whole of Bundle.Compile (Registry.Add per parsed
   file, CheckDataRefs with ANY order of MapLiteralNode.Children, SetGlobals, ProcessMessages), the model
   registry_lookup_exact speaks about.  FULL statement (without sfile_grammar): false, same witness. *)
Theorem compile_registry_wf_partial : forall node_string o gl srcs cp,
  compile node_string o gl srcs = COk cp ->
  (forall f, In (SrcOk f) srcs -> parsed_sfile f) ->
  (forall f, In (SrcOk f) srcs -> sfile_grammar f = true) ->
  wf_registry (cp_reg cp) = true.
Proof. exact compile_registry_wf. Qed.
Print Assumptions compile_registry_wf_partial.

Theorem C02_compile_renders_spec_partial : forall node_string o gl srcs cp cf fuel name data_id data first_id,
  compile node_string o gl srcs = COk cp ->
  (forall f, In (SrcOk f) srcs -> parsed_sfile f) ->
  (forall f, In (SrcOk f) srcs -> sfile_grammar f = true) ->
  c_reg cf = cp_reg cp ->
  let r := render cf fuel name data_id data None None first_id in
  let s := render_spec cf fuel name data first_id in
  concat_b (rr_writes r) = sr_out s /\ outcome_agrees (rr_outcome r) (sr_outcome s).
Proof.
  intros ns o gl srcs cp cf fuel name data_id data first_id Hc Hp Hg Hr. apply exec_impl_spec_lemma.
  rewrite Hr. exact (compile_registry_wf ns o gl srcs cp Hc Hp Hg).
Qed.
Print Assumptions C02_compile_renders_spec_partial.

(* non-vacuity: {namespace a}{template .x}A{call .y /}{/template}{template .y}B{/template} is a parsed file of the
   grammar that compiles; its call is resolved to a.y *)
Definition ex_call_tokens : list tok := Eval vm_compute in
  [ex_tk Tables.pit_LeftDelim []; ex_tk Tables.pit_Namespace []; ex_tk Tables.pit_Ident (b "a"); ex_tk Tables.pit_RightDelim [];
   ex_tk Tables.pit_LeftDelim []; ex_tk Tables.pit_Template []; ex_tk Tables.pit_DotIdent (b ".x"); ex_tk Tables.pit_RightDelim [];
   ex_tk Tables.pit_Text (b "A");
   ex_tk Tables.pit_LeftDelim []; ex_tk Tables.pit_Call []; ex_tk Tables.pit_DotIdent (b ".y"); ex_tk Tables.pit_RightDelimEnd [];
   ex_tk Tables.pit_LeftDelim []; ex_tk Tables.pit_TemplateEnd []; ex_tk Tables.pit_RightDelim [];
   ex_tk Tables.pit_LeftDelim []; ex_tk Tables.pit_Template []; ex_tk Tables.pit_DotIdent (b ".y"); ex_tk Tables.pit_RightDelim [];
   ex_tk Tables.pit_Text (b "B");
   ex_tk Tables.pit_LeftDelim []; ex_tk Tables.pit_TemplateEnd []; ex_tk Tables.pit_RightDelim [];
   ex_tk Tables.pit_EOF []].
Definition ex_call_body : list node := Eval vm_compute in ex_body_of ex_call_tokens.
Definition ex_call_file : soyfile := {| sf_name := b "c.soy"; sf_text := []; sf_body := ex_call_body |}.
Example C02_example_compiled : exists ts,
  parsed_file ex_call_file /\ file_grammar ex_call_file = true /\
  Checker.add_files [] [ex_call_file] = Checker.AddOk ts /\ Checker.compile_check [ex_call_file] = Checker.Accept /\
  flat_map calls_of (sf_body ex_call_file) = [b "a.y"].
Proof.
  eexists. split.
  - exists 100, (fun _ => []), (fun _ => None), ex_call_tokens. do 2 eexists. vm_compute. reflexivity.
  - repeat split; vm_compute; reflexivity.
Qed.
Definition ex_orders : orders := {| o_globals := fun l => l; o_children := fun l => l; o_ph := fun l => l; o_imports := fun l => l |}.
Definition ex_call_sfile : sfile := {| sfile_name := b "c.soy"; sfile_text := []; sfile_body := ex_call_body |}.
Example C02_example_compile : exists cp,
  compile (fun _ => []) ex_orders [] [SrcOk ex_call_sfile] = COk cp /\
  parsed_sfile ex_call_sfile /\ sfile_grammar ex_call_sfile = true /\ length (r_templates (cp_reg cp)) = 2%nat.
Proof.
  eexists. split; [vm_compute; reflexivity|]. split.
  - exists 100, (fun _ => []), (fun _ => None), ex_call_tokens. do 2 eexists. vm_compute. reflexivity.
  - split; vm_compute; reflexivity.
Qed.
(* ... and a let directly inside a msg is what [rt_bad] detects *)
Example C02_example_let_in_msg :
  rt_bad (view (NMsg 0 0 [] [] [NMsgPlaceholder 0 [] (NLetValue 0 (b "x") (NInt 0 1))])) = true.
Proof. reflexivity. Qed.

(* ------------------------------------------------------------------ *)
(* non-vacuity: a bundle with a let that shadows a param inside an {if},
   data="all" from under that let, a foreach whose variable shadows the same
   param, a call with an explicit param computed from index($a).
     {template .t0}{if true}{let $a: 9/}{$a}{call .t1 data="all"/}{/if}{$a}
        {foreach $a in [5,6]}{$a}{call .t1}{param a: index($a)/}{/call}{/foreach}{$a}{/template}
     {template .t1}{$a}{/template}            data: a = 1 *)
Definition ex_a := b "a".
Definition ex_ref := NDataRef 0 ex_a [].
Definition ex_t1 : template :=
  {| t_name := b "ns.t1"; t_node := NTemplate 0 (b "ns.t1") (NList 0 [NPrint 0 ex_ref []]) 0 false;
     t_ns_name := b "ns"; t_ns_autoescape := 0; t_params := [(ex_a, false)]; t_file := b "f.soy" |}.
Definition ex_t0 : template :=
  {| t_name := b "ns.t0";
     t_node := NTemplate 0 (b "ns.t0")
       (NList 0 [
          NIf 0 [NIfCond 0 (Some (NBool 0 true))
                   (NList 0 [NLetValue 0 ex_a (NInt 0 9); NPrint 0 ex_ref []; NCall 0 (b "ns.t1") true None []])];
          NPrint 0 ex_ref [];
          NFor 0 ex_a (NListLit 0 [NInt 0 5; NInt 0 6])
            (NList 0 [NPrint 0 ex_ref [];
                      NCall 0 (b "ns.t1") false None [NParamValue 0 ex_a (NFunc 0 (b "index") [ex_ref])]]) None;
          NPrint 0 ex_ref []]) 0 false;
     t_ns_name := b "ns"; t_ns_autoescape := 0; t_params := [(ex_a, false)]; t_file := b "f.soy" |}.
Definition ex_cf : cfg :=
  {| c_reg := {| r_templates := [ex_t0; ex_t1]; r_sources := []; r_files := [] |};
     c_ij := None; c_oblig := []; c_msgs := None |}.
Definition ex_data : env := [(ex_a, VInt 1)].

Example C02_example_wf : wf_registry (c_reg ex_cf) = true.
Proof. vm_compute. reflexivity. Qed.
Example C02_example_spec :
  render_spec ex_cf 50 (b "ns.t0") ex_data 1000 = {| sr_out := b "91150611"; sr_outcome := Ok tt |}.
Proof. vm_compute. reflexivity. Qed.
Example C02_example_model :
  let r := render ex_cf 50 (b "ns.t0") 2 ex_data None None 1000 in
  concat_b (rr_writes r) = b "91150611" /\ rr_outcome r = Ok tt.
Proof. vm_compute. split; reflexivity. Qed.
(* the composed Spec on the same bundle; [1,2]-style operands go through Spec/Expr.v, index($a) falls back *)
Example C02_example_indep :
  render_spec_indep ex_cf 50 (b "ns.t0") ex_data 1000 = {| sr_out := b "91150611"; sr_outcome := Ok tt |}.
Proof. vm_compute. reflexivity. Qed.
Example C02_example_of_node :
  of_node (NListLit 0 [NInt 0 5; NInt 0 6]) = Some (EList [EInt 5; EInt 6]) /\
  of_node (NBin OAdd 3 (NDataRef 4 ex_a [NAccKey 5 true (b "k")]) (NFunc 7 (b "length") [NDataRef 8 ex_a []])) =
    Some (EBin BAdd (ERef ex_a [AKey true (b "k")]) (ECall FLength [ERef ex_a []])) /\
  of_node (NFunc 0 (b "index") [ex_ref]) = None /\
  indep_coverage (c_reg ex_cf) = (8, 9).
Proof. vm_compute. repeat split; reflexivity. Qed.
(* the composed Spec has no fuel for expressions: a value where the fuelled one gives up *)
Example C02_example_indep_nofuel :
  l_eval (indep_level ex_cf 1) [] (NNot 0 (NNot 0 (NNot 0 (NBool 0 true)))) 5 = Ok (VBool false, 5) /\
  l_eval (spec_level ex_cf 1) [] (NNot 0 (NNot 0 (NNot 0 (NBool 0 true)))) 5 = OutOfFuel.
Proof. vm_compute. split; reflexivity. Qed.
(* and an erroring one: too little fuel is reported by both sides alike *)
Example C02_example_fuel :
  sr_outcome (render_spec ex_cf 3 (b "ns.t0") ex_data 1000) = OutOfFuel /\
  rr_outcome (render ex_cf 3 (b "ns.t0") 2 ex_data None None 1000) = OutOfFuel.
Proof. vm_compute. split; reflexivity. Qed.

(* call names: file 1 = namespace a.b, {alias x.y.c}, template .t0 ; file 2 = namespace x.y.c, template .t1 *)
Definition ex_st : cst := add_alias (set_ns (cst_init []) (b "a.b")) (b "c") (b "x.y.c").
Example C02_example_resolve :
  resolve_name ex_st (b ".t1") = b "a.b.t1" /\ resolve_name ex_st (b "c.t1") = b "x.y.c.t1" /\
  resolve_name ex_st (b "x.y.c.t1") = b "x.y.c.t1" /\ resolve_name ex_st (b "q.t1") = b "q.t1" /\
  alias_key (b "x") [b ".y"; b ".c"] = b "c" /\ alias_target (b "x") [b ".y"; b ".c"] = b "x.y.c".
Proof. vm_compute. repeat split; reflexivity. Qed.
Definition ex_f1 : sfile :=
  {| sfile_name := b "f1.soy"; sfile_text := [];
     sfile_body := [NNamespace 0 (b "a.b") 0; NSoyDoc 0 [];
                    NTemplate 0 (b "a.b.t0") (NList 0 [NCall 0 (b "x.y.c.t1") false None []]) 0 false] |}.
Definition ex_f2 : sfile :=
  {| sfile_name := b "f2.soy"; sfile_text := [];
     sfile_body := [NNamespace 0 (b "x.y.c") 2; NSoyDoc 0 [];
                    NTemplate 0 (b "x.y.c.t1") (NList 0 [NHeaderParam 0 false ex_a (b "?") None; NPrint 0 ex_ref []]) 0 false] |}.
Example C02_example_registry :
  exists r, add_all_files empty_creg [SrcOk ex_f1; SrcOk ex_f2] = COk r /\
    option_map (fun t => (t_ns_autoescape t, t_params t, t_node t)) (find_template (r_templates (cr_reg r)) (b "x.y.c.t1")) =
    Some (2, [(ex_a, false)], NTemplate 0 (b "x.y.c.t1") (NList 0 [NPrint 0 ex_ref []]) 0 false).
Proof. eexists. split; vm_compute; reflexivity. Qed.

(* text level: {lb}, then {literal} a<LF>  // b {/literal}: the brace, and the body untouched *)
Example C02_example_text_tags :
  exists s1 s2,
    begin_tag 100 (fun _ => []) (fun _ => None) (fun _ _ _ => PFuel) (fun _ => 0%nat) (fun _ _ => CFuel) (fun _ _ => CFuel) 5
      (cst_init [tk 84 1 (b "lb"); tk 4 3 (b "}")]) = Parser.COk (Some (NRawText 1 (b "{"))) s1 /\
    begin_tag 100 (fun _ => []) (fun _ => None) (fun _ _ _ => PFuel) (fun _ => 0%nat) (fun _ _ => CFuel) (fun _ _ => CFuel) 5
      (cst_init [tk 68 1 (b "literal"); tk 4 8 (b "}"); tk 6 9 (b "a" ++ [10] ++ b "  // b "); tk 3 20 (b "{");
                 tk 94 21 (b "/literal"); tk 4 29 (b "}")]) =
      Parser.COk (Some (NRawText 9 (b "a" ++ [10] ++ b "  // b "))) s2.
Proof. eexists. eexists. split; vm_compute; reflexivity. Qed.

(* switch: {switch 2}{case 1, 2}A{case 2}B{default}C{/switch} prints A; with 5: C *)
Definition ex_sw (v : Z) : node :=
  NSwitch 0 (NInt 0 v) [NSwitchCase 0 [NInt 0 1; NInt 0 2] (NRawText 0 (b "A")); NSwitchCase 0 [NInt 0 2] (NRawText 0 (b "B"));
                        NSwitchCase 0 [] (NRawText 0 (b "C"))].
Example C02_example_switch :
  fst (exec_spec ex_cf 9 [] [] 1 (ex_sw 2) 7) = b "A" /\ fst (exec_spec ex_cf 9 [] [] 1 (ex_sw 5) 7) = b "C" /\
  pure_vals (spec_level ex_cf 5) [] [NInt 0 1; NInt 0 2] [VInt 1; VInt 2].
Proof. split; [vm_compute; reflexivity|]. split; [vm_compute; reflexivity|]. repeat constructor. Qed.
