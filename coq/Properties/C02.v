(* placeholder: replaced by the theorems *)
From Soy Require Import Spec.Cmd.
