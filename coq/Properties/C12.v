(* C12 -- a failing output writer always surfaces as a render error.

   "If the writer passed to a render returns an error on any write, the render
   returns a non-nil error, and the bytes the writer accepted before failing are
   a prefix of the output of an unfailing render.  A render returns nil only if
   every byte of the output was accepted."

   The theorems are about [render] of Model/Interp.v (the soyhtml tree walker
   AFTER the repair of defect I4, /repo 2f90372 = notes/applied/C12-escaper-write-errors.diff:
   htmlEscapeString returns the first write error and evalPrint checks it), for
   EVERY configuration, bundle, template, data, fuel and writer automaton
   [(cl, bl)]: [cl = Some k] fails the (k+1)-th Write call, [bl = Some b] accepts
   b bytes and answers the call that exceeds them with a short write and an
   error.  They follow from a two-run simulation (Proofs/WriterProofs.v,
   [walk_wsim]) between the faulty and the fault-free run, proved once for the
   whole walker through the generic induction principle of Proofs/InterpLogic.v.

   [surfaced o] is [o = Err e_write \/ o = Crash e_index]; the second case is
   the panic of Registry.LineNumber while the write error is being reported
   (position outside the recorded source: duplicate template names, I9, or the
   message-part positions of notes/applied/C12-msg-part-positions.diff; the subject of C06) -- the
   caller does not get a nil error in that case either. *)
From Soy Require Import Model.Bytes Model.Num Model.Values Model.Outcome Model.Ast
  Model.Interp Spec.Writer Spec.Safety Proofs.InterpLogic Proofs.WriterProofs Proofs.WriterSafety.
From Soy Require Import Model.JsWrite Proofs.JsWriteProofs.
From Soy Require Import Model.InterpExt Proofs.InterpExtProofs Proofs.WriterExtProofs.
Open Scope N_scope.

(* if the writer refuses any Write call of the fault-free render (the k-th call with k below
   their number, or a byte budget below the size of the output) the render returns the error *)
Theorem write_fault_surfaces :
  forall cf fuel name id data fid cl bl,
    refuses cl bl (rr_writes (render cf fuel name id data None None fid)) ->
    surfaced (rr_outcome (render cf fuel name id data cl bl fid)).
Proof. exact write_fault_surfaces_l. Qed.
Print Assumptions write_fault_surfaces.

Theorem write_fault_never_ok :
  forall cf fuel name id data fid cl bl,
    refuses cl bl (rr_writes (render cf fuel name id data None None fid)) ->
    is_ok (rr_outcome (render cf fuel name id data cl bl fid)) = false.
Proof.
  intros cf fuel name id data fid cl bl H.
  destruct (write_fault_surfaces_l cf fuel name id data fid cl bl H) as [-> | ->]; reflexivity.
Qed.
Print Assumptions write_fault_never_ok.

(* with C06's premise -- every node position of the registry lies inside the source recorded for its
   template, which is what compilation guarantees (Proofs/SafetyCompile.v) and what excludes the panic
   of Registry.LineNumber inside errRecover -- the refused write surfaces as exactly the write error *)
Theorem write_fault_is_error :
  forall cf fuel name id data fid cl bl,
    reg_pos_ok (c_reg cf) = true ->
    refuses cl bl (rr_writes (render cf fuel name id data None None fid)) ->
    rr_outcome (render cf fuel name id data cl bl fid) = Err e_write.
Proof. exact write_fault_is_error_l. Qed.
Print Assumptions write_fault_is_error.

(* whatever the writer does, what it accepted is a prefix of the fault-free output *)
Theorem accepted_is_prefix :
  forall cf fuel name id data fid cl bl,
    prefix_of (accepted (render cf fuel name id data cl bl fid))
              (accepted (render cf fuel name id data None None fid)).
Proof. exact accepted_is_prefix_l. Qed.
Print Assumptions accepted_is_prefix.

(* exactly which: a writer failing its (k+1)-th call accepted the first k Write calls of the
   fault-free render, a writer of capacity b its first b bytes *)
Theorem accepted_exact_calls :
  forall cf fuel name id data fid k,
    refuses (Some k) None (rr_writes (render cf fuel name id data None None fid)) ->
    rr_writes (render cf fuel name id data (Some k) None fid) =
    firstn k (rr_writes (render cf fuel name id data None None fid)).
Proof. exact accepted_exact_calls_l. Qed.
Print Assumptions accepted_exact_calls.

Theorem accepted_exact_bytes :
  forall cf fuel name id data fid b,
    refuses None (Some b) (rr_writes (render cf fuel name id data None None fid)) ->
    accepted (render cf fuel name id data None (Some b) fid) =
    take (N.to_nat b) (accepted (render cf fuel name id data None None fid)).
Proof. exact accepted_exact_bytes_l. Qed.
Print Assumptions accepted_exact_bytes.

(* a nil error means every Write call of the fault-free render was made and accepted *)
Theorem nil_means_all_written :
  forall cf fuel name id data fid cl bl,
    rr_outcome (render cf fuel name id data cl bl fid) = Ok tt ->
    rr_writes (render cf fuel name id data cl bl fid) = rr_writes (render cf fuel name id data None None fid) /\
    accepted (render cf fuel name id data cl bl fid) = accepted (render cf fuel name id data None None fid) /\
    rr_outcome (render cf fuel name id data None None fid) = Ok tt.
Proof. exact nil_means_all_written_l. Qed.
Print Assumptions nil_means_all_written.

(* and a writer whose budgets suffice changes nothing at all (so [refuses] is exactly the fault) *)
Theorem sufficient_budget_no_change :
  forall cf fuel name id data fid cl bl,
    ~ refuses cl bl (rr_writes (render cf fuel name id data None None fid)) ->
    render cf fuel name id data cl bl fid = render cf fuel name id data None None fid.
Proof. exact sufficient_budget_no_change_l. Qed.
Print Assumptions sufficient_budget_no_change.

(* the simulation itself, for every node, fuel and state of the walker *)
Theorem walker_two_run_simulation :
  forall cf fuel n st, sim st (walk cf fuel n st) (walk cf fuel n (unfault st)).
Proof. exact walk_wsim. Qed.
Print Assumptions walker_two_run_simulation.

(* the pinned escaper (write errors dropped, defect I4) is what the statement rules out *)
Theorem pinned_escaper_refuted :
  exists ws st, calls_left st = Some O /\ bufs st = [] /\ ws <> [] /\
                fst (write_all_unchecked ws st) = Ok tt /\ fst (write_all ws st) = Err e_write.
Proof. exact pinned_escaper_drops_errors. Qed.

(* ---- non-vacuity: <p>{$x}</p> with x = "a<b" makes five Write calls, 13 bytes ---- *)
Definition ex_name := Eval vm_compute in b "ns.t".
Definition ex_node : node :=
  NTemplate 0 ex_name
    (NList 0 [NRawText 1 (b "<p>"); NPrint 4 (NDataRef 5 (b "x") []) []; NRawText 8 (b "</p>")]) 0 false.
Definition ex_cfg : cfg :=
  {| c_reg := {| r_templates := [{| t_name := ex_name; t_node := ex_node; t_ns_name := b "ns"; t_ns_autoescape := 0;
                                    t_params := [(b "x", false)]; t_file := b "f.soy" |}];
                 r_sources := [(ex_name, b "{namespace ns}{template .t}<p>{$x}</p>{/template}")];
                 r_files := [(ex_name, b "f.soy")] |};
     c_ij := None; c_oblig := []; c_msgs := None |}.
Definition ex_run cl bl := render ex_cfg 10 ex_name 7 [(b "x", VStr (b "a<b"))] cl bl 100.

Example ex_fault_free :
  rr_outcome (ex_run None None) = Ok tt /\
  rr_writes (ex_run None None) = [b "<p>"; b "a"; b "&lt;"; b "b"; b "</p>"].
Proof. vm_compute. split; reflexivity. Qed.

Example ex_reg_pos_ok : reg_pos_ok (c_reg ex_cfg) = true.
Proof. vm_compute. reflexivity. Qed.
Example ex_is_error : rr_outcome (ex_run (Some 2%nat) None) = Err e_write.
Proof. apply write_fault_is_error; [exact ex_reg_pos_ok | left; exists 2%nat; split; [reflexivity | vm_compute; lia]]. Qed.

Example ex_refuses_call : refuses (Some 2%nat) None (rr_writes (ex_run None None)).
Proof. left. exists 2%nat. split; [reflexivity | vm_compute; lia]. Qed.
Example ex_call_fault :
  rr_outcome (ex_run (Some 2%nat) None) = Err e_write /\ accepted (ex_run (Some 2%nat) None) = b "<p>a".
Proof. vm_compute. split; reflexivity. Qed.

Example ex_refuses_bytes : refuses None (Some 5) (rr_writes (ex_run None None)).
Proof. right. exists 5. split; [reflexivity | vm_compute; reflexivity]. Qed.
Example ex_short_write :
  rr_outcome (ex_run None (Some 5)) = Err e_write /\ accepted (ex_run None (Some 5)) = b "<p>a&".
Proof. vm_compute. split; reflexivity. Qed.

(* the last print on a dead writer: the witness of I4 is an error in the model of the repaired code *)
Example ex_last_print_dead_writer :
  rr_outcome (render ex_cfg 10 ex_name 7 [(b "x", VStr (b "a"))] (Some 1%nat) None 100) = Err e_write.
Proof. vm_compute. reflexivity. Qed.

(* ================================================================== *)
(* rendering through a message bundle, installed functions and directives *)
(* ================================================================== *)
(* [render_x] (Model/InterpExt.v): the walker extended, by open recursion over [walk_body], with evalMsg's path
   through a translation (evalMsgParts: translated text written with a checked write, placeholders walked, the
   parts of the selected plural form) and with arbitrary installed functions / print directives.  The theorems
   above hold of it verbatim, for every bundle [c_msgs cf] and every installation [ux]. *)
Section Extended.
Variable ux : user_ext.

Theorem write_fault_surfaces_x :
  forall cf fuel name id data fid cl bl,
    refuses cl bl (rr_writes (render_x cf ux fuel name id data None None fid)) ->
    surfaced (rr_outcome (render_x cf ux fuel name id data cl bl fid)).
Proof. intros cf fuel name id data fid. apply write_fault_surfaces_l_x. Qed.

Theorem accepted_is_prefix_x :
  forall cf fuel name id data fid cl bl,
    prefix_of (accepted (render_x cf ux fuel name id data cl bl fid))
              (accepted (render_x cf ux fuel name id data None None fid)).
Proof. intros cf fuel name id data fid. apply accepted_is_prefix_l_x. Qed.

Theorem nil_means_all_written_x :
  forall cf fuel name id data fid cl bl,
    rr_outcome (render_x cf ux fuel name id data cl bl fid) = Ok tt ->
    rr_writes (render_x cf ux fuel name id data cl bl fid) = rr_writes (render_x cf ux fuel name id data None None fid) /\
    accepted (render_x cf ux fuel name id data cl bl fid) = accepted (render_x cf ux fuel name id data None None fid) /\
    rr_outcome (render_x cf ux fuel name id data None None fid) = Ok tt.
Proof. intros cf fuel name id data fid. apply nil_means_all_written_l_x. Qed.

Theorem accepted_exact_calls_x :
  forall cf fuel name id data fid k,
    refuses (Some k) None (rr_writes (render_x cf ux fuel name id data None None fid)) ->
    rr_writes (render_x cf ux fuel name id data (Some k) None fid) =
    firstn k (rr_writes (render_x cf ux fuel name id data None None fid)).
Proof. intros cf fuel name id data fid. apply accepted_exact_calls_l_x. Qed.

Theorem sufficient_budget_no_change_x :
  forall cf fuel name id data fid cl bl,
    ~ refuses cl bl (rr_writes (render_x cf ux fuel name id data None None fid)) ->
    render_x cf ux fuel name id data cl bl fid = render_x cf ux fuel name id data None None fid.
Proof. intros cf fuel name id data fid. apply sufficient_budget_no_change_l_x. Qed.

Theorem walker_two_run_simulation_x :
  forall cf fuel n st, sim st (walk_x cf ux fuel n st) (walk_x cf ux fuel n (unfault st)).
Proof. intros cf fuel n. exact (walk_x_wsim cf ux fuel n). Qed.
End Extended.
Print Assumptions write_fault_surfaces_x.
Print Assumptions accepted_is_prefix_x.
Print Assumptions nil_means_all_written_x.
Print Assumptions accepted_exact_calls_x.
Print Assumptions sufficient_budget_no_change_x.
Print Assumptions walker_two_run_simulation_x.

(* non-vacuity: {msg}{plural $x}{case 1}one{default}{$x} items{/plural}{/msg} through a bundle with the forms "eins" /
   "{N_2} Stueck": the translated text after the last placeholder of the selected form, refused, is an error (the
   situation of seeded change C12b-3) *)
Example ex_translated_plural :
  (rr_outcome (tr_run (Some tr_bundle) 3 None), rr_writes (tr_run (Some tr_bundle) 3 None)) = (Ok tt, [b "3"; b " Stueck"]) /\
  (rr_outcome (tr_run (Some tr_bundle) 3 (Some 1%nat)), rr_writes (tr_run (Some tr_bundle) 3 (Some 1%nat))) = (Err e_write, [b "3"]).
Proof. vm_compute. split; reflexivity. Qed.

(* ================================================================== *)
(* the JavaScript-side counterpart: soyjs.Write on a failing writer     *)
(* ================================================================== *)
(* soyjs.Write generates into memory and hands the caller's writer its pieces (the import block, the script) in
   order.  [js_write] (Model/JsWrite.v) is that, AFTER the repair notes/pending/C12-js-write-errors.diff (each
   Write call checked); the theorems hold for every list of pieces and every writer automaton.  Not a render in the
   sense of the property's text: the harness records the pinned behaviour under the finding
   js-write-drops-writer-errors. *)
Theorem js_write_fault_surfaces :
  forall pieces cl bl, refuses cl bl pieces -> fst (js_write pieces cl bl) = Err e_write.
Proof. exact js_write_fault_surfaces_l. Qed.
Print Assumptions js_write_fault_surfaces.

Theorem js_accepted_is_prefix :
  forall pieces cl bl, prefix_of (concat_b (snd (js_write pieces cl bl))) (concat_b pieces).
Proof. exact js_accepted_is_prefix_l. Qed.
Print Assumptions js_accepted_is_prefix.

Theorem js_nil_means_all_written :
  forall pieces cl bl, fst (js_write pieces cl bl) = Ok tt -> snd (js_write pieces cl bl) = pieces.
Proof. exact js_nil_means_all_written_l. Qed.
Print Assumptions js_nil_means_all_written.

(* the pinned soyjs.Write (results of out.Write dropped) returns nil on a dead writer *)
Theorem js_write_pinned_drops_errors :
  exists pieces cl bl, refuses cl bl pieces /\ fst (js_write_pinned pieces cl bl) = Ok tt /\ snd (js_write_pinned pieces cl bl) = [].
Proof. exact js_write_pinned_refuted. Qed.

Example ex_js_second_piece_refused :
  js_write [b "import x;"; b "var t = 1;"] (Some 1%nat) None = (Err e_write, [b "import x;"]).
Proof. vm_compute. reflexivity. Qed.
