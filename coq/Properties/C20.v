(* C20 — Go values convert faithfully to Soy data and the value laws hold.  Property theorems only.
   Model: Model/Convert.v (data/convert.go), Model/Values.v (data/value.go).  Spec: Spec/ConvertSpec.v.
   [hi] is unicode.ToLower above ASCII (any function); [lc] is StructOptions.LowerCamel. *)
From Coq Require Import Permutation.
(* source tie by translation: the lemmas of these files are obligations of this property *)
From Soy Require Import Proofs.SourceTieData.
From Soy Require Import Model.Bytes Model.Num Model.Outcome Model.Utf8 Model.Values Model.Convert
  Spec.ConvertSpec Generated.Tables Proofs.ValueProofs Proofs.ConvertProofs Proofs.ValueTieProofs.
Open Scope N_scope.

(* ---- conversion ---- *)

(* The result has the structure and the scalar values of the Go value: struct fields appear under their
   lowerCamel names, unexported fields do not appear, pointers and interfaces are transparent at any depth,
   an unsigned integer that no Int can hold becomes the nearest Float (Spec/ConvertSpec.v), for values of
   unbounded nesting.  No guard: the statement that was C20_convert_shape_partial (guard: no unsigned integer
   >= 2^63) and C20_convert_shape_refuted (the wrap to a negative Int) is proved in full for the converter
   AFTER the repair proposed in notes/pending/C20-uint64-float.diff; until that diff is applied the
   harness reports the wrap on /repo as known finding uint64-wraps.
   [Err] is a panic (rejected kinds, non-string map keys);
   [OutOfModel] is exactly C20_convert_outofmodel below. *)
Theorem C20_convert_shape : forall hi lc g v,
  convert_with hi lc g = Ok v -> converts lc hi g v.
Proof. exact convert_shape. Qed.
Print Assumptions C20_convert_shape.

(* unsigned integers: below 2^63 the Int with the same value; from 2^63 on the Float nearest to it
   (relative error at most 2^-53: float64(u) rounds to nearest, ties to even), never a negative Int *)
Theorem C20_convert_uint_small : forall hi lc w z, (z < two63)%Z -> convert_with hi lc (GUint w z) = Ok (VInt z).
Proof. exact convert_uint_small. Qed.
Print Assumptions C20_convert_uint_small.

Theorem C20_convert_uint_big : forall hi lc w z, (two63 <= z)%Z ->
  exists m e, convert_with hi lc (GUint w z) = Ok (VFloat (FFin m e)) /\
              (0 <= e)%Z /\ (Z.abs (m * 2 ^ e - z) * two53 <= z)%Z.
Proof. exact convert_uint_big. Qed.
Print Assumptions C20_convert_uint_big.

Example C20_convert_uint_nonvacuous :
  convert_with (fun r => r) true (GUint 64 (two64 - 1)) = Ok (VFloat (FFin 1 64)) /\
  convert_with (fun r => r) true (GUint 64 two63) = Ok (VFloat (FFin 1 63)) /\
  convert_with (fun r => r) true (GUint 64 (two63 + 1024)) = Ok (VFloat (FFin 1 63)) /\          (* tie: to even *)
  convert_with (fun r => r) true (GUint 64 (two63 + 3072)) = Ok (VFloat (FFin 2251799813685249 12)) /\  (* tie: to even, upwards *)
  convert_with (fun r => r) true (GUint 64 (two63 - 1)) = Ok (VInt (two63 - 1)).
Proof. vm_compute. repeat split; reflexivity. Qed.

(* ---- pointer chains of any depth ([ptrs k g] = k pointers to g) ----
   Two or more pointers: NewWith's drilling loop, which does not look at method sets any more ... *)
Theorem C20_pointer_chain : forall lc hi k g n,
  conv lc hi CSlot (ptrs (S (S k)) g) n = conv lc hi CDeep g n.
Proof. exact conv_ptr_chain. Qed.
Print Assumptions C20_pointer_chain.

(* ... so a value-receiver Marshaler gives MarshalValue() when passed itself or through one pointer, and
   converts as the plain value it is (its struct fields ...) behind any longer chain *)
Theorem C20_marshaler_by_depth : forall lc hi k v u n,
  conv lc hi CSlot (GMarshal v u) n = Ok (v, n) /\
  conv lc hi CSlot (GPtr (Some (GMarshal v u))) n = Ok (v, n) /\
  conv lc hi CSlot (ptrs (S (S k)) (GMarshal v u)) n = conv lc hi CDeep u n.
Proof.
  intros lc hi k v u n. destruct (conv_marshal_direct lc hi v u n) as [H0 H1].
  split; [exact H0|]. split; [exact H1 | apply conv_marshal_deep].
Qed.
Print Assumptions C20_marshaler_by_depth.

(* ... an existing data.Value is returned as it is when passed itself, and behind two or more pointers
   becomes its plain image (same scalars; a new list / map with the same elements; Null and Undefined,
   being empty structs, an empty map) *)
Theorem C20_value_by_depth : forall lc hi k v n,
  conv lc hi CSlot (GValue v) n = Ok (v, n) /\
  exists r n', conv lc hi CSlot (ptrs (S (S k)) (GValue v)) n = Ok (r, n') /\ plain_of v r.
Proof. intros lc hi k v n. split; [reflexivity | apply conv_value_deep]. Qed.
Print Assumptions C20_value_by_depth.

(* ... and a nil pointer at the end of any chain is null, whatever it points to (a nil pointer to a value-receiver
   Marshaler included: the model describes the converter after notes/pending/C20-nil-marshaler.diff; the pinned tree
   calls MarshalValue through it and panics, reported as known finding nil-marshaler-panics), with the one exception of
   the nil pointer to a data.Value type passed directly *)
Theorem C20_nil_pointer_chain : forall lc hi k m n,
  conv lc hi CSlot (ptrs k (GPtr None)) n = Ok (VNull, n) /\
  conv lc hi CSlot (ptrs k (GNilPtrTo true)) n = Ok (VNull, n) /\
  conv lc hi CSlot (ptrs (S k) (GNilPtrTo m)) n = Ok (VNull, n) /\
  conv lc hi CSlot (GNilPtrTo false) n = OutOfModel.
Proof. exact conv_nil_chain. Qed.
Print Assumptions C20_nil_pointer_chain.

(* What remains outside the model, exactly: OutOfModel arises only where NewWith meets a POINTER to one of
   the eight data.Value types (nil or not) at a place where it inspects the dynamic type -- the pointer
   satisfies data.Value through Go's method sets and is returned as it is, a data.Value that is none of
   the eight value types (the model's value type has no such inhabitant). *)
Theorem C20_convert_outofmodel : forall hi lc g,
  convert_with hi lc g = OutOfModel -> ptr_to_value CSlot g = true.
Proof. exact convert_outofmodel. Qed.
Print Assumptions C20_convert_outofmodel.

Example C20_pointer_chain_nonvacuous :
  let mar := GMarshal (VStr (b "custom")) (GStruct [(b "V", (true, (false, GIface (Some (GValue (VStr (b "custom")))))));
                                                      (b "Ignore", (true, (false, GInt 64 7)))]) in
  convert_with (fun r => r) true (GPtr (Some mar)) = Ok (VStr (b "custom")) /\
  convert_with (fun r => r) true (GPtr (Some (GPtr (Some mar)))) = Ok (VMap 2 [(b "ignore", VInt 7); (b "v", VStr (b "custom"))]) /\
  convert_with (fun r => r) true (GPtr (Some (GPtr (Some (GPtr (Some (GValue VNull))))))) = Ok (VMap 2 []) /\
  convert_with (fun r => r) true (GPtr (Some (GValue (VInt 3)))) = OutOfModel /\
  ptr_to_value CSlot (GSlice (Some [GInt 8 1; GPtr (Some (GValue (VInt 3)))])) = true.
Proof. vm_compute. repeat split; reflexivity. Qed.

Example C20_convert_nonvacuous :
  convert_with (fun r => r) true
    (GStruct [(b "Name", (true, (false, GStr (b "x"))));
              (b "hidden", (false, (false, GUnsupported)));
              (b "IDs", (true, (false, GSlice (Some [GUint 8 7; GPtr (Some (GInt 64 (-1))); GIface None]))))])
  = Ok (VMap 2 [(b "iDs", VList 3 [VInt 7; VInt (-1); VNull]); (b "name", VStr (b "x"))]).
Proof. vm_compute. reflexivity. Qed.

(* converting again changes nothing: same value, same identities *)
Theorem C20_convert_idempotent : forall hi lc g v,
  convert_with hi lc g = Ok v -> forall lc', convert_with hi lc' (GValue v) = Ok v.
Proof. exact convert_idempotent. Qed.
Print Assumptions C20_convert_idempotent.

(* lowerCamel: exactly the first code point is lowered *)
Theorem C20_lower_camel_ascii : forall hi c rest, c < 128 ->
  lower_camel_key hi (c :: rest) = (if (65 <=? c) && (c <=? 90) then c + 32 else c) :: rest.
Proof. exact lower_camel_ascii. Qed.
Print Assumptions C20_lower_camel_ascii.

Theorem C20_lower_camel_rune : forall hi r rest, valid_rune r ->
  lower_camel_key hi (encode_rune r ++ rest) = encode_rune (to_lower hi r) ++ rest.
Proof. exact lower_camel_rune. Qed.
Print Assumptions C20_lower_camel_rune.

Example C20_lower_camel_nonvacuous :
  lower_camel_key (fun r => if r =? 201 then 233 else r) (b "URLs") = b "uRLs" /\
  lower_camel_key (fun r => if r =? 201 then 233 else r) [195; 137; 116; 195; 137] = [195; 169; 116; 195; 137].
Proof. split; vm_compute; reflexivity. Qed.

(* ---- laws of the values ---- *)

Theorem C20_equals_sym : forall a c, equals a c = equals c a.
Proof. exact equals_sym. Qed.
Print Assumptions C20_equals_sym.

(* Int against Float compares the numbers (the float m*2^e with the integer x), |x| <= 2^53 *)
Theorem C20_equals_numeric : forall x f, fl_canon f -> (Z.abs x <= two53)%Z ->
  (equals (VInt x) (VFloat f) = true <-> fl_is_int f x) /\ (equals (VFloat f) (VInt x) = true <-> fl_is_int f x).
Proof. intros x f Hc Hx; split; [exact (equals_int_float x f Hc Hx) | exact (equals_float_int x f Hc Hx)]. Qed.
Print Assumptions C20_equals_numeric.

Example C20_equals_numeric_nonvacuous :
  equals (VInt 3) (VFloat (FFin 3 0)) = true /\ equals (VInt 6) (VFloat (FFin 3 1)) = true /\
  equals (VInt 3) (VFloat (FFin 7 (-1))) = false /\ equals (VFloat (FZero true)) (VInt 0) = true.
Proof. repeat split; vm_compute; reflexivity. Qed.

(* reflexive on everything but NaN; never across kinds other than Int/Float *)
Theorem C20_equals_refl_scalars : forall v, equals v v = true <-> v <> VFloat FNaN.
Proof. exact equals_refl_iff. Qed.
Print Assumptions C20_equals_refl_scalars.

Theorem C20_equals_kinds : forall a c, equals a c = true -> vkind a = vkind c \/ (numeric a = true /\ numeric c = true).
Proof. exact equals_kinds. Qed.
Print Assumptions C20_equals_kinds.

(* exactly undefined, null, false, 0, +0.0, -0.0, NaN and "" are falsy *)
Theorem C20_truthy_table : forall v, truthy v = false <-> falsy_value v.
Proof. exact truthy_table. Qed.
Print Assumptions C20_truthy_table.

(* printing does not depend on the order in which Go enumerates the entries of a map,
   at the top (iff) and at any depth *)
Theorem C20_map_string_order_independent : forall i m m' s,
  Permutation m m' -> (value_string (VMap i m) = Ok s <-> value_string (VMap i m') = Ok s).
Proof. exact map_string_order_independent. Qed.
Print Assumptions C20_map_string_order_independent.

Theorem C20_value_string_order_independent : forall v v' s,
  vperm v v' -> value_string v = Ok s -> value_string v' = Ok s.
Proof. exact value_string_vperm. Qed.
Print Assumptions C20_value_string_order_independent.

Theorem C20_sort_strings_perm : forall l l', Permutation l l' -> sort_strings l = sort_strings l'.
Proof. exact sort_strings_perm. Qed.
Print Assumptions C20_sort_strings_perm.

Example C20_string_nonvacuous :
  value_string (VMap 2 [(b "b", VInt 1); (b "a", VList 3 [VFloat (FFin 3 (-1)); VNull])]) = Ok (b "{a: [1.5, null], b: 1}").
Proof. vm_compute. reflexivity. Qed.

(* ---- the hand model against the current Go source (regenerated on every run) ---- *)

Theorem C20_truthy_matches_source : forall v, truthy v = gen_truthy v.
Proof. exact gen_truthy_agrees. Qed.
Print Assumptions C20_truthy_matches_source.

Theorem C20_equals_matches_source : forall a c, equals a c = equals_by_mode (equals_mode (vkind a) (vkind c)) a c.
Proof. exact gen_equals_agrees. Qed.
Print Assumptions C20_equals_matches_source.
