(* C20 — Go values convert faithfully to Soy data and the value laws hold.  Property theorems only.
   Model: Model/Convert.v (data/convert.go), Model/Values.v (data/value.go).  Spec: Spec/ConvertSpec.v.
   [hi] is unicode.ToLower above ASCII (any function); [lc] is StructOptions.LowerCamel. *)
From Coq Require Import Permutation.
(* source tie by translation: the lemmas of these files are obligations of this property *)
From Soy Require Import Proofs.SourceTieData.
From Soy Require Import Model.Bytes Model.Num Model.Outcome Model.Utf8 Model.Values Model.Convert
  Spec.ConvertSpec Generated.Tables Proofs.ValueProofs Proofs.ConvertProofs Proofs.ValueTieProofs.
Open Scope N_scope.

(* ---- conversion ---- *)

(* FULL STATEMENT (false of the code, see C20_convert_shape_refuted and known finding uint64-wraps):
     forall hi lc g v, convert_with hi lc g = Ok v -> converts lc hi g v.
   Proved under the negation of the finding's trigger: no unsigned integer >= 2^63 occurs in g.
   The result has the structure and the scalar values of the Go value, struct fields appear under
   their lowerCamel names, unexported fields do not appear (Spec/ConvertSpec.v), for values of
   unbounded nesting.  [Err] (a panic: rejected kinds, non-string map keys) and [OutOfModel]
   (Marshaler / data.Value reached only by NewWith's pointer drilling) are not [Ok]. *)
Theorem C20_convert_shape_partial : forall hi lc g v,
  uints_fit g = true -> convert_with hi lc g = Ok v -> converts lc hi g v.
Proof. exact convert_shape. Qed.
Print Assumptions C20_convert_shape_partial.

Theorem C20_convert_shape_refuted : forall hi lc, exists g v, convert_with hi lc g = Ok v /\ ~ converts lc hi g v.
Proof. exact convert_shape_refuted. Qed.
Print Assumptions C20_convert_shape_refuted.

(* ... and this is all that goes wrong with them: the value wraps modulo 2^64 *)
Theorem C20_convert_uint_wraps : forall hi lc w z, (two63 <= z < two64)%Z ->
  convert_with hi lc (GUint w z) = Ok (VInt (z - two64)).
Proof. exact convert_uint_wraps. Qed.
Print Assumptions C20_convert_uint_wraps.

Example C20_convert_nonvacuous :
  convert_with (fun r => r) true
    (GStruct [(b "Name", (true, (false, GStr (b "x"))));
              (b "hidden", (false, (false, GUnsupported)));
              (b "IDs", (true, (false, GSlice (Some [GUint 8 7; GPtr (Some (GInt 64 (-1))); GIface None]))))])
  = Ok (VMap 2 [(b "iDs", VList 3 [VInt 7; VInt (-1); VNull]); (b "name", VStr (b "x"))]).
Proof. vm_compute. reflexivity. Qed.

(* converting again changes nothing: same value, same identities *)
Theorem C20_convert_idempotent : forall hi lc g v,
  convert_with hi lc g = Ok v -> forall lc', convert_with hi lc' (GValue v) = Ok v.
Proof. exact convert_idempotent. Qed.
Print Assumptions C20_convert_idempotent.

(* lowerCamel: exactly the first code point is lowered *)
Theorem C20_lower_camel_ascii : forall hi c rest, c < 128 ->
  lower_camel_key hi (c :: rest) = (if (65 <=? c) && (c <=? 90) then c + 32 else c) :: rest.
Proof. exact lower_camel_ascii. Qed.
Print Assumptions C20_lower_camel_ascii.

Theorem C20_lower_camel_rune : forall hi r rest, valid_rune r ->
  lower_camel_key hi (encode_rune r ++ rest) = encode_rune (to_lower hi r) ++ rest.
Proof. exact lower_camel_rune. Qed.
Print Assumptions C20_lower_camel_rune.

Example C20_lower_camel_nonvacuous :
  lower_camel_key (fun r => if r =? 201 then 233 else r) (b "URLs") = b "uRLs" /\
  lower_camel_key (fun r => if r =? 201 then 233 else r) [195; 137; 116; 195; 137] = [195; 169; 116; 195; 137].
Proof. split; vm_compute; reflexivity. Qed.

(* ---- laws of the values ---- *)

Theorem C20_equals_sym : forall a c, equals a c = equals c a.
Proof. exact equals_sym. Qed.
Print Assumptions C20_equals_sym.

(* Int against Float compares the numbers (the float m*2^e with the integer x), |x| <= 2^53 *)
Theorem C20_equals_numeric : forall x f, fl_canon f -> (Z.abs x <= two53)%Z ->
  (equals (VInt x) (VFloat f) = true <-> fl_is_int f x) /\ (equals (VFloat f) (VInt x) = true <-> fl_is_int f x).
Proof. intros x f Hc Hx; split; [exact (equals_int_float x f Hc Hx) | exact (equals_float_int x f Hc Hx)]. Qed.
Print Assumptions C20_equals_numeric.

Example C20_equals_numeric_nonvacuous :
  equals (VInt 3) (VFloat (FFin 3 0)) = true /\ equals (VInt 6) (VFloat (FFin 3 1)) = true /\
  equals (VInt 3) (VFloat (FFin 7 (-1))) = false /\ equals (VFloat (FZero true)) (VInt 0) = true.
Proof. repeat split; vm_compute; reflexivity. Qed.

(* reflexive on everything but NaN; never across kinds other than Int/Float *)
Theorem C20_equals_refl_scalars : forall v, equals v v = true <-> v <> VFloat FNaN.
Proof. exact equals_refl_iff. Qed.
Print Assumptions C20_equals_refl_scalars.

Theorem C20_equals_kinds : forall a c, equals a c = true -> vkind a = vkind c \/ (numeric a = true /\ numeric c = true).
Proof. exact equals_kinds. Qed.
Print Assumptions C20_equals_kinds.

(* exactly undefined, null, false, 0, +0.0, -0.0, NaN and "" are falsy *)
Theorem C20_truthy_table : forall v, truthy v = false <-> falsy_value v.
Proof. exact truthy_table. Qed.
Print Assumptions C20_truthy_table.

(* printing does not depend on the order in which Go enumerates the entries of a map,
   at the top (iff) and at any depth *)
Theorem C20_map_string_order_independent : forall i m m' s,
  Permutation m m' -> (value_string (VMap i m) = Ok s <-> value_string (VMap i m') = Ok s).
Proof. exact map_string_order_independent. Qed.
Print Assumptions C20_map_string_order_independent.

Theorem C20_value_string_order_independent : forall v v' s,
  vperm v v' -> value_string v = Ok s -> value_string v' = Ok s.
Proof. exact value_string_vperm. Qed.
Print Assumptions C20_value_string_order_independent.

Theorem C20_sort_strings_perm : forall l l', Permutation l l' -> sort_strings l = sort_strings l'.
Proof. exact sort_strings_perm. Qed.
Print Assumptions C20_sort_strings_perm.

Example C20_string_nonvacuous :
  value_string (VMap 2 [(b "b", VInt 1); (b "a", VList 3 [VFloat (FFin 3 (-1)); VNull])]) = Ok (b "{a: [1.5, null], b: 1}").
Proof. vm_compute. reflexivity. Qed.

(* ---- the hand model against the current Go source (regenerated on every run) ---- *)

Theorem C20_truthy_matches_source : forall v, truthy v = gen_truthy v.
Proof. exact gen_truthy_agrees. Qed.
Print Assumptions C20_truthy_matches_source.

Theorem C20_equals_matches_source : forall a c, equals a c = equals_by_mode (equals_mode (vkind a) (vkind c)) a c.
Proof. exact gen_equals_agrees. Qed.
Print Assumptions C20_equals_matches_source.
