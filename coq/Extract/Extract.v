(* Extraction of the executable model for the correspondence harness.
   Only ExtrOcamlBasic's directives are used (bool, option, unit, list, prod,
   sumbool, sumor -> OCaml natives); N, Z, positive, nat stay Coq datatypes. *)
Require Extraction.
Require Import ExtrOcamlBasic.
From Soy Require Import Model.Bytes Generated.Tables Model.Utf8 Model.Outcome Model.Escape Model.Directives Model.Print Spec.Html.
Extraction Language OCaml.
Extraction "model.ml"
  N.add N.mul N.div_eucl Z.add Z.mul Z.of_N Z.to_N N.of_nat N.to_nat
  untranslatable
  html_escape esc_writes tmpl_html_escape escape_decision entry_mode call_mode template_mode
  html_decode html_directives autoescape_attr_table
  decode_rune encode_rune runes utf8_valid
  insert_word_breaks change_newline_to_br truncate escape_uri apply_fn print_writes print_impl remove_tok.
