// Package hx is the shared plumbing of the correspondence harness: one PRNG,
// the pipe to the extracted Coq model, result bookkeeping and known findings.
package hx

import (
	"bufio"
	"crypto/sha256"
	"encoding/hex"
	"encoding/json"
	"fmt"
	"io"
	"os"
	"os/exec"
	"sort"
	"strconv"
	"strings"
	"time"
)

// ---------- PRNG (splitmix64; every random choice derives from one state) ----------

type Rand struct{ s uint64 }

func NewRand(seed int64) *Rand { return &Rand{uint64(seed)*0x9E3779B97F4A7C15 + 0x1234567} }
func (r *Rand) U64() uint64 {
	r.s += 0x9E3779B97F4A7C15
	z := r.s
	z = (z ^ (z >> 30)) * 0xBF58476D1CE4E5B9
	z = (z ^ (z >> 27)) * 0x94D049BB133111EB
	return z ^ (z >> 31)
}
func (r *Rand) Intn(n int) int {
	if n <= 0 {
		return 0
	}
	return int(r.U64() % uint64(n))
}
func (r *Rand) Bool() bool          { return r.U64()&1 == 1 }
func (r *Rand) Chance(p int) bool   { return r.Intn(100) < p }
func (r *Rand) Pick(l []string) string { return l[r.Intn(len(l))] }
func (r *Rand) Fork() *Rand         { return &Rand{r.U64()} }

// ---------- model pipe ----------

type Model struct {
	cmd *exec.Cmd
	in  *bufio.Writer
	out *bufio.Reader
	N   int
}

func StartModel(path string) (*Model, error) {
	cmd := exec.Command(path)
	stdin, err := cmd.StdinPipe()
	if err != nil {
		return nil, err
	}
	stdout, err := cmd.StdoutPipe()
	if err != nil {
		return nil, err
	}
	cmd.Stderr = os.Stderr
	if err := cmd.Start(); err != nil {
		return nil, err
	}
	return &Model{cmd: cmd, in: bufio.NewWriterSize(stdin, 1<<20), out: bufio.NewReaderSize(stdout, 1<<20)}, nil
}

func (m *Model) Close() { m.in.Flush(); m.cmd.Process.Kill(); m.cmd.Wait() }

// H encodes a byte string as a request field.
func H(s string) string {
	if s == "" {
		return "-"
	}
	return hex.EncodeToString([]byte(s))
}

// I encodes an integer field.
func I(i int64) string { return "#" + strconv.FormatInt(i, 10) }
func B(b bool) string {
	if b {
		return "#1"
	}
	return "#0"
}

// UnH decodes a response field holding bytes.
func UnH(f string) string {
	if f == "-" {
		return ""
	}
	bs, err := hex.DecodeString(f)
	if err != nil {
		return "<bad hex " + f + ">"
	}
	return string(bs)
}
func UnI(f string) int64 {
	v, _ := strconv.ParseInt(strings.TrimPrefix(f, "#"), 10, 64)
	return v
}

// Batch sends all requests and returns one response (split in fields) per request.
// A response starting with "!" is a model-side failure and is returned as a
// single field.
func (m *Model) Batch(reqs []string) [][]string {
	res := make([][]string, len(reqs))
	done := make(chan error, 1)
	go func() {
		for _, r := range reqs {
			if _, err := m.in.WriteString(r + "\n"); err != nil {
				done <- err
				return
			}
		}
		done <- m.in.Flush()
	}()
	for i := range reqs {
		line, err := m.out.ReadString('\n')
		if err != nil {
			res[i] = []string{"!model died: " + err.Error()}
			continue
		}
		line = strings.TrimRight(line, "\n")
		if strings.HasPrefix(line, "!") {
			res[i] = []string{line}
		} else {
			res[i] = strings.Fields(line)
		}
	}
	<-done
	m.N += len(reqs)
	return res
}

func (m *Model) Call(fields ...string) []string {
	return m.Batch([]string{strings.Join(fields, " ")})[0]
}

// ---------- results ----------

type Violation struct {
	Kind     string      `json:"kind"` // "oracle" | "mismatch" | "obligation"
	What     string      `json:"what"`
	Case     interface{} `json:"case"`
	Expected interface{} `json:"expected,omitempty"`
	Observed interface{} `json:"observed,omitempty"`
	Known    string      `json:"known,omitempty"` // key of the known finding that explains it
}

type Result struct {
	Property     string         `json:"property"`
	Tier         string         `json:"tier"`
	Seed         int64          `json:"seed"`
	Evaluations  int            `json:"evaluations"`
	Distinct     int            `json:"distinct_nontrivial"`
	Rule         string         `json:"rule"`
	Samples      []interface{}  `json:"samples"`
	Histogram    map[string]int `json:"histogram"`
	ModelCalls   int            `json:"model_calls"`
	Exhaustive   bool           `json:"exhaustive,omitempty"`
	Violations   []Violation    `json:"violations"`
	KnownHits    map[string]int `json:"known_hits"`
	Notes        []string       `json:"notes,omitempty"`
	WallS        float64        `json:"wall_s"`
	distinctSet  map[[16]byte]bool
	start        time.Time
	known        map[string]bool
	maxViolation int
}

func NewResult(prop, tier string, seed int64, knownPath string) *Result {
	r := &Result{Property: prop, Tier: tier, Seed: seed, Histogram: map[string]int{}, KnownHits: map[string]int{},
		distinctSet: map[[16]byte]bool{}, start: time.Now(), known: map[string]bool{}, maxViolation: 8}
	if bs, err := os.ReadFile(knownPath); err == nil {
		var kf []struct {
			Property string `json:"property"`
			Status   string `json:"status"`
			Key      string `json:"key"`
		}
		if json.Unmarshal(bs, &kf) == nil {
			for _, k := range kf {
				if k.Property == prop && k.Status == "finding" {
					r.known[k.Key] = true
				}
			}
		}
	}
	return r
}

// Count registers one evaluated case; key identifies it for distinctness and
// nontrivial says whether it exercises the property's construct at all.
func (r *Result) Count(key string, nontrivial bool, class string) {
	r.Evaluations++
	if class != "" {
		r.Histogram[class]++
	}
	if nontrivial {
		h := sha256.Sum256([]byte(key))
		var k [16]byte
		copy(k[:], h[:16])
		if !r.distinctSet[k] {
			r.distinctSet[k] = true
			r.Distinct++
		}
	}
}

func (r *Result) Sample(c interface{}) {
	if len(r.Samples) < 6 {
		r.Samples = append(r.Samples, c)
	}
}

// Fail records a failing case.  knownKey is the key of the known finding whose
// trigger predicate holds for this case (and whose recorded behaviour it
// shows), or "".  It suppresses the violation only if the committed
// known_findings.json lists that key as an open finding.
func (r *Result) Fail(v Violation, knownKey string) {
	if knownKey != "" && r.known[knownKey] {
		r.KnownHits[knownKey]++
		return
	}
	r.Histogram["violations:"+v.Kind]++
	if r.Histogram["violations:"+v.Kind] <= r.maxViolation {
		r.Violations = append(r.Violations, v)
	}
}

func (r *Result) Note(format string, a ...interface{}) { r.Notes = append(r.Notes, fmt.Sprintf(format, a...)) }

func (r *Result) Write(path string, m *Model) error {
	r.WallS = time.Since(r.start).Seconds()
	if m != nil {
		r.ModelCalls = m.N
	}
	if r.Violations == nil {
		r.Violations = []Violation{}
	}
	bs, err := json.MarshalIndent(r, "", " ")
	if err != nil {
		return err
	}
	return os.WriteFile(path, bs, 0o644)
}

func SortedKeys(m map[string]int) []string {
	var ks []string
	for k := range m {
		ks = append(ks, k)
	}
	sort.Strings(ks)
	return ks
}

// Q quotes a string for samples/replays so that any bytes are visible.
func Q(s string) string { return strconv.QuoteToASCII(s) }

var _ = io.EOF
