package main

// C09, package-level state (see pkgvars.go): the write summaries of the functions of the repository
// and the enumeration of the write sites.

import (
	"fmt"
	"go/ast"
	"go/token"
	"go/types"
	"os"
	"sort"
	"strings"
)

// ---------------------------------------------------------------------------------------------------
// abstract values

type pvRootKind uint8

const (
	pvParam  pvRootKind = iota // memory reached from parameter idx (receiver first) of the function under analysis
	pvGlobal                   // memory reached from package-level variable g
	pvShared                   // memory of the shared structures (syntax trees, registry, templates, messages)
)

type pvRoot struct {
	kind  pvRootKind
	idx   int
	field *types.Var // pvParam: first field on the path from the parameter's object (nil: that object itself, pvElem: an element / pointee)
	data  bool       // pvParam: the path goes through a value that cannot be part of the shared structures (template data)
	g     *types.Var
}

type pvSet map[pvRoot]bool

// what a value may refer to: memory of roots, and locally built (fresh) memory described by what was
// stored in each of its fields (key nil: an element, or an unknown field)
type pvVal struct {
	roots  pvSet
	fields map[*types.Var]pvSet
}

var pvElem = types.NewVar(token.NoPos, nil, "[]", types.Typ[types.Invalid]) // an element / the pointee
var pvAny = types.NewVar(token.NoPos, nil, "*", types.Typ[types.Invalid])   // anything reachable

func (s pvSet) addAll(o pvSet) bool {
	ch := false
	for r := range o {
		if !s[r] {
			s[r] = true
			ch = true
		}
	}
	return ch
}

func (v pvVal) all() pvSet {
	out := pvSet{}
	out.addAll(v.roots)
	for _, s := range v.fields {
		out.addAll(s)
	}
	return out
}

func (v pvVal) empty() bool {
	if len(v.roots) > 0 {
		return false
	}
	for _, s := range v.fields {
		if len(s) > 0 {
			return false
		}
	}
	return true
}

func (v *pvVal) merge(o pvVal) bool {
	ch := false
	if len(o.roots) > 0 {
		if v.roots == nil {
			v.roots = pvSet{}
		}
		ch = v.roots.addAll(o.roots) || ch
	}
	for f, s := range o.fields {
		if len(s) == 0 {
			continue
		}
		if v.fields == nil {
			v.fields = map[*types.Var]pvSet{}
		}
		if v.fields[f] == nil {
			v.fields[f] = pvSet{}
		}
		ch = v.fields[f].addAll(s) || ch
	}
	return ch
}

func (v pvVal) clone() pvVal {
	var c pvVal
	c.merge(v)
	return c
}

func (v *pvVal) store(f *types.Var, s pvSet) bool {
	if len(s) == 0 {
		return false
	}
	return v.merge(pvVal{fields: map[*types.Var]pvSet{f: s}})
}

// pvDataSet: the same memory, seen through a value that cannot be part of the shared structures
func pvDataSet(s pvSet) pvSet {
	out := pvSet{}
	for r := range s {
		switch r.kind {
		case pvShared:
			continue
		case pvParam:
			r.data = true
		}
		out[r] = true
	}
	return out
}

func pvDataVal(v pvVal) pvVal {
	out := pvVal{roots: pvDataSet(v.roots)}
	for f, s := range v.fields {
		out.store(f, pvDataSet(s))
	}
	return out
}

func pvSel(r pvRoot, f *types.Var) pvRoot {
	if r.kind == pvParam && r.field == nil {
		r.field = f
	}
	return r
}

// ---------------------------------------------------------------------------------------------------
// functions and their summaries

type pvDesc struct {
	idx   int
	field *types.Var
	data  bool
}

type pvWrite struct {
	witness string // the innermost write, for the evidence
	listed  bool   // every such write already is a site of shared_type_writes (deeper in the render / generation packages)
}

type pvFunc struct {
	p       *pvPkg
	src     *pvSrc
	name    string // "dir:(recv).name"
	obj     *types.Func
	body    []ast.Node
	params  []*types.Var // receiver first
	hasRecv bool
	results []*types.Var
	writes  map[pvDesc]*pvWrite // may write through parameter idx (at field)
	ret     pvSet               // what the results may refer to
}

type pvAnalysis struct {
	w            *pvWorld
	pt           *pvTypes
	funcs        []*pvFunc
	byObj        map[*types.Func]*pvFunc
	named        []*types.Named
	fieldOrigins map[*types.Var]pvSet // struct field -> shared / package-level roots stored into it anywhere
	cha          map[string][]*pvFunc
	changed      bool

	vars                   []pvVar
	sites, methods, shared []pvSite
}

func newPvAnalysis(w *pvWorld) *pvAnalysis {
	return &pvAnalysis{w: w, pt: w.newTypes(), byObj: map[*types.Func]*pvFunc{}, fieldOrigins: map[*types.Var]pvSet{}, cha: map[string][]*pvFunc{}}
}

func (a *pvAnalysis) relDir(pkg *types.Package) string {
	if pkg == nil {
		return ""
	}
	p := pkg.Path()
	if p == a.w.mod {
		return "."
	}
	if strings.HasPrefix(p, a.w.mod+"/") {
		return strings.TrimPrefix(p, a.w.mod+"/")
	}
	return p
}

func pvIsPkgVar(v *types.Var) bool {
	return v != nil && !v.IsField() && v.Pkg() != nil && v.Parent() == v.Pkg().Scope()
}

func (a *pvAnalysis) collect() {
	for _, p := range a.w.packages() {
		scope := p.pkg.Scope()
		for _, n := range scope.Names() {
			if tn, ok := scope.Lookup(n).(*types.TypeName); ok && !tn.IsAlias() {
				if nt := pvNamed(tn.Type()); nt != nil && !types.IsInterface(nt) {
					a.named = append(a.named, nt)
				}
			}
		}
		for _, src := range p.srcs {
			for _, d := range src.f.Decls {
				switch d := d.(type) {
				case *ast.GenDecl:
					if d.Tok != token.VAR {
						continue
					}
					for _, s := range d.Specs {
						vs := s.(*ast.ValueSpec)
						first := ""
						for i, n := range vs.Names {
							if n.Name == "_" {
								continue
							}
							obj, _ := p.info.Defs[n].(*types.Var)
							if obj == nil {
								continue
							}
							if first == "" {
								first = n.Name
							}
							a.vars = append(a.vars, pvVar{p.dir, n.Name, a.pt.varKind(p, a.w.fset, vs, i, obj), src.rel})
						}
						if len(vs.Values) > 0 {
							if first == "" {
								first = "_"
							}
							f := &pvFunc{p: p, src: src, name: p.dir + ":var " + first, writes: map[pvDesc]*pvWrite{}, ret: pvSet{}}
							for _, v := range vs.Values {
								f.body = append(f.body, v)
							}
							a.funcs = append(a.funcs, f)
						}
					}
				case *ast.FuncDecl:
					if d.Body == nil {
						continue
					}
					obj, _ := p.info.Defs[d.Name].(*types.Func)
					if obj == nil {
						continue
					}
					fname := d.Name.Name
					if d.Recv != nil && len(d.Recv.List) == 1 {
						fname = "(" + pvExprString(a.w.fset, d.Recv.List[0].Type) + ")." + fname
					}
					f := &pvFunc{p: p, src: src, name: p.dir + ":" + fname, obj: obj, body: []ast.Node{d.Body}, writes: map[pvDesc]*pvWrite{}, ret: pvSet{}}
					sig := obj.Type().(*types.Signature)
					if r := sig.Recv(); r != nil {
						f.params = append(f.params, r)
						f.hasRecv = true
					}
					for i := 0; i < sig.Params().Len(); i++ {
						f.params = append(f.params, sig.Params().At(i))
					}
					for i := 0; i < sig.Results().Len(); i++ {
						f.results = append(f.results, sig.Results().At(i))
					}
					a.funcs = append(a.funcs, f)
					a.byObj[obj] = f
				}
			}
		}
	}
	sort.SliceStable(a.funcs, func(i, j int) bool { return a.funcs[i].name < a.funcs[j].name })
}

func pvSetString(s pvSet) string {
	var l []string
	for r := range s {
		fn, gn := ".", ""
		if r.field != nil {
			fn = r.field.Name()
		}
		if r.g != nil {
			gn = r.g.Name()
		}
		l = append(l, fmt.Sprintf("k%d:%d.%s%s", r.kind, r.idx, fn, gn))
	}
	sort.Strings(l)
	return "{" + strings.Join(l, " ") + "}"
}

func pvValString(v pvVal) string {
	s := pvSetString(v.roots)
	for f, fs := range v.fields {
		fn := "nil"
		if f != nil {
			fn = f.Name()
		}
		s += " " + fn + "=" + pvSetString(fs)
	}
	return s
}

var pvDebug = os.Getenv("PKGVARS_DEBUG") != ""

func (a *pvAnalysis) dump() {
	name := func(f *types.Var) string {
		if f == nil {
			return "."
		}
		return f.Name()
	}
	for _, f := range a.funcs {
		var l []string
		for d, w := range f.writes {
			l = append(l, fmt.Sprintf("  W %d.%s  [%s] listed=%v", d.idx, name(d.field), w.witness, w.listed))
		}
		for r := range f.ret {
			l = append(l, fmt.Sprintf("  R kind%d %d.%s", r.kind, r.idx, name(r.field)))
		}
		sort.Strings(l)
		if len(l) > 0 {
			fmt.Fprintf(os.Stderr, "%s\n%s\n", f.name, strings.Join(l, "\n"))
		}
	}
	for f, s := range a.fieldOrigins {
		for r := range s {
			g := ""
			if r.g != nil {
				g = r.g.Name()
			}
			fmt.Fprintf(os.Stderr, "ORIGIN %s.%s kind%d %s\n", f.Pkg().Name(), f.Name(), r.kind, g)
		}
	}
}

func (a *pvAnalysis) run() {
	a.collect()
	if os.Getenv("PKGVARS_DEBUG") != "" {
		defer a.dump()
	}
	for iter := 0; iter < 64; iter++ {
		a.changed = false
		for _, f := range a.funcs {
			a.analyse(f, false)
		}
		if !a.changed {
			break
		}
	}
	for _, f := range a.funcs {
		a.analyse(f, true)
	}
}

func (f *pvFunc) addWrite(a *pvAnalysis, d pvDesc, witness string, listed bool) {
	old := f.writes[d]
	switch {
	case old == nil:
		f.writes[d] = &pvWrite{witness, listed}
		a.changed = true
	case witness < old.witness || old.listed && !listed:
		if witness < old.witness {
			old.witness = witness
		}
		old.listed = old.listed && listed
		a.changed = true
	}
}

// implementers: the methods named m of the named types of the repository (T or *T) that implement iface
func (a *pvAnalysis) implementers(iface *types.Interface, key, m string) []*pvFunc {
	k := key + "\x00" + m
	if l, ok := a.cha[k]; ok {
		return l
	}
	var l []*pvFunc
	seen := map[*pvFunc]bool{}
	for _, nt := range a.named {
		for _, t := range []types.Type{nt, types.NewPointer(nt)} {
			if !types.Implements(t, iface) {
				continue
			}
			obj, _, _ := types.LookupFieldOrMethod(t, true, nt.Obj().Pkg(), m)
			if fn, ok := obj.(*types.Func); ok {
				if pf := a.byObj[fn]; pf != nil && !seen[pf] {
					seen[pf] = true
					l = append(l, pf)
				}
			}
			break
		}
	}
	a.cha[k] = l
	return l
}

// ---------------------------------------------------------------------------------------------------
// one function

type pvFA struct {
	a          *pvAnalysis
	f          *pvFunc
	info       *types.Info
	three      bool // a package whose sites are listed in shared_type_writes
	report     bool
	vars       map[*types.Var]*pvVal
	paramIdx   map[*types.Var]int
	litParams  map[*types.Var]bool
	capped     map[*types.Var]bool
	selfAppend map[*ast.CallExpr]bool
	changed    bool
}

func (a *pvAnalysis) analyse(f *pvFunc, report bool) {
	fa := &pvFA{a: a, f: f, info: f.p.info, vars: map[*types.Var]*pvVal{}, paramIdx: map[*types.Var]int{}, litParams: map[*types.Var]bool{},
		capped: map[*types.Var]bool{}, selfAppend: map[*ast.CallExpr]bool{}}
	fa.three = f.p.dir == "soyhtml" || f.p.dir == "soyjs" || f.p.dir == "template"
	for i, p := range f.params {
		fa.paramIdx[p] = i
	}
	fa.prepass()
	for pass := 0; pass < 16; pass++ {
		fa.changed = false
		fa.walk()
		if !fa.changed {
			break
		}
	}
	if report {
		fa.report = true
		fa.walk()
	}
}

func (fa *pvFA) varOf(id *ast.Ident) *types.Var {
	if o, ok := fa.info.Defs[id].(*types.Var); ok && o != nil {
		return o
	}
	o, _ := fa.info.Uses[id].(*types.Var)
	return o
}

func pvCappedSlice(fa *pvFA, e ast.Expr) bool {
	se, ok := ast.Unparen(e).(*ast.SliceExpr)
	return ok && se.Slice3 && se.High != nil && se.Max != nil && pvExprString(fa.a.w.fset, se.High) == pvExprString(fa.a.w.fset, se.Max)
}

func (fa *pvFA) builtin(call *ast.CallExpr) string {
	if id, ok := ast.Unparen(call.Fun).(*ast.Ident); ok {
		if b, ok := fa.info.Uses[id].(*types.Builtin); ok {
			return b.Name()
		}
	}
	return ""
}

// prepass: the parameters of function literals; which local slices are only ever cut with capacity =
// length (e[:n:n]) or appended to themselves (an append to such a slice copies: the array it was cut
// from is not written)
func (fa *pvFA) prepass() {
	good := map[*types.Var]bool{}
	bad := map[*types.Var]bool{}
	assign := func(lhs ast.Expr, rhs ast.Expr) {
		id, ok := ast.Unparen(lhs).(*ast.Ident)
		if !ok {
			return
		}
		v := fa.varOf(id)
		if v == nil {
			return
		}
		switch {
		case rhs != nil && pvCappedSlice(fa, rhs):
			good[v] = true
		case rhs != nil:
			if ce, ok := ast.Unparen(rhs).(*ast.CallExpr); ok && fa.builtin(ce) == "append" && len(ce.Args) > 0 {
				if a0, ok := ast.Unparen(ce.Args[0]).(*ast.Ident); ok && fa.varOf(a0) == v {
					return
				}
			}
			// x = x[a:] keeps capacity = length
			if se, ok := ast.Unparen(rhs).(*ast.SliceExpr); ok && se.High == nil && !se.Slice3 {
				if x, ok := ast.Unparen(se.X).(*ast.Ident); ok && fa.varOf(x) == v {
					return
				}
			}
			bad[v] = true
		default:
			bad[v] = true
		}
	}
	for _, b := range fa.f.body {
		ast.Inspect(b, func(n ast.Node) bool {
			switch x := n.(type) {
			case *ast.FuncLit:
				if sig, ok := fa.info.TypeOf(x).(*types.Signature); ok {
					for i := 0; i < sig.Params().Len(); i++ {
						fa.litParams[sig.Params().At(i)] = true
					}
				}
			case *ast.AssignStmt:
				for i, l := range x.Lhs {
					if len(x.Lhs) == len(x.Rhs) {
						assign(l, x.Rhs[i])
					} else {
						assign(l, nil)
					}
				}
			case *ast.ValueSpec:
				for i, nm := range x.Names {
					if len(x.Values) == len(x.Names) {
						assign(nm, x.Values[i])
					} else if len(x.Values) > 0 {
						assign(nm, nil)
					}
				}
			case *ast.RangeStmt:
				if x.Key != nil {
					assign(x.Key, nil)
				}
				if x.Value != nil {
					assign(x.Value, nil)
				}
			case *ast.UnaryExpr:
				if x.Op == token.AND {
					assign(x.X, nil) // its address escapes
				}
			}
			return true
		})
	}
	for v := range good {
		if !bad[v] {
			fa.capped[v] = true
		}
	}
}

func (fa *pvFA) typeOf(e ast.Expr) types.Type {
	if id, ok := e.(*ast.Ident); ok {
		if o := fa.info.ObjectOf(id); o != nil {
			return o.Type()
		}
	}
	return fa.info.TypeOf(e)
}

// ---- evaluation ----

// is e an expression that yields a value from outside the function (a parameter, a package-level
// variable, a field, a function result, a type assertion)?  In the render / generation packages such a
// value of a shared type is part of the shared structures; locals and values built here get what flows
// into them.
func (fa *pvFA) isSource(e ast.Expr) bool {
	switch x := ast.Unparen(e).(type) {
	case *ast.Ident:
		v := fa.varOf(x)
		if v == nil {
			return false
		}
		if _, ok := fa.paramIdx[v]; ok {
			return true
		}
		return fa.litParams[v] || pvIsPkgVar(v)
	case *ast.SelectorExpr, *ast.TypeAssertExpr:
		return true
	case *ast.UnaryExpr:
		if x.Op == token.AND {
			if _, lit := ast.Unparen(x.X).(*ast.CompositeLit); lit {
				return false
			}
			return fa.isSource(x.X)
		}
		return x.Op == token.ARROW
	case *ast.CallExpr:
		if tv, ok := fa.info.Types[x.Fun]; ok && tv.IsType() {
			return false
		}
		return fa.builtin(x) == ""
	}
	return false
}

func (fa *pvFA) eval(e ast.Expr) pvVal {
	if e == nil {
		return pvVal{}
	}
	t := fa.typeOf(e)
	if t == nil || !fa.a.pt.carriesRefs(t) {
		return pvVal{}
	}
	v := fa.eval0(e)
	shared := pvRoot{kind: pvShared}
	if !fa.a.pt.sharedCapable(t) {
		v = pvDataVal(v)
	} else if fa.three && fa.a.pt.isShared(t) && fa.isSource(e) && !v.roots[shared] {
		v = v.clone()
		if v.roots == nil {
			v.roots = pvSet{}
		}
		v.roots[shared] = true
	}
	return v
}

// load: an element of a slice, array or map, the pointee of a pointer
func (fa *pvFA) load(v pvVal, elem types.Type) pvVal {
	out := pvVal{roots: pvSet{}}
	mark := true
	if elem != nil {
		switch elem.Underlying().(type) {
		case *types.Struct, *types.Array:
			mark = false // the fields of an element are told apart: s[i].vars
		}
	}
	for r := range v.roots {
		if mark {
			r = pvSel(r, pvElem)
		}
		out.roots[r] = true
	}
	out.roots.addAll(v.fields[nil])
	for f, s := range v.fields {
		if f != nil {
			out.store(f, s)
		}
	}
	return out
}

func (fa *pvFA) selectField(v pvVal, f *types.Var) pvVal {
	out := pvVal{roots: pvSet{}}
	for r := range v.roots {
		out.roots[pvSel(r, f)] = true
	}
	out.roots.addAll(v.fields[f])
	out.roots.addAll(v.fields[nil])
	out.roots.addAll(fa.a.fieldOrigins[f])
	return out
}

// selectField, restricted to what a value of the field's type can refer to
func (fa *pvFA) sel(v pvVal, f *types.Var) pvVal {
	return fa.filter(fa.selectField(v, f), f.Type())
}

// the fields an (embedded) selection goes through, the selected one last
func pvFieldPath(sel *types.Selection) []*types.Var {
	var path []*types.Var
	t := sel.Recv()
	index := sel.Index()
	if sel.Kind() != types.FieldVal {
		index = index[:len(index)-1] // the last index is the method's
	}
	for _, i := range index {
		if p, ok := t.Underlying().(*types.Pointer); ok {
			t = p.Elem()
		}
		st, ok := t.Underlying().(*types.Struct)
		if !ok || i >= st.NumFields() {
			break
		}
		path = append(path, st.Field(i))
		t = st.Field(i).Type()
	}
	return path
}

func (fa *pvFA) eval0(e ast.Expr) pvVal {
	switch x := e.(type) {
	case *ast.Ident:
		v := fa.varOf(x)
		if v == nil {
			return pvVal{}
		}
		if pvIsPkgVar(v) {
			return fa.globalVal(v)
		}
		var out pvVal
		if cur := fa.vars[v]; cur != nil {
			out = cur.clone()
		}
		if i, ok := fa.paramIdx[v]; ok {
			if out.roots == nil {
				out.roots = pvSet{}
			}
			out.roots[pvRoot{kind: pvParam, idx: i}] = true
		}
		return out
	case *ast.ParenExpr:
		return fa.eval(x.X)
	case *ast.StarExpr:
		v := fa.eval(x.X)
		if t := fa.typeOf(x.X); t != nil {
			if p, ok := t.Underlying().(*types.Pointer); ok {
				return fa.load(v, p.Elem())
			}
		}
		return v
	case *ast.UnaryExpr:
		switch x.Op {
		case token.AND:
			v := fa.eval(x.X).clone()
			v.merge(pvVal{roots: fa.lvalueRegion(x.X)})
			return v
		case token.ARROW:
			return fa.load(fa.eval(x.X), nil)
		}
		return pvVal{}
	case *ast.SelectorExpr:
		if sel, ok := fa.info.Selections[x]; ok {
			v := fa.eval(x.X)
			switch sel.Kind() {
			case types.FieldVal:
				for _, f := range pvFieldPath(sel) {
					v = fa.sel(v, f)
				}
				return v
			default:
				return v // a method value: bound to its receiver
			}
		}
		if v, ok := fa.info.Uses[x.Sel].(*types.Var); ok && pvIsPkgVar(v) {
			return fa.globalVal(v)
		}
		return pvVal{}
	case *ast.IndexExpr:
		if tv, ok := fa.info.Types[x.X]; ok && !tv.IsValue() {
			return pvVal{}
		}
		v := fa.eval(x.X)
		var elem types.Type
		if t := fa.typeOf(x.X); t != nil {
			u := t.Underlying()
			if p, ok := u.(*types.Pointer); ok {
				u = p.Elem().Underlying()
			}
			switch c := u.(type) {
			case *types.Slice:
				elem = c.Elem()
			case *types.Array:
				elem = c.Elem()
			case *types.Map:
				elem = c.Elem()
			}
		}
		return fa.load(v, elem)
	case *ast.SliceExpr:
		return fa.eval(x.X)
	case *ast.TypeAssertExpr:
		return fa.eval(x.X)
	case *ast.CompositeLit:
		out := pvVal{}
		t := fa.typeOf(x)
		var st *types.Struct
		if t != nil {
			u := t.Underlying()
			if p, ok := u.(*types.Pointer); ok { // an elided &T{..} inside a slice or map literal
				u = p.Elem().Underlying()
			}
			st, _ = u.(*types.Struct)
		}
		for i, el := range x.Elts {
			var key *types.Var
			val := el
			if kv, ok := el.(*ast.KeyValueExpr); ok {
				val = kv.Value
				if st != nil {
					if id, ok := kv.Key.(*ast.Ident); ok {
						key, _ = fa.info.Uses[id].(*types.Var)
					}
				}
			} else if st != nil && i < st.NumFields() {
				key = st.Field(i)
			}
			s := fa.eval(val).all()
			out.store(key, s)
			if key != nil {
				fa.originOfField(key, s)
			}
		}
		return out
	case *ast.CallExpr:
		return fa.callResult(x)
	}
	return pvVal{}
}

// the value of a package-level variable.  Aliases are followed for the variables of the repository only: a
// variable of a foreign package (io.Discard, os.Stdout) is listed when it is written directly.
func (fa *pvFA) globalVal(v *types.Var) pvVal {
	if !fa.a.w.inModule(v.Pkg().Path()) {
		return pvVal{}
	}
	return pvVal{roots: pvSet{pvRoot{kind: pvGlobal, g: v}: true}}
}

func (fa *pvFA) originOfField(f *types.Var, s pvSet) {
	for r := range s {
		if r.kind == pvParam || r.kind == pvShared && !fa.a.pt.sharedCapable(f.Type()) {
			continue
		}
		if fa.a.fieldOrigins[f] == nil {
			fa.a.fieldOrigins[f] = pvSet{}
		}
		if !fa.a.fieldOrigins[f][r] {
			fa.a.fieldOrigins[f][r] = true
			fa.a.changed = true
			fa.changed = true
		}
	}
}

// lvalueRegion: the memory the addressable expression e lies in (no root: a local variable, or memory
// built by this function)
func (fa *pvFA) lvalueRegion(e ast.Expr) pvSet {
	switch x := ast.Unparen(e).(type) {
	case *ast.Ident:
		if v := fa.varOf(x); pvIsPkgVar(v) {
			return pvSet{pvRoot{kind: pvGlobal, g: v}: true}
		}
	case *ast.SelectorExpr:
		sel, ok := fa.info.Selections[x]
		if !ok {
			if v, ok := fa.info.Uses[x.Sel].(*types.Var); ok && pvIsPkgVar(v) {
				return pvSet{pvRoot{kind: pvGlobal, g: v}: true}
			}
			return nil
		}
		if sel.Kind() != types.FieldVal {
			return nil
		}
		cur := fa.eval(x.X)
		t := fa.typeOf(x.X)
		var region pvSet
		known := false
		for _, f := range pvFieldPath(sel) {
			if t != nil {
				if _, ptr := t.Underlying().(*types.Pointer); ptr {
					region, known = cur.roots, true
				}
			}
			cur = fa.sel(cur, f)
			t = f.Type()
		}
		if !known {
			return fa.lvalueRegion(x.X)
		}
		return region
	case *ast.IndexExpr:
		if t := fa.typeOf(x.X); t != nil {
			if _, arr := t.Underlying().(*types.Array); arr {
				return fa.lvalueRegion(x.X)
			}
		}
		return fa.eval(x.X).roots
	case *ast.StarExpr:
		return fa.eval(x.X).roots
	case *ast.SliceExpr:
		return fa.eval(x.X).roots
	}
	return nil
}

// the package-level variable an lvalue / operand is syntactically rooted at (through selectors,
// indexes, dereferences, slicings)
func (fa *pvFA) rootVar(e ast.Expr) *types.Var {
	switch x := e.(type) {
	case *ast.Ident:
		if v := fa.varOf(x); pvIsPkgVar(v) {
			return v
		}
	case *ast.ParenExpr:
		return fa.rootVar(x.X)
	case *ast.StarExpr:
		return fa.rootVar(x.X)
	case *ast.IndexExpr:
		return fa.rootVar(x.X)
	case *ast.SliceExpr:
		return fa.rootVar(x.X)
	case *ast.SelectorExpr:
		if _, ok := fa.info.Selections[x]; ok {
			return fa.rootVar(x.X)
		}
		if v, ok := fa.info.Uses[x.Sel].(*types.Var); ok && pvIsPkgVar(v) {
			return v // pkg.V
		}
	}
	return nil
}

// the local variable an lvalue is rooted at, and the first field selected from it
func (fa *pvFA) baseVar(e ast.Expr) (*types.Var, *types.Var) {
	switch x := ast.Unparen(e).(type) {
	case *ast.Ident:
		if v := fa.varOf(x); v != nil && !pvIsPkgVar(v) {
			return v, nil
		}
	case *ast.StarExpr:
		return fa.baseVar(x.X)
	case *ast.IndexExpr:
		return fa.baseVar(x.X)
	case *ast.SliceExpr:
		return fa.baseVar(x.X)
	case *ast.SelectorExpr:
		if sel, ok := fa.info.Selections[x]; ok && sel.Kind() == types.FieldVal {
			b, f := fa.baseVar(x.X)
			if b != nil && f == nil {
				if path := pvFieldPath(sel); len(path) > 0 {
					f = path[0]
				}
			}
			return b, f
		}
	}
	return nil, nil
}

func (fa *pvFA) setVar(v *types.Var, val pvVal) {
	if v == nil || val.empty() || !fa.a.pt.carriesRefs(v.Type()) {
		return
	}
	cur := fa.vars[v]
	if cur == nil {
		cur = &pvVal{}
		fa.vars[v] = cur
	}
	if cur.merge(val) {
		fa.changed = true
	}
}

// ---- sites ----

func (fa *pvFA) site(list *[]pvSite, dir, v, kind, via string, pos token.Pos) {
	if !fa.report {
		return
	}
	*list = append(*list, pvSite{Dir: dir, Func: fa.f.name, Var: v, Kind: kind, File: fa.f.src.rel, Line: fa.a.w.fset.Position(pos).Line, Via: via})
}

func (fa *pvFA) pkgSite(g *types.Var, kind, via string, pos token.Pos) {
	fa.site(&fa.a.sites, fa.a.relDir(g.Pkg()), g.Name(), kind, via, pos)
}

type pvHit struct {
	expr       string     // the written expression, as printed
	pkgKind    string     // kind in pkg_var_writes
	sharedKind string     // kind in shared_type_writes
	witness    string     // for the summaries: the innermost write
	via        string     // for the sites: the callee
	direct     *types.Var // the package-level variable already listed for this statement
	listed     bool       // a callee's write that already is a site of shared_type_writes, deeper
	pos        token.Pos
}

// a write into the memory of region
func (fa *pvFA) hit(region pvSet, h pvHit) {
	for r := range region {
		switch r.kind {
		case pvParam:
			if _, old := fa.f.writes[pvDesc{r.idx, r.field, r.data}]; !old && pvDebug {
				fn := "."
				if r.field != nil {
					fn = r.field.Name()
				}
				fmt.Fprintf(os.Stderr, "NEW %s W %d.%s: %s via %s at %v\n", fa.f.name, r.idx, fn, h.expr, h.via, fa.a.w.fset.Position(h.pos))
			}
			if pvDebug && !(h.listed || fa.three && region[pvRoot{kind: pvShared}]) {
				fmt.Fprintf(os.Stderr, "UNLISTED %s %d: %s region %s via %s at %v\n", fa.f.name, r.idx, h.expr, pvSetString(region), h.via, fa.a.w.fset.Position(h.pos))
			}
			fa.f.addWrite(fa.a, pvDesc{r.idx, r.field, r.data}, h.witness, h.listed || fa.three && region[pvRoot{kind: pvShared}])
		case pvGlobal:
			if r.g != h.direct {
				fa.pkgSite(r.g, h.pkgKind, h.via, h.pos)
			}
		case pvShared:
			if fa.three && !h.listed {
				fa.site(&fa.a.shared, fa.f.p.dir, h.expr, h.sharedKind, h.via, h.pos)
			}
		}
	}
}

func (fa *pvFA) str(e ast.Node) string { return pvExprString(fa.a.w.fset, e) }

// a store to the lvalue lhs (of what rhs refers to)
func (fa *pvFA) write(lhs ast.Expr, rhs pvVal, pkgKind, pkgElemKind, sharedKind string, pos token.Pos) {
	lhs = ast.Unparen(lhs)
	if id, ok := lhs.(*ast.Ident); ok {
		v := fa.varOf(id)
		if v == nil {
			return
		}
		if pvIsPkgVar(v) {
			fa.pkgSite(v, pkgKind, "", pos)
			return
		}
		fa.setVar(v, rhs)
		return
	}
	direct := fa.rootVar(lhs)
	if direct != nil {
		fa.pkgSite(direct, pkgElemKind, "", pos)
	}
	fa.hit(fa.lvalueRegion(lhs), pvHit{expr: fa.str(lhs), pkgKind: "write-via-alias", sharedKind: sharedKind,
		witness: fa.f.name + ": " + fa.str(lhs), direct: direct, pos: pos})
	stored := rhs.all()
	if len(stored) == 0 {
		return
	}
	if b, f := fa.baseVar(lhs); b != nil {
		fa.storeIn(b, f, stored)
	}
	if se, ok := lhs.(*ast.SelectorExpr); ok {
		if sel, ok := fa.info.Selections[se]; ok && sel.Kind() == types.FieldVal {
			if f, ok := sel.Obj().(*types.Var); ok {
				fa.originOfField(f, stored)
			}
		}
	}
}

// the local variable b (or the memory it refers to) now holds, in field f, references to s
func (fa *pvFA) storeIn(b, f *types.Var, s pvSet) {
	if len(s) == 0 {
		return
	}
	cur := fa.vars[b]
	if cur == nil {
		cur = &pvVal{}
		fa.vars[b] = cur
	}
	if cur.store(f, s) {
		fa.changed = true
	}
}

// ---- the walk over the body ----

func (fa *pvFA) walk() {
	for _, b := range fa.f.body {
		lits := 0
		var stack []ast.Node
		ast.Inspect(b, func(n ast.Node) bool {
			if n == nil {
				if _, ok := stack[len(stack)-1].(*ast.FuncLit); ok {
					lits--
				}
				stack = stack[:len(stack)-1]
				return true
			}
			stack = append(stack, n)
			switch st := n.(type) {
			case *ast.FuncLit:
				lits++
			case *ast.AssignStmt:
				fa.assign(st)
			case *ast.ValueSpec:
				if len(st.Values) == len(st.Names) {
					for i, nm := range st.Names {
						fa.setVar(fa.varOf(nm), fa.eval(st.Values[i]))
					}
				} else if len(st.Values) == 1 {
					v := fa.eval(st.Values[0])
					for _, nm := range st.Names {
						fa.setVar(fa.varOf(nm), v)
					}
				}
			case *ast.TypeSwitchStmt:
				if as, ok := st.Assign.(*ast.AssignStmt); ok && len(as.Rhs) == 1 {
					if ta, ok := ast.Unparen(as.Rhs[0]).(*ast.TypeAssertExpr); ok {
						v := fa.eval(ta.X)
						for _, c := range st.Body.List {
							if o, ok := fa.info.Implicits[c].(*types.Var); ok {
								fa.setVar(o, fa.filter(v, o.Type()))
							}
						}
					}
				}
			case *ast.IncDecStmt:
				fa.write(st.X, pvVal{}, "incdec", "incdec", "incdec-through", st.Pos())
			case *ast.RangeStmt:
				var elem types.Type
				if t := fa.typeOf(st.X); t != nil {
					switch c := t.Underlying().(type) {
					case *types.Slice:
						elem = c.Elem()
					case *types.Array:
						elem = c.Elem()
					case *types.Map:
						elem = c.Elem()
					case *types.Pointer:
						if arr, ok := c.Elem().Underlying().(*types.Array); ok {
							elem = arr.Elem()
						}
					}
				}
				v := fa.load(fa.eval(st.X), elem)
				for _, e := range []ast.Expr{st.Key, st.Value} {
					if e == nil {
						continue
					}
					ev := fa.filter(v, fa.typeOf(e))
					if st.Tok == token.ASSIGN {
						fa.write(e, ev, "range-assign", "range-assign", "assign-through", st.Pos())
					} else if id, ok := e.(*ast.Ident); ok {
						fa.setVar(fa.varOf(id), ev)
					}
				}
			case *ast.SendStmt:
				region := fa.eval(st.Chan).roots
				fa.hit(region, pvHit{expr: fa.str(st.Chan), pkgKind: "send", sharedKind: "send-through", witness: fa.f.name + ": " + fa.str(st), pos: st.Pos()})
				if b, f := fa.baseVar(st.Chan); b != nil {
					fa.storeIn(b, f, fa.eval(st.Value).all())
				}
			case *ast.ReturnStmt:
				if lits == 0 {
					for _, e := range st.Results {
						if fa.f.ret.addAll(fa.eval(e).all()) {
							fa.a.changed = true
						}
					}
				}
			case *ast.UnaryExpr:
				if st.Op == token.AND {
					if v := fa.rootVar(st.X); v != nil {
						fa.pkgSite(v, "address-taken", "", st.Pos())
					}
				}
			case *ast.CallExpr:
				fa.callEffects(st)
			}
			return true
		})
	}
	for _, r := range fa.f.results {
		if cur := fa.vars[r]; cur != nil {
			if fa.f.ret.addAll(cur.all()) {
				fa.a.changed = true
			}
		}
	}
}

func (fa *pvFA) filter(v pvVal, t types.Type) pvVal {
	if t == nil || !fa.a.pt.carriesRefs(t) {
		return pvVal{}
	}
	if !fa.a.pt.sharedCapable(t) {
		v = pvDataVal(v)
	}
	return v
}

func (fa *pvFA) assign(st *ast.AssignStmt) {
	if len(st.Lhs) == len(st.Rhs) {
		for i, l := range st.Lhs {
			kind := "assign"
			r := st.Rhs[i]
			if _, isId := ast.Unparen(l).(*ast.Ident); !isId {
				// x.f = append(x.f, ..): the store to x.f is listed, the append is the same write
				if ce, ok := ast.Unparen(r).(*ast.CallExpr); ok && fa.builtin(ce) == "append" && len(ce.Args) > 0 && fa.str(ce.Args[0]) == fa.str(l) {
					fa.selfAppend[ce] = true
				}
			}
			var rv pvVal
			if st.Tok == token.ASSIGN || st.Tok == token.DEFINE {
				rv = fa.eval(r)
			}
			if id, ok := ast.Unparen(l).(*ast.Ident); ok && fa.varOf(id) == nil {
				continue // the symbol of a type switch, the blank identifier
			}
			fa.write(l, rv, kind, "assign-element", "assign-through", st.Pos())
		}
		return
	}
	if len(st.Rhs) != 1 {
		return
	}
	// v, ok := x.(T) / m[k] / <-c;  a, b := f()
	rv := fa.eval(st.Rhs[0])
	for _, l := range st.Lhs {
		if id, ok := ast.Unparen(l).(*ast.Ident); ok && fa.varOf(id) == nil {
			continue
		}
		fa.write(l, fa.filter(rv, fa.typeOf(l)), "assign", "assign-element", "assign-through", st.Pos())
	}
}
