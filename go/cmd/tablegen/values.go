package main

// data/value.go: the bodies of the Truthy and Equals methods, translated by a
// small expression translator, and a sample of unicode.ToLower (lowerCamel of
// struct field names above ASCII is a parameter of the Coq theorems; the model
// runner uses this sample).
//
// Truthy: every method must be `return <bool expr>` over the receiver, where
// the expression is built from
//    true false            bool(v)
//    v != 0  v == 0  v != 0.0 ...        (Int, Float: parameter is_zero)
//    v != "" v == "" len(v) ==/!=/> 0    (String: parameter is_empty)
//    math.IsNaN(float64(v))              (Float: parameter is_nan)
//    float64(v) != math.NaN()            -> true   } what Go's comparison with
//    float64(v) == math.NaN()            -> false  } a NaN operand denotes
//    !e   e && e   e || e   (e)
// Equals: every method must be one of
//    _, ok := other.(T); return ok
//    if o, ok := other.(T); ok { return CMP }; return false
//    switch o := other.(type) { case T: return CMP ... }; return false
// with CMP one of  v == o | bool(v) == bool(o) | string(v) == string(o) |
// int64(v) == int64(o)            -> mode 1 (same-type scalar comparison)
// float64(v) == float64(o)        -> mode 2 (numeric conversion)
// reflect.ValueOf(v).Pointer() == reflect.ValueOf(o).Pointer() -> mode 3 (identity)
// true -> mode 4, false -> mode 0.
// Anything else is reported through g.fail (never guessed).

import (
	"fmt"
	"go/ast"
	"go/token"
	"sort"
	"strings"
	"unicode"
)

func init() {
	register("20-value-truthy", (*gen).valueTruthy)
	register("21-value-equals", (*gen).valueEquals)
	register("22-to-lower-sample", (*gen).toLowerSample)
}

const valueRel = "data/value.go"

// kinds in the order of the codes used by the Coq side (Proofs/ValueTieProofs.v kind_of)
var valueKinds = []string{"Undefined", "Null", "Bool", "Int", "Float", "String", "List", "Map"}

func kindCode(name string) int {
	for i, k := range valueKinds {
		if k == name {
			return i
		}
	}
	return -1
}

func recvName(fd *ast.FuncDecl) string {
	if fd == nil || fd.Recv == nil || len(fd.Recv.List) != 1 || len(fd.Recv.List[0].Names) != 1 {
		return ""
	}
	return fd.Recv.List[0].Names[0].Name
}

func unparen(e ast.Expr) ast.Expr {
	for {
		p, ok := e.(*ast.ParenExpr)
		if !ok {
			return e
		}
		e = p.X
	}
}

func isIdent(e ast.Expr, name string) bool {
	id, ok := unparen(e).(*ast.Ident)
	return ok && id.Name == name
}

// isConv reports whether e is  <conv>(<name>)  e.g. float64(v).
func isConv(e ast.Expr, conv, name string) bool {
	c, ok := unparen(e).(*ast.CallExpr)
	return ok && len(c.Args) == 1 && isIdent(c.Fun, conv) && isIdent(c.Args[0], name)
}

func isSel(e ast.Expr, pkg, name string) bool {
	s, ok := unparen(e).(*ast.SelectorExpr)
	return ok && isIdent(s.X, pkg) && s.Sel.Name == name
}

func isCall0(e ast.Expr, pkg, name string) bool {
	c, ok := unparen(e).(*ast.CallExpr)
	return ok && len(c.Args) == 0 && isSel(c.Fun, pkg, name)
}

// zero literal: 0, 0.0, 0x0, 0e0 ...
func isZeroLit(e ast.Expr) bool {
	bl, ok := unparen(e).(*ast.BasicLit)
	if !ok || (bl.Kind != token.INT && bl.Kind != token.FLOAT) {
		return false
	}
	s := strings.ToLower(bl.Value)
	if strings.HasPrefix(s, "0x") {
		return strings.Trim(s[2:], "0_") == ""
	}
	if i := strings.IndexAny(s, "e"); i >= 0 {
		s = s[:i]
	}
	return strings.Trim(s, "0._") == "" && s != ""
}

func isEmptyStrLit(e ast.Expr) bool {
	s, ok := strLit(unparen(e))
	return ok && s == ""
}

type truthyCtx struct {
	kind string // receiver type
	recv string // receiver variable
}

// recvAs: the receiver itself or a value-preserving conversion of it.
func (c truthyCtx) recvAs(e ast.Expr, convs ...string) bool {
	if isIdent(e, c.recv) {
		return true
	}
	for _, cv := range convs {
		if isConv(e, cv, c.recv) {
			return true
		}
	}
	return false
}

func coqNot(s string) string { return "(negb " + s + ")" }

// truthyExpr translates a boolean expression over the receiver; ok=false means untranslatable.
func (c truthyCtx) truthyExpr(e ast.Expr) (string, bool) {
	e = unparen(e)
	switch x := e.(type) {
	case *ast.Ident:
		if x.Name == "true" || x.Name == "false" {
			return x.Name, true
		}
	case *ast.UnaryExpr:
		if x.Op == token.NOT {
			s, ok := c.truthyExpr(x.X)
			return coqNot(s), ok
		}
	case *ast.CallExpr:
		if c.kind == "Bool" && isConv(x, "bool", c.recv) {
			return "x", true
		}
		if c.kind == "Float" && len(x.Args) == 1 && isSel(x.Fun, "math", "IsNaN") && c.recvAs(x.Args[0], "float64") {
			return "is_nan", true
		}
	case *ast.BinaryExpr:
		switch x.Op {
		case token.LAND, token.LOR:
			l, ok1 := c.truthyExpr(x.X)
			r, ok2 := c.truthyExpr(x.Y)
			op := "&&"
			if x.Op == token.LOR {
				op = "||"
			}
			return "(" + l + " " + op + " " + r + ")", ok1 && ok2
		case token.EQL, token.NEQ:
			a, bb := x.X, x.Y
			// a comparison with a math.NaN() operand: == is false, != is true, whatever the other operand
			if c.kind == "Float" && (isCall0(a, "math", "NaN") || isCall0(bb, "math", "NaN")) {
				other := a
				if isCall0(a, "math", "NaN") {
					other = bb
				}
				if c.recvAs(other, "float64") || isCall0(other, "math", "NaN") {
					return coqBool(x.Op == token.NEQ), true
				}
				return "", false
			}
			var atom string
			switch {
			case (c.kind == "Int" || c.kind == "Float") && ((c.recvAs(a, "int64", "float64", "int") && isZeroLit(bb)) || (c.recvAs(bb, "int64", "float64", "int") && isZeroLit(a))):
				if c.kind == "Int" && (isConv(a, "float64", c.recv) || isConv(bb, "float64", c.recv) || isConv(a, "int", c.recv) || isConv(bb, "int", c.recv)) {
					return "", false // a narrowing or rounding conversion before the test is not "is zero" in general
				}
				if c.kind == "Float" && !(isIdent(a, c.recv) || isIdent(bb, c.recv) || isConv(a, "float64", c.recv) || isConv(bb, "float64", c.recv)) {
					return "", false
				}
				atom = "is_zero"
			case c.kind == "String" && ((c.recvAs(a, "string") && isEmptyStrLit(bb)) || (c.recvAs(bb, "string") && isEmptyStrLit(a))):
				atom = "is_empty"
			case c.kind == "String" && c.isLenRecv(a) && isZeroLit(bb), c.kind == "String" && c.isLenRecv(bb) && isZeroLit(a):
				atom = "is_empty"
			case c.kind == "Bool" && (c.recvAs(a, "bool") && (isIdent(bb, "true") || isIdent(bb, "false"))):
				atom = "x"
				if isIdent(bb, "false") {
					atom = coqNot("x")
				}
			default:
				return "", false
			}
			if x.Op == token.NEQ {
				return coqNot(atom), true
			}
			return atom, true
		case token.GTR:
			if c.kind == "String" && c.isLenRecv(x.X) && isZeroLit(x.Y) {
				return coqNot("is_empty"), true
			}
		}
	}
	return "", false
}

func (c truthyCtx) isLenRecv(e ast.Expr) bool {
	call, ok := unparen(e).(*ast.CallExpr)
	return ok && len(call.Args) == 1 && isIdent(call.Fun, "len") && c.recvAs(call.Args[0], "string")
}

var truthyParams = map[string]string{
	"Undefined": "", "Null": "", "List": "", "Map": "",
	"Bool": " (x : bool)", "Int": " (is_zero : bool)", "Float": " (is_zero is_nan : bool)", "String": " (is_empty : bool)",
}

func (g *gen) valueTruthy() {
	g.p("(* data/value.go Truthy methods, as boolean functions of what the body tests:\n")
	g.p("   x = bool(v); is_zero = (v == 0) (true for +0.0 and -0.0, false for NaN); is_nan = math.IsNaN(v);\n")
	g.p("   is_empty = (v == \"\").  A comparison with math.NaN() is translated to what Go evaluates it to. *)\n")
	js := map[string]string{}
	for _, k := range valueKinds {
		name := "gen_truthy_" + strings.ToLower(k)
		fd := g.method(valueRel, k, "Truthy")
		body := ""
		ok := false
		if fd != nil && fd.Body != nil && len(fd.Body.List) == 1 {
			if rs, isRet := fd.Body.List[0].(*ast.ReturnStmt); isRet && len(rs.Results) == 1 {
				c := truthyCtx{kind: k, recv: recvName(fd)}
				if c.recv == "" {
					c.recv = "\x00none"
				}
				body, ok = c.truthyExpr(rs.Results[0])
			}
		}
		if !ok {
			g.fail("data/value.go: (%s).Truthy is not `return <translatable boolean expression>`", k)
			body = "false (* UNTRANSLATABLE *)"
		}
		g.p("Definition %s%s : bool := %s.\n", name, truthyParams[k], body)
		js[name] = body
	}
	g.p("\n")
	g.js["gen_truthy"] = js
}

// ---- Equals ----

type equalsCtx struct {
	kind string
	recv string
	g    *gen
}

// cmpMode classifies the returned comparison; o is the name bound to the asserted operand.
func (c equalsCtx) cmpMode(e ast.Expr, o string, otherKind string) (int, bool) {
	e = unparen(e)
	if isIdent(e, "true") {
		return 4, true
	}
	if isIdent(e, "false") {
		return 0, true
	}
	be, ok := e.(*ast.BinaryExpr)
	if !ok || be.Op != token.EQL {
		return 0, false
	}
	pair := func(f func(x ast.Expr, name string) bool) bool {
		return (f(be.X, c.recv) && f(be.Y, o)) || (f(be.X, o) && f(be.Y, c.recv))
	}
	scalar := map[string]bool{"Bool": true, "Int": true, "Float": true, "String": true}
	conv := map[string]string{"Bool": "bool", "Int": "int64", "Float": "float64", "String": "string"}
	switch {
	case pair(func(x ast.Expr, n string) bool { return isIdent(x, n) }):
		// v == o : only type-correct when both have the receiver's type
		if c.kind == otherKind && scalar[c.kind] {
			return 1, true
		}
	case c.kind == otherKind && scalar[c.kind] && pair(func(x ast.Expr, n string) bool { return isConv(x, conv[c.kind], n) }):
		return 1, true
	case pair(func(x ast.Expr, n string) bool { return isConv(x, "float64", n) }):
		if (c.kind == "Int" || c.kind == "Float") && (otherKind == "Int" || otherKind == "Float") {
			return 2, true
		}
	case pair(func(x ast.Expr, n string) bool {
		// reflect.ValueOf(n).Pointer()
		call, ok := unparen(x).(*ast.CallExpr)
		if !ok || len(call.Args) != 0 {
			return false
		}
		sel, ok := call.Fun.(*ast.SelectorExpr)
		if !ok || sel.Sel.Name != "Pointer" {
			return false
		}
		in, ok := unparen(sel.X).(*ast.CallExpr)
		return ok && len(in.Args) == 1 && isSel(in.Fun, "reflect", "ValueOf") && isIdent(in.Args[0], n)
	}):
		if c.kind == otherKind && (c.kind == "List" || c.kind == "Map") {
			return 3, true
		}
	}
	return 0, false
}

func isReturn(s ast.Stmt) (ast.Expr, bool) {
	rs, ok := s.(*ast.ReturnStmt)
	if !ok || len(rs.Results) != 1 {
		return nil, false
	}
	return rs.Results[0], true
}

// typeAssert matches  <lhs0>, <lhs1> := <param>.(T)
func typeAssert(s ast.Stmt, param string) (lhs0, lhs1, typ string, ok bool) {
	as, isAs := s.(*ast.AssignStmt)
	if !isAs || as.Tok != token.DEFINE || len(as.Lhs) != 2 || len(as.Rhs) != 1 {
		return
	}
	ta, isTa := as.Rhs[0].(*ast.TypeAssertExpr)
	if !isTa || ta.Type == nil || !isIdent(ta.X, param) {
		return
	}
	tid, isId := ta.Type.(*ast.Ident)
	l0, ok0 := as.Lhs[0].(*ast.Ident)
	l1, ok1 := as.Lhs[1].(*ast.Ident)
	if !isId || !ok0 || !ok1 {
		return
	}
	return l0.Name, l1.Name, tid.Name, true
}

// equalsRows translates one Equals method into other-kind -> mode (missing = 0).
func (g *gen) equalsRows(k string) (map[string]int, bool) {
	fd := g.method(valueRel, k, "Equals")
	if fd == nil || fd.Body == nil || fd.Type.Params == nil || len(fd.Type.Params.List) != 1 || len(fd.Type.Params.List[0].Names) != 1 {
		return nil, false
	}
	param := fd.Type.Params.List[0].Names[0].Name
	c := equalsCtx{kind: k, recv: recvName(fd), g: g}
	if c.recv == "" {
		c.recv = "\x00none"
	}
	rows := map[string]int{}
	st := fd.Body.List
	// shape (a):  _, ok := other.(T); return ok
	if len(st) == 2 {
		if l0, l1, typ, ok := typeAssert(st[0], param); ok && l0 == "_" && kindCode(typ) >= 0 {
			if r, ok := isReturn(st[1]); ok && isIdent(r, l1) {
				rows[typ] = 4
				return rows, true
			}
		}
	}
	// final statement must be `return false`
	if len(st) != 2 {
		return nil, false
	}
	if r, ok := isReturn(st[1]); !ok || !isIdent(r, "false") {
		return nil, false
	}
	switch s := st[0].(type) {
	case *ast.IfStmt:
		// shape (b): if o, ok := other.(T); ok { return CMP }
		if s.Init == nil || s.Else != nil || len(s.Body.List) != 1 {
			return nil, false
		}
		o, okv, typ, ok := typeAssert(s.Init, param)
		if !ok || !isIdent(s.Cond, okv) || kindCode(typ) < 0 {
			return nil, false
		}
		r, ok := isReturn(s.Body.List[0])
		if !ok {
			return nil, false
		}
		mode, ok := c.cmpMode(r, o, typ)
		if !ok {
			return nil, false
		}
		rows[typ] = mode
		return rows, true
	case *ast.TypeSwitchStmt:
		// shape (c): switch o := other.(type) { case T: return CMP }
		if s.Init != nil {
			return nil, false
		}
		o := "\x00none"
		var ta *ast.TypeAssertExpr
		switch a := s.Assign.(type) {
		case *ast.AssignStmt:
			if len(a.Lhs) != 1 || len(a.Rhs) != 1 {
				return nil, false
			}
			o = a.Lhs[0].(*ast.Ident).Name
			ta, _ = a.Rhs[0].(*ast.TypeAssertExpr)
		case *ast.ExprStmt:
			ta, _ = a.X.(*ast.TypeAssertExpr)
		}
		if ta == nil || ta.Type != nil || !isIdent(ta.X, param) {
			return nil, false
		}
		for _, cc := range s.Body.List {
			cl := cc.(*ast.CaseClause)
			if len(cl.Body) != 1 {
				return nil, false
			}
			r, ok := isReturn(cl.Body[0])
			if !ok {
				return nil, false
			}
			if cl.List == nil { // default: must be return false
				if !isIdent(r, "false") {
					return nil, false
				}
				continue
			}
			if len(cl.List) != 1 { // with several types the bound variable keeps the interface type
				if !isIdent(r, "false") && !isIdent(r, "true") {
					return nil, false
				}
			}
			for _, t := range cl.List {
				tid, ok := t.(*ast.Ident)
				if !ok || kindCode(tid.Name) < 0 {
					return nil, false
				}
				if _, dup := rows[tid.Name]; dup {
					return nil, false
				}
				mode, ok := c.cmpMode(r, o, tid.Name)
				if !ok {
					return nil, false
				}
				rows[tid.Name] = mode
			}
		}
		return rows, true
	}
	return nil, false
}

func (g *gen) valueEquals() {
	g.p("(* data/value.go Equals methods: (receiver kind, other kind, mode) for all 64 pairs.\n")
	g.p("   kinds: 0 Undefined 1 Null 2 Bool 3 Int 4 Float 5 String 6 List 7 Map\n")
	g.p("   modes: 0 returns false | 1 same-type scalar comparison (v == o) | 2 float64(v) == float64(o)\n")
	g.p("          | 3 identity (reflect pointer equality) | 4 returns true *)\n")
	g.p("Definition gen_equals_kinds : list (N * N * N) := [\n")
	var js [][3]int
	var lines []string
	for _, k := range valueKinds {
		rows, ok := g.equalsRows(k)
		if !ok {
			g.fail("data/value.go: (%s).Equals has a shape the translator does not know", k)
			rows = map[string]int{}
		}
		var parts []string
		for _, o := range valueKinds {
			parts = append(parts, fmt.Sprintf("(%d, %d, %d)", kindCode(k), kindCode(o), rows[o]))
			js = append(js, [3]int{kindCode(k), kindCode(o), rows[o]})
		}
		lines = append(lines, "  "+strings.Join(parts, "; ")+" (* "+k+" *)")
	}
	for i, l := range lines {
		// the separator has to precede the comment
		if i < len(lines)-1 {
			l = strings.Replace(l, " (* ", "; (* ", 1)
		}
		g.p("%s\n", l)
	}
	g.p("].\n\n")
	g.js["gen_equals_kinds"] = js
}

// ---- unicode.ToLower above ASCII ----

// toLowerSampleRunes is the fixed sample the generators draw non-ASCII first
// letters of field names from: upper-case letters of several scripts and
// planes, letters whose lower case lies in another block or has another UTF-8
// length, upper-case letters without a lower case, and title/lower/other
// letters (which Go does not export, so they only occur in skipped fields).
var toLowerSampleRunes = []rune{
	0xC0, 0xC9, 0xD6, 0xD8, 0xDC, 0xDE, 0xDF, 0xE9, 0xFF, // Latin-1
	0x100, 0x130, 0x132, 0x178, 0x181, 0x18E, 0x1C4, 0x1C5, 0x1C6, 0x1F1, 0x1F2, 0x23A, 0x23E, 0x243, // Latin extended (0x130 -> i, 0x23A -> 3-byte)
	0x386, 0x391, 0x3A3, 0x3A9, 0x3C2, 0x3CF, 0x3D2, 0x3F4, // Greek
	0x400, 0x410, 0x42F, 0x44F, 0x460, 0x4C0, // Cyrillic
	0x531, 0x556, // Armenian
	0x10A0, 0x10C5, 0x10D0, 0x1C90, // Georgian
	0x13A0, 0x13F5, 0xAB70, // Cherokee
	0x1E00, 0x1E9E, 0x1F08, 0x1FBC, // Latin extended additional, Greek extended
	0x2126, 0x212A, 0x212B, 0x2160, 0x24B6, // letterlike / number forms (Nl, So are not letters: identifiers cannot start with them)
	0x2C00, 0x2C60, 0x2C62, 0x2C7E, 0xA640, 0xA77D, 0xA7AA, 0xA7B3, // Glagolitic, Latin C/D
	0xFF21, 0xFF3A, 0xFF41, // fullwidth
	0x4E16, 0x3042, 0xAC00, 0x5D0, 0x627, // letters without case
	0x10400, 0x10427, 0x10428, 0x104B0, 0x10C80, 0x118A0, 0x16E40, 0x1E900, // supplementary plane with case
	0x1D400, 0x1D49C, 0x1D7CA, // mathematical capitals: upper case without a lower case
	0x20000, // CJK extension B
}

func (g *gen) toLowerSample() {
	rs := append([]rune(nil), toLowerSampleRunes...)
	sort.Slice(rs, func(i, j int) bool { return rs[i] < rs[j] })
	g.p("(* unicode.ToLower evaluated (by the toolchain that builds the harness) on a fixed sample of code points\n")
	g.p("   above ASCII: (rune, ToLower rune, is an upper-case letter (exported first letter)) *)\n")
	g.p("Definition gen_to_lower_sample : list (N * (N * bool)) := [")
	var js [][3]int
	for i, r := range rs {
		if i > 0 {
			g.p("; ")
		}
		up := 0
		if unicode.IsUpper(r) {
			up = 1
		}
		g.p("(%d, (%d, %s))", r, unicode.ToLower(r), coqBool(up == 1))
		js = append(js, [3]int{int(r), int(unicode.ToLower(r)), up})
	}
	g.p("].\n\n")
	g.js["gen_to_lower_sample"] = js
}
