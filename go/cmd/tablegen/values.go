package main

// data/value.go: the bodies of the Truthy and Equals methods, translated by a
// small expression translator, and a sample of unicode.ToLower (lowerCamel of
// struct field names above ASCII is a parameter of the Coq theorems; the model
// runner uses this sample).
//
// Truthy: every method body must be a chain of `if <bool expr> { return <bool expr> }`
// (with or without else) ending in `return <bool expr>`, which is read as the
// nested conditional it is; the expressions are over the receiver and built from
//    true false            bool(v)
//    v != 0  v == 0  v != 0.0 ...        (Int, Float: parameter is_zero)
//    v != "" v == "" len(v) ==/!=/> 0    (String: parameter is_empty)
//    math.IsNaN(float64(v))              (Float: parameter is_nan)
//    float64(v) != math.NaN()            -> true   } what Go's comparison with
//    float64(v) == math.NaN()            -> false  } a NaN operand denotes
//    !e   e && e   e || e   (e)
// Equals: the body is evaluated once for each of the eight kinds the operand can
// have (a partial evaluation: `o, ok := other.(T)` makes ok a known boolean and o a
// value of kind T, a type switch selects its clause, `if`, `!`, `&&`, `||` over known
// booleans are decided, short-circuit included) and must reduce to true, false or one
// comparison CMP of the receiver with the asserted operand; so
//    _, ok := other.(T); return ok
//    if o, ok := other.(T); ok { return CMP }; return false
//    o, ok := other.(T); return ok && CMP          o, ok := ...; if !ok { return false }; return CMP
//    switch o := other.(type) { case T: return CMP ... }; return false
// are all read alike.  A call of a one-line helper of the same file
// (`func same(a, b interface{}) bool { return <expr> }`) is replaced by its body.
// CMP is one of  v == o | bool(v) == bool(o) | string(v) == string(o) |
// int64(v) == int64(o)            -> mode 1 (same-type scalar comparison)
// float64(v) == float64(o)        -> mode 2 (numeric conversion)
// reflect.ValueOf(v).Pointer() == reflect.ValueOf(o).Pointer() -> mode 3 (identity)
// true -> mode 4, false -> mode 0.
// Anything else is reported through g.fail (never guessed).

import (
	"fmt"
	"go/ast"
	"go/token"
	"sort"
	"strings"
	"unicode"
)

func init() {
	register("20-value-truthy", (*gen).valueTruthy)
	register("21-value-equals", (*gen).valueEquals)
	register("22-to-lower-sample", (*gen).toLowerSample)
}

const valueRel = "data/value.go"

// kinds in the order of the codes used by the Coq side (Proofs/ValueTieProofs.v kind_of)
var valueKinds = []string{"Undefined", "Null", "Bool", "Int", "Float", "String", "List", "Map"}

func kindCode(name string) int {
	for i, k := range valueKinds {
		if k == name {
			return i
		}
	}
	return -1
}

func recvName(fd *ast.FuncDecl) string {
	if fd == nil || fd.Recv == nil || len(fd.Recv.List) != 1 || len(fd.Recv.List[0].Names) != 1 {
		return ""
	}
	return fd.Recv.List[0].Names[0].Name
}

func unparen(e ast.Expr) ast.Expr {
	for {
		p, ok := e.(*ast.ParenExpr)
		if !ok {
			return e
		}
		e = p.X
	}
}

func isIdent(e ast.Expr, name string) bool {
	id, ok := unparen(e).(*ast.Ident)
	return ok && id.Name == name
}

// isConv reports whether e is  <conv>(<name>)  e.g. float64(v).
func isConv(e ast.Expr, conv, name string) bool {
	c, ok := unparen(e).(*ast.CallExpr)
	return ok && len(c.Args) == 1 && isIdent(c.Fun, conv) && isIdent(c.Args[0], name)
}

func isSel(e ast.Expr, pkg, name string) bool {
	s, ok := unparen(e).(*ast.SelectorExpr)
	return ok && isIdent(s.X, pkg) && s.Sel.Name == name
}

func isCall0(e ast.Expr, pkg, name string) bool {
	c, ok := unparen(e).(*ast.CallExpr)
	return ok && len(c.Args) == 0 && isSel(c.Fun, pkg, name)
}

// zero literal: 0, 0.0, 0x0, 0e0 ...
func isZeroLit(e ast.Expr) bool {
	bl, ok := unparen(e).(*ast.BasicLit)
	if !ok || (bl.Kind != token.INT && bl.Kind != token.FLOAT) {
		return false
	}
	s := strings.ToLower(bl.Value)
	if strings.HasPrefix(s, "0x") {
		return strings.Trim(s[2:], "0_") == ""
	}
	if i := strings.IndexAny(s, "e"); i >= 0 {
		s = s[:i]
	}
	return strings.Trim(s, "0._") == "" && s != ""
}

func isEmptyStrLit(e ast.Expr) bool {
	s, ok := strLit(unparen(e))
	return ok && s == ""
}

type truthyCtx struct {
	kind string // receiver type
	recv string // receiver variable
}

// recvAs: the receiver itself or a value-preserving conversion of it.
func (c truthyCtx) recvAs(e ast.Expr, convs ...string) bool {
	if isIdent(e, c.recv) {
		return true
	}
	for _, cv := range convs {
		if isConv(e, cv, c.recv) {
			return true
		}
	}
	return false
}

func coqNot(s string) string { return "(negb " + s + ")" }

// truthyExpr translates a boolean expression over the receiver; ok=false means untranslatable.
func (c truthyCtx) truthyExpr(e ast.Expr) (string, bool) {
	e = unparen(e)
	switch x := e.(type) {
	case *ast.Ident:
		if x.Name == "true" || x.Name == "false" {
			return x.Name, true
		}
	case *ast.UnaryExpr:
		if x.Op == token.NOT {
			s, ok := c.truthyExpr(x.X)
			return coqNot(s), ok
		}
	case *ast.CallExpr:
		if c.kind == "Bool" && isConv(x, "bool", c.recv) {
			return "x", true
		}
		if c.kind == "Float" && len(x.Args) == 1 && isSel(x.Fun, "math", "IsNaN") && c.recvAs(x.Args[0], "float64") {
			return "is_nan", true
		}
	case *ast.BinaryExpr:
		switch x.Op {
		case token.LAND, token.LOR:
			l, ok1 := c.truthyExpr(x.X)
			r, ok2 := c.truthyExpr(x.Y)
			op := "&&"
			if x.Op == token.LOR {
				op = "||"
			}
			return "(" + l + " " + op + " " + r + ")", ok1 && ok2
		case token.EQL, token.NEQ:
			a, bb := x.X, x.Y
			// a comparison with a math.NaN() operand: == is false, != is true, whatever the other operand
			if c.kind == "Float" && (isCall0(a, "math", "NaN") || isCall0(bb, "math", "NaN")) {
				other := a
				if isCall0(a, "math", "NaN") {
					other = bb
				}
				if c.recvAs(other, "float64") || isCall0(other, "math", "NaN") {
					return coqBool(x.Op == token.NEQ), true
				}
				return "", false
			}
			var atom string
			switch {
			case (c.kind == "Int" || c.kind == "Float") && ((c.recvAs(a, "int64", "float64", "int") && isZeroLit(bb)) || (c.recvAs(bb, "int64", "float64", "int") && isZeroLit(a))):
				if c.kind == "Int" && (isConv(a, "float64", c.recv) || isConv(bb, "float64", c.recv) || isConv(a, "int", c.recv) || isConv(bb, "int", c.recv)) {
					return "", false // a narrowing or rounding conversion before the test is not "is zero" in general
				}
				if c.kind == "Float" && !(isIdent(a, c.recv) || isIdent(bb, c.recv) || isConv(a, "float64", c.recv) || isConv(bb, "float64", c.recv)) {
					return "", false
				}
				atom = "is_zero"
			case c.kind == "String" && ((c.recvAs(a, "string") && isEmptyStrLit(bb)) || (c.recvAs(bb, "string") && isEmptyStrLit(a))):
				atom = "is_empty"
			case c.kind == "String" && c.isLenRecv(a) && isZeroLit(bb), c.kind == "String" && c.isLenRecv(bb) && isZeroLit(a):
				atom = "is_empty"
			case c.kind == "Bool" && (c.recvAs(a, "bool") && (isIdent(bb, "true") || isIdent(bb, "false"))):
				atom = "x"
				if isIdent(bb, "false") {
					atom = coqNot("x")
				}
			default:
				return "", false
			}
			if x.Op == token.NEQ {
				return coqNot(atom), true
			}
			return atom, true
		case token.GTR:
			if c.kind == "String" && c.isLenRecv(x.X) && isZeroLit(x.Y) {
				return coqNot("is_empty"), true
			}
		}
	}
	return "", false
}

// truthyBody reads a statement list that returns on every path:
//
//	return e                          -> e
//	if c { return a }; rest           -> if c then a else rest
//	if c { return a } else { rest' }  -> if c then a else rest'   (nothing may follow)
//
// the conditional is written with && || negb (simplified when a branch is a literal).
func (c truthyCtx) truthyBody(st []ast.Stmt) (string, bool) {
	if len(st) == 0 {
		return "", false
	}
	switch s := st[0].(type) {
	case *ast.ReturnStmt:
		if len(s.Results) != 1 || len(st) != 1 {
			return "", false
		}
		return c.truthyExpr(s.Results[0])
	case *ast.IfStmt:
		if s.Init != nil {
			return "", false
		}
		cond, ok := c.truthyExpr(s.Cond)
		if !ok {
			return "", false
		}
		thenE, ok := c.truthyBody(s.Body.List)
		if !ok {
			return "", false
		}
		var elseE string
		switch e := s.Else.(type) {
		case nil:
			elseE, ok = c.truthyBody(st[1:])
		case *ast.BlockStmt:
			// the then-branch returns on every path, so what follows the if statement continues the else-branch only
			elseE, ok = c.truthyBody(append(append([]ast.Stmt{}, e.List...), st[1:]...))
		case *ast.IfStmt:
			elseE, ok = c.truthyBody(append([]ast.Stmt{e}, st[1:]...))
		default:
			return "", false
		}
		if !ok {
			return "", false
		}
		return coqIte(cond, thenE, elseE), true
	}
	return "", false
}

// coqIte: if c then a else b over booleans, in the && || negb fragment.
func coqIte(c, a, b string) string {
	switch {
	case a == "true" && b == "false":
		return c
	case a == "false" && b == "true":
		return coqNot(c)
	case a == "false":
		return "(" + coqNot(c) + " && " + b + ")"
	case a == "true":
		return "(" + c + " || " + b + ")"
	case b == "false":
		return "(" + c + " && " + a + ")"
	case b == "true":
		return "(" + coqNot(c) + " || " + a + ")"
	}
	return "((" + c + " && " + a + ") || (" + coqNot(c) + " && " + b + "))"
}

func (c truthyCtx) isLenRecv(e ast.Expr) bool {
	call, ok := unparen(e).(*ast.CallExpr)
	return ok && len(call.Args) == 1 && isIdent(call.Fun, "len") && c.recvAs(call.Args[0], "string")
}

var truthyParams = map[string]string{
	"Undefined": "", "Null": "", "List": "", "Map": "",
	"Bool": " (x : bool)", "Int": " (is_zero : bool)", "Float": " (is_zero is_nan : bool)", "String": " (is_empty : bool)",
}

func (g *gen) valueTruthy() {
	g.p("(* data/value.go Truthy methods, as boolean functions of what the body tests:\n")
	g.p("   x = bool(v); is_zero = (v == 0) (true for +0.0 and -0.0, false for NaN); is_nan = math.IsNaN(v);\n")
	g.p("   is_empty = (v == \"\").  A comparison with math.NaN() is translated to what Go evaluates it to. *)\n")
	js := map[string]string{}
	for _, k := range valueKinds {
		name := "gen_truthy_" + strings.ToLower(k)
		fd := g.method(valueRel, k, "Truthy")
		body := ""
		ok := false
		if fd != nil && fd.Body != nil {
			c := truthyCtx{kind: k, recv: recvName(fd)}
			if c.recv == "" {
				c.recv = "\x00none"
			}
			body, ok = c.truthyBody(fd.Body.List)
		}
		if !ok {
			g.fail("data/value.go: (%s).Truthy is not a chain of `if <translatable boolean expression> { return ... }` ending in `return <translatable boolean expression>`", k)
			body = "false (* UNTRANSLATABLE *)"
		}
		if ok {
			body = keepAtomSpelling(name, body, []string{"x", "is_zero", "is_nan", "is_empty"})
		}
		g.p("Definition %s%s : bool := %s.\n", name, truthyParams[k], body)
		js[name] = body
	}
	g.p("\n")
	g.js["gen_truthy"] = js
}

// ---- Equals ----

type equalsCtx struct {
	kind string
	recv string
	g    *gen
}

// cmpMode classifies the returned comparison; o is the name bound to the asserted operand.
func (c equalsCtx) cmpMode(e ast.Expr, o string, otherKind string) (int, bool) {
	e = unparen(e)
	if isIdent(e, "true") {
		return 4, true
	}
	if isIdent(e, "false") {
		return 0, true
	}
	be, ok := e.(*ast.BinaryExpr)
	if !ok || be.Op != token.EQL {
		return 0, false
	}
	pair := func(f func(x ast.Expr, name string) bool) bool {
		return (f(be.X, c.recv) && f(be.Y, o)) || (f(be.X, o) && f(be.Y, c.recv))
	}
	scalar := map[string]bool{"Bool": true, "Int": true, "Float": true, "String": true}
	conv := map[string]string{"Bool": "bool", "Int": "int64", "Float": "float64", "String": "string"}
	switch {
	case pair(func(x ast.Expr, n string) bool { return isIdent(x, n) }):
		// v == o : only type-correct when both have the receiver's type
		if c.kind == otherKind && scalar[c.kind] {
			return 1, true
		}
	case c.kind == otherKind && scalar[c.kind] && pair(func(x ast.Expr, n string) bool { return isConv(x, conv[c.kind], n) }):
		return 1, true
	case pair(func(x ast.Expr, n string) bool { return isConv(x, "float64", n) }):
		if (c.kind == "Int" || c.kind == "Float") && (otherKind == "Int" || otherKind == "Float") {
			return 2, true
		}
	case pair(func(x ast.Expr, n string) bool {
		// reflect.ValueOf(n).Pointer()
		call, ok := unparen(x).(*ast.CallExpr)
		if !ok || len(call.Args) != 0 {
			return false
		}
		sel, ok := call.Fun.(*ast.SelectorExpr)
		if !ok || sel.Sel.Name != "Pointer" {
			return false
		}
		in, ok := unparen(sel.X).(*ast.CallExpr)
		return ok && len(in.Args) == 1 && isSel(in.Fun, "reflect", "ValueOf") && isIdent(in.Args[0], n)
	}):
		if c.kind == otherKind && (c.kind == "List" || c.kind == "Map") {
			return 3, true
		}
	}
	return 0, false
}

func isReturn(s ast.Stmt) (ast.Expr, bool) {
	rs, ok := s.(*ast.ReturnStmt)
	if !ok || len(rs.Results) != 1 {
		return nil, false
	}
	return rs.Results[0], true
}

// typeAssert matches  <lhs0>, <lhs1> := <param>.(T)
func typeAssert(s ast.Stmt, param string) (lhs0, lhs1, typ string, ok bool) {
	as, isAs := s.(*ast.AssignStmt)
	if !isAs || as.Tok != token.DEFINE || len(as.Lhs) != 2 || len(as.Rhs) != 1 {
		return
	}
	ta, isTa := as.Rhs[0].(*ast.TypeAssertExpr)
	if !isTa || ta.Type == nil || !isIdent(ta.X, param) {
		return
	}
	tid, isId := ta.Type.(*ast.Ident)
	l0, ok0 := as.Lhs[0].(*ast.Ident)
	l1, ok1 := as.Lhs[1].(*ast.Ident)
	if !isId || !ok0 || !ok1 {
		return
	}
	return l0.Name, l1.Name, tid.Name, true
}

// eqVal is what an expression of an Equals body reduces to once the operand's kind is fixed.
type eqVal struct {
	isCmp bool
	b     bool // the constant, when !isCmp
	mode  int  // the comparison, when isCmp
}

// eqEnv: the partial-evaluation state for one operand kind K.
type eqEnv struct {
	c     equalsCtx
	param string            // the operand (an interface value of kind K)
	K     string            // its kind
	bools map[string]bool   // comma-ok results
	bound map[string]string // variable -> kind it holds (assertion succeeded / clause selected); "" = do not use
}

// substIdents copies an expression replacing identifiers (helper inlining); nil = a node kind it does not know.
func substIdents(e ast.Expr, m map[string]ast.Expr) ast.Expr {
	switch x := e.(type) {
	case *ast.Ident:
		if r, ok := m[x.Name]; ok {
			return r
		}
		return x
	case *ast.BasicLit:
		return x
	case *ast.ParenExpr:
		if in := substIdents(x.X, m); in != nil {
			return &ast.ParenExpr{X: in}
		}
	case *ast.UnaryExpr:
		if in := substIdents(x.X, m); in != nil {
			return &ast.UnaryExpr{Op: x.Op, X: in}
		}
	case *ast.BinaryExpr:
		l, r := substIdents(x.X, m), substIdents(x.Y, m)
		if l != nil && r != nil {
			return &ast.BinaryExpr{X: l, Op: x.Op, Y: r}
		}
	case *ast.SelectorExpr:
		if in := substIdents(x.X, m); in != nil {
			return &ast.SelectorExpr{X: in, Sel: x.Sel}
		}
	case *ast.CallExpr:
		f := substIdents(x.Fun, m)
		if f == nil {
			return nil
		}
		var args []ast.Expr
		for _, a := range x.Args {
			in := substIdents(a, m)
			if in == nil {
				return nil
			}
			args = append(args, in)
		}
		return &ast.CallExpr{Fun: f, Args: args}
	}
	return nil
}

// inlineHelper: f(a, b) with f a function of value.go whose body is `return <expr>` and whose arguments
// are identifiers -> <expr> with the parameters replaced; otherwise e itself.
func (en *eqEnv) inlineHelper(e ast.Expr) ast.Expr {
	call, ok := unparen(e).(*ast.CallExpr)
	if !ok {
		return e
	}
	id, ok := call.Fun.(*ast.Ident)
	if !ok {
		return e
	}
	fd := en.c.g.funcDecl(valueRel, id.Name)
	if fd == nil || fd.Body == nil || len(fd.Body.List) != 1 || fd.Type.Params == nil {
		return e
	}
	ret, ok := fd.Body.List[0].(*ast.ReturnStmt)
	if !ok || len(ret.Results) != 1 {
		return e
	}
	var params []string
	for _, f := range fd.Type.Params.List {
		for _, n := range f.Names {
			params = append(params, n.Name)
		}
	}
	if len(params) != len(call.Args) {
		return e
	}
	m := map[string]ast.Expr{}
	for i, a := range call.Args {
		if _, ok := unparen(a).(*ast.Ident); !ok {
			return e
		}
		m[params[i]] = unparen(a)
	}
	if r := substIdents(ret.Results[0], m); r != nil {
		return r
	}
	return e
}

func (en *eqEnv) expr(e ast.Expr) (eqVal, bool) {
	e = unparen(e)
	switch x := e.(type) {
	case *ast.Ident:
		if x.Name == "true" || x.Name == "false" {
			return eqVal{b: x.Name == "true"}, true
		}
		if v, ok := en.bools[x.Name]; ok {
			return eqVal{b: v}, true
		}
		return eqVal{}, false
	case *ast.UnaryExpr:
		if x.Op == token.NOT {
			v, ok := en.expr(x.X)
			if !ok || v.isCmp {
				return eqVal{}, false
			}
			return eqVal{b: !v.b}, true
		}
		return eqVal{}, false
	case *ast.BinaryExpr:
		if x.Op == token.LAND || x.Op == token.LOR {
			l, ok := en.expr(x.X)
			if !ok || l.isCmp {
				return eqVal{}, false // a comparison on the left of && / || is not one of the modes
			}
			if l.b == (x.Op == token.LOR) {
				return l, true // short circuit: the right operand is not evaluated
			}
			return en.expr(x.Y)
		}
	}
	// one comparison of the receiver with a variable that holds the operand at kind K
	e = en.inlineHelper(e)
	for o, k := range en.bound {
		if k == en.K {
			if m, ok := en.c.cmpMode(e, o, k); ok {
				switch m {
				case 0:
					return eqVal{b: false}, true
				case 4:
					return eqVal{b: true}, true
				}
				return eqVal{isCmp: true, mode: m}, true
			}
		}
	}
	return eqVal{}, false
}

// assertStmt handles `a, b := <param>.(T)`.
func (en *eqEnv) assertStmt(s ast.Stmt) bool {
	l0, l1, typ, ok := typeAssert(s, en.param)
	if !ok || kindCode(typ) < 0 {
		return false
	}
	hit := typ == en.K
	if l1 != "_" {
		en.bools[l1] = hit
		delete(en.bound, l1)
	}
	if l0 != "_" {
		delete(en.bools, l0)
		if hit {
			en.bound[l0] = typ
		} else {
			en.bound[l0] = "" // the zero value of T: a comparison with it is not one of the modes
		}
	}
	return true
}

// stmts evaluates a statement list; returned = it executed a return statement.
func (en *eqEnv) stmts(st []ast.Stmt) (v eqVal, returned, ok bool) {
	for _, s := range st {
		switch s := s.(type) {
		case *ast.ReturnStmt:
			if len(s.Results) != 1 {
				return eqVal{}, false, false
			}
			v, ok := en.expr(s.Results[0])
			return v, true, ok
		case *ast.AssignStmt:
			if !en.assertStmt(s) {
				return eqVal{}, false, false
			}
		case *ast.IfStmt:
			if s.Init != nil && !en.assertStmt(s.Init) {
				return eqVal{}, false, false
			}
			c, ok := en.expr(s.Cond)
			if !ok || c.isCmp {
				return eqVal{}, false, false
			}
			var branch []ast.Stmt
			if c.b {
				branch = s.Body.List
			} else {
				switch e := s.Else.(type) {
				case nil:
				case *ast.BlockStmt:
					branch = e.List
				case *ast.IfStmt:
					branch = []ast.Stmt{e}
				default:
					return eqVal{}, false, false
				}
			}
			v, ret, ok := en.stmts(branch)
			if !ok {
				return eqVal{}, false, false
			}
			if ret {
				return v, true, true
			}
		case *ast.TypeSwitchStmt:
			if s.Init != nil {
				return eqVal{}, false, false
			}
			o := ""
			var ta *ast.TypeAssertExpr
			switch a := s.Assign.(type) {
			case *ast.AssignStmt:
				if len(a.Lhs) != 1 || len(a.Rhs) != 1 {
					return eqVal{}, false, false
				}
				id, isId := a.Lhs[0].(*ast.Ident)
				if !isId {
					return eqVal{}, false, false
				}
				o = id.Name
				ta, _ = a.Rhs[0].(*ast.TypeAssertExpr)
			case *ast.ExprStmt:
				ta, _ = a.X.(*ast.TypeAssertExpr)
			}
			if ta == nil || ta.Type != nil || !isIdent(ta.X, en.param) {
				return eqVal{}, false, false
			}
			var chosen, deflt *ast.CaseClause
			seen := map[string]bool{}
			for _, cc := range s.Body.List {
				cl := cc.(*ast.CaseClause)
				if cl.List == nil {
					deflt = cl
					continue
				}
				for _, t := range cl.List {
					tid, isId := t.(*ast.Ident)
					if !isId || kindCode(tid.Name) < 0 || seen[tid.Name] {
						return eqVal{}, false, false // nil, other types, duplicates: not modelled
					}
					seen[tid.Name] = true
					if tid.Name == en.K && chosen == nil {
						chosen = cl
					}
				}
			}
			if chosen == nil {
				chosen = deflt
			}
			if chosen == nil {
				continue
			}
			if o != "" {
				delete(en.bools, o)
				if len(chosen.List) == 1 {
					en.bound[o] = en.K
				} else {
					en.bound[o] = "" // several types or default: the variable keeps the interface type
				}
			}
			v, ret, ok := en.stmts(chosen.Body)
			if o != "" {
				delete(en.bound, o)
			}
			if !ok {
				return eqVal{}, false, false
			}
			if ret {
				return v, true, true
			}
		default:
			return eqVal{}, false, false
		}
	}
	return eqVal{}, false, true
}

// equalsRows translates one Equals method into other-kind -> mode.
func (g *gen) equalsRows(k string) (map[string]int, bool) {
	fd := g.method(valueRel, k, "Equals")
	if fd == nil || fd.Body == nil || fd.Type.Params == nil || len(fd.Type.Params.List) != 1 || len(fd.Type.Params.List[0].Names) != 1 {
		return nil, false
	}
	param := fd.Type.Params.List[0].Names[0].Name
	c := equalsCtx{kind: k, recv: recvName(fd), g: g}
	if c.recv == "" {
		c.recv = "\x00none"
	}
	rows := map[string]int{}
	for _, K := range valueKinds {
		en := &eqEnv{c: c, param: param, K: K, bools: map[string]bool{}, bound: map[string]string{}}
		v, returned, ok := en.stmts(fd.Body.List)
		if !ok || !returned {
			return nil, false
		}
		switch {
		case v.isCmp:
			rows[K] = v.mode
		case v.b:
			rows[K] = 4
		default:
			rows[K] = 0
		}
	}
	return rows, true
}

func (g *gen) valueEquals() {
	g.p("(* data/value.go Equals methods: (receiver kind, other kind, mode) for all 64 pairs.\n")
	g.p("   kinds: 0 Undefined 1 Null 2 Bool 3 Int 4 Float 5 String 6 List 7 Map\n")
	g.p("   modes: 0 returns false | 1 same-type scalar comparison (v == o) | 2 float64(v) == float64(o)\n")
	g.p("          | 3 identity (reflect pointer equality) | 4 returns true *)\n")
	g.p("Definition gen_equals_kinds : list (N * N * N) := [\n")
	var js [][3]int
	var lines []string
	for _, k := range valueKinds {
		rows, ok := g.equalsRows(k)
		if !ok {
			g.fail("data/value.go: (%s).Equals has a shape the translator does not know", k)
			rows = map[string]int{}
		}
		var parts []string
		for _, o := range valueKinds {
			parts = append(parts, fmt.Sprintf("(%d, %d, %d)", kindCode(k), kindCode(o), rows[o]))
			js = append(js, [3]int{kindCode(k), kindCode(o), rows[o]})
		}
		lines = append(lines, "  "+strings.Join(parts, "; ")+" (* "+k+" *)")
	}
	for i, l := range lines {
		// the separator has to precede the comment
		if i < len(lines)-1 {
			l = strings.Replace(l, " (* ", "; (* ", 1)
		}
		g.p("%s\n", l)
	}
	g.p("].\n\n")
	g.js["gen_equals_kinds"] = js
}

// ---- unicode.ToLower above ASCII ----

// toLowerSampleRunes is the fixed sample the generators draw non-ASCII first
// letters of field names from: upper-case letters of several scripts and
// planes, letters whose lower case lies in another block or has another UTF-8
// length, upper-case letters without a lower case, and title/lower/other
// letters (which Go does not export, so they only occur in skipped fields).
var toLowerSampleRunes = []rune{
	0xC0, 0xC9, 0xD6, 0xD8, 0xDC, 0xDE, 0xDF, 0xE9, 0xFF, // Latin-1
	0x100, 0x130, 0x132, 0x178, 0x181, 0x18E, 0x1C4, 0x1C5, 0x1C6, 0x1F1, 0x1F2, 0x23A, 0x23E, 0x243, // Latin extended (0x130 -> i, 0x23A -> 3-byte)
	0x386, 0x391, 0x3A3, 0x3A9, 0x3C2, 0x3CF, 0x3D2, 0x3F4, // Greek
	0x400, 0x410, 0x42F, 0x44F, 0x460, 0x4C0, // Cyrillic
	0x531, 0x556, // Armenian
	0x10A0, 0x10C5, 0x10D0, 0x1C90, // Georgian
	0x13A0, 0x13F5, 0xAB70, // Cherokee
	0x1E00, 0x1E9E, 0x1F08, 0x1FBC, // Latin extended additional, Greek extended
	0x2126, 0x212A, 0x212B, 0x2160, 0x24B6, // letterlike / number forms (Nl, So are not letters: identifiers cannot start with them)
	0x2C00, 0x2C60, 0x2C62, 0x2C7E, 0xA640, 0xA77D, 0xA7AA, 0xA7B3, // Glagolitic, Latin C/D
	0xFF21, 0xFF3A, 0xFF41, // fullwidth
	0x4E16, 0x3042, 0xAC00, 0x5D0, 0x627, // letters without case
	0x10400, 0x10427, 0x10428, 0x104B0, 0x10C80, 0x118A0, 0x16E40, 0x1E900, // supplementary plane with case
	0x1D400, 0x1D49C, 0x1D7CA, // mathematical capitals: upper case without a lower case
	0x20000, // CJK extension B
}

func (g *gen) toLowerSample() {
	rs := append([]rune(nil), toLowerSampleRunes...)
	sort.Slice(rs, func(i, j int) bool { return rs[i] < rs[j] })
	g.p("(* unicode.ToLower evaluated (by the toolchain that builds the harness) on a fixed sample of code points\n")
	g.p("   above ASCII: (rune, ToLower rune, is an upper-case letter (exported first letter)) *)\n")
	g.p("Definition gen_to_lower_sample : list (N * (N * bool)) := [")
	var js [][3]int
	for i, r := range rs {
		if i > 0 {
			g.p("; ")
		}
		up := 0
		if unicode.IsUpper(r) {
			up = 1
		}
		g.p("(%d, (%d, %s))", r, unicode.ToLower(r), coqBool(up == 1))
		js = append(js, [3]int{int(r), int(unicode.ToLower(r)), up})
	}
	g.p("].\n\n")
	g.js["gen_to_lower_sample"] = js
}
