package main

// gotrans: expressions.  See gotrans.go for the subset and its semantics.

import (
	"fmt"
	"go/ast"
	"go/constant"
	"go/token"
	"math/big"
	"path/filepath"
	"reflect"
	"strings"
	"unicode/utf8"
)

// a partial sub-expression (one that can panic) is hoisted into a bind: go_bind code (fun v => ...)
type gbind struct{ v, code string }

type ex struct {
	binds []gbind
	code  string
	typ   *gtype
	k     constant.Value // non-nil: a constant
	fresh bool           // a map / slice that was just made (make, a composite literal, append): no alias of anything
}

// ---------------------------------------------------------------------------------------
// environment
// ---------------------------------------------------------------------------------------

type gvar struct {
	coq      string
	typ      *gtype
	goName   string
	indexOf  *gvar             // this is the index variable of a `for i := 0; i < len(s); i++` loop over indexOf
	elemCode string            // ... and s[i] is this code
	banned   string            // non-empty: any use is outside the subset, for this reason
	known    constant.Value    // the variable is known to hold this constant here (ok of a comma-ok lookup, under its match)
	fcoq     map[string]string // struct variable: the Coq names that currently hold the fields that were assigned
	ptr      bool              // struct parameter passed by pointer (assignments to its fields reach the caller)
	seq      int               // declaration order (binder order of loop functions is declaration order, not name order)
	asTuple  bool              // struct-typed element variable of a list loop: ONE Coq value (a tuple), fields by projection
}

var gvarSeq int

type venv struct{ scopes []map[string]*gvar }

func (e *venv) clone() *venv {
	n := &venv{}
	for _, s := range e.scopes {
		m := map[string]*gvar{}
		for k, v := range s {
			c := *v
			if v.fcoq != nil {
				c.fcoq = map[string]string{}
				for f, n := range v.fcoq {
					c.fcoq[f] = n
				}
			}
			m[k] = &c
		}
		n.scopes = append(n.scopes, m)
	}
	return n
}
func (e *venv) push() *venv { e.scopes = append(e.scopes, map[string]*gvar{}); return e }
func (e *venv) pop() *venv  { e.scopes = e.scopes[:len(e.scopes)-1]; return e }
func (e *venv) lookup(name string) *gvar {
	for i := len(e.scopes) - 1; i >= 0; i-- {
		if v, ok := e.scopes[i][name]; ok {
			return v
		}
	}
	return nil
}
func (e *venv) declare(name string, v *gvar) {
	gvarSeq++
	v.seq = gvarSeq
	e.scopes[len(e.scopes)-1][name] = v
}

// assign rebinds an existing variable (in the scope where it lives) to a new Coq name.
func (e *venv) assign(name, coq string) {
	for i := len(e.scopes) - 1; i >= 0; i-- {
		if v, ok := e.scopes[i][name]; ok {
			v.coq = coq
			return
		}
	}
}

// ---------------------------------------------------------------------------------------
// translator state of one function
// ---------------------------------------------------------------------------------------

type gtTr struct {
	g        *gen
	st       *gtState
	p        *gpkg
	f        *ast.File
	fn       *gtFn
	names    map[string]int
	nfresh   int
	abstract map[string]bool
	// struct parameters: fields read
	structs    []*gvar
	usedFields map[string]map[string]bool
	usedVars   map[string]bool
	fieldNames map[string]bool
	brk        []brkTarget
	cnt        []brkTarget // where `continue` goes
	cfg        *gtCfg
	loopIndex  map[ast.Node]int    // for / range statements of the function, numbered in source order from 1
	ifaceKey   string              // sort key of the interface field last resolved by ifaceField
	listKey    string              // ... and of the slice-of-nodes field last resolved by stringerList
	autoFuel   map[ast.Node]string // fuel measures of loops the translator itself writes (range over a string)
	callRename map[string]string   // during one call: prefixes of the callee's interface-method parameters -> the caller's
	named      []string            // named results used as variables
	loopCache  map[ast.Node]*loopCache
	inMutCall  bool
	elemMut    bool // the function assigns elements of maps / slices: no local aliases of maps / slices
}

func (tr *gtTr) newName(goName string) string {
	base := "v_" + goName
	n := tr.names[base]
	tr.names[base] = n + 1
	if n == 0 {
		return base
	}
	return fmt.Sprintf("%s_%d", base, n)
}

func (tr *gtTr) fresh() string {
	tr.nfresh++
	return fmt.Sprintf("o%d", tr.nfresh)
}

func (tr *gtTr) isVar(env *venv) func(string) bool {
	return func(n string) bool { return env.lookup(n) != nil }
}

// ---------------------------------------------------------------------------------------
// literals
// ---------------------------------------------------------------------------------------

func zLit(v constant.Value) string {
	s := v.ExactString()
	if strings.HasPrefix(s, "-") {
		return "(" + s + ")%Z"
	}
	return s + "%Z"
}

func zLitInt(n int64) string { return zLit(constant.MakeInt64(n)) }

func bstrLit(s string) string {
	if s == "" {
		return "(@nil N)"
	}
	return coqBytes(s)
}

func constEx(v constant.Value, t *gtype) ex {
	switch v.Kind() {
	case constant.Int:
		return ex{code: zLit(v), typ: t, k: v}
	case constant.Bool:
		return ex{code: coqBool(constant.BoolVal(v)), typ: t, k: v}
	case constant.String:
		return ex{code: bstrLit(constant.StringVal(v)), typ: t, k: v}
	}
	gtFail("constant of kind %v is outside the subset", v.Kind())
	return ex{}
}

func pow2(n int) string { return new(big.Int).Lsh(big.NewInt(1), uint(n)).String() }

func wrapCode(t *gtype, code string) string {
	if t.untyped || t.bits == 0 {
		gtFail("internal: wrap of an untyped integer")
	}
	if t.signed {
		return fmt.Sprintf("(go_wrap_s %d%%Z %s)", t.bits, code)
	}
	return fmt.Sprintf("(go_wrap_u %d%%Z %s)", t.bits, code)
}

func mergeBinds(a, b []gbind) []gbind { return append(append([]gbind{}, a...), b...) }

// asOption renders an expression with its binds as a term of type option T.
func asOption(e ex) string {
	s := "Some " + paren(e.code)
	for i := len(e.binds) - 1; i >= 0; i-- {
		s = fmt.Sprintf("go_bind %s (fun %s => %s)", paren(e.binds[i].code), e.binds[i].v, s)
	}
	return s
}

// ---------------------------------------------------------------------------------------
// expressions
// ---------------------------------------------------------------------------------------

func (tr *gtTr) expr(e ast.Expr, env *venv) ex {
	// constant expressions are evaluated exactly, as the Go compiler does
	if v, t, ok := tr.g.constEval(tr.p, tr.f, e, -1, tr.isVar(env)); ok {
		return constEx(v, t)
	}
	switch x := e.(type) {
	case *ast.ParenExpr:
		return tr.expr(x.X, env)
	case *ast.Ident:
		if x.Name == "nil" {
			gtFail("nil is outside the subset")
		}
		v := env.lookup(x.Name)
		if v == nil {
			gtFail("identifier %s is neither a local, a parameter nor a constant", x.Name)
		}
		if v.typ == tBuffer {
			gtFail("the bytes.Buffer %s is used other than through Write*, Reset, String, Bytes, Len, template.HTMLEscape(&%s, ...)", v.goName, v.goName)
		}
		return tr.useVar(v)
	case *ast.BasicLit:
		gtFail("literal %s is outside the subset", x.Value)
	case *ast.UnaryExpr:
		a := tr.expr(x.X, env)
		switch x.Op {
		case token.NOT:
			if a.typ.kind == kBool && a.k != nil {
				return constEx(constant.UnaryOp(token.NOT, a.k, 0), a.typ)
			}
			if a.typ.kind == kBool {
				return ex{binds: a.binds, code: "(negb " + a.code + ")", typ: tBool}
			}
		case token.SUB:
			if a.typ.kind == kInt && !a.typ.untyped {
				return ex{binds: a.binds, code: wrapCode(a.typ, "(Z.opp "+a.code+")"), typ: a.typ}
			}
		case token.ADD:
			if a.typ.kind == kInt {
				return a
			}
		}
		gtFail("unary operator %s on %s is outside the subset", x.Op, a.typ.name)
	case *ast.BinaryExpr:
		return tr.binary(x, env)
	case *ast.CallExpr:
		return tr.call(x, env)
	case *ast.IndexExpr:
		return tr.index(x, env)
	case *ast.SelectorExpr:
		// a field of a struct parameter
		if id, ok := x.X.(*ast.Ident); ok {
			if v := env.lookup(id.Name); v != nil {
				if v.asTuple && v.banned == "" {
					// the element variable of a list loop over structs: one Coq value, fields by projection
					tr.usedVars[v.coq] = true
					return tr.project(ex{code: v.coq, typ: v.typ}, x.Sel.Name)
				}
				return tr.field(v, x.Sel.Name)
			}
		}
		if inner, ok := x.X.(*ast.SelectorExpr); ok {
			// x.f.g with x a struct parameter and f a struct field
			if id, ok := inner.X.(*ast.Ident); ok {
				if v := env.lookup(id.Name); v != nil && v.typ.kind == kStruct {
					for _, fl := range v.typ.fields {
						if fl.name == inner.Sel.Name && fl.typ.kind == kStruct {
							sub := tr.structVar(v.goName+"."+inner.Sel.Name, fl.typ)
							return tr.field(sub, x.Sel.Name)
						}
					}
				}
			}
		}
		if _, isId := unparen(x.X).(*ast.Ident); !isId {
			if a := tr.expr(x.X, env); a.typ.kind == kStruct && a.typ.storable() {
				return tr.project(a, x.Sel.Name)
			}
		}
		gtFail("selector %s is outside the subset", gtExprText(x))
	case *ast.CompositeLit:
		if k, ok := tr.valueKindLit(x); ok {
			// data.Undefined{} / data.Null{} as a value: a parameter of the translated function
			name := "val_undefined"
			if k == kindCode("Null") {
				name = "val_null"
			}
			tr.fn.usesV = true
			tr.fn.valueParams[name] = true
			return ex{code: name, typ: tValue}
		}
		if x.Type != nil {
			t := tr.g.resolveTypeSoft(tr.p, tr.f, x.Type, 0)
			if t.kind == kMap && t.supported() {
				return tr.mapLit(x, t, env)
			}
			if t.kind == kStruct && t.storable() {
				return tr.structLit(x, t, env)
			}
		}
		gtFail("composite literal %s is outside the subset here", gtExprText(x.Type))
	case *ast.SliceExpr:
		return tr.slice(x, env)
	case *ast.TypeAssertExpr:
		return tr.assertPayload(x, env)
	case *ast.FuncLit:
		gtFail("function literal is outside the subset")
	case *ast.StarExpr:
		if id, ok := unparen(x.X).(*ast.Ident); ok {
			if v := env.lookup(id.Name); v != nil && v.ptr && v.typ.kind != kStruct {
				return tr.useVar(v) // *s for a receiver s *T with T a named slice / map type
			}
		}
		gtFail("pointer dereference is outside the subset")
	}
	gtFail("expression %T is outside the subset", e)
	return ex{}
}

func gtExprText(e ast.Expr) string {
	switch x := e.(type) {
	case *ast.Ident:
		return x.Name
	case *ast.SelectorExpr:
		return gtExprText(x.X) + "." + x.Sel.Name
	case *ast.StarExpr:
		return "*" + gtExprText(x.X)
	case *ast.CallExpr:
		return gtExprText(x.Fun) + "(...)"
	case *ast.ArrayType, *ast.MapType:
		return typeText(e)
	case nil:
		return "<nil>"
	}
	return fmt.Sprintf("%T", e)
}

func (tr *gtTr) useVar(v *gvar) ex {
	if v.banned != "" {
		gtFail("%s", v.banned)
	}
	if v.indexOf != nil {
		gtFail("loop index %s is used other than as %s[%s]", v.goName, v.indexOf.goName, v.goName)
	}
	if v.typ.kind == kStruct {
		gtFail("struct value %s is used as a whole", v.goName)
	}
	if !v.typ.supported() {
		gtFail("%s has type %s, which is outside the subset", v.goName, v.typ.name)
	}
	if v.typ.usesValue() {
		tr.fn.usesV = true
	}
	if v.known != nil {
		return constEx(v.known, v.typ)
	}
	tr.usedVars[v.coq] = true
	return ex{code: v.coq, typ: v.typ}
}

// structVar returns the pseudo-variable for a struct-typed parameter (or nested struct field) path.
func (tr *gtTr) structVar(path string, t *gtype) *gvar {
	for _, s := range tr.structs {
		if s.goName == path {
			return s
		}
	}
	v := &gvar{goName: path, typ: t, coq: "v_" + strings.ReplaceAll(path, ".", "_")}
	tr.structs = append(tr.structs, v)
	return v
}

func (tr *gtTr) field(v *gvar, name string) ex {
	if v.banned != "" {
		gtFail("%s", v.banned)
	}
	if v.typ.kind != kStruct {
		gtFail("%s.%s: %s is not a struct parameter", v.goName, name, v.goName)
	}
	sv := tr.structVar(v.goName, v.typ)
	for _, fl := range v.typ.fields {
		if fl.name == name {
			if !fl.typ.supported() {
				gtFail("field %s.%s has type %s, which is outside the subset", v.goName, name, fl.typ.name)
			}
			// the flattened name must not capture (or be captured by) a local variable's name
			flat := sv.coq + "_" + name
			if !tr.fieldNames[flat] {
				if tr.names[flat] > 0 {
					gtFail("the name %s of field %s.%s clashes with a local variable", flat, v.goName, name)
				}
				tr.fieldNames[flat] = true
				tr.names[flat] = 1
			}
			if tr.usedFields[sv.goName] == nil {
				tr.usedFields[sv.goName] = map[string]bool{}
			}
			tr.usedFields[sv.goName][name] = true
			if fl.typ.usesValue() {
				tr.fn.usesV = true
			}
			code := sv.coq + "_" + name
			if c := v.fcoq[name]; c != "" {
				code = c
			}
			tr.usedVars[code] = true
			return ex{code: code, typ: fl.typ}
		}
	}
	gtFail("%s has no field %s", v.goName, name)
	return ex{}
}

// unify gives an untyped constant operand the type of the other operand.
func unify(a, b *ex, what string) {
	if a.typ.kind != b.typ.kind {
		gtFail("%s: operands of kinds %s and %s", what, a.typ.name, b.typ.name)
	}
	if a.typ.untyped && !b.typ.untyped {
		if a.typ.kind == kInt && a.k != nil && !fitsInt(a.k, b.typ) {
			gtFail("%s: constant %s overflows %s", what, a.k, b.typ.name)
		}
		a.typ = b.typ
	} else if b.typ.untyped && !a.typ.untyped {
		if b.typ.kind == kInt && b.k != nil && !fitsInt(b.k, a.typ) {
			gtFail("%s: constant %s overflows %s", what, b.k, a.typ.name)
		}
		b.typ = a.typ
	}
	if a.typ.kind == kInt && !a.typ.untyped && (a.typ.bits != b.typ.bits || a.typ.signed != b.typ.signed) {
		gtFail("%s: mismatched integer types %s and %s", what, a.typ.name, b.typ.name)
	}
}

// valueKindLit recognises data.Null{} / data.Undefined{} (and the other concrete data types' empty literals are not values).
func (tr *gtTr) valueKindLit(e ast.Expr) (int, bool) {
	cl, ok := unparen(e).(*ast.CompositeLit)
	if !ok || len(cl.Elts) != 0 || cl.Type == nil {
		return 0, false
	}
	t := tr.g.resolveTypeSoft(tr.p, tr.f, cl.Type, 0)
	if t.valueKind == kindCode("Null") || t.valueKind == kindCode("Undefined") {
		return t.valueKind, t.valueKind >= 0
	}
	return 0, false
}

func (tr *gtTr) kindOf(code string) string {
	tr.fn.usesV = true
	tr.fn.valueParams["val_kind"] = true
	return "(val_kind " + code + ")"
}

func (tr *gtTr) binary(x *ast.BinaryExpr, env *venv) ex {
	switch x.Op {
	case token.LAND, token.LOR:
		a := tr.expr(x.X, env)
		b := tr.expr(x.Y, env)
		if a.typ.kind != kBool || b.typ.kind != kBool {
			gtFail("%s on non-boolean operands", x.Op)
		}
		fn := "andb"
		if x.Op == token.LOR {
			fn = "orb"
		}
		if len(b.binds) == 0 {
			return ex{binds: a.binds, code: "(" + fn + " " + a.code + " " + b.code + ")", typ: tBool}
		}
		// the right operand can panic: it is evaluated only when the left one does not decide
		v := tr.fresh()
		var code string
		if x.Op == token.LAND {
			code = fmt.Sprintf("if %s then %s else Some false", a.code, asOption(b))
		} else {
			code = fmt.Sprintf("if %s then Some true else %s", a.code, asOption(b))
		}
		return ex{binds: mergeBinds(a.binds, []gbind{{v, code}}), code: v, typ: tBool}
	case token.EQL, token.NEQ, token.LSS, token.LEQ, token.GTR, token.GEQ:
		// strings.IndexRune(lit, r) compared with 0 / -1
		if c, ok := tr.indexRuneCmp(x, env); ok {
			return c
		}
		// n.F == nil / n.F != nil for a field of /repo interface type of a struct parameter
		if x.Op == token.EQL || x.Op == token.NEQ {
			for _, pr := range [][2]ast.Expr{{x.X, x.Y}, {x.Y, x.X}} {
				if id, isId := unparen(pr[1]).(*ast.Ident); isId && id.Name == "nil" && env.lookup("nil") == nil {
					if l, ok := tr.stringerList(pr[0], env); ok {
						// a slice field compared with nil: its own flag (a nil slice and an empty one differ in Go)
						flag := strings.TrimSuffix(l.code, "_String") + "_nil"
						tr.fn.addAbstract(gtAbstract{name: flag, typ: "bool", key: tr.listKey + ":0nil"})
						if x.Op == token.NEQ {
							return ex{code: "(negb " + flag + ")", typ: tBool}
						}
						return ex{code: flag, typ: tBool}
					}
					if flag, ok := tr.ifaceFieldNil(pr[0], env); ok {
						if x.Op == token.NEQ {
							return ex{code: "(negb " + flag + ")", typ: tBool}
						}
						return ex{code: flag, typ: tBool}
					}
				}
			}
		}
		// interface value compared with data.Null{} / data.Undefined{}
		if x.Op == token.EQL || x.Op == token.NEQ {
			for _, pr := range [][2]ast.Expr{{x.X, x.Y}, {x.Y, x.X}} {
				if k, ok := tr.valueKindLit(pr[1]); ok {
					a := tr.expr(pr[0], env)
					if a.typ.kind != kValue {
						gtFail("comparison of a %s with a data literal", a.typ.name)
					}
					code := "(Z.eqb " + tr.kindOf(a.code) + " " + zLitInt(int64(k)) + ")"
					if x.Op == token.NEQ {
						code = "(negb " + code + ")"
					}
					return ex{binds: a.binds, code: code, typ: tBool}
				}
			}
		}
		// err != nil / err == nil
		if x.Op == token.EQL || x.Op == token.NEQ {
			for _, pr := range [][2]ast.Expr{{x.X, x.Y}, {x.Y, x.X}} {
				if isIdent(unparen(pr[1]), "nil") && env.lookup("nil") == nil {
					a := tr.expr(pr[0], env)
					if !a.typ.isErr {
						gtFail("comparison of a %s with nil is outside the subset", a.typ.name)
					}
					if x.Op == token.NEQ {
						return ex{binds: a.binds, code: a.code, typ: tBool}
					}
					return ex{binds: a.binds, code: "(negb " + a.code + ")", typ: tBool}
				}
			}
		}
		a := tr.expr(x.X, env)
		b := tr.expr(x.Y, env)
		if a.typ.isErr || b.typ.isErr {
			gtFail("comparison of error values (other than with nil) is outside the subset")
		}
		unify(&a, &b, "comparison")
		var code string
		switch a.typ.kind {
		case kInt:
			fn := map[token.Token]string{token.EQL: "Z.eqb", token.NEQ: "Z.eqb", token.LSS: "Z.ltb", token.LEQ: "Z.leb", token.GTR: "Z.gtb", token.GEQ: "Z.geb"}[x.Op]
			code = "(" + fn + " " + a.code + " " + b.code + ")"
		case kString:
			if x.Op != token.EQL && x.Op != token.NEQ {
				gtFail("ordering of strings is outside the subset")
			}
			code = "(bstr_eqb " + a.code + " " + b.code + ")"
		case kBool:
			if x.Op != token.EQL && x.Op != token.NEQ {
				gtFail("ordering of booleans")
			}
			code = "(Bool.eqb " + a.code + " " + b.code + ")"
		default:
			gtFail("comparison of %s values is outside the subset", a.typ.name)
		}
		if x.Op == token.NEQ {
			code = "(negb " + code + ")"
		}
		return ex{binds: mergeBinds(a.binds, b.binds), code: code, typ: tBool}
	case token.SHL, token.SHR:
		a := tr.expr(x.X, env)
		b := tr.expr(x.Y, env)
		if a.typ.kind != kInt || a.typ.untyped || b.k == nil || b.k.Kind() != constant.Int || constant.Sign(b.k) < 0 {
			gtFail("shift: the operand must be a typed integer and the count a non-negative constant")
		}
		if x.Op == token.SHL {
			return ex{binds: a.binds, code: wrapCode(a.typ, "(Z.shiftl "+a.code+" "+zLit(b.k)+")"), typ: a.typ}
		}
		return ex{binds: a.binds, code: "(Z.shiftr " + a.code + " " + zLit(b.k) + ")", typ: a.typ}
	case token.ADD, token.SUB, token.MUL, token.QUO, token.REM, token.AND, token.OR, token.XOR, token.AND_NOT:
		a := tr.expr(x.X, env)
		b := tr.expr(x.Y, env)
		unify(&a, &b, "operator "+x.Op.String())
		binds := mergeBinds(a.binds, b.binds)
		if a.typ.kind == kString && x.Op == token.ADD {
			return ex{binds: binds, code: "(" + a.code + " ++ " + b.code + ")", typ: tString}
		}
		if a.typ.kind != kInt || a.typ.untyped {
			gtFail("operator %s on %s is outside the subset", x.Op, a.typ.name)
		}
		switch x.Op {
		case token.ADD:
			return ex{binds: binds, code: wrapCode(a.typ, "(Z.add "+a.code+" "+b.code+")"), typ: a.typ}
		case token.SUB:
			return ex{binds: binds, code: wrapCode(a.typ, "(Z.sub "+a.code+" "+b.code+")"), typ: a.typ}
		case token.MUL:
			return ex{binds: binds, code: wrapCode(a.typ, "(Z.mul "+a.code+" "+b.code+")"), typ: a.typ}
		case token.QUO, token.REM:
			if b.k == nil || constant.Sign(b.k) == 0 {
				gtFail("division: the divisor must be a non-zero constant (division by zero panics)")
			}
			if x.Op == token.QUO {
				// MinInt / -1 is the only quotient that overflows
				if a.typ.signed && constant.Compare(b.k, token.EQL, constant.MakeInt64(-1)) {
					return ex{binds: binds, code: wrapCode(a.typ, "(Z.quot "+a.code+" "+b.code+")"), typ: a.typ}
				}
				return ex{binds: binds, code: "(Z.quot " + a.code + " " + b.code + ")", typ: a.typ}
			}
			return ex{binds: binds, code: "(Z.rem " + a.code + " " + b.code + ")", typ: a.typ}
		case token.AND:
			return ex{binds: binds, code: "(Z.land " + a.code + " " + b.code + ")", typ: a.typ}
		case token.OR:
			return ex{binds: binds, code: "(Z.lor " + a.code + " " + b.code + ")", typ: a.typ}
		case token.XOR:
			return ex{binds: binds, code: "(Z.lxor " + a.code + " " + b.code + ")", typ: a.typ}
		case token.AND_NOT:
			return ex{binds: binds, code: "(Z.ldiff " + a.code + " " + b.code + ")", typ: a.typ}
		}
	}
	gtFail("binary operator %s is outside the subset", x.Op)
	return ex{}
}

// libCall recognises pkg.Func(...) for an imported (non-/repo) package.
func (tr *gtTr) libCall(c *ast.CallExpr, env *venv) (pkg, name string, ok bool) {
	sel, isSel := c.Fun.(*ast.SelectorExpr)
	if !isSel {
		return "", "", false
	}
	q, isId := sel.X.(*ast.Ident)
	if !isId || env.lookup(q.Name) != nil {
		return "", "", false
	}
	path := importOf(tr.f, q.Name)
	if q.Name == " utf8" {
		path = "unicode/utf8" // written by runeRange in a file that does not import the package
	}
	if path == "" {
		return "", "", false
	}
	if _, isRepo := repoDirOf(path); isRepo {
		return "", "", false
	}
	return path, sel.Sel.Name, true
}

// constString evaluates a constant string argument (a literal or a const).
func (tr *gtTr) constString(e ast.Expr, env *venv, what string) string {
	v, _, ok := tr.g.constEval(tr.p, tr.f, e, -1, tr.isVar(env))
	if !ok || v.Kind() != constant.String {
		gtFail("%s: the argument must be a constant string", what)
	}
	return constant.StringVal(v)
}

func (tr *gtTr) constStringOrBytes(e ast.Expr, env *venv, what string) string {
	if c, ok := unparen(e).(*ast.CallExpr); ok && len(c.Args) == 1 {
		if _, isArr := c.Fun.(*ast.ArrayType); isArr {
			return tr.constString(c.Args[0], env, what)
		}
	}
	return tr.constString(e, env, what)
}

func runeSet(s, what string) string {
	if !utf8.ValidString(s) {
		gtFail("%s: the set is not valid UTF-8", what)
	}
	var parts []string
	for _, r := range s {
		parts = append(parts, zLitInt(int64(r)))
	}
	return "[" + strings.Join(parts, "; ") + "]"
}

func (tr *gtTr) memRune(set, r ast.Expr, env *venv, what string) ex {
	s := tr.constString(set, env, what)
	a := tr.expr(r, env)
	if a.typ.kind != kInt {
		gtFail("%s: the rune argument is not an integer", what)
	}
	// for a valid-UTF-8 set IndexRune finds r exactly when r is one of its runes: an invalid rune
	// (negative, surrogate, > MaxRune) is never found, and RuneError only matches a literal U+FFFD.
	return ex{binds: a.binds, code: "(go_mem_z " + a.code + " " + runeSet(s, what) + ")", typ: tBool}
}

func (tr *gtTr) indexRuneCmp(x *ast.BinaryExpr, env *venv) (ex, bool) {
	c, ok := unparen(x.X).(*ast.CallExpr)
	if !ok {
		return ex{}, false
	}
	pkg, name, ok := tr.libCall(c, env)
	if !ok || pkg != "strings" || name != "IndexRune" || len(c.Args) != 2 {
		return ex{}, false
	}
	v, _, isC := tr.g.constEval(tr.p, tr.f, x.Y, -1, tr.isVar(env))
	if !isC || v.Kind() != constant.Int {
		gtFail("strings.IndexRune: only comparisons of the result with the constants 0 and -1 are in the subset")
	}
	n, _ := constant.Int64Val(v)
	m := tr.memRune(c.Args[0], c.Args[1], env, "strings.IndexRune")
	switch {
	case (x.Op == token.GEQ && n == 0) || (x.Op == token.NEQ && n == -1) || (x.Op == token.GTR && n == -1):
		return m, true
	case (x.Op == token.LSS && n == 0) || (x.Op == token.EQL && n == -1) || (x.Op == token.LEQ && n == -1):
		m.code = "(negb " + m.code + ")"
		return m, true
	}
	gtFail("strings.IndexRune: only `>= 0`, `!= -1`, `> -1`, `< 0`, `== -1`, `<= -1` are in the subset")
	return ex{}, false
}

func (tr *gtTr) args(list []ast.Expr, env *venv) ([]ex, []gbind) {
	var out []ex
	var binds []gbind
	for _, a := range list {
		e := tr.expr(a, env)
		binds = mergeBinds(binds, e.binds)
		out = append(out, e)
	}
	return out, binds
}

func (tr *gtTr) call(c *ast.CallExpr, env *venv) ex {
	allowMut := tr.inMutCall // only the outermost call of a statement may change state, not a call among its arguments
	tr.inMutCall = false
	if c.Ellipsis.IsValid() {
		gtFail("call with ... is outside the subset")
	}
	// the reversed slice of a walk from the end (gotrans_norm.go: revRange)
	if isIdent(c.Fun, gtRevName) && len(c.Args) == 1 {
		a := tr.expr(c.Args[0], env)
		if a.typ.kind != kSlice && a.typ != tBytes {
			gtFail("walk from the end of a %s", a.typ.name)
		}
		return ex{binds: a.binds, code: "(rev " + a.code + ")", typ: a.typ}
	}
	// conversion
	if len(c.Args) == 1 && tr.g.isTypeExpr(tr.p, tr.f, c.Fun, tr.isVar(env)) {
		return tr.conversion(tr.g.resolveType(tr.p, tr.f, c.Fun, 0), c.Args[0], env)
	}
	// builtins
	if id, ok := c.Fun.(*ast.Ident); ok && env.lookup(id.Name) == nil {
		if _, isFn := tr.p.funcs[id.Name]; !isFn {
			switch id.Name {
			case "len":
				if len(c.Args) != 1 {
					gtFail("len: arity")
				}
				if l, ok := tr.stringerList(c.Args[0], env); ok {
					return ex{code: "(go_len " + l.code + ")", typ: basicInts["int"]}
				}
				a := tr.expr(c.Args[0], env)
				switch a.typ.kind {
				case kString, kSlice, kMap:
					return ex{binds: a.binds, code: "(go_len " + a.code + ")", typ: basicInts["int"]}
				}
				gtFail("len of %s is outside the subset", a.typ.name)
			case "panic":
				gtFail("panic used as an expression")
			case "append":
				return tr.appendCall(c, env)
			case "make":
				return tr.makeCall(c, env)
			}
			gtFail("call of %s is outside the subset", id.Name)
		}
	}
	// x.String() on an element of a slice of nodes
	if sel, ok := c.Fun.(*ast.SelectorExpr); ok && sel.Sel.Name == "String" && len(c.Args) == 0 {
		if id, isId := unparen(sel.X).(*ast.Ident); isId {
			if v := env.lookup(id.Name); v != nil && v.typ == tStringer {
				o := tr.fresh()
				return ex{binds: []gbind{{o, v.coq}}, code: o, typ: tString}
			}
		}
	}
	// b.String() / b.Bytes() / b.Len() of a local bytes.Buffer
	if v := tr.bufferVar(c.Fun, env); v != nil && len(c.Args) == 0 {
		cur := tr.useVar(v).code
		switch c.Fun.(*ast.SelectorExpr).Sel.Name {
		case "String":
			return ex{code: cur, typ: tString}
		case "Bytes":
			return ex{code: cur, typ: tBytes}
		case "Len":
			return ex{code: "(go_len " + cur + ")", typ: basicInts["int"]}
		}
	}
	// library functions
	if pkg, name, ok := tr.libCall(c, env); ok {
		return tr.library(pkg, name, c, env)
	}
	// v.String() on a data.Value: the parameter val_string : V -> option bstr (Undefined.String panics)
	if sel, ok := c.Fun.(*ast.SelectorExpr); ok && sel.Sel.Name == "String" && len(c.Args) == 0 {
		isVal := false
		switch x := unparen(sel.X).(type) {
		case *ast.Ident:
			if v := env.lookup(x.Name); v != nil && v.typ.kind == kValue {
				isVal = true
			}
		case *ast.IndexExpr:
			if id, ok := unparen(x.X).(*ast.Ident); ok {
				if v := env.lookup(id.Name); v != nil && v.typ.kind == kSlice && v.typ.elem.kind == kValue {
					isVal = true
				}
			}
		}
		if isVal {
			a := tr.expr(sel.X, env)
			tr.fn.usesV = true
			tr.fn.valueParams["val_string"] = true
			o := tr.fresh()
			return ex{binds: mergeBinds(a.binds, []gbind{{o, "val_string " + a.code}}), code: o, typ: tString}
		}
	}
	// re.ReplaceAllString(src, repl) on a package-level `var re = regexp.MustCompile(<constant>)` that nothing assigns:
	// regular expressions are not modelled, the method stays a parameter re_<var>_ReplaceAllString : bstr -> bstr -> bstr
	// (one per variable, so the ORDER of several replacements and their templates are translated), and the pattern
	// text is emitted as src_<pkg>_<var>_pattern for the lemma that names the matcher it is instantiated with
	if e, ok := tr.regexpMethod(c, env); ok {
		return e
	}
	// n.F.M() on a field of /repo interface type of a struct parameter: the parameters m_n_F_nil / m_n_F_M
	if e, ok := tr.ifaceFieldMethod(c, env); ok {
		return e
	}
	// x.M() on a parameter of a /repo interface type: the value is a parameter of the translated function
	if e, ok := tr.ifaceMethod(c, env); ok {
		return e
	}
	// functions and methods of /repo
	callee, recvExpr := tr.resolveCallee(c, env)
	list := c.Args
	if recvExpr != nil {
		list = append([]ast.Expr{recvExpr}, list...)
	}
	if len(list) != len(callee.params) {
		gtFail("call of %s with %d arguments for %d parameters", callee.key, len(list), len(callee.params))
	}
	var args []ex
	var binds []gbind
	var rename map[string]string
	for i, a := range list {
		if callee.params[i].typ.kind == kStruct {
			// a struct (or pointer to struct) that the callee only reads: pass the fields it reads
			id, ok := unparen(a).(*ast.Ident)
			var v *gvar
			if ok {
				v = env.lookup(id.Name)
			}
			if v == nil || v.typ.kind != kStruct || v.typ.nname != callee.params[i].typ.nname || v.typ.ndir != callee.params[i].typ.ndir {
				gtFail("call of %s: the struct argument %d is not a struct parameter of the same type", callee.key, i+1)
			}
			for _, path := range callee.params[i].fields {
				fe := tr.fieldPath(v, path)
				args = append(args, fe)
			}
			continue
		}
		if pt := callee.params[i].typ; pt.kind == kOther && pt.ndir != "" {
			// a parameter of a /repo interface type handed on to a helper: the callee has no binder for it, only the
			// parameters m_<its name>_<Method> for the methods it calls; they are the caller's m_<argument>_<Method>
			if id, ok := unparen(a).(*ast.Ident); ok {
				if v := env.lookup(id.Name); v != nil && v.typ.kind == kOther && v.typ.ndir == pt.ndir && v.typ.nname == pt.nname && tr.isParam(id.Name) {
					if rename == nil {
						rename = map[string]string{}
					}
					rename["m_"+callee.params[i].goName+"_"] = "m_" + id.Name + "_"
					continue
				}
			}
		}
		e := tr.expr(a, env)
		binds = mergeBinds(binds, e.binds)
		e.binds = nil
		args = append(args, tr.checkArg(callee, i, e))
	}
	tr.callRename = rename
	defer func() { tr.callRename = nil }()
	tr.inMutCall = allowMut
	defer func() { tr.inMutCall = false }()
	return tr.applyFn(callee, args, binds)
}

// applyFn builds the call of a translated (or abstract) function.
func (tr *gtTr) applyFn(callee *gtFn, args []ex, binds []gbind) ex {
	if len(callee.muts) > 0 && !tr.inMutCall {
		gtFail("call of %s, which changes its receiver or an argument, inside an expression (only as a statement or as the whole right-hand side of an assignment)", callee.key)
	}
	if len(callee.results) != 1 && len(callee.muts) == 0 && !tr.inMutCall {
		gtFail("call of %s, which does not return exactly one value", callee.key)
	}
	parts := []string{callee.coqName}
	if !callee.abstract {
		if len(tr.callRename) == 0 {
			tr.inherit(callee)
			parts = append(parts, callee.implicitArgs()...)
		} else {
			// the callee's interface-method parameters under the names of the caller's arguments
			ren := func(n string) string {
				for from, to := range tr.callRename {
					if strings.HasPrefix(n, from) {
						return to + n[len(from):]
					}
				}
				return n
			}
			renamed := *callee
			renamed.abstracts = nil
			for _, a := range callee.abstracts {
				a.name = ren(a.name)
				renamed.abstracts = append(renamed.abstracts, a)
			}
			tr.inherit(&renamed)
			parts = append(parts, renamed.implicitArgs()...)
		}
	}
	for _, a := range args {
		parts = append(parts, a.code)
	}
	code := "(" + strings.Join(parts, " ") + ")"
	var rt *gtype
	if len(callee.muts) > 0 || len(callee.results) != 1 {
		rt = &gtype{kind: kOther, name: "(state, results) of " + callee.key, valueKind: -1}
		for _, r := range callee.results {
			if r.usesValue() {
				tr.fn.usesV = true
			}
		}
	} else {
		rt = callee.results[0]
	}
	if rt.usesValue() {
		tr.fn.usesV = true
	}
	if callee.partial {
		v := tr.fresh()
		return ex{binds: mergeBinds(binds, []gbind{{v, code}}), code: v, typ: rt}
	}
	return ex{binds: binds, code: code, typ: rt}
}

func (tr *gtTr) checkArg(callee *gtFn, i int, a ex) ex {
	pt := callee.params[i].typ
	if !pt.supported() {
		gtFail("call of %s: parameter %s has type %s, which cannot be passed", callee.key, callee.params[i].goName, pt.name)
	}
	if a.typ.kind != pt.kind {
		gtFail("call of %s: argument %d has kind %s, parameter %s", callee.key, i+1, a.typ.name, pt.name)
	}
	if a.typ.kind == kInt && a.typ.untyped && a.k != nil && !fitsInt(a.k, pt) {
		gtFail("call of %s: constant argument overflows %s", callee.key, pt.name)
	}
	return a
}

// fieldPath reads v.f or v.f.g (path "f" / "f.g") of a struct variable.
func (tr *gtTr) fieldPath(v *gvar, path string) ex {
	parts := strings.Split(path, ".")
	cur := v
	for i := 0; i < len(parts)-1; i++ {
		var ft *gtype
		for _, fl := range cur.typ.fields {
			if fl.name == parts[i] {
				ft = fl.typ
			}
		}
		if ft == nil || ft.kind != kStruct {
			gtFail("%s has no struct field %s", cur.goName, parts[i])
		}
		cur = tr.structVar(cur.goName+"."+parts[i], ft)
	}
	return tr.field(cur, parts[len(parts)-1])
}

// inherit: the caller needs every implicit parameter of the callee.
func (tr *gtTr) isParam(name string) bool {
	for _, prm := range tr.fn.params {
		if prm.goName == name {
			return true
		}
	}
	return false
}

func (tr *gtTr) inherit(callee *gtFn) {
	if callee.usesV {
		tr.fn.usesV = true
	}
	for k := range callee.valueParams {
		tr.fn.valueParams[k] = true
	}
	for k := range callee.preds {
		tr.fn.preds[k] = true
	}
	for _, a := range callee.abstracts {
		tr.fn.addAbstract(a)
	}
}

func (tr *gtTr) resolveCallee(c *ast.CallExpr, env *venv) (*gtFn, ast.Expr) {
	switch f := c.Fun.(type) {
	case *ast.Ident:
		if env.lookup(f.Name) != nil {
			gtFail("call of the function value %s", f.Name)
		}
		if tr.abstract[f.Name] {
			return tr.abstractFn(tr.p, f.Name), nil
		}
		return tr.st.translate(tr.g, tr.p.dir, f.Name, tr.fn), nil
	case *ast.SelectorExpr:
		if q, ok := f.X.(*ast.Ident); ok && env.lookup(q.Name) == nil {
			if dir, ok := repoDirOf(importOf(tr.f, q.Name)); ok {
				return tr.st.translate(tr.g, dir, f.Sel.Name, tr.fn), nil
			}
			gtFail("call of %s.%s is outside the subset", q.Name, f.Sel.Name)
		}
		// a method of a named /repo type
		var rt *gtype
		if id, ok := unparen(f.X).(*ast.Ident); ok && env.lookup(id.Name) != nil && env.lookup(id.Name).typ.kind == kStruct {
			rt = env.lookup(id.Name).typ
		} else {
			rt = tr.expr(f.X, env).typ
		}
		if rt.ndir == "" {
			gtFail("method call %s on a value of type %s is outside the subset", f.Sel.Name, rt.name)
		}
		return tr.st.translate(tr.g, rt.ndir, rt.nname+"."+f.Sel.Name, tr.fn), f.X
	}
	gtFail("call of %s is outside the subset", gtExprText(c.Fun))
	return nil, nil
}

// abstractFn: a callee that stays a parameter of the translated function (its own body is not in the subset).
func (tr *gtTr) abstractFn(p *gpkg, name string) *gtFn {
	fd := p.funcs[name]
	if fd == nil || fd.Recv != nil {
		gtFail("abstract callee %s not found", name)
	}
	fn := &gtFn{key: p.dir + ":" + name, coqName: "f_" + name, abstract: true, valueParams: map[string]bool{}, preds: map[string]bool{}}
	var ts []string
	for _, fl := range fd.Type.Params.List {
		t := tr.g.resolveType(p, p.funcIn[name], fl.Type, 0)
		if !t.supported() || t.usesValue() {
			gtFail("abstract callee %s: parameter type %s", name, t.name)
		}
		n := len(fl.Names)
		if n == 0 {
			n = 1
		}
		for i := 0; i < n; i++ {
			fn.params = append(fn.params, gtParam{goName: "_", typ: t})
			ts = append(ts, paren(t.coq()))
		}
	}
	if fd.Type.Results == nil || len(fd.Type.Results.List) != 1 || len(fd.Type.Results.List[0].Names) > 1 {
		gtFail("abstract callee %s: not exactly one result", name)
	}
	rt := tr.g.resolveType(p, p.funcIn[name], fd.Type.Results.List[0].Type, 0)
	if !rt.supported() || rt.usesValue() {
		gtFail("abstract callee %s: result type %s", name, rt.name)
	}
	fn.results = []*gtype{rt}
	ts = append(ts, paren(rt.coq()))
	tr.fn.addAbstract(gtAbstract{name: "f_" + name, typ: strings.Join(ts, " -> ")})
	return fn
}

func (tr *gtTr) conversion(to *gtype, arg ast.Expr, env *venv) ex {
	a := tr.expr(arg, env)
	switch {
	case to.kind == kInt && a.typ.kind == kInt:
		if a.k != nil && a.typ.untyped {
			if !fitsInt(a.k, to) {
				gtFail("conversion: constant %s overflows %s", a.k, to.name)
			}
			a.typ = to
			return a
		}
		lo1, hi1 := intRange(a.typ)
		lo2, hi2 := intRange(to)
		if constant.Compare(lo1, token.GEQ, lo2) && constant.Compare(hi1, token.LEQ, hi2) {
			return ex{binds: a.binds, code: a.code, typ: to} // value-preserving
		}
		return ex{binds: a.binds, code: wrapCode(to, a.code), typ: to}
	case to.kind == kString && a.typ.kind == kString:
		if to.valueKind >= 0 {
			return ex{binds: a.binds, code: a.code, typ: to} // data.String(x): no longer a Go constant of the subset
		}
		return ex{binds: a.binds, code: a.code, typ: to, k: a.k}
	case to.kind == kBool && a.typ.kind == kBool:
		if to.valueKind >= 0 {
			return ex{binds: a.binds, code: a.code, typ: to}
		}
		return ex{binds: a.binds, code: a.code, typ: to, k: a.k}
	case to.kind == kString && to != tBytes && a.typ.kind == kSlice && a.typ.elem.kind == kInt && a.typ.elem.bits == 32 && a.typ.elem.signed:
		// string([]rune): UTF-8 encoding is not part of the vocabulary here; the conversion is the parameter f_string_runes
		tr.fn.addAbstract(gtAbstract{name: "f_string_runes", typ: "list Z -> bstr"})
		return ex{binds: a.binds, code: "(f_string_runes " + a.code + ")", typ: tString}
	case to.kind == kString && a.typ.kind == kInt:
		gtFail("string(rune) is outside the subset")
	}
	gtFail("conversion from %s to %s is outside the subset", a.typ.name, to.name)
	return ex{}
}

var predParam = map[string]string{"IsLetter": "uni_letter", "IsDigit": "uni_digit", "IsSpace": "uni_space"}

func (tr *gtTr) library(pkg, name string, c *ast.CallExpr, env *venv) ex {
	full := filepath.Base(pkg) + "." + name
	need := func(n int) {
		if len(c.Args) != n {
			gtFail("%s: expected %d arguments", full, n)
		}
	}
	switch {
	case pkg == "unicode" && predParam[name] != "":
		need(1)
		a := tr.expr(c.Args[0], env)
		if a.typ.kind != kInt {
			gtFail("%s of a non-integer", full)
		}
		tr.fn.preds[predParam[name]] = true
		return ex{binds: a.binds, code: "(" + predParam[name] + " " + a.code + ")", typ: tBool}
	case pkg == "errors" && name == "New":
		// an error value: only "is not nil" is modelled; the message must still be evaluated (it may panic)
		need(1)
		a := tr.expr(c.Args[0], env)
		if a.typ.kind != kString {
			gtFail("errors.New of a non-string")
		}
		if len(a.binds) > 0 {
			d := tr.fresh()
			return ex{binds: mergeBinds(a.binds, []gbind{{d, "Some " + paren(a.code)}}), code: "true", typ: tErr}
		}
		return ex{code: "true", typ: tErr}
	case pkg == "unicode/utf8" && name == "RuneStart":
		need(1)
		a := tr.expr(c.Args[0], env)
		if a.typ.kind != kInt || a.typ.bits != 8 || a.typ.signed {
			gtFail("utf8.RuneStart of a non-byte")
		}
		return ex{binds: a.binds, code: "(negb (Z.eqb (Z.land " + a.code + " 192%Z) 128%Z))", typ: tBool}
	case pkg == "strings" && name == "ContainsRune":
		need(2)
		return tr.memRune(c.Args[0], c.Args[1], env, full)
	case pkg == "strings" && name == "IndexRune":
		gtFail("strings.IndexRune: only comparisons of the result with 0 / -1 are in the subset")
	case (pkg == "strings" || pkg == "bytes") && (name == "HasPrefix" || name == "HasSuffix"):
		need(2)
		args, binds := tr.args(c.Args, env)
		if args[0].typ.kind != kString || args[1].typ.kind != kString {
			gtFail("%s: arguments are not strings", full)
		}
		if name == "HasPrefix" {
			return ex{binds: binds, code: "(is_prefix " + args[1].code + " " + args[0].code + ")", typ: tBool}
		}
		return ex{binds: binds, code: "(go_has_suffix " + args[1].code + " " + args[0].code + ")", typ: tBool}
	case (pkg == "strings" || pkg == "bytes") && (name == "TrimPrefix" || name == "TrimSuffix"):
		need(2)
		args, binds := tr.args(c.Args, env)
		if args[0].typ.kind != kString || args[1].typ.kind != kString {
			gtFail("%s: arguments are not strings", full)
		}
		fn := "go_trim_prefix"
		if name == "TrimSuffix" {
			fn = "go_trim_suffix"
		}
		return ex{binds: binds, code: "(" + fn + " " + args[1].code + " " + args[0].code + ")", typ: args[0].typ}
	case (pkg == "strings" || pkg == "bytes") && (name == "ToLower" || name == "ToUpper"):
		// Unicode case mapping is not modelled here: the function stays a parameter (f_strings_ToLower : bstr -> bstr)
		need(1)
		a := tr.expr(c.Args[0], env)
		if a.typ.kind != kString {
			gtFail("%s of a non-string", full)
		}
		pn := "f_strings_" + name
		tr.fn.addAbstract(gtAbstract{name: pn, typ: "bstr -> bstr"})
		return ex{binds: a.binds, code: "(" + pn + " " + a.code + ")", typ: a.typ}
	case pkg == "text/template" && name == "HTMLEscapeString":
		// library code, modelled by hand (Model/Escape.v): the function stays a parameter
		need(1)
		a := tr.expr(c.Args[0], env)
		if a.typ.kind != kString {
			gtFail("%s of a non-string", full)
		}
		tr.fn.addAbstract(gtAbstract{name: "f_template_HTMLEscapeString", typ: "bstr -> bstr"})
		return ex{binds: a.binds, code: "(f_template_HTMLEscapeString " + a.code + ")", typ: tString}
	case pkg == "strings" && (name == "Replace" || name == "ReplaceAll"):
		if name == "Replace" {
			need(4)
			v, _, ok := tr.g.constEval(tr.p, tr.f, c.Args[3], -1, tr.isVar(env))
			if !ok || v.Kind() != constant.Int || constant.Sign(v) >= 0 {
				gtFail("strings.Replace: only n < 0 (replace all) is in the subset")
			}
		} else {
			need(3)
		}
		old := tr.constString(c.Args[1], env, full)
		if old == "" {
			gtFail("%s: empty pattern", full)
		}
		s := tr.expr(c.Args[0], env)
		nw := tr.expr(c.Args[2], env)
		if s.typ.kind != kString || nw.typ.kind != kString {
			gtFail("%s: arguments are not strings", full)
		}
		return ex{binds: mergeBinds(s.binds, nw.binds), code: "(go_replace_all " + bstrLit(old) + " " + nw.code + " " + s.code + ")", typ: tString}
	case pkg == "strings" && name == "Join":
		// strings.Join(strings.Split(s, old), new) with a non-empty constant old: every non-overlapping occurrence of old,
		// from the left, replaced by new -- the same function as strings.Replace(s, old, new, -1), and translated as that
		need(2)
		inner, ok := unparen(c.Args[0]).(*ast.CallExpr)
		if ok {
			if p2, n2, isLib := tr.libCall(inner, env); isLib && p2 == "strings" && n2 == "Split" && len(inner.Args) == 2 {
				old := tr.constString(inner.Args[1], env, "strings.Split")
				if old == "" {
					gtFail("strings.Split: empty separator")
				}
				s := tr.expr(inner.Args[0], env)
				nw := tr.expr(c.Args[1], env)
				if s.typ.kind != kString || nw.typ.kind != kString {
					gtFail("%s: arguments are not strings", full)
				}
				return ex{binds: mergeBinds(s.binds, nw.binds), code: "(go_replace_all " + bstrLit(old) + " " + nw.code + " " + s.code + ")", typ: tString}
			}
		}
		gtFail("strings.Join is in the subset only as strings.Join(strings.Split(s, <constant>), new)")
	case (pkg == "strings" || pkg == "bytes") && (name == "Count" || name == "LastIndex" || name == "Index"):
		need(2)
		sep := tr.constStringOrBytes(c.Args[1], env, full)
		if len(sep) != 1 {
			gtFail("%s: only a one-byte constant separator is in the subset", full)
		}
		a := tr.expr(c.Args[0], env)
		if a.typ.kind != kString {
			gtFail("%s: the first argument is not a string", full)
		}
		fn := map[string]string{"Count": "go_count_byte", "LastIndex": "go_last_index_byte", "Index": "go_index_byte"}[name]
		return ex{binds: a.binds, code: fmt.Sprintf("(%s %d %s)", fn, sep[0], a.code), typ: basicInts["int"]}
	case (pkg == "strings" || pkg == "bytes") && (name == "IndexByte" || name == "LastIndexByte"):
		// strings.IndexByte(s, c) = strings.Index(s, string(c)) for a constant byte c
		need(2)
		cv, _, ok := tr.g.constEval(tr.p, tr.f, c.Args[1], -1, tr.isVar(env))
		if !ok || cv.Kind() != constant.Int {
			gtFail("%s: only a constant byte is in the subset", full)
		}
		cb, exact := constant.Int64Val(cv)
		if !exact || cb < 0 || cb > 255 {
			gtFail("%s: the byte is out of range", full)
		}
		a := tr.expr(c.Args[0], env)
		if a.typ.kind != kString {
			gtFail("%s: the first argument is not a string", full)
		}
		fn := map[string]string{"IndexByte": "go_index_byte", "LastIndexByte": "go_last_index_byte"}[name]
		return ex{binds: a.binds, code: fmt.Sprintf("(%s %d %s)", fn, cb, a.code), typ: basicInts["int"]}
	case pkg == "strconv" && name == "FormatBool":
		need(1)
		a := tr.expr(c.Args[0], env)
		if a.typ.kind != kBool {
			gtFail("strconv.FormatBool of a non-boolean")
		}
		return ex{binds: a.binds, code: "(go_format_bool " + a.code + ")", typ: tString}
	case pkg == "strconv" && name == "FormatInt":
		need(2)
		base, _, ok := tr.g.constEval(tr.p, tr.f, c.Args[1], -1, tr.isVar(env))
		if !ok || base.Kind() != constant.Int || !constant.Compare(base, token.EQL, constant.MakeInt64(10)) {
			gtFail("strconv.FormatInt: only base 10 is in the subset")
		}
		a := tr.expr(c.Args[0], env)
		if a.typ.kind != kInt {
			gtFail("strconv.FormatInt of a non-integer")
		}
		return ex{binds: a.binds, code: "(dec_of_Z " + a.code + ")", typ: tString}
	case pkg == "fmt" && name == "Sprintf":
		return tr.sprintf(c, env)
	case pkg == "strconv" && name == "Itoa":
		need(1)
		a := tr.expr(c.Args[0], env)
		if a.typ.kind != kInt {
			gtFail("strconv.Itoa of a non-integer")
		}
		return ex{binds: a.binds, code: "(dec_of_Z " + a.code + ")", typ: tString}
	}
	gtFail("library function %s is not in the fixed list", full)
	return ex{}
}

// toValue: the implicit conversion of a concrete data.Bool / data.Int / data.String to the interface data.Value.
var valueCtor = map[string]struct{ name, typ string }{"Bool": {"val_of_bool", "bool -> V"}, "Int": {"val_of_int", "Z -> V"}, "String": {"val_of_string", "bstr -> V"}}

func (tr *gtTr) toValue(v ex, what string) ex {
	if v.typ.kind == kValue {
		return v
	}
	if v.typ.valueKind >= 0 {
		if c, ok := valueCtor[valueKinds[v.typ.valueKind]]; ok {
			tr.fn.usesV = true
			tr.fn.valueParams[c.name] = true
			return ex{binds: v.binds, code: "(" + c.name + " " + v.code + ")", typ: tValue}
		}
	}
	gtFail("%s: a %s where a data.Value is expected", what, v.typ.name)
	return ex{}
}

// x.(data.T) in its one-valued form: the payload, or a panic when x holds another type.  The projection is a
// parameter val_as_<kind> : V -> option <payload>.
func (tr *gtTr) assertPayload(x *ast.TypeAssertExpr, env *venv) ex {
	if x.Type == nil {
		gtFail("x.(type) outside a type switch")
	}
	a := tr.expr(x.X, env)
	if a.typ.kind != kValue {
		gtFail("type assertion on a %s", a.typ.name)
	}
	t := tr.g.resolveTypeSoft(tr.p, tr.f, x.Type, 0)
	if t.valueKind < 0 {
		gtFail("type assertion to %s, which is not a concrete data type", t.name)
	}
	name := "val_as_" + strings.ToLower(valueKinds[t.valueKind])
	found := false
	for _, vp := range valueParamOrder {
		if vp.name == name {
			found = true
		}
	}
	if !found || !t.supported() {
		gtFail("type assertion to %s: no payload in the subset", t.name)
	}
	tr.fn.usesV = true
	tr.fn.valueParams[name] = true
	v := tr.fresh()
	return ex{binds: mergeBinds(a.binds, []gbind{{v, name + " " + a.code}}), code: v, typ: t}
}

func zeroOf(t *gtype) string {
	switch t.kind {
	case kBool:
		return "false"
	case kInt:
		return "0%Z"
	case kString:
		return "(@nil N)"
	case kSlice, kMap:
		return "[]"
	}
	gtFail("zero value of %s is outside the subset", t.name)
	return ""
}

// lookupFns returns the lookup / membership functions for a key type.
func lookupFns(k *gtype) (get, has string) {
	switch k.kind {
	case kInt:
		return "go_lookup_z", "go_has_z"
	case kString:
		return "go_lookup_s", "go_has_s"
	}
	gtFail("map key type %s is outside the subset", k.name)
	return "", ""
}

// mapOperand translates the map of an index expression: a parameter map or a package-level map literal.
func (tr *gtTr) mapOperand(e ast.Expr, env *venv) (ex, bool) {
	if id, ok := unparen(e).(*ast.Ident); ok && env.lookup(id.Name) == nil {
		if _, isVar := tr.p.vars[id.Name]; isVar {
			name, t := tr.st.mapTable(tr.g, tr.p, id.Name, tr.fn)
			return ex{code: name, typ: t}, true
		}
	}
	a := tr.expr(e, env)
	return a, a.typ.kind == kMap
}

func (tr *gtTr) index(x *ast.IndexExpr, env *venv) ex {
	// s[i] inside `for i := 0; i < len(s); i++`
	if si, ok := unparen(x.X).(*ast.Ident); ok {
		if ii, ok := unparen(x.Index).(*ast.Ident); ok {
			sv, iv := env.lookup(si.Name), env.lookup(ii.Name)
			if sv != nil && iv != nil && iv.indexOf != nil && iv.indexOf.coq == sv.coq && iv.indexOf.goName == sv.goName {
				return ex{code: iv.elemCode, typ: elemType(sv.typ)}
			}
		}
	}
	m, isMap := tr.mapOperand(x.X, env)
	if isMap {
		k := tr.expr(x.Index, env)
		if k.typ.kind != m.typ.key.kind {
			gtFail("map index of kind %s for key type %s", k.typ.name, m.typ.key.name)
		}
		get, _ := lookupFns(m.typ.key)
		if m.typ.elem.usesValue() {
			gtFail("m[k] on a map of data.Value without the comma-ok form (the zero value nil is outside the subset)")
		}
		return ex{binds: mergeBinds(m.binds, k.binds), code: "(" + get + " " + k.code + " " + m.code + " " + zeroOf(m.typ.elem) + ")", typ: m.typ.elem}
	}
	i := tr.expr(x.Index, env)
	if i.typ.kind != kInt {
		gtFail("index is not an integer")
	}
	v := tr.fresh()
	switch m.typ.kind {
	case kString:
		return ex{binds: mergeBinds(mergeBinds(m.binds, i.binds), []gbind{{v, "go_index_b " + m.code + " " + i.code}}), code: v, typ: basicInts["byte"]}
	case kSlice:
		if m.typ.elem.usesValue() {
			tr.fn.usesV = true
		}
		return ex{binds: mergeBinds(mergeBinds(m.binds, i.binds), []gbind{{v, "go_index " + m.code + " " + i.code}}), code: v, typ: m.typ.elem}
	}
	gtFail("indexing a %s is outside the subset", m.typ.name)
	return ex{}
}

// s[lo:hi] on a string / []byte: None when the bounds are out of range (Go panics)
func (tr *gtTr) slice(x *ast.SliceExpr, env *venv) ex {
	if x.Slice3 && (x.High == nil || x.Max == nil || gtExprString(x.High) != gtExprString(x.Max)) {
		gtFail("three-index slice other than s[lo:hi:hi] is outside the subset")
	}
	s := tr.expr(x.X, env)
	if s.typ.kind != kString && s.typ.kind != kSlice {
		gtFail("slicing a %s is outside the subset", s.typ.name)
	}
	binds := s.binds
	lo, hi := "0%Z", "(go_len "+s.code+")"
	if x.Low != nil {
		l := tr.expr(x.Low, env)
		if l.typ.kind != kInt {
			gtFail("slice bound is not an integer")
		}
		binds = mergeBinds(binds, l.binds)
		lo = l.code
	}
	if x.High != nil {
		h := tr.expr(x.High, env)
		if h.typ.kind != kInt {
			gtFail("slice bound is not an integer")
		}
		binds = mergeBinds(binds, h.binds)
		hi = h.code
	}
	v := tr.fresh()
	fn := "go_slice"
	if s.typ.kind == kSlice {
		fn = "go_slice_l"
	}
	return ex{binds: mergeBinds(binds, []gbind{{v, fn + " " + s.code + " " + lo + " " + hi}}), code: v, typ: s.typ}
}

func elemType(t *gtype) *gtype {
	if t.kind == kString {
		return basicInts["byte"]
	}
	return t.elem
}

// append(s, x, ...) on a slice of the subset: the value is s followed by the new elements.  (Go may or may not
// reuse s's array; the translation is the value semantics, see STATE in gotrans.go.)
func (tr *gtTr) appendCall(c *ast.CallExpr, env *venv) ex {
	if len(c.Args) < 1 {
		gtFail("append: arity")
	}
	s := tr.expr(c.Args[0], env)
	if s.typ.kind != kSlice && s.typ != tBytes {
		gtFail("append to a %s is outside the subset", s.typ.name)
	}
	et := elemType(s.typ)
	binds := s.binds
	var elems []string
	for _, a := range c.Args[1:] {
		e := tr.expr(a, env)
		if et.kind == kValue {
			e = tr.toValue(e, "append")
		}
		if e.typ.kind != et.kind {
			gtFail("append of a %s to %s", e.typ.name, s.typ.name)
		}
		if e.typ.kind == kInt && e.typ.untyped && e.k != nil && !fitsInt(e.k, et) {
			gtFail("append: constant %s overflows %s", e.k, et.name)
		}
		binds = mergeBinds(binds, e.binds)
		if s.typ == tBytes {
			elems = append(elems, "Z.to_N "+e.code)
		} else {
			elems = append(elems, e.code)
		}
	}
	return ex{binds: binds, code: "(" + s.code + " ++ [" + strings.Join(elems, "; ") + "])", typ: s.typ, fresh: true}
}

// make(map[K]V) / make(map[K]V, n): the empty map
func (tr *gtTr) makeCall(c *ast.CallExpr, env *venv) ex {
	if len(c.Args) < 1 {
		gtFail("make: arity")
	}
	t := tr.g.resolveType(tr.p, tr.f, c.Args[0], 0)
	if t.kind == kSlice && t.supported() && len(c.Args) >= 2 {
		// make([]T, 0, cap): the empty slice (the capacity is not observable in the subset)
		if n, isInt := intLit(c.Args[1]); isInt && n == 0 {
			for _, a := range c.Args[2:] {
				if e := tr.expr(a, env); len(e.binds) > 0 || e.typ.kind != kInt {
					gtFail("make: capacity argument")
				}
			}
			if t.usesValue() {
				tr.fn.usesV = true
			}
			return ex{code: "(@nil " + paren(t.elem.coq()) + ")", typ: t, fresh: true}
		}
		// make([]T, n, cap) with a small constant n over an integer type: n zeros
		if n, isInt := intLit(c.Args[1]); isInt && n > 0 && n <= 64 && t.elem.kind == kInt {
			for _, a := range c.Args[2:] {
				if e := tr.expr(a, env); len(e.binds) > 0 || e.typ.kind != kInt {
					gtFail("make: capacity argument")
				}
			}
			zs := make([]string, n)
			for i := range zs {
				zs[i] = "0%Z"
			}
			return ex{code: "[" + strings.Join(zs, "; ") + "]", typ: t, fresh: true}
		}
	}
	if t.kind != kMap || !t.supported() {
		gtFail("make(%s) is outside the subset (only maps, and slices of length 0)", t.name)
	}
	if t.usesValue() {
		tr.fn.usesV = true
	}
	for _, a := range c.Args[1:] {
		if e := tr.expr(a, env); len(e.binds) > 0 || e.typ.kind != kInt {
			gtFail("make: size argument")
		}
	}
	return ex{code: "(@nil (" + t.key.coq() + " * " + t.elem.coq() + "))", typ: t, fresh: true}
}

// map[K]V{k1: v1, ...}: the entries are inserted in source order (a later equal key replaces an earlier one)
func (tr *gtTr) mapLit(x *ast.CompositeLit, t *gtype, env *venv) ex {
	if t.usesValue() {
		tr.fn.usesV = true
	}
	set := "go_map_set_s"
	if t.key.kind == kInt {
		set = "go_map_set_z"
	}
	code := "(@nil (" + t.key.coq() + " * " + t.elem.coq() + "))"
	var binds []gbind
	for _, el := range x.Elts {
		kv, ok := el.(*ast.KeyValueExpr)
		if !ok {
			gtFail("map literal element is not key: value")
		}
		k := tr.expr(kv.Key, env)
		v := tr.expr(kv.Value, env)
		if t.elem.kind == kValue {
			v = tr.toValue(v, "map literal")
		}
		if k.typ.kind != t.key.kind || v.typ.kind != t.elem.kind {
			gtFail("map literal entry of kinds %s: %s in a %s", k.typ.name, v.typ.name, t.name)
		}
		binds = mergeBinds(mergeBinds(binds, k.binds), v.binds)
		code = "(" + set + " " + k.code + " " + v.code + " " + code + ")"
	}
	return ex{binds: binds, code: code, typ: t, fresh: true}
}

func gtExprString(e ast.Expr) string {
	var sb strings.Builder
	ast.Fprint(&sb, nil, e, func(name string, v reflect.Value) bool {
		return name != "NamePos" && name != "ValuePos" && name != "OpPos" && name != "Lparen" && name != "Rparen" && name != "Lbrack" && name != "Rbrack" && name != "Obj"
	})
	return sb.String()
}

// structPattern: the pattern that binds field name of a struct value as fld_<name> (the others as _).
func structPattern(t *gtype, names map[string]bool) string {
	var ps []string
	for _, fl := range t.fields {
		if names[fl.name] {
			ps = append(ps, "fld_"+fl.name)
		} else {
			ps = append(ps, "_")
		}
	}
	if len(ps) == 1 {
		return ps[0]
	}
	return "'(" + strings.Join(ps, ", ") + ")"
}

// project: field name of a struct value (a tuple)
func (tr *gtTr) project(a ex, name string) ex {
	for _, fl := range a.typ.fields {
		if fl.name == name {
			if fl.typ.usesValue() {
				tr.fn.usesV = true
			}
			return ex{binds: a.binds, code: "(let " + structPattern(a.typ, map[string]bool{name: true}) + " := " + a.code + " in fld_" + name + ")", typ: fl.typ}
		}
	}
	gtFail("%s has no field %s", a.typ.name, name)
	return ex{}
}

// withField: the struct value a with field name replaced by v
func (tr *gtTr) withField(a ex, name string, v ex) ex {
	all := map[string]bool{}
	var vals []string
	found := false
	for _, fl := range a.typ.fields {
		all[fl.name] = true
		if fl.name == name {
			found = true
			if fl.typ.kind == kValue {
				v = tr.toValue(v, "field")
			}
			if v.typ.kind != fl.typ.kind {
				gtFail("assignment of a %s to field %s of type %s", v.typ.name, name, fl.typ.name)
			}
			vals = append(vals, v.code)
		} else {
			vals = append(vals, "fld_"+fl.name)
		}
	}
	if !found {
		gtFail("%s has no field %s", a.typ.name, name)
	}
	delete(all, name)
	return ex{binds: mergeBinds(a.binds, v.binds), code: "(let " + structPattern(a.typ, all) + " := " + a.code + " in " + tupleOf(vals) + ")", typ: a.typ}
}

// T{a, b} / T{f: a, g: b} for a struct type whose values are tuples: every field must be given
func (tr *gtTr) structLit(x *ast.CompositeLit, t *gtype, env *venv) ex {
	vals := make([]string, len(t.fields))
	var binds []gbind
	set := func(i int, e ast.Expr) {
		v := tr.expr(e, env)
		ft := t.fields[i].typ
		if ft.kind == kValue {
			v = tr.toValue(v, "struct literal")
		}
		if v.typ.kind != ft.kind {
			gtFail("struct literal: a %s for field %s of type %s", v.typ.name, t.fields[i].name, ft.name)
		}
		if v.typ.kind == kInt && v.typ.untyped && v.k != nil && !fitsInt(v.k, ft) {
			gtFail("struct literal: constant %s overflows %s", v.k, ft.name)
		}
		binds = mergeBinds(binds, v.binds)
		vals[i] = v.code
	}
	for i, el := range x.Elts {
		if kv, ok := el.(*ast.KeyValueExpr); ok {
			id, _ := kv.Key.(*ast.Ident)
			found := false
			for j, fl := range t.fields {
				if id != nil && fl.name == id.Name {
					set(j, kv.Value)
					found = true
				}
			}
			if !found {
				gtFail("struct literal: unknown field")
			}
			continue
		}
		if i >= len(t.fields) {
			gtFail("struct literal: too many values")
		}
		set(i, el)
	}
	for i, v := range vals {
		if v == "" {
			vals[i] = zeroOf(t.fields[i].typ)
		}
	}
	if t.usesValue() {
		tr.fn.usesV = true
	}
	return ex{binds: binds, code: tupleOf(vals), typ: t, fresh: true}
}

// ifaceMethod: node.Position() for a parameter `node ast.Node`: an argument-less method of an interface type of /repo,
// called on a parameter that is never assigned.  What it returns is not determined by anything the translated function
// sees, so it becomes a parameter m_<param>_<Method> of the method's result type (one per parameter and method: Go's
// method may in principle answer differently on each call; the functions translated so call it on an immutable AST
// node, see gotrans_apply.go).
func (tr *gtTr) ifaceMethod(c *ast.CallExpr, env *venv) (ex, bool) {
	sel, ok := c.Fun.(*ast.SelectorExpr)
	if !ok || len(c.Args) != 0 {
		return ex{}, false
	}
	id, ok := unparen(sel.X).(*ast.Ident)
	if !ok {
		return ex{}, false
	}
	v := env.lookup(id.Name)
	if v == nil || v.typ.kind != kOther || v.typ.ndir == "" {
		return ex{}, false
	}
	isParam := false
	for _, prm := range tr.fn.params {
		if prm.goName == id.Name {
			isParam = true
		}
	}
	p := tr.g.gtPkg(v.typ.ndir)
	ts := p.types[v.typ.nname]
	if ts == nil || !isParam {
		return ex{}, false
	}
	it, ok := ts.Type.(*ast.InterfaceType)
	if !ok {
		return ex{}, false
	}
	for _, m := range it.Methods.List {
		ft, isFn := m.Type.(*ast.FuncType)
		if !isFn || len(m.Names) != 1 || m.Names[0].Name != sel.Sel.Name {
			continue
		}
		if ft.Params != nil && len(ft.Params.List) > 0 {
			return ex{}, false
		}
		if ft.Results == nil || len(ft.Results.List) != 1 || len(ft.Results.List[0].Names) > 1 {
			gtFail("interface method %s.%s does not return exactly one value", v.typ.name, sel.Sel.Name)
		}
		rt := tr.g.resolveType(p, p.typeIn[v.typ.nname], ft.Results.List[0].Type, 0)
		if !rt.supported() || rt.usesValue() {
			gtFail("interface method %s.%s returns a %s", v.typ.name, sel.Sel.Name, rt.name)
		}
		name := "m_" + id.Name + "_" + sel.Sel.Name
		tr.fn.addAbstract(gtAbstract{name: name, typ: rt.coq()})
		return ex{code: name, typ: rt}, true
	}
	return ex{}, false
}

// bufferVar: fun is b.M with b a local variable of type bytes.Buffer
func (tr *gtTr) bufferVar(fun ast.Expr, env *venv) *gvar {
	sel, ok := fun.(*ast.SelectorExpr)
	if !ok {
		return nil
	}
	id, ok := unparen(sel.X).(*ast.Ident)
	if !ok {
		return nil
	}
	if v := env.lookup(id.Name); v != nil && v.typ == tBuffer {
		return v
	}
	return nil
}

// bufferWrite: is the call a write into a local bytes.Buffer?  b.WriteString(s) / b.Write(p) / b.WriteByte(c) /
// b.Reset() / template.HTMLEscape(&b, p) (text/template).  Returns the variable's Go name and the kind of write.
func (tr *gtTr) bufferWrite(c *ast.CallExpr, env *venv) (name, kind string, arg ast.Expr, ok bool) {
	if v := tr.bufferVar(c.Fun, env); v != nil {
		m := c.Fun.(*ast.SelectorExpr).Sel.Name
		switch {
		case (m == "WriteString" || m == "Write" || m == "WriteByte") && len(c.Args) == 1:
			return v.goName, m, c.Args[0], true
		case m == "Reset" && len(c.Args) == 0:
			return v.goName, m, nil, true
		}
		return "", "", nil, false
	}
	if pkg, fn, isLib := tr.libCall(c, env); isLib && pkg == "text/template" && fn == "HTMLEscape" && len(c.Args) == 2 {
		if u, isAddr := unparen(c.Args[0]).(*ast.UnaryExpr); isAddr && u.Op == token.AND {
			if id, isId := unparen(u.X).(*ast.Ident); isId {
				if v := env.lookup(id.Name); v != nil && v.typ == tBuffer {
					return v.goName, "HTMLEscape", c.Args[1], true
				}
			}
		}
	}
	return "", "", nil, false
}

// bufferStmt: a write into a local bytes.Buffer is an assignment of the bytes written so far
func (tr *gtTr) bufferStmt(c *ast.CallExpr, env *venv, next cont) (gnode, bool) {
	name, kind, arg, ok := tr.bufferWrite(c, env)
	if !ok {
		return nil, false
	}
	cur := tr.useVar(env.lookup(name)).code
	var val ex
	switch kind {
	case "Reset":
		val = ex{code: "(@nil N)", typ: tBuffer}
	case "WriteByte":
		a := tr.expr(arg, env)
		if a.typ.kind != kInt {
			gtFail("WriteByte of a %s", a.typ.name)
		}
		a = tr.coerce(a, basicInts["byte"], "WriteByte")
		val = ex{binds: a.binds, code: "(" + cur + " ++ [Z.to_N " + a.code + "])", typ: tBuffer}
	case "HTMLEscape":
		a := tr.expr(arg, env)
		if a.typ.kind != kString {
			gtFail("template.HTMLEscape of a %s", a.typ.name)
		}
		tr.fn.addAbstract(gtAbstract{name: "f_template_HTMLEscape", typ: "bstr -> bstr"})
		val = ex{binds: a.binds, code: "(" + cur + " ++ (f_template_HTMLEscape " + a.code + "))", typ: tBuffer}
	default:
		a := tr.expr(arg, env)
		if a.typ.kind != kString {
			gtFail("%s of a %s", kind, a.typ.name)
		}
		val = ex{binds: a.binds, code: "(" + cur + " ++ " + a.code + ")", typ: tBuffer}
	}
	return tr.bindNew(env, name, val, false, next), true
}

func (tr *gtTr) regexpMethod(c *ast.CallExpr, env *venv) (ex, bool) {
	sel, ok := c.Fun.(*ast.SelectorExpr)
	if !ok || sel.Sel.Name != "ReplaceAllString" || len(c.Args) != 2 {
		return ex{}, false
	}
	id, ok := unparen(sel.X).(*ast.Ident)
	if !ok || env.lookup(id.Name) != nil {
		return ex{}, false
	}
	vs, isVar := tr.p.vars[id.Name]
	if !isVar {
		return ex{}, false
	}
	var init ast.Expr
	for i, n := range vs.Names {
		if n.Name == id.Name && i < len(vs.Values) {
			init = vs.Values[i]
		}
	}
	mc, isCall := init.(*ast.CallExpr)
	if !isCall || len(mc.Args) != 1 {
		return ex{}, false
	}
	_ = vs
	msel, isSel := mc.Fun.(*ast.SelectorExpr)
	q, isId := func() (*ast.Ident, bool) {
		if !isSel {
			return nil, false
		}
		q, ok := msel.X.(*ast.Ident)
		return q, ok
	}()
	vf := tr.p.varIn[id.Name]
	if !isId || importOf(vf, q.Name) != "regexp" || msel.Sel.Name != "MustCompile" {
		return ex{}, false
	}
	pv, _, okc := tr.g.constEval(tr.p, vf, mc.Args[0], -1, nil)
	if !okc || pv.Kind() != constant.String {
		gtFail("%s: the pattern of regexp.MustCompile is not a constant string", id.Name)
	}
	if assignedElsewhere(tr.p, id.Name) {
		gtFail("package variable %s is assigned to somewhere in the package", id.Name)
	}
	patName := "src_" + tr.p.name + "_" + id.Name + "_pattern"
	if _, done := tr.st.tables[patName]; !done {
		tr.st.tables[patName] = tString
		tr.st.pending = append(tr.st.pending, fmt.Sprintf("(* %s: var %s = regexp.MustCompile(%s): the pattern text *)\nDefinition %s : bstr := %s.\n",
			tr.p.dir, id.Name, strings.ReplaceAll(gtExprTextLit(mc.Args[0]), "*)", "* )"), patName, bstrLit(constant.StringVal(pv))))
	}
	args, binds := tr.args(c.Args, env)
	if args[0].typ.kind != kString || args[1].typ.kind != kString {
		gtFail("%s.ReplaceAllString: arguments are not strings", id.Name)
	}
	pn := "re_" + id.Name + "_ReplaceAllString"
	pos := tr.g.fset.Position(vs.Pos())
	tr.fn.addAbstract(gtAbstract{name: pn, typ: "bstr -> bstr -> bstr", key: fmt.Sprintf("2:%s:%09d", filepath.Base(pos.Filename), pos.Offset)})
	return ex{binds: binds, code: "(" + pn + " " + args[0].code + " " + args[1].code + ")", typ: tString}, true
}

// gtExprTextLit: a literal as it is written (for comments)
func gtExprTextLit(e ast.Expr) string {
	if bl, ok := e.(*ast.BasicLit); ok {
		return bl.Value
	}
	return gtExprText(e)
}

// ifaceField: e is n.F with n a struct parameter (read only) and F a field whose type is an interface type of /repo.
// Returns the stem m_n_F of the parameters that stand for it and the interface's declaration.
func (tr *gtTr) ifaceField(e ast.Expr, env *venv) (stem string, p *gpkg, it *ast.InterfaceType, tname string, ok bool) {
	defer func() {
		if ok {
			tr.ifaceKey = ""
			sel := unparen(e).(*ast.SelectorExpr)
			id := unparen(sel.X).(*ast.Ident)
			pi := 999
			for i, prm := range tr.fn.params {
				if prm.goName == id.Name {
					pi = i
				}
			}
			fi := 999
			if v := env.lookup(id.Name); v != nil {
				for i, fl := range v.typ.fields {
					if fl.name == sel.Sel.Name {
						fi = i
					}
				}
			}
			tr.ifaceKey = fmt.Sprintf("1:%03d:%03d", pi, fi)
		}
	}()
	sel, isSel := unparen(e).(*ast.SelectorExpr)
	if !isSel {
		return
	}
	id, isId := unparen(sel.X).(*ast.Ident)
	if !isId {
		return
	}
	v := env.lookup(id.Name)
	if v == nil || v.typ.kind != kStruct || v.banned != "" {
		return
	}
	for _, fl := range v.typ.fields {
		if fl.name != sel.Sel.Name || fl.typ.kind != kOther || fl.typ.ndir == "" {
			continue
		}
		p = tr.g.gtPkg(fl.typ.ndir)
		ts := p.types[fl.typ.nname]
		if ts == nil {
			return
		}
		if it, isIt := ts.Type.(*ast.InterfaceType); isIt {
			return "m_" + id.Name + "_" + fl.name, p, it, fl.typ.nname, true
		}
	}
	return
}

// ifaceFieldNil: the flag "the interface field is nil" (a parameter of the translated function)
func (tr *gtTr) ifaceFieldNil(e ast.Expr, env *venv) (string, bool) {
	stem, _, _, _, ok := tr.ifaceField(e, env)
	if !ok {
		return "", false
	}
	tr.fn.addAbstract(gtAbstract{name: stem + "_nil", typ: "bool", key: tr.ifaceKey + ":0"})
	return stem + "_nil", true
}

// ifaceFieldMethod: n.F.M() with no arguments: None (Go panics) when the field is nil, else the parameter m_n_F_M,
// the value the method returns (a method that itself panics is outside what the parameter can say)
func (tr *gtTr) ifaceFieldMethod(c *ast.CallExpr, env *venv) (ex, bool) {
	sel, ok := c.Fun.(*ast.SelectorExpr)
	if !ok || len(c.Args) != 0 {
		return ex{}, false
	}
	stem, p, it, tname, ok := tr.ifaceField(sel.X, env)
	if !ok {
		return ex{}, false
	}
	var find func(p *gpkg, it *ast.InterfaceType, tname string, depth int) (*gtype, bool)
	find = func(p *gpkg, it *ast.InterfaceType, tname string, depth int) (*gtype, bool) {
		if depth > 8 {
			return nil, false
		}
		for _, m := range it.Methods.List {
			if len(m.Names) == 0 {
				// an embedded interface of the same package
				if eid, isId := m.Type.(*ast.Ident); isId {
					if ts := p.types[eid.Name]; ts != nil {
						if eit, isIt := ts.Type.(*ast.InterfaceType); isIt {
							if t, ok := find(p, eit, eid.Name, depth+1); ok {
								return t, true
							}
						}
					}
				}
				continue
			}
			ft, isFn := m.Type.(*ast.FuncType)
			if !isFn || len(m.Names) != 1 || m.Names[0].Name != sel.Sel.Name {
				continue
			}
			if (ft.Params != nil && len(ft.Params.List) > 0) || ft.Results == nil || len(ft.Results.List) != 1 || len(ft.Results.List[0].Names) > 1 {
				gtFail("interface method %s.%s is not of the form M() T", tname, sel.Sel.Name)
			}
			rt := tr.g.resolveType(p, p.typeIn[tname], ft.Results.List[0].Type, 0)
			if !rt.supported() || rt.usesValue() {
				gtFail("interface method %s.%s returns a %s", tname, sel.Sel.Name, rt.name)
			}
			return rt, true
		}
		return nil, false
	}
	rt, found := find(p, it, tname, 0)
	if !found {
		return ex{}, false
	}
	key := tr.ifaceKey
	tr.fn.addAbstract(gtAbstract{name: stem + "_nil", typ: "bool", key: key + ":0"})
	tr.fn.addAbstract(gtAbstract{name: stem + "_" + sel.Sel.Name, typ: rt.coq(), key: key + ":1" + sel.Sel.Name})
	o := tr.fresh()
	return ex{binds: []gbind{{o, fmt.Sprintf("if %s_nil then None else Some %s_%s", stem, stem, sel.Sel.Name)}}, code: o, typ: rt}, true
}

// sprintf: fmt.Sprintf with a constant format made of text, %%, and the verbs
//
//	%s  with a string / []byte argument: its bytes; with a field of /repo interface type that has String() string:
//	    what String() returns, or fmt's "%!s(<nil>)" when the field is nil (fmt does not panic there)
//	%d  with an integer argument: its decimal digits
//	%q  with a string argument: strconv.Quote of it, the parameter f_strconv_Quote : bstr -> bstr
//
// (no flags, widths or argument indexes; the number of verbs must be the number of arguments).
func (tr *gtTr) sprintf(c *ast.CallExpr, env *venv) ex {
	if len(c.Args) == 0 {
		gtFail("fmt.Sprintf: no format")
	}
	format := tr.constString(c.Args[0], env, "fmt.Sprintf")
	args := c.Args[1:]
	var parts []string
	var binds []gbind
	lit := ""
	flush := func() {
		if lit != "" {
			parts = append(parts, bstrLit(lit))
			lit = ""
		}
	}
	ai := 0
	for i := 0; i < len(format); i++ {
		ch := format[i]
		if ch != '%' {
			lit += string(ch)
			continue
		}
		i++
		if i >= len(format) {
			gtFail("fmt.Sprintf: the format ends in %%")
		}
		verb := format[i]
		if verb == '%' {
			lit += "%"
			continue
		}
		if ai >= len(args) {
			gtFail("fmt.Sprintf: more verbs than arguments")
		}
		arg := args[ai]
		ai++
		flush()
		switch verb {
		case 's':
			if stem, p, it, tname, ok := tr.ifaceField(arg, env); ok {
				key := tr.ifaceKey
				if !ifaceHasString(p, it, 0) {
					gtFail("fmt.Sprintf: %%s of a %s, which has no String() string", tname)
				}
				tr.fn.addAbstract(gtAbstract{name: stem + "_nil", typ: "bool", key: key + ":0"})
				tr.fn.addAbstract(gtAbstract{name: stem + "_String", typ: "bstr", key: key + ":1String"})
				parts = append(parts, "(if "+stem+"_nil then "+bstrLit("%!s(<nil>)")+" else "+stem+"_String)")
				continue
			}
			a := tr.expr(arg, env)
			if a.typ.kind != kString {
				gtFail("fmt.Sprintf: %%s of a %s is outside the subset", a.typ.name)
			}
			binds = mergeBinds(binds, a.binds)
			parts = append(parts, a.code)
		case 'd':
			a := tr.expr(arg, env)
			if a.typ.kind != kInt {
				gtFail("fmt.Sprintf: %%d of a %s", a.typ.name)
			}
			binds = mergeBinds(binds, a.binds)
			parts = append(parts, "(dec_of_Z "+a.code+")")
		case 'q':
			a := tr.expr(arg, env)
			if a.typ.kind != kString {
				gtFail("fmt.Sprintf: %%q of a %s is outside the subset", a.typ.name)
			}
			tr.fn.addAbstract(gtAbstract{name: "f_strconv_Quote", typ: "bstr -> bstr"})
			binds = mergeBinds(binds, a.binds)
			parts = append(parts, "(f_strconv_Quote "+a.code+")")
		default:
			gtFail("fmt.Sprintf: the verb %%%c is outside the subset", verb)
		}
	}
	flush()
	if ai != len(args) {
		gtFail("fmt.Sprintf: more arguments than verbs")
	}
	if len(parts) == 0 {
		return ex{code: "(@nil N)", typ: tString}
	}
	code := parts[len(parts)-1]
	for i := len(parts) - 2; i >= 0; i-- {
		code = "(" + parts[i] + " ++ " + code + ")"
	}
	return ex{binds: binds, code: code, typ: tString}
}

// ifaceHasString: does the interface (with the interfaces of its package that it embeds) declare String() string?
func ifaceHasString(p *gpkg, it *ast.InterfaceType, depth int) bool {
	if depth > 8 {
		return false
	}
	for _, m := range it.Methods.List {
		if len(m.Names) == 0 {
			if eid, isId := m.Type.(*ast.Ident); isId {
				if ts := p.types[eid.Name]; ts != nil {
					if eit, isIt := ts.Type.(*ast.InterfaceType); isIt && ifaceHasString(p, eit, depth+1) {
						return true
					}
				}
			}
			continue
		}
		ft, isFn := m.Type.(*ast.FuncType)
		if !isFn || len(m.Names) != 1 || m.Names[0].Name != "String" {
			continue
		}
		if (ft.Params == nil || len(ft.Params.List) == 0) && ft.Results != nil && len(ft.Results.List) == 1 {
			if id, ok := ft.Results.List[0].Type.(*ast.Ident); ok && id.Name == "string" {
				return true
			}
		}
	}
	return false
}

// stringerList: e is n.F, a field of a struct parameter whose type is a slice of nodes -- of a /repo interface type with
// String() string, or of pointers to a /repo struct type with a String method.  The field enters the translation as
// the parameter ms_n_F_String : list (option bstr), what each element's String() returns (None: a nil element).
func (tr *gtTr) stringerList(e ast.Expr, env *venv) (ex, bool) {
	sel, isSel := unparen(e).(*ast.SelectorExpr)
	if !isSel {
		return ex{}, false
	}
	id, isId := unparen(sel.X).(*ast.Ident)
	if !isId {
		return ex{}, false
	}
	v := env.lookup(id.Name)
	if v == nil || v.typ.kind != kStruct || v.banned != "" {
		return ex{}, false
	}
	for fi, fl := range v.typ.fields {
		if fl.name != sel.Sel.Name || fl.typ.kind != kSlice || fl.typ.elem == nil || fl.typ.elem.ndir == "" {
			continue
		}
		et := fl.typ.elem
		p := tr.g.gtPkg(et.ndir)
		okT := false
		switch et.kind {
		case kOther:
			if ts := p.types[et.nname]; ts != nil {
				if it, isIt := ts.Type.(*ast.InterfaceType); isIt && ifaceHasString(p, it, 0) {
					okT = true
				}
			}
		case kStruct:
			if fd, has := p.funcs[et.nname+".String"]; has && fd.Type.Params.NumFields() == 0 {
				okT = true
			}
		}
		if !okT {
			return ex{}, false
		}
		pi := 999
		for i, prm := range tr.fn.params {
			if prm.goName == id.Name {
				pi = i
			}
		}
		name := "ms_" + id.Name + "_" + fl.name + "_String"
		tr.listKey = fmt.Sprintf("1:%03d:%03d", pi, fi)
		tr.fn.addAbstract(gtAbstract{name: name, typ: "list (option bstr)", key: tr.listKey + ":2String"})
		return ex{code: name, typ: &gtype{kind: kSlice, name: fl.typ.name, elem: tStringer, valueKind: -1}}, true
	}
	return ex{}, false
}
