package main

// The evaluation program (goeval.go) for package parse: graphs of the itemType predicates, the
// rune predicates, the parser's operator predicates and tables, parseAutoescape and the
// operator-node constructors, for lexer.go / parser.go / html.go (autoescapeAttr).

import (
	"fmt"
	"go/ast"
	"go/token"
	"sort"
	"strconv"
	"strings"
)

// domain of the rune predicates: every code point, eof (-1), and a margin on both sides so that a
// range that is open-ended in the source (r > 'x') can be told from one that stops at the edge
const (
	runeDomLo = -3
	runeDomHi = 0x110002
)

type parseEvalT struct {
	done bool
	r    evalResult
	errs map[string]string
}

var parseEvalCache = map[*gen]*parseEvalT{}

// paramTypeName: the type (an identifier) of the single parameter of a function, "" otherwise.
func paramTypeName(fd *ast.FuncDecl) string {
	if fd == nil || fd.Type.Params == nil || len(fd.Type.Params.List) != 1 || len(fd.Type.Params.List[0].Names) > 1 {
		return ""
	}
	if id, ok := fd.Type.Params.List[0].Type.(*ast.Ident); ok {
		return id.Name
	}
	return ""
}

// fileStringLits: every string literal of a file ("" included), sorted.
func (g *gen) fileStringLits(rel string) []string {
	set := map[string]bool{"": true}
	ast.Inspect(g.file(rel), func(n ast.Node) bool {
		if bl, ok := n.(*ast.BasicLit); ok && bl.Kind == token.STRING {
			if s, err := strconv.Unquote(bl.Value); err == nil {
				set[s] = true
			}
		}
		return true
	})
	var out []string
	for s := range set {
		out = append(out, s)
	}
	sort.Strings(out)
	return out
}

// findFuncAnyFile looks a plain function up in the files of package parse the generators read.
func (g *gen) parseFunc(name string) *ast.FuncDecl {
	for _, rel := range []string{parserRel, lexRel, quoteRel} {
		if fd := g.funcDecl(rel, name); fd != nil {
			return fd
		}
	}
	return nil
}

func (g *gen) evalParse() (evalResult, map[string]string) {
	if c := parseEvalCache[g]; c != nil {
		return c.r, c.errs
	}
	names, _ := g.silentItemCodes()
	items := map[string]string{}
	n := len(names)
	prelude := fmt.Sprintf(`	hx := func(s string) string { return hex.EncodeToString([]byte(s)) }
	n := %d
	pred := func(f func(itemType) bool) []int {
		out := []int{}
		for t := 0; t < n; t++ {
			if f(itemType(t)) {
				out = append(out, t)
			}
		}
		return out
	}
	const rlo, rhi = %d, %d
	ranges := func(f func(rune) bool) [][2]int {
		out := [][2]int{}
		in, lo := false, 0
		for r := rlo; r <= rhi; r++ {
			p := f(rune(r))
			if p && !in {
				in, lo = true, r
			}
			if !p && in {
				in = false
				out = append(out, [2]int{lo, r - 1})
			}
		}
		if in {
			out = append(out, [2]int{lo, rhi})
		}
		return out
	}
	_, _, _, _, _, _, _ = hx, pred, ranges, unicode.IsLetter, strconv.Itoa, fmt.Sprint, reflect.ValueOf
	var _ soyast.Node
`, n, runeDomLo, runeDomHi)
	if n > 0 {
		for _, m := range []string{"isOp", "endsTerm", "isCommandEnd"} {
			items["itemType."+m] = fmt.Sprintf("\t\tres[%q] = pred(func(t itemType) bool { return t.%s() })", "itemType."+m, m)
		}
		for _, v := range []string{"builtinIdents", "arithmeticItemsBySymbol"} {
			items[v] = fmt.Sprintf("\t\tm := map[string]int{}\n\t\tfor k, v := range %s {\n\t\t\tm[hx(k)] = int(v)\n\t\t}\n\t\tres[%q] = m", v, v)
		}
		items["specialChars"] = "\t\tm := map[string]string{}\n\t\tfor k, v := range specialChars {\n\t\t\tm[strconv.Itoa(int(k))] = hx(v)\n\t\t}\n\t\tres[\"specialChars\"] = m"
		// operator predicates: the parameter is an itemType or an item
		for _, f := range []string{"isBinaryOp", "isUnaryOp", "isValue"} {
			arg := ""
			switch paramTypeName(g.parseFunc(f)) {
			case "itemType":
				arg = "t"
			case "item":
				arg = "item{typ: t}"
			}
			if arg != "" {
				items[f] = fmt.Sprintf("\t\tres[%q] = pred(func(t itemType) bool { return %s(%s) })", f, f, arg)
			}
		}
		// precedence: a map from itemType, or a function of an itemType
		if g.varValue(parserRel, "precedence") != nil {
			items["precedence"] = "\t\tm := map[string]int{}\n\t\tfor t := 0; t < n; t++ {\n\t\t\tif v, ok := precedence[itemType(t)]; ok {\n\t\t\t\tm[strconv.Itoa(t)] = v\n\t\t\t}\n\t\t}\n" +
				"\t\tif len(m) == len(precedence) {\n\t\t\tres[\"precedence\"] = m\n\t\t}"
		} else {
			for _, f := range []string{"precedenceOf", "precedence", "precedenceFor", "opPrecedence"} {
				if paramTypeName(g.parseFunc(f)) == "itemType" {
					items["precedence"] = fmt.Sprintf("\t\tm := map[string]int{}\n\t\tfor t := 0; t < n; t++ {\n\t\t\tif v := %s(itemType(t)); v != 0 {\n\t\t\t\tm[strconv.Itoa(t)] = v\n\t\t\t}\n\t\t}\n\t\tres[\"precedence\"] = m\n\t\tres[\"precedence.total\"] = true", f)
					break
				}
			}
		}
		for _, c := range []struct{ fn, call string }{{"newBinaryOpNode", "newBinaryOpNode(item{typ: itemType(t)}, nil, nil)"}, {"newUnaryOpNode", "newUnaryOpNode(item{typ: itemType(t)}, nil)"}} {
			items[c.fn] = fmt.Sprintf(`		out := [][]string{}
		for t := 0; t < n; t++ {
			func() {
				defer func() { recover() }()
				nd := %s
				if nd == nil {
					return
				}
				name := ""
				if v := reflect.ValueOf(nd); v.Kind() == reflect.Ptr && v.Elem().Kind() == reflect.Struct {
					if f := v.Elem().FieldByName("Name"); f.IsValid() && f.Kind() == reflect.String {
						name = f.String()
					}
				}
				out = append(out, []string{strconv.Itoa(t), fmt.Sprintf("%%T", nd), hx(name)})
			}()
		}
		res[%q] = out`, c.call, c.fn)
		}
	}
	for _, f := range []string{"isSpace", "isEndOfLine", "isSpaceEOL", "isLetterOrUnderscore", "isDigit", "isAlphaNumeric"} {
		items[f] = fmt.Sprintf("\t\tres[%q] = ranges(%s)", f, f)
	}
	items["isAlphaNumeric.canonical"] = `		ok := true
		for r := rlo; r <= rhi; r++ {
			if isAlphaNumeric(rune(r)) != (r == '_' || unicode.IsLetter(rune(r)) || unicode.IsDigit(rune(r))) {
				ok = false
			}
		}
		res["isAlphaNumeric.canonical"] = ok`
	items["unescapes"] = "\t\tm := map[string]int{}\n\t\tfor k, v := range unescapes {\n\t\t\tm[strconv.Itoa(int(k))] = int(v)\n\t\t}\n\t\tres[\"unescapes\"] = m"
	// parseAutoescape: evaluated on every string literal of parse.go (and ""); a panic (t.errorf) = rejected
	// ... and on perturbations of each (other case, blanks around it, one more or one fewer character), so that a
	// reading that is more liberal than exact comparison (case folding, trimming, prefixes) shows in the table
	var cands []string
	seenCand := map[string]bool{}
	for _, s := range g.fileStringLits(parserRel) {
		if len(s) > 40 {
			continue // message texts
		}
		vars := []string{s, strings.ToUpper(s), strings.Title(s), " " + s, s + " ", s + "x", "\t" + s + "\n"}
		if len(s) > 1 {
			vars = append(vars, s[:len(s)-1], s[1:])
		}
		for _, v := range vars {
			if !seenCand[v] {
				seenCand[v] = true
				cands = append(cands, strconv.Quote(v))
			}
		}
	}
	items["parseAutoescape"] = `		m := map[string]int{}
		for _, s := range []string{` + strings.Join(cands, ", ") + `} {
			func() {
				defer func() { recover() }()
				t := &tree{}
				m[hx(s)] = int(t.parseAutoescape(map[string]string{"autoescape": s}))
			}()
		}
		func() {
			defer func() { recover() }()
			t := &tree{}
			res["parseAutoescape.absent"] = int(t.parseAutoescape(map[string]string{}))
		}()
		res["parseAutoescape"] = m
		res["parseAutoescape.codes"] = map[string]int{"AutoescapeUnspecified": int(soyast.AutoescapeUnspecified), "AutoescapeOn": int(soyast.AutoescapeOn), "AutoescapeOff": int(soyast.AutoescapeOff), "AutoescapeContextual": int(soyast.AutoescapeContextual)}`
	r, errs := g.goEvalItems("parse", []string{"encoding/hex", "fmt", "reflect", "strconv", "unicode", "soyast github.com/robfig/soy/ast"}, prelude, items)
	parseEvalCache[g] = &parseEvalT{true, r, errs}
	return r, errs
}

// silentItemCodes: itemCodes without recording failures (the generator that owns the const block reports them).
func (g *gen) silentItemCodes() (names []string, codes map[string]int) {
	g.silent(func() { names, codes = g.itemCodes() })
	return
}

// evErr: the reason an item of the parse evaluation has no result.
func evErr(errs map[string]string, item string) string {
	if e, ok := errs[item]; ok {
		return e
	}
	return "no result for " + item
}

func canonInts(l []int) string {
	s := append([]int(nil), l...)
	sort.Ints(s)
	return fmt.Sprint(s)
}

// canonMap renders a string-keyed table canonically (sorted by key).
func canonMap(m map[string]string) string {
	var ks []string
	for k := range m {
		ks = append(ks, k)
	}
	sort.Strings(ks)
	var sb strings.Builder
	for _, k := range ks {
		fmt.Fprintf(&sb, "%q=%q;", k, m[k])
	}
	if len(ks) == 0 {
		return "(empty)"
	}
	return sb.String()
}

// rangesOf: maximal true-ranges of a predicate over the rune domain (the pattern route's own graph).
func rangesOf(f func(r int64) bool) [][2]int {
	out := [][2]int{}
	in, lo := false, 0
	for r := runeDomLo; r <= runeDomHi; r++ {
		p := f(int64(r))
		if p && !in {
			in, lo = true, r
		}
		if !p && in {
			in = false
			out = append(out, [2]int{lo, r - 1})
		}
	}
	if in {
		out = append(out, [2]int{lo, runeDomHi})
	}
	return out
}

// rangesExpr: the canonical Coq boolean expression of a union of ranges over the parameter p.
func rangesExpr(p string, rs [][2]int) string {
	if len(rs) == 0 {
		return "false"
	}
	var terms []string
	for _, r := range rs {
		switch {
		case r[0] <= runeDomLo && r[1] >= runeDomHi:
			terms = append(terms, "true")
		case r[0] <= runeDomLo:
			terms = append(terms, fmt.Sprintf("(%s <=? %d)", p, r[1]))
		case r[1] >= runeDomHi:
			terms = append(terms, fmt.Sprintf("(%d <=? %s)", r[0], p))
		case r[0] == r[1]:
			terms = append(terms, fmt.Sprintf("(%s =? %d)", p, r[0]))
		default:
			terms = append(terms, fmt.Sprintf("((%d <=? %s) && (%s <=? %d))", r[0], p, p, r[1]))
		}
	}
	e := terms[0]
	for _, t := range terms[1:] {
		e = "(" + e + " || " + t + ")"
	}
	return e
}
