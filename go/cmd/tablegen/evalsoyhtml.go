package main

// The evaluation program (goeval.go) for the exported tables of package soyhtml: PrintDirectives, Funcs,
// loopFuncs as the compiled package holds them after initialisation (so a table that is assembled in an init
// function, written with keyed fields, constants or helper constructors reads the same).

import (
	"encoding/json"
	"fmt"
	"regexp"
	"sort"
)

type soyhtmlEvalT struct {
	r    evalResult
	errs map[string]string
}

var soyhtmlEvalCache = map[*gen]*soyhtmlEvalT{}

func (g *gen) evalSoyhtml() (evalResult, map[string]string) {
	if c := soyhtmlEvalCache[g]; c != nil {
		return c.r, c.errs
	}
	prelude := `	hx := func(s string) string { return hex.EncodeToString([]byte(s)) }
	fname := func(f interface{}) string {
		v := reflect.ValueOf(f)
		if v.Kind() != reflect.Func || v.IsNil() {
			return "nil"
		}
		n := runtime.FuncForPC(v.Pointer()).Name()
		if i := strings.LastIndex(n, "."); i >= 0 {
			n = n[i+1:]
		}
		return n
	}
	ints := func(l []int) []int {
		if l == nil {
			return []int{}
		}
		return l
	}
	_, _, _ = hx, fname, ints
`
	items := map[string]string{
		"PrintDirectives": `		out := [][]interface{}{}
		for name, d := range PrintDirectives {
			out = append(out, []interface{}{hx(name), ints(d.ValidArgLengths), d.CancelAutoescape, d.Apply == nil, fname(d.Apply)})
		}
		res["PrintDirectives"] = out`,
		"Funcs": `		out := [][]interface{}{}
		for name, f := range Funcs {
			out = append(out, []interface{}{hx(name), ints(f.ValidArgLengths), fname(f.Apply)})
		}
		res["Funcs"] = out`,
		"loopFuncs": `		out := [][]interface{}{}
		for name, f := range loopFuncs {
			out = append(out, []interface{}{hx(name), fname(f)})
		}
		res["loopFuncs"] = out`,
	}
	r, errs := g.goEvalItems("soyhtml", []string{"encoding/hex", "reflect", "runtime", "strings"}, prelude, items)
	soyhtmlEvalCache[g] = &soyhtmlEvalT{r, errs}
	return r, errs
}

var funcLitName = regexp.MustCompile(`^(func\d+(\.\d+)*|.*-fm|init(\.\d+)*)$`)

// canonFn: the name of a plain function, or "<expr>" for anything that is not one (a closure, a method value).
func canonFn(n string) string {
	if funcLitName.MatchString(n) {
		return "<expr>"
	}
	return n
}

func canonDirectives(ds []directive) string {
	s := append([]directive{}, ds...)
	sort.Slice(s, func(i, j int) bool { return s[i].Name < s[j].Name })
	for i := range s {
		if s[i].ArgLens == nil {
			s[i].ArgLens = []int64{}
		}
	}
	bs, _ := json.Marshal(s)
	if len(s) == 0 {
		return "(empty)"
	}
	return string(bs)
}

func canonFuncs(fs []funcEntry) string {
	s := append([]funcEntry{}, fs...)
	sort.Slice(s, func(i, j int) bool { return s[i].Name < s[j].Name })
	for i := range s {
		if s[i].ArgLens == nil {
			s[i].ArgLens = []int64{}
		}
	}
	bs, _ := json.Marshal(s)
	if len(s) == 0 {
		return "(empty)"
	}
	return string(bs)
}

// evalDirectives decodes the PrintDirectives item.
func evalDirectives(ev evalResult) ([]directive, bool) {
	var raw [][]json.RawMessage
	if !ev.get("PrintDirectives", &raw) {
		return nil, false
	}
	var out []directive
	for _, e := range raw {
		if len(e) != 5 {
			return nil, false
		}
		var hk, fn string
		var d directive
		if json.Unmarshal(e[0], &hk) != nil || json.Unmarshal(e[1], &d.ArgLens) != nil || json.Unmarshal(e[2], &d.Cancel) != nil ||
			json.Unmarshal(e[3], &d.NilApply) != nil || json.Unmarshal(e[4], &fn) != nil {
			return nil, false
		}
		name, err := hexDecode(hk)
		if err != nil {
			return nil, false
		}
		d.Name, d.Fn = name, canonFn(fn)
		for _, n := range d.ArgLens {
			if n < 0 {
				return nil, false
			}
		}
		out = append(out, d)
	}
	sort.Slice(out, func(i, j int) bool { return out[i].Name < out[j].Name })
	return out, true
}

// evalFuncs decodes Funcs (withLens) or loopFuncs.
func evalFuncs(ev evalResult, key string, withLens bool) ([]funcEntry, bool) {
	var raw [][]json.RawMessage
	if !ev.get(key, &raw) {
		return nil, false
	}
	var out []funcEntry
	for _, e := range raw {
		want := 2
		if withLens {
			want = 3
		}
		if len(e) != want {
			return nil, false
		}
		var hk, fn string
		var f funcEntry
		if json.Unmarshal(e[0], &hk) != nil || json.Unmarshal(e[want-1], &fn) != nil {
			return nil, false
		}
		if withLens && json.Unmarshal(e[1], &f.ArgLens) != nil {
			return nil, false
		}
		name, err := hexDecode(hk)
		if err != nil {
			return nil, false
		}
		f.Name, f.Fn = name, canonFn(fn)
		out = append(out, f)
	}
	sort.Slice(out, func(i, j int) bool { return out[i].Name < out[j].Name })
	return out, true
}

var _ = fmt.Sprint
