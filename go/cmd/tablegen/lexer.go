package main

// parse/lexer.go: everything the lexer model (coq/Model/Lexer.v) takes from the
// source as data or flat decision logic:
//   * the itemType const block as numeric codes (declaration order = iota);
//   * builtinIdents, arithmeticItemsBySymbol, specialChars (parse.go);
//   * endsTerm's case list and the shape of lexNegative's test;
//   * isOp's range, isCommandEnd's bound;
//   * the helper predicates isSpace, isEndOfLine, isSpaceEOL, isLetterOrUnderscore,
//     isDigit, isAlphaNumeric as boolean expressions over a rune;
//   * the character lists of the two symbol cases of lexInsideTag and the string
//     given to accept() there;
//   * decDigits, hexDigits, the accept()/acceptRun() sets of scanNumber, and the
//     fixed strings of lexSoyDoc(Param), lexHeaderParam and lexLiteral;
//   * unicode.IsLetter and unicode.IsDigit of the toolchain, evaluated on every
//     code point 0..0x10FFFF (maximal true-ranges).
// Control flow is modelled by hand and tied by the token-level correspondence
// (go/cmd/soyverif/c05.go).  Shapes that cannot be translated are reported with
// g.fail (never guessed).

import (
	"encoding/hex"
	"fmt"
	"go/ast"
	"go/token"
	"sort"
	"strconv"
	"strings"
	"unicode"
)

func init() {
	register("05-lexer-items", (*gen).lexerItems)
	register("06-lexer-tables", (*gen).lexerTables)
	register("07-lexer-predicates", (*gen).lexerPredicates)
	register("08-lexer-strings", (*gen).lexerStrings)
	register("09-lexer-unicode", (*gen).lexerUnicode)
}

const lexRel = "parse/lexer.go"

// itemCodes returns the names of the itemType const block in order.
func (g *gen) itemCodes() ([]string, map[string]int) {
	var names []string
	for _, d := range g.file(lexRel).Decls {
		gd, ok := d.(*ast.GenDecl)
		if !ok || gd.Tok != token.CONST || len(gd.Specs) == 0 {
			continue
		}
		first, ok := gd.Specs[0].(*ast.ValueSpec)
		if !ok || !isIdent(first.Type, "itemType") {
			continue
		}
		if len(first.Values) != 1 || !isIdent(first.Values[0], "iota") {
			g.fail("itemType const block: first value is not iota")
			return nil, nil
		}
		for i, s := range gd.Specs {
			vs := s.(*ast.ValueSpec)
			if len(vs.Names) != 1 || (i > 0 && (len(vs.Values) != 0 || vs.Type != nil)) {
				g.fail("itemType const block: spec %d is not a bare name continuing the iota", i)
				return nil, nil
			}
			names = append(names, vs.Names[0].Name)
		}
		break
	}
	if len(names) == 0 {
		g.fail("itemType const block not found")
		return nil, nil
	}
	codes := map[string]int{}
	for i, n := range names {
		codes[n] = i
	}
	return names, codes
}

func (g *gen) lexerItems() {
	names, _ := g.itemCodes()
	g.p("(* parse/lexer.go: the itemType const block, in declaration order (iota) *)\n")
	js := map[string]int{}
	for i, n := range names {
		g.p("Definition %s : N := %d.\n", n, i)
		js[n] = i
	}
	g.p("Definition item_type_count : N := %d.\n", len(names))
	var parts []string
	for i, n := range names {
		parts = append(parts, fmt.Sprintf("(%s, %d)", coqBytes(n), i))
	}
	g.p("Definition item_type_names : list (bstr * N) := [%s].\n\n", strings.Join(parts, "; "))
	g.js["item_types"] = js
	var ordered []string
	ordered = append(ordered, names...)
	g.js["item_type_order"] = ordered
}

// stringToItemMap reads `var name = map[string]itemType{ "k": itemX, ... }`.
func (g *gen) stringToItemMap(rel, name string, codes map[string]int) (keys []string, vals map[string]string) {
	vals = map[string]string{}
	cl, ok := g.varValue(rel, name).(*ast.CompositeLit)
	if !ok {
		g.fail("%s: not a composite literal", name)
		return
	}
	for _, e := range cl.Elts {
		kv, ok := e.(*ast.KeyValueExpr)
		if !ok {
			g.fail("%s: element is not key: value", name)
			continue
		}
		k, ok1 := strLit(kv.Key)
		id, ok2 := kv.Value.(*ast.Ident)
		if !ok1 || !ok2 {
			g.fail("%s: entry is not \"string\": itemName", name)
			continue
		}
		if _, ok := codes[id.Name]; !ok {
			g.fail("%s: %s is not an itemType constant", name, id.Name)
			continue
		}
		if _, dup := vals[k]; dup {
			g.fail("%s: duplicate key %q", name, k)
			continue
		}
		keys = append(keys, k)
		vals[k] = id.Name
	}
	sort.Strings(keys)
	return
}

func (g *gen) emitStringItemTable(coqName, comment string, keys []string, vals map[string]string) {
	g.p("(* %s *)\n", comment)
	var parts []string
	js := map[string]string{}
	for _, k := range keys {
		parts = append(parts, fmt.Sprintf("(%s, %s)", coqBytes(k), vals[k]))
		js[k] = vals[k]
	}
	g.p("Definition %s : list (bstr * N) := [%s].\n\n", coqName, strings.Join(parts, ";\n  "))
	g.js[coqName] = js
}

// caseIdents collects the identifiers of the case lists of the first switch in fd
// whose clauses all `return true`.
func switchCaseIdents(fd *ast.FuncDecl) ([]string, bool) {
	if fd == nil || fd.Body == nil || len(fd.Body.List) != 2 {
		return nil, false
	}
	sw, ok := fd.Body.List[0].(*ast.SwitchStmt)
	if !ok || sw.Init != nil || sw.Tag == nil {
		return nil, false
	}
	ret, ok := fd.Body.List[1].(*ast.ReturnStmt)
	if !ok || len(ret.Results) != 1 || !isIdent(ret.Results[0], "false") {
		return nil, false
	}
	var ids []string
	for _, c := range sw.Body.List {
		cc := c.(*ast.CaseClause)
		if cc.List == nil || len(cc.Body) != 1 {
			return nil, false
		}
		r, ok := cc.Body[0].(*ast.ReturnStmt)
		if !ok || len(r.Results) != 1 || !isIdent(r.Results[0], "true") {
			return nil, false
		}
		for _, e := range cc.List {
			id, ok := e.(*ast.Ident)
			if !ok {
				return nil, false
			}
			ids = append(ids, id.Name)
		}
	}
	return ids, true
}

// stringItemTable: a `map[string]itemType` variable, by pattern (the composite literal) and by
// evaluation (the map of the compiled package), combined by g.choose.
func (g *gen) stringItemTable(coqName, comment, goVar string, names []string, codes map[string]int, ev evalResult, everrs map[string]string) {
	var keys []string
	var vals map[string]string
	perr := g.silent(func() { keys, vals = g.stringToItemMap(lexRel, goVar, codes) })
	pat := ""
	if len(perr) == 0 {
		m := map[string]string{}
		for _, k := range keys {
			m[k] = fmt.Sprint(codes[vals[k]])
		}
		pat = canonMap(m)
	}
	evs, evKeys, evVals := "", []string(nil), map[string]string{}
	var raw map[string]int
	if ev.get(goVar, &raw) {
		m := map[string]string{}
		okAll := true
		for hk, c := range raw {
			kb, err := hexDecode(hk)
			if err != nil || c < 0 || c >= len(names) {
				okAll = false
				break
			}
			m[kb] = fmt.Sprint(c)
			evKeys = append(evKeys, kb)
			evVals[kb] = names[c]
		}
		if okAll {
			sort.Strings(evKeys)
			evs = canonMap(m)
		}
	}
	switch g.choose("parse/lexer.go "+goVar, pat, strings.Join(perr, "; "), evs, evErr(everrs, goVar)) {
	case routePattern:
		g.emitStringItemTable(coqName, comment, keys, vals)
	case routeEval:
		g.emitStringItemTable(coqName, comment, evKeys, evVals)
	default:
		g.emitStringItemTable(coqName, comment, nil, nil)
	}
}

func hexDecode(s string) (string, error) {
	bs, err := hex.DecodeString(s)
	return string(bs), err
}

// itemSet decides one predicate over the item types: pat = the set the pattern route read (nil +
// perr when it could not), the evaluation's set under evKey.  Returns the set (ascending codes) and
// whether the pattern route's own rendering may be used.
func (g *gen) itemSet(table, evKey string, pat []int, perr []string, n int, ev evalResult, everrs map[string]string) (set []int, usePattern, ok bool) {
	pats := ""
	if len(perr) == 0 && pat != nil {
		pats = canonInts(pat)
	}
	evs := ""
	var raw []int
	if ev.get(evKey, &raw) {
		if raw == nil {
			raw = []int{}
		}
		evs = canonInts(raw)
	}
	switch g.choose(table, pats, strings.Join(perr, "; "), evs, evErr(everrs, evKey)) {
	case routePattern:
		s := append([]int{}, pat...)
		sort.Ints(s)
		return s, true, true
	case routeEval:
		s := append([]int{}, raw...)
		sort.Ints(s)
		return s, false, true
	}
	return nil, false, false
}

func contiguous(s []int) bool {
	for i := 1; i < len(s); i++ {
		if s[i] != s[i-1]+1 {
			return false
		}
	}
	return len(s) > 0
}

func namesOf(set []int, names []string) []string {
	var out []string
	for _, c := range set {
		out = append(out, names[c])
	}
	return out
}

func (g *gen) lexerTables() {
	names, codes := g.itemCodes()
	if codes == nil {
		return
	}
	n := len(names)
	ev, everrs := g.evalParse()
	g.stringItemTable("builtin_idents", "parse/lexer.go builtinIdents", "builtinIdents", names, codes, ev, everrs)
	g.stringItemTable("arith_items", "parse/lexer.go arithmeticItemsBySymbol", "arithmeticItemsBySymbol", names, codes, ev, everrs)

	// specialChars (parse/parse.go): map[itemType]string
	g.p("(* parse/parse.go specialChars *)\n")
	type scEnt struct {
		name, val string
	}
	var scPat []scEnt
	perr := g.silent(func() {
		if cl, ok := g.varValue("parse/parse.go", "specialChars").(*ast.CompositeLit); ok {
			seen := map[string]bool{}
			for _, e := range cl.Elts {
				kv, ok := e.(*ast.KeyValueExpr)
				if !ok {
					g.fail("specialChars: element is not key: value")
					continue
				}
				id, ok1 := kv.Key.(*ast.Ident)
				v, ok2 := strLit(kv.Value)
				if !ok1 || !ok2 || codes[id.Name] == 0 || seen[id.Name] {
					g.fail("specialChars: entry is not itemName: \"string\"")
					continue
				}
				seen[id.Name] = true
				scPat = append(scPat, scEnt{id.Name, v})
			}
		} else {
			g.fail("specialChars: not a composite literal")
		}
	})
	pats := ""
	if len(perr) == 0 {
		m := map[string]string{}
		for _, e := range scPat {
			m[fmt.Sprintf("%04d", codes[e.name])] = e.val
		}
		pats = canonMap(m)
	}
	evs := ""
	var scEv []scEnt
	var rawSC map[string]string
	if ev.get("specialChars", &rawSC) {
		m := map[string]string{}
		okAll := true
		var cs []int
		byCode := map[int]string{}
		for k, hv := range rawSC {
			c, err1 := strconv.Atoi(k)
			v, err2 := hexDecode(hv)
			if err1 != nil || err2 != nil || c < 0 || c >= n {
				okAll = false
				break
			}
			m[fmt.Sprintf("%04d", c)] = v
			cs = append(cs, c)
			byCode[c] = v
		}
		if okAll {
			sort.Ints(cs)
			for _, c := range cs {
				scEv = append(scEv, scEnt{names[c], byCode[c]})
			}
			evs = canonMap(m)
		}
	}
	var scUse []scEnt
	switch g.choose("parse/parse.go specialChars", pats, strings.Join(perr, "; "), evs, evErr(everrs, "specialChars")) {
	case routePattern:
		scUse = scPat
	case routeEval:
		scUse = scEv
	}
	var sc []string
	scjs := map[string]string{}
	for _, e := range scUse {
		sc = append(sc, fmt.Sprintf("(%s, %s)", e.name, coqBytes(e.val)))
		scjs[e.name] = e.val
	}
	sc = keepOrder("special_chars", sc)
	g.p("Definition special_chars : list (N * bstr) := [%s].\n\n", strings.Join(sc, "; "))
	g.js["special_chars"] = scjs

	// endsTerm and its use in lexNegative
	var ids []string
	var patSet []int
	perr = g.silent(func() {
		var ok bool
		ids, ok = switchCaseIdents(g.method(lexRel, "itemType", "endsTerm"))
		if !ok {
			g.fail("itemType.endsTerm: not `switch t { case ...: return true }; return false`")
		}
		patSet = []int{}
		for _, id := range ids {
			if c, ok := codes[id]; !ok {
				g.fail("itemType.endsTerm: %s is not an itemType constant", id)
			} else {
				patSet = append(patSet, c)
			}
		}
	})
	set, usePat, _ := g.itemSet("parse/lexer.go itemType.endsTerm", "itemType.endsTerm", patSet, perr, n, ev, everrs)
	if !usePat {
		ids = keepOrder("ends_term_set", namesOf(set, names))
	}
	g.p("(* parse/lexer.go itemType.endsTerm: the lastEmit types after which '-' is the binary operator;\n   lexNegative tests `!lastType.endsTerm()` with lastType = l.lastEmit.typ *)\n")
	g.p("Definition ends_term_set : list N := [%s].\n", strings.Join(ids, "; "))
	g.p("Definition ends_term (t : N) : bool := existsb (N.eqb t) ends_term_set.\n\n")
	g.js["ends_term_set"] = ids
	g.checkLexNegative()

	// isOp: itemNegate <= t && t <= itemElvis ; isCommandEnd: t > itemCommandEnd
	lo, hi := "", ""
	patSet = nil
	perr = g.silent(func() {
		if fd := g.method(lexRel, "itemType", "isOp"); fd != nil && fd.Body != nil && len(fd.Body.List) == 1 {
			recv := recvName(fd)
			if r, ok := fd.Body.List[0].(*ast.ReturnStmt); ok && len(r.Results) == 1 && recv != "" {
				if be, ok := r.Results[0].(*ast.BinaryExpr); ok && be.Op == token.LAND {
					l, ok1 := be.X.(*ast.BinaryExpr)
					h, ok2 := be.Y.(*ast.BinaryExpr)
					if ok1 && ok2 && l.Op == token.LEQ && h.Op == token.LEQ && isIdent(l.Y, recv) && isIdent(h.X, recv) {
						if a, ok := l.X.(*ast.Ident); ok {
							lo = a.Name
						}
						if c, ok := h.Y.(*ast.Ident); ok {
							hi = c.Name
						}
					}
				}
			}
		}
		cl, ok1 := codes[lo]
		ch, ok2 := codes[hi]
		if !ok1 || !ok2 || lo == "" || hi == "" {
			g.fail("itemType.isOp: not `return itemA <= t && t <= itemB`")
			return
		}
		patSet = []int{}
		for c := cl; c <= ch; c++ {
			patSet = append(patSet, c)
		}
	})
	set, _, okSet := g.itemSet("parse/lexer.go itemType.isOp", "itemType.isOp", patSet, perr, n, ev, everrs)
	g.p("(* itemType.isOp *)\n")
	switch {
	case okSet && contiguous(set):
		lo, hi = names[set[0]], names[set[len(set)-1]]
		g.p("Definition is_op (t : N) : bool := (%s <=? t) && (t <=? %s).\n", lo, hi)
	case okSet:
		// not a range of the const block any more: the set itself (the proofs that use the range break, as they should)
		lo, hi = "", ""
		g.p("Definition is_op (t : N) : bool := existsb (N.eqb t) [%s].\n", strings.Join(namesOf(set, names), "; "))
	default:
		lo, hi = "itemInvalid", "itemInvalid"
		g.p("Definition is_op (t : N) : bool := (%s <=? t) && (t <=? %s).\n", lo, hi)
	}
	ce := ""
	patSet = nil
	perr = g.silent(func() {
		if fd := g.method(lexRel, "itemType", "isCommandEnd"); fd != nil && fd.Body != nil && len(fd.Body.List) == 1 {
			recv := recvName(fd)
			if r, ok := fd.Body.List[0].(*ast.ReturnStmt); ok && len(r.Results) == 1 && recv != "" {
				if be, ok := r.Results[0].(*ast.BinaryExpr); ok && be.Op == token.GTR && isIdent(be.X, recv) {
					if a, ok := be.Y.(*ast.Ident); ok {
						ce = a.Name
					}
				}
			}
		}
		c, ok := codes[ce]
		if !ok || ce == "" {
			g.fail("itemType.isCommandEnd: not `return t > itemX`")
			return
		}
		patSet = []int{}
		for k := c + 1; k < n; k++ {
			patSet = append(patSet, k)
		}
	})
	set, _, okSet = g.itemSet("parse/lexer.go itemType.isCommandEnd", "itemType.isCommandEnd", patSet, perr, n, ev, everrs)
	g.p("(* itemType.isCommandEnd *)\n")
	switch {
	case okSet && contiguous(set) && set[len(set)-1] == n-1 && set[0] > 0:
		// an upper segment of the const block: `t > <the constant below it>`
		ce = names[set[0]-1]
		g.p("Definition is_command_end (t : N) : bool := %s <? t.\n\n", ce)
	case okSet:
		ce = ""
		g.p("Definition is_command_end (t : N) : bool := existsb (N.eqb t) [%s].\n\n", strings.Join(namesOf(set, names), "; "))
	default:
		ce = "itemInvalid"
		g.p("Definition is_command_end (t : N) : bool := %s <? t.\n\n", ce)
	}
	g.js["is_op_range"] = []string{lo, hi}
	g.js["is_command_end_above"] = ce

	g.insideTagSymbols(codes)
}

// checkLexNegative verifies that lexNegative decides with `!lastType.endsTerm()`
// where lastType is l.lastEmit.typ.
func (g *gen) checkLexNegative() {
	fd := g.funcDecl(lexRel, "lexNegative")
	if fd == nil {
		g.fail("lexNegative: not found")
		return
	}
	okDecl, okIf := false, false
	for _, st := range fd.Body.List {
		switch s := st.(type) {
		case *ast.DeclStmt:
			if gd, ok := s.Decl.(*ast.GenDecl); ok && len(gd.Specs) == 1 {
				vs := gd.Specs[0].(*ast.ValueSpec)
				if len(vs.Names) == 1 && vs.Names[0].Name == "lastType" && len(vs.Values) == 1 {
					if se, ok := vs.Values[0].(*ast.SelectorExpr); ok && se.Sel.Name == "typ" {
						if se2, ok := se.X.(*ast.SelectorExpr); ok && se2.Sel.Name == "lastEmit" && isIdent(se2.X, "l") {
							okDecl = true
						}
					}
				}
			}
		case *ast.IfStmt:
			if u, ok := s.Cond.(*ast.UnaryExpr); ok && u.Op == token.NOT {
				if c, ok := u.X.(*ast.CallExpr); ok && len(c.Args) == 0 {
					if se, ok := c.Fun.(*ast.SelectorExpr); ok && se.Sel.Name == "endsTerm" && isIdent(se.X, "lastType") {
						okIf = true
					}
				}
			}
		}
	}
	if !okDecl || !okIf {
		g.fail("lexNegative: the unary/binary decision is not `lastType = l.lastEmit.typ; if !lastType.endsTerm()`")
	}
}

// eqCharOfR recognises `r == 'c'`.
func eqCharOfR(e ast.Expr) (rune, bool) {
	be, ok := unparen(e).(*ast.BinaryExpr)
	if !ok || be.Op != token.EQL || !isIdent(be.X, "r") {
		return 0, false
	}
	return charLit(be.Y)
}

// insideTagSymbols extracts the character lists of the two symbol cases of lexInsideTag.
func (g *gen) insideTagSymbols(codes map[string]int) {
	fd := g.funcDecl(lexRel, "lexInsideTag")
	var single, cmp []rune
	var acceptSet string
	foundSingle, foundCmp := false, false
	if fd != nil {
		ast.Inspect(fd.Body, func(n ast.Node) bool {
			cc, ok := n.(*ast.CaseClause)
			if !ok || len(cc.Body) == 0 {
				return true
			}
			// single-character symbols: body is l.emit(arithmeticItemsBySymbol[string(r)])
			if es, ok := cc.Body[0].(*ast.ExprStmt); ok && len(cc.Body) == 1 {
				if call, ok := es.X.(*ast.CallExpr); ok && len(call.Args) == 1 {
					if ix, ok := call.Args[0].(*ast.IndexExpr); ok && isIdent(ix.X, "arithmeticItemsBySymbol") && isConv(ix.Index, "string", "r") {
						foundSingle = true
						for _, e := range cc.List {
							c, ok := eqCharOfR(e)
							if !ok || c > 127 {
								g.fail("lexInsideTag: single-character symbol case has a label that is not r == 'c'")
								continue
							}
							single = append(single, c)
						}
					}
				}
			}
			// 1 or 2 character symbols: body starts with l.accept("...")
			if es, ok := cc.Body[0].(*ast.ExprStmt); ok && len(cc.Body) > 1 {
				if call, ok := es.X.(*ast.CallExpr); ok && len(call.Args) == 1 {
					if se, ok := call.Fun.(*ast.SelectorExpr); ok && se.Sel.Name == "accept" && isIdent(se.X, "l") {
						s, ok := strLit(call.Args[0])
						if !ok {
							g.fail("lexInsideTag: accept() argument is not a string literal")
						}
						acceptSet = s
						foundCmp = true
						for i, e := range cc.List {
							if c, ok := eqCharOfR(e); ok && c <= 127 {
								cmp = append(cmp, c)
								continue
							}
							// the last label: r == '=' && l.peek() == '='
							be, ok := e.(*ast.BinaryExpr)
							okShape := false
							if ok && be.Op == token.LAND && i == len(cc.List)-1 {
								c1, ok1 := eqCharOfR(be.X)
								if pe, ok2 := be.Y.(*ast.BinaryExpr); ok1 && ok2 && c1 == '=' && pe.Op == token.EQL {
									c2, ok3 := charLit(pe.Y)
									if call, ok4 := pe.X.(*ast.CallExpr); ok3 && ok4 && c2 == '=' && len(call.Args) == 0 {
										if se, ok := call.Fun.(*ast.SelectorExpr); ok && se.Sel.Name == "peek" {
											okShape = true
										}
									}
								}
							}
							if !okShape {
								g.fail("lexInsideTag: comparison-symbol case has an unexpected label")
							}
						}
					}
				}
			}
			return true
		})
	}
	if !foundSingle {
		g.fail("lexInsideTag: single-character symbol case not found")
	}
	if !foundCmp {
		g.fail("lexInsideTag: comparison-symbol case not found")
	}
	toList := func(rs []rune) string {
		var p []string
		for _, r := range rs {
			p = append(p, fmt.Sprintf("%d", r))
		}
		return "[" + strings.Join(p, "; ") + "]"
	}
	g.p("(* lexInsideTag: `case r == '*', ...: l.emit(arithmeticItemsBySymbol[string(r)])` *)\n")
	g.p("Definition inside_tag_single_syms : list Z := %s%%Z.\n", toList(single))
	g.p("(* lexInsideTag: `case r == '>', r == '!', r == '<', r == '=' && l.peek() == '=': l.accept(%q)` *)\n", acceptSet)
	g.p("Definition inside_tag_cmp_syms : list Z := %s%%Z.\n", toList(cmp))
	g.p("Definition inside_tag_cmp_accept : bstr := %s.\n\n", coqBytes(acceptSet))
	g.js["inside_tag_single_syms"] = string(single)
	g.js["inside_tag_cmp_syms"] = string(cmp)
	g.js["inside_tag_cmp_accept"] = acceptSet
}

// ---------- helper predicates ----------

// runePred is the graph of a translated predicate, kept next to its Coq text so that the
// translation can be compared with the evaluation of the compiled function.
type runePred func(r int64) bool

// predExpr translates a boolean expression over the rune parameter p into Coq text and into the
// function it denotes; known = the predicates translated so far.
func (g *gen) predExpr(fn, p string, e ast.Expr, known map[string]runePred) (string, runePred) {
	e = unparen(e)
	bad := func(format string, args ...interface{}) (string, runePred) {
		g.fail(format, args...)
		return "false", func(int64) bool { return false }
	}
	switch x := e.(type) {
	case *ast.Ident:
		if x.Name == "true" || x.Name == "false" {
			v := x.Name == "true"
			return x.Name, func(int64) bool { return v }
		}
	case *ast.UnaryExpr:
		if x.Op == token.NOT {
			s, f := g.predExpr(fn, p, x.X, known)
			return "(negb " + s + ")", func(r int64) bool { return !f(r) }
		}
	case *ast.BinaryExpr:
		switch x.Op {
		case token.LOR:
			s1, f1 := g.predExpr(fn, p, x.X, known)
			s2, f2 := g.predExpr(fn, p, x.Y, known)
			return "(" + s1 + " || " + s2 + ")", func(r int64) bool { return f1(r) || f2(r) }
		case token.LAND:
			s1, f1 := g.predExpr(fn, p, x.X, known)
			s2, f2 := g.predExpr(fn, p, x.Y, known)
			return "(" + s1 + " && " + s2 + ")", func(r int64) bool { return f1(r) && f2(r) }
		case token.EQL, token.NEQ, token.LEQ, token.GEQ, token.LSS, token.GTR:
			a, va, ok1 := g.predOperand(p, x.X)
			c, vc, ok2 := g.predOperand(p, x.Y)
			if !ok1 || !ok2 {
				return bad("%s: comparison operand is neither the rune parameter nor a character literal", fn)
			}
			op := x.Op
			f := func(r int64) bool {
				l, h := va(r), vc(r)
				switch op {
				case token.EQL:
					return l == h
				case token.NEQ:
					return l != h
				case token.LEQ:
					return l <= h
				case token.GEQ:
					return l >= h
				case token.LSS:
					return l < h
				}
				return l > h
			}
			if op == token.NEQ {
				return "(negb (" + a + " =? " + c + "))", f
			}
			cop := map[token.Token]string{token.EQL: "=?", token.LEQ: "<=?", token.GEQ: ">=?", token.LSS: "<?", token.GTR: ">?"}[op]
			return "(" + a + " " + cop + " " + c + ")", f
		}
	case *ast.CallExpr:
		if len(x.Args) == 1 && isIdent(x.Args[0], p) {
			if id, ok := x.Fun.(*ast.Ident); ok {
				if f, ok := known[id.Name]; ok {
					if id.Name == "isAlphaNumeric" {
						return "(gen_isAlphaNumeric uni_letter uni_digit " + p + ")", f
					}
					return "(gen_" + id.Name + " " + p + ")", f
				}
			}
			if isSel(x.Fun, "unicode", "IsLetter") {
				return "(uni_letter " + p + ")", func(r int64) bool { return r >= -0x80000000 && r <= 0x7fffffff && unicode.IsLetter(rune(r)) }
			}
			if isSel(x.Fun, "unicode", "IsDigit") {
				return "(uni_digit " + p + ")", func(r int64) bool { return r >= -0x80000000 && r <= 0x7fffffff && unicode.IsDigit(rune(r)) }
			}
		}
	}
	return bad("%s: expression shape not translatable", fn)
}

func (g *gen) predOperand(p string, e ast.Expr) (string, func(int64) int64, bool) {
	e = unparen(e)
	if isIdent(e, p) {
		return p, func(r int64) int64 { return r }, true
	}
	if c, ok := charLit(e); ok {
		v := int64(c)
		return fmt.Sprintf("%d", c), func(int64) int64 { return v }, true
	}
	return "", nil, false
}

func (g *gen) lexerPredicates() {
	g.p("(* parse/lexer.go helper predicates, as boolean expressions over a rune (Z; eof = -1) *)\n")
	srcs := map[string]string{}
	known := map[string]runePred{}
	ev, everrs := g.evalParse()
	for _, name := range []string{"isSpace", "isEndOfLine", "isSpaceEOL", "isLetterOrUnderscore", "isDigit", "isAlphaNumeric"} {
		fd := g.funcDecl(lexRel, name)
		body := "false"
		p := "r"
		if fd != nil && fd.Type.Params != nil && len(fd.Type.Params.List) == 1 && len(fd.Type.Params.List[0].Names) == 1 {
			p = fd.Type.Params.List[0].Names[0].Name
		}
		// pattern route: `return <expr>`
		var patFn runePred
		patBody := ""
		perr := g.silent(func() {
			if fd == nil || fd.Body == nil || fd.Type.Params == nil || len(fd.Type.Params.List) != 1 || len(fd.Type.Params.List[0].Names) != 1 || len(fd.Body.List) != 1 {
				g.fail("%s: not a one-parameter function with a single return", name)
			} else if r, ok := fd.Body.List[0].(*ast.ReturnStmt); !ok || len(r.Results) != 1 {
				g.fail("%s: body is not `return <expr>`", name)
			} else {
				patBody, patFn = g.predExpr(name, p, r.Results[0], known)
			}
		})
		pats := ""
		if len(perr) == 0 && patFn != nil {
			pats = fmt.Sprint(rangesOf(patFn))
		}
		// evaluation route: the graph of the compiled function over the rune domain
		evs, everr := "", evErr(everrs, name)
		var rs [][2]int
		if ev.get(name, &rs) {
			evs = fmt.Sprint(rs)
			if name == "isAlphaNumeric" {
				var canonical bool
				if !ev.get("isAlphaNumeric.canonical", &canonical) || !canonical {
					evs, everr = "", "isAlphaNumeric is not r == '_' || unicode.IsLetter(r) || unicode.IsDigit(r) on the rune domain (the model takes the two classes as parameters)"
				}
			} else if len(rs) > 64 {
				evs, everr = "", "more than 64 ranges"
			}
		}
		switch g.choose("parse/lexer.go "+name, pats, strings.Join(perr, "; "), evs, everr) {
		case routePattern:
			body = patBody
			known[name] = patFn
		case routeEval:
			if name == "isAlphaNumeric" {
				body = fmt.Sprintf("(((%s =? 95) || (uni_letter %s)) || (uni_digit %s))", p, p, p)
			} else {
				body = rangesExpr(p, rs)
			}
			rcopy := rs
			known[name] = func(r int64) bool {
				if r < runeDomLo || r > runeDomHi {
					// outside the evaluated domain: continue the edge ranges
					if r < runeDomLo {
						return len(rcopy) > 0 && rcopy[0][0] <= runeDomLo
					}
					return len(rcopy) > 0 && rcopy[len(rcopy)-1][1] >= runeDomHi
				}
				for _, x := range rcopy {
					if int64(x[0]) <= r && r <= int64(x[1]) {
						return true
					}
				}
				return false
			}
		}
		if f := known[name]; f != nil {
			preds := map[string]func(int64) bool{
				"uni_letter": func(r int64) bool { return r >= -0x80000000 && r <= 0x7fffffff && unicode.IsLetter(rune(r)) },
				"uni_digit":  func(r int64) bool { return r >= -0x80000000 && r <= 0x7fffffff && unicode.IsDigit(rune(r)) },
			}
			for k, kf := range known {
				if k != name {
					preds["gen_"+k] = kf
				}
			}
			body = keepRuneSpelling("gen_"+name, p, body, f, preds)
		}
		if name == "isAlphaNumeric" {
			g.p("Definition gen_%s (uni_letter uni_digit : Z -> bool) (%s : Z) : bool := %s%%Z.\n", name, p, body)
		} else {
			g.p("Definition gen_%s (%s : Z) : bool := %s%%Z.\n", name, p, body)
		}
		srcs[name] = body
	}
	g.p("\n")
	g.js["lexer_predicates"] = srcs
}

// ---------- fixed strings ----------

func (g *gen) constString(name string) string {
	s, ok := strLit(g.varValue(lexRel, name))
	if !ok {
		g.fail("const %s: not a string literal", name)
	}
	return s
}

// stringArgs collects, in source order, the string literals passed as argument
// number argIdx to calls of the form recv.method(...) / pkg.func(...) inside fd.
func stringArgs(fd *ast.FuncDecl, sel string, argIdx int) []string {
	var out []string
	if fd == nil {
		return nil
	}
	ast.Inspect(fd.Body, func(n ast.Node) bool {
		c, ok := n.(*ast.CallExpr)
		if !ok {
			return true
		}
		name := ""
		switch f := c.Fun.(type) {
		case *ast.SelectorExpr:
			name = f.Sel.Name
		case *ast.Ident:
			name = f.Name
		}
		if name == sel && len(c.Args) > argIdx {
			if s, ok := strLit(c.Args[argIdx]); ok {
				out = append(out, s)
			} else if id, ok := c.Args[argIdx].(*ast.Ident); ok {
				out = append(out, "$"+id.Name)
			}
		}
		return true
	})
	return out
}

func (g *gen) lexerStrings() {
	g.p("(* parse/lexer.go: fixed strings *)\n")
	dec, hex := g.constString("decDigits"), g.constString("hexDigits")
	g.p("Definition dec_digits_set : bstr := %s.\nDefinition hex_digits_set : bstr := %s.\n", coqBytes(dec), coqBytes(hex))
	if v, ok := intLit(g.varValue(lexRel, "eof")); !ok || v != -1 {
		g.fail("const eof is not -1")
	}
	if g.constString("leftDelim") != "{" || g.constString("rightDelim") != "}" {
		g.fail("leftDelim/rightDelim are not { and }")
	}
	// scanNumber: accept("+-") ... in source order
	sn := g.funcDecl(lexRel, "scanNumber")
	acc := stringArgs(sn, "accept", 0)
	run := stringArgs(sn, "acceptRun", 0)
	wantAcc := []string{"+-", ".", ".", "e", "+-"}
	wantRun := []string{"$hexDigits", "$decDigits", "$decDigits", "$decDigits"}
	if strings.Join(acc, "|") != strings.Join(wantAcc, "|") || strings.Join(run, "|") != strings.Join(wantRun, "|") {
		g.fail("scanNumber: accept/acceptRun sets are not the modelled ones (accept %q, acceptRun %q)", acc, run)
	}
	// the hexadecimal prefix is tested with l.input[l.pos:l.pos+2] == "0x" and skipped with l.pos += 2
	prefixLen := int64(-1)
	prefix := ""
	if sn != nil {
		ast.Inspect(sn.Body, func(n ast.Node) bool {
			switch x := n.(type) {
			case *ast.AssignStmt:
				if x.Tok == token.ADD_ASSIGN && len(x.Lhs) == 1 && len(x.Rhs) == 1 {
					if se, ok := x.Lhs[0].(*ast.SelectorExpr); ok && se.Sel.Name == "pos" && isIdent(se.X, "l") {
						if v, ok := intLit(x.Rhs[0]); ok {
							prefixLen = v
						}
					}
				}
			case *ast.BinaryExpr:
				if x.Op == token.EQL {
					if _, ok := x.X.(*ast.SliceExpr); ok {
						if s, ok := strLit(x.Y); ok {
							prefix = s
						}
					}
				}
			}
			return true
		})
	}
	if prefix != "0x" || prefixLen != int64(len(prefix)) {
		g.fail("scanNumber: hexadecimal prefix is not tested with == \"0x\" and skipped with l.pos += 2 (prefix %q, skip %d)", prefix, prefixLen)
		prefix, prefixLen = "0x", 2
	}
	g.p("Definition num_sign_set : bstr := %s.\nDefinition num_dot_set : bstr := %s.\nDefinition num_exp_set : bstr := %s.\nDefinition num_hex_prefix : bstr := %s.\n",
		coqBytes("+-"), coqBytes("."), coqBytes("e"), coqBytes(prefix))
	g.p("Definition num_hex_prefix_len : Z := %d%%Z.\n", prefixLen)
	// lexSoyDoc / lexSoyDocParam: "@param"
	sd := stringArgs(g.funcDecl(lexRel, "lexSoyDoc"), "HasPrefix", 1)
	sdl := stringArgs(g.funcDecl(lexRel, "lexSoyDocParam"), "len", 0)
	if len(sd) != 1 || len(sdl) != 1 || sd[0] != sdl[0] {
		g.fail("lexSoyDoc/lexSoyDocParam: HasPrefix literal and len literal differ or are missing")
		sd = []string{"@param"}
	}
	g.p("Definition soydoc_param_kw : bstr := %s.\n", coqBytes(sd[0]))
	// lexHeaderParam: "param"
	hp := stringArgs(g.funcDecl(lexRel, "lexHeaderParam"), "HasPrefix", 1)
	hpl := stringArgs(g.funcDecl(lexRel, "lexHeaderParam"), "len", 0)
	if len(hp) != 1 || len(hpl) != 1 || hp[0] != hpl[0] {
		g.fail("lexHeaderParam: HasPrefix literal and len literal differ or are missing")
		hp = []string{"param"}
	}
	g.p("Definition header_param_kw : bstr := %s.\n", coqBytes(hp[0]))
	// lexLiteral: var expectClose, delimLen = "{/literal}", 1 ; if doubleDelim { = "{{/literal}}", 2 } ; len("/literal")
	ll := g.funcDecl(lexRel, "lexLiteral")
	var closes []string
	var lens []int64
	if ll != nil {
		ast.Inspect(ll.Body, func(n ast.Node) bool {
			var lhs []string
			var rhs []ast.Expr
			switch s := n.(type) {
			case *ast.AssignStmt:
				for _, e := range s.Lhs {
					if id, ok := e.(*ast.Ident); ok {
						lhs = append(lhs, id.Name)
					}
				}
				rhs = s.Rhs
			case *ast.ValueSpec:
				for _, id := range s.Names {
					lhs = append(lhs, id.Name)
				}
				rhs = s.Values
			default:
				return true
			}
			if len(lhs) == 2 && lhs[0] == "expectClose" && lhs[1] == "delimLen" && len(rhs) == 2 {
				s, ok1 := strLit(rhs[0])
				v, ok2 := intLit(rhs[1])
				if ok1 && ok2 {
					closes = append(closes, s)
					lens = append(lens, v)
				}
			}
			return true
		})
	}
	lit := stringArgs(ll, "len", 0)
	if len(closes) != 2 || len(lit) != 1 || lens[0] != 1 || lens[1] != 2 ||
		closes[0] != "{"+lit[0]+"}" || closes[1] != "{{"+lit[0]+"}}" {
		g.fail("lexLiteral: expectClose/delimLen/len(\"/literal\") not of the modelled shape")
		closes, lit = []string{"{/literal}", "{{/literal}}"}, []string{"/literal"}
	}
	g.p("Definition literal_close1 : bstr := %s.\nDefinition literal_close2 : bstr := %s.\nDefinition literal_end_kw : bstr := %s.\n\n",
		coqBytes(closes[0]), coqBytes(closes[1]), coqBytes(lit[0]))
	g.js["lexer_strings"] = map[string]string{"decDigits": dec, "hexDigits": hex, "soydoc_param_kw": sd[0], "header_param_kw": hp[0],
		"literal_close1": closes[0], "literal_close2": closes[1], "literal_end_kw": lit[0]}
}

// ---------- unicode classes ----------

func (g *gen) unicodeRanges(coqName, goName string, pred func(rune) bool) {
	type rg struct{ lo, hi rune }
	var rs []rg
	in := false
	var lo rune
	for r := rune(0); r <= unicode.MaxRune; r++ {
		p := pred(r)
		if p && !in {
			in, lo = true, r
		}
		if !p && in {
			in = false
			rs = append(rs, rg{lo, r - 1})
		}
	}
	if in {
		rs = append(rs, rg{lo, unicode.MaxRune})
	}
	if len(rs) == 0 {
		g.fail("%s: no code point found", goName)
	}
	g.p("(* %s of the Go toolchain (Unicode %s), evaluated on 0..0x10FFFF: maximal true-ranges (lo, hi), ascending *)\n", goName, unicode.Version)
	var sb strings.Builder
	js := make([][2]int, 0, len(rs))
	for i, r := range rs {
		if i > 0 {
			sb.WriteString("; ")
			if i%8 == 0 {
				sb.WriteString("\n ")
			}
		} else {
			sb.WriteString(" ")
		}
		fmt.Fprintf(&sb, "(%d, %d)", r.lo, r.hi)
		js = append(js, [2]int{int(r.lo), int(r.hi)})
	}
	g.p("Definition %s : list (Z * Z) := [\n%s\n]%%Z.\n\n", coqName, sb.String())
	g.js[coqName] = js
}

func (g *gen) lexerUnicode() {
	g.unicodeRanges("is_letter_ranges", "unicode.IsLetter", unicode.IsLetter)
	g.unicodeRanges("is_digit_ranges", "unicode.IsDigit", unicode.IsDigit)
	// negative runes (eof = -1) are in no class
	if unicode.IsLetter(-1) || unicode.IsDigit(-1) {
		g.fail("unicode.IsLetter/IsDigit(-1) is true")
	}
}
