// Package gtfix holds fixture functions for gotrans_test.go: shapes whose translation is easy to get wrong
// (fallthrough, break, default in the middle, shadowing, parallel assignment, short-circuit over partial
// operands, wraps, truncating division, conversions, shifts, comma-ok lookups, first-match loops, methods).
// The test runs them in Go and checks, inside Coq, that the translated functions compute the same values.
package gtfix

type Kind int

const (
	KA Kind = iota
	KB
	KC
	KD
)

const bias = 1<<4 - 3 // 13

var table = map[int]int{3: 30, 1: 10, -2: 7}

func Fall(x int) int {
	r := 0
	switch x {
	case 1:
		r += 1
		fallthrough
	case 2:
		r += 10
		if x == 1 {
			break
		}
		r += 100
	default:
		r = -1
	case 3:
		r += 1000
	}
	return r
}

func Shadow(x int) int {
	y := x
	if x > 0 {
		y := y + 1
		x = y * 2
	}
	return x + y
}

func ShortCircuit(s string, i int) bool { return i < len(s) && i >= 0 && s[i] == 'a' }

func Partial(s string, i int) bool { return s[i] == 'a' || i > 100 }

func OrPartial(s string, i int) bool { return i > 100 || s[i] == 'b' }

func Wrap8(a, b int8) int8 { return a + b }

func WrapU32(a uint32) uint32 { return a*3 - 7 }

func DivRem(a int) int { return a/3*10 + a%3 }

func DivNeg(a int) int { return a/-1 + a%-4 }

func Conv(a int) uint8 { return uint8(a) }

func ConvS(a uint32) int32 { return int32(a) }

func Shift(a uint32) uint32 { return a<<5 | a>>3 }

func SShift(a int32) int32 { return a >> 2 }

func Neg(a int8) int8 { return -a }

func AndNot(a, b uint8) uint8 { return a&^b ^ 0x0f }

func Const(a int) int { return a + bias*2 }

func Lookup(k int) int {
	v, ok := table[k]
	if !ok {
		return -1
	}
	return v
}

func LookupZero(k int) int { return table[k] + 1 }

func Multi(a, b int) (int, int) {
	a, b = b, a+b
	return a, b
}

func Find(xs []int, y int) int {
	for _, x := range xs {
		if x > y {
			return x
		}
	}
	return -1
}

func FindByte(s string, c byte) bool {
	for i := 0; i < len(s); i++ {
		if s[i] == c || s[i] == '!' {
			return true
		}
	}
	return false
}

func TagStr(s string) int {
	switch s {
	case "a", "b":
		return 1
	case "":
		return 2
	}
	return 3
}

func Nested(x, y int) int {
	switch {
	case x > 0:
		switch {
		case y > 0:
			return 1
		}
		if y < -5 {
			break
		}
		return 2
	case x < 0:
		return 3
	}
	return 4
}

func (k Kind) Next() Kind {
	if k == KD {
		return KA
	}
	return k + 1
}

func UseMethod(k Kind) Kind { return k.Next().Next() }

func IfInit(m map[string]int, k string) int {
	if v, ok := m[k]; ok {
		return v
	} else if k == "" {
		return -2
	}
	return -1
}

func Panics(x int) int {
	if x < 0 {
		panic("negative")
	}
	return x
}

func CallPartial(x int) int { return Panics(x-5) + 1 }

func Slice(s string, i, j int) string { return s[i:j] + "|" + s[:i] }

func Strs(s string) int {
	return 100*len(s) + 10*boolInt(len(s) > 0 && s[len(s)-1] == '.') + boolInt(s == "x.")
}

func boolInt(b bool) int {
	if b {
		return 1
	}
	return 0
}

type rec struct {
	pos  int
	name string
	skip func()
}

func (r *rec) At(i int) bool { return r.pos+i >= len(r.name) }

func UseRec(r *rec, i int) int {
	if r.At(i) {
		return r.pos
	}
	return -r.pos
}

// NewRec lets the test build a rec.
func NewRec(pos int, name string) *rec { return &rec{pos: pos, name: name} }
