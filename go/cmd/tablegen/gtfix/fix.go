// Package gtfix holds fixture functions for gotrans_test.go: shapes whose translation is easy to get wrong
// (fallthrough, break, default in the middle, shadowing, parallel assignment, short-circuit over partial
// operands, wraps, truncating division, conversions, shifts, comma-ok lookups, first-match loops, methods).
// The test runs them in Go and checks, inside Coq, that the translated functions compute the same values.
package gtfix

import (
	"bytes"
	"errors"
	"fmt"
)

type Kind int

const (
	KA Kind = iota
	KB
	KC
	KD
)

const bias = 1<<4 - 3 // 13

var table = map[int]int{3: 30, 1: 10, -2: 7}

func Fall(x int) int {
	r := 0
	switch x {
	case 1:
		r += 1
		fallthrough
	case 2:
		r += 10
		if x == 1 {
			break
		}
		r += 100
	default:
		r = -1
	case 3:
		r += 1000
	}
	return r
}

func Shadow(x int) int {
	y := x
	if x > 0 {
		y := y + 1
		x = y * 2
	}
	return x + y
}

func ShortCircuit(s string, i int) bool { return i < len(s) && i >= 0 && s[i] == 'a' }

func Partial(s string, i int) bool { return s[i] == 'a' || i > 100 }

func OrPartial(s string, i int) bool { return i > 100 || s[i] == 'b' }

func Wrap8(a, b int8) int8 { return a + b }

func WrapU32(a uint32) uint32 { return a*3 - 7 }

func DivRem(a int) int { return a/3*10 + a%3 }

func DivNeg(a int) int { return a/-1 + a%-4 }

func Conv(a int) uint8 { return uint8(a) }

func ConvS(a uint32) int32 { return int32(a) }

func Shift(a uint32) uint32 { return a<<5 | a>>3 }

func SShift(a int32) int32 { return a >> 2 }

func Neg(a int8) int8 { return -a }

func AndNot(a, b uint8) uint8 { return a&^b ^ 0x0f }

func Const(a int) int { return a + bias*2 }

func Lookup(k int) int {
	v, ok := table[k]
	if !ok {
		return -1
	}
	return v
}

func LookupZero(k int) int { return table[k] + 1 }

func Multi(a, b int) (int, int) {
	a, b = b, a+b
	return a, b
}

func Find(xs []int, y int) int {
	for _, x := range xs {
		if x > y {
			return x
		}
	}
	return -1
}

func FindByte(s string, c byte) bool {
	for i := 0; i < len(s); i++ {
		if s[i] == c || s[i] == '!' {
			return true
		}
	}
	return false
}

func TagStr(s string) int {
	switch s {
	case "a", "b":
		return 1
	case "":
		return 2
	}
	return 3
}

func Nested(x, y int) int {
	switch {
	case x > 0:
		switch {
		case y > 0:
			return 1
		}
		if y < -5 {
			break
		}
		return 2
	case x < 0:
		return 3
	}
	return 4
}

func (k Kind) Next() Kind {
	if k == KD {
		return KA
	}
	return k + 1
}

func UseMethod(k Kind) Kind { return k.Next().Next() }

func IfInit(m map[string]int, k string) int {
	if v, ok := m[k]; ok {
		return v
	} else if k == "" {
		return -2
	}
	return -1
}

// FallJoin: a switch whose clauses fall through and cannot leave, assigning two variables, one clause partial (index);
// what follows the switch is translated once (joinSwitch).
func FallJoin(s string, n int) int {
	var a, c uint32 = 1, 2
	switch n {
	case 3:
		c += uint32(s[2]) << 24
		fallthrough
	case 2:
		a += uint32(s[1]) << 8
		fallthrough
	case 1:
		a += uint32(s[0])
	case 7:
		c = 9
	}
	a -= c
	c ^= a >> 3
	return int(a) + int(c)
}

// RuneSum, RuneIdx: range over the runes of a string (invalid bytes decode as U+FFFD of width 1), continue and break,
// the byte index, a body that assigns its own range variables.
func RuneSum(s string) int {
	n := 0
	for _, ch := range s {
		if ch == 'l' {
			continue
		}
		if ch == '!' {
			break
		}
		n += int(ch)
	}
	return n
}

func RuneIdx(s string) int {
	r := 0
	for i, ch := range s {
		r = r*31 + i + int(ch)%7
		i += 5
		ch = 'x'
		r += i + int(ch)
	}
	return r
}

func Panics(x int) int {
	if x < 0 {
		panic("negative")
	}
	return x
}

func CallPartial(x int) int { return Panics(x-5) + 1 }

func Slice(s string, i, j int) string { return s[i:j] + "|" + s[:i] }

func Strs(s string) int {
	return 100*len(s) + 10*boolInt(len(s) > 0 && s[len(s)-1] == '.') + boolInt(s == "x.")
}

func boolInt(b bool) int {
	if b {
		return 1
	}
	return 0
}

type rec struct {
	pos  int
	name string
	skip func()
}

func (r *rec) At(i int) bool { return r.pos+i >= len(r.name) }

func UseRec(r *rec, i int) int {
	if r.At(i) {
		return r.pos
	}
	return -r.pos
}

// NewRec lets the test build a rec.
func NewRec(pos int, name string) *rec { return &rec{pos: pos, name: name} }

// ---- loops and state (gotrans_loop.go, gotrans_mut.go) ----

// SumTo: a counting loop with continue and break.
func SumTo(n int) int {
	s := 0
	for i := 0; i < n; i++ {
		if i%3 == 1 {
			continue
		}
		if i > 20 {
			break
		}
		s += i
	}
	return s
}

// Collatz: a general loop, fuel stated by the test (x + 200).
func Collatz(x int) int {
	steps := 0
	for x > 1 {
		if x%2 == 0 {
			x = x / 2
		} else {
			x = 3*x + 1
		}
		steps++
		if steps > 150 {
			return -1
		}
	}
	return steps
}

// Nest: nested counting loops, the inner bound depends on the outer variable; break leaves the inner loop only.
func Nest(n int) int {
	t := 0
	for i := 0; i <= n; i++ {
		for j := i; j > 0; j-- {
			if j == 3 {
				break
			}
			t += j
		}
		switch {
		case i == 2:
			continue
		case i == 7:
			break // leaves the switch
		}
		t += 100
	}
	return t
}

// RangeSum: range with index and value over a slice, early return.
func RangeSum(xs []int, stop int) int {
	s := 0
	for i, x := range xs {
		if x == stop {
			return -i
		}
		s += x * (i + 1)
	}
	return s
}

// RangeIdx: range over the indices, indexing from the end.
func RangeIdx(xs []int) int {
	for i := range xs {
		if v := xs[len(xs)-i-1]; v < 0 {
			return v
		}
	}
	return 0
}

// LastByte: a loop whose condition can panic.
func LastByte(s string, i int) int {
	for s[i] != '.' {
		i--
	}
	return i
}

type Stack struct {
	frames []map[string]int
	n      int
	skip   func()
}

func (s *Stack) Push() { s.frames = append(s.frames, make(map[string]int)) }

func (s *Stack) Pop() { s.frames = s.frames[:len(s.frames)-1] }

func (s *Stack) Next() int {
	s.n++
	return s.n * 2
}

func (s *Stack) Bind(k string, v int) { s.frames[len(s.frames)-1][k] = v }

func (s *Stack) Fresh(k string) int {
	var v = s.Next()
	s.Bind(k, v)
	s.n += 10
	return v + 1
}

func (s *Stack) Find(k string) int {
	for i := len(s.frames) - 1; i >= 0; i-- {
		if v, ok := s.frames[i][k]; ok {
			return v
		}
	}
	return -1
}

func (s *Stack) Lit(k string) (a, b int) {
	s.n++
	s.frames = append(s.frames, map[string]int{k: 1, "x": 2, k + "y": s.n})
	return s.n, len(s.frames)
}

// Script runs a fixed sequence of the methods above on s (which the test passes empty) and empties it again.
func Script(s *Stack, k string) (int, int, int, int) {
	s.Push()
	a := s.Fresh(k)
	s.Push()
	s.Bind("x", 7)
	b := s.Find(k) + s.Find("x") + s.Find("nope")
	s.Pop()
	c, d := s.Lit(k)
	e := c*1000 + s.Find(k+"y")
	g := d*100 + s.Find("x")
	s.frames = s.frames[:0]
	return a, b, e, g
}

// N lets the test read the counter.
func (s *Stack) N() int { return s.n }

// NewStack lets the test build a Stack.
func NewStack(n int) *Stack { return &Stack{n: n} }

type Frame struct {
	Vars map[string]int
	On   bool
}

type Frames []Frame

func (f *Frames) Push(on bool) { *f = append(*f, Frame{make(map[string]int), on}) }

func (f Frames) Set(k string, v int) { f[len(f)-1].Vars[k] = v }

func (f *Frames) Mark() { (*f)[len(*f)-1].On = true }

func (f Frames) Get(k string) int {
	for i := range f {
		if v, ok := f[len(f)-i-1].Vars[k]; ok {
			return v
		}
	}
	return -1
}

func (f Frames) Cut() Frames {
	for i := range f {
		ri := len(f) - i - 1
		if f[ri].On {
			return f[: ri+1 : ri+1]
		}
	}
	panic("none")
}

// Script2 runs a fixed sequence of the methods above on f (which the test passes empty) and empties it again.
func Script2(f *Frames, k string, mark bool) (int, int) {
	f.Push(false)
	f.Set(k, 1)
	if mark {
		f.Mark()
	}
	f.Push(false)
	f.Set("x", 2)
	f.Set(k+"x", 3)
	a := f.Get(k)*10 + f.Get("x")
	b := len(f.Cut())*100 + f.Cut().Get(k) + f.Cut().Get("x")
	*f = (*f)[:0]
	return a, b
}

// ---- error results, slices built by append ----

// ErrF: an error result is "err != nil".
func ErrF(x int) (int, error) {
	if x < 0 {
		return 0, errors.New("negative")
	}
	return x * 2, nil
}

// UseErr: a multi-valued call of a translated function, and a test of its error.
func UseErr(x int) int {
	v, err := ErrF(x - 3)
	if err != nil {
		return -1
	}
	if err == nil && v > 10 {
		return v
	}
	return 0
}

// Evens: make([]T, 0, n) and append in a loop.
func Evens(n int) []int {
	r := make([]int, 0, 4)
	for i := 0; i < n; i++ {
		if i%2 == 0 {
			r = append(r, i, -i)
		}
	}
	return r
}

// BufJoin: a local bytes.Buffer as an accumulator inside a loop (WriteString, WriteByte, Len, Reset, String).
func BufJoin(s string, n int) string {
	var out bytes.Buffer
	for i := 0; i < len(s); i++ {
		if out.Len() >= n {
			out.Reset()
			out.WriteString("..")
		}
		if s[i] == '.' {
			continue
		}
		out.WriteByte(s[i])
		out.Write([]byte("-"))
	}
	return out.String() + "|"
}

// ShowWrap: fields of interface type and slices of them, read through String() and != nil; fmt.Sprintf with %s %d.
type Named interface{ String() string }
type Lit string

func (l Lit) String() string { return string(l) }

type Wrap struct {
	Name string
	A    Named
	L    []Named
	N    int
}

func ShowWrap(w *Wrap) string {
	s := fmt.Sprintf("<%s:%d%%:%s>", w.Name, w.N, w.A)
	if w.A != nil {
		s += w.A.String()
	}
	for i, x := range w.L {
		if i > 0 {
			s += ","
		}
		s += x.String()
	}
	if len(w.L) == 0 {
		s += "-"
	}
	return s
}

// IndexWalk: an index loop whose index is used only as xs[i] (translated as the range loop it is), with continue,
// a flag and break, and a local constant.
func IndexWalk(xs []int, stop int) int {
	const step = 3
	var found = false
	var s = 0
	for i := 0; i < len(xs); i++ {
		if xs[i] < 0 {
			continue
		}
		if xs[i] == stop {
			found = true
			break
		}
		s += xs[i] * step
	}
	if found {
		return -s
	}
	return s
}

// IndexWalkRet: the same header with an early return and a second use of xs[i].
func IndexWalkRet(xs []int, stop int) int {
	for i := 0; i < len(xs); i++ {
		if xs[i] != stop {
			continue
		}
		return xs[i] + 1
	}
	return 0
}

// RevWalkA / RevWalkB / RevWalkC: the three spellings of a walk from the end of a slice (translated as ONE list loop
// over the reversed slice), with continue, break, an early return and an accumulator whose value depends on the order.
func RevWalkA(xs []int, stop int) int {
	var s = 0
	for i := range xs {
		if xs[len(xs)-i-1] < 0 {
			continue
		}
		if xs[len(xs)-i-1] == stop {
			break
		}
		s = s*3 + xs[len(xs)-i-1]
	}
	return s
}

func RevWalkB(xs []int, stop int) int {
	var s = 0
	for i := len(xs) - 1; i >= 0; i-- {
		if xs[i] < 0 {
			continue
		}
		if xs[i] == stop {
			return -s
		}
		s = s*3 + xs[i]
	}
	return s
}

func RevWalkC(xs []int, stop int) int {
	var s = 0
	for d := len(xs); d > 0; d-- {
		var x = xs[d-1]
		if x == stop {
			break
		}
		s = s*3 + x
	}
	return s
}

// RevWalkIdx: a count-down loop that uses its counter as a number too: NOT a list loop (stays a counting loop).
func RevWalkIdx(xs []int, stop int) int {
	var s = 0
	for i := len(xs) - 1; i >= 0; i-- {
		if xs[i] == stop {
			return i
		}
		s = s*3 + xs[i]
	}
	return s
}

// ---- the same stack written the other way: a place helper, count-down walks (translated as the same list loops) ----

// Last is a name for the last frame.
func (f Frames) Last() *Frame { return &f[len(f)-1] }

func (f Frames) Set2(k string, v int) { f.Last().Vars[k] = v }

func (f *Frames) Mark2() { f.Last().On = true }

func (f Frames) IsOn() bool { return f.Last().On }

func (f Frames) Get2(k string) int {
	for i := len(f) - 1; i >= 0; i-- {
		if v, ok := f[i].Vars[k]; ok {
			return v
		}
	}
	return -1
}

func (f Frames) Cut2() Frames {
	for i := len(f) - 1; i >= 0; i-- {
		if f[i].On {
			var n = i + 1
			return f[:n:n]
		}
	}
	panic("none")
}

func (f Frames) Cut3() Frames {
	for depth := len(f); depth > 0; depth-- {
		if !f[depth-1].On {
			continue
		}
		return f[:depth:depth]
	}
	panic("none")
}

// Script3 is Script2 over these methods.
func Script3(f *Frames, k string, mark bool) (int, int) {
	f.Push(false)
	f.Set2(k, 1)
	if mark {
		f.Mark2()
	}
	f.Push(false)
	f.Set2("x", 2)
	f.Set2(k+"x", 3)
	a := f.Get2(k)*10 + f.Get2("x")
	if f.IsOn() {
		a = -a
	}
	b := len(f.Cut2())*100 + f.Cut3().Get2(k) + f.Cut2().Get2("x") + len(f.Cut3())*1000
	*f = (*f)[:0]
	return a, b
}
