package main

import (
	"reflect"
	"strings"
	"testing"
)

// The reader of soyutils.js (jsutils.go) is trusted by C16's JavaScript tie: its scanner and decoders on small fixtures.
func TestJSScanAndDecoders(t *testing.T) {
	src := "a = /['()]/g; // c'omment\nb = 'x//y' /* z' */ + \"q\";\nc = x / 2 / y;\nd = s.replace(/(\\r\\n|\\r|\\n)/g, '<br>');\n"
	out, code := jsScan(src)
	if strings.Contains(out, "omment") || strings.Contains(out, "z'") {
		t.Fatalf("comments not removed: %q", out)
	}
	if len(out) != len(code) {
		t.Fatalf("mask length %d, text length %d", len(code), len(out))
	}
	// the quote inside the regex literal and the // inside the string are not code
	i := strings.Index(out, "['()]")
	for k := i; k < i+5; k++ {
		if code[k] {
			t.Errorf("byte %d (%q) of the regex literal is marked as code", k, out[k])
		}
	}
	j := strings.Index(out, "x//y")
	if j < 0 || code[j] || code[j+1] {
		t.Errorf("string literal body lost or marked as code: %q", out)
	}
	if !strings.Contains(out, "c = x / 2 / y;") {
		t.Errorf("division taken for a regex literal: %q", out)
	}
	cls, err := jsClass(`\x00\x08-\x0d\x22\/\\ a-c`)
	want := [][2]int{{0, 0}, {8, 13}, {34, 34}, {47, 47}, {92, 92}, {8232, 8232}, {97, 99}}
	if err != nil || !reflect.DeepEqual(cls, want) {
		t.Errorf("jsClass = %v, %v; want %v", cls, err, want)
	}
	if _, err := jsClass(`^a`); err == nil {
		t.Errorf("negated class accepted")
	}
	if _, err := jsClass(`\d`); err == nil {
		t.Errorf("class escape \\d accepted")
	}
	d, err := jsDecodeString(`\\x27\/ \x3c'` + "é")
	wantD := []int{92, 120, 50, 55, 47, 8232, 60, 39, 233}
	if err != nil || !reflect.DeepEqual(d, wantD) {
		t.Errorf("jsDecodeString = %v, %v; want %v", d, err, wantD)
	}
	if _, err := jsDecodeString(`\q`); err == nil {
		t.Errorf("unknown escape accepted")
	}
	u := &jsutils{g: &gen{}, ok: true}
	u.src, u.code = jsScan("f = function(a, b) {\n  // c\n  return  a  +  'x  y' ;\n};\n")
	p, b, ok := u.function("f")
	if !ok || p != "a,b" || b != "return a+'x  y';" {
		t.Errorf("function() = %q, %q, %v", p, b, ok)
	}
}
