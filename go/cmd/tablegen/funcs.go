package main

import (
	"go/ast"
	"sort"
	"strings"
)

func init() {
	register("20-html-funcs", (*gen).htmlFuncs)
}

type funcEntry struct {
	Name    string
	ArgLens []int64
	Fn      string
}

// funcTable reads a map[string]Func{ "name": {fn, []int{..}} } composite literal.
func (g *gen) funcTable(rel, varName string) []funcEntry {
	cl, ok := g.varValue(rel, varName).(*ast.CompositeLit)
	if !ok {
		g.fail("%s: %s is not a composite literal", rel, varName)
		return nil
	}
	var res []funcEntry
	for _, el := range cl.Elts {
		kv, ok := el.(*ast.KeyValueExpr)
		if !ok {
			g.fail("%s: %s entry not key:value", rel, varName)
			continue
		}
		name, ok := strLit(kv.Key)
		if !ok {
			g.fail("%s: %s key not a string literal", rel, varName)
			continue
		}
		fe := funcEntry{Name: name}
		switch v := kv.Value.(type) {
		case *ast.CompositeLit:
			fields := map[string]ast.Expr{}
			order := []string{"Apply", "ValidArgLengths"}
			for i, f := range v.Elts {
				if fkv, ok := f.(*ast.KeyValueExpr); ok {
					fields[fkv.Key.(*ast.Ident).Name] = fkv.Value
				} else if i < len(order) {
					fields[order[i]] = f
				}
			}
			for f := range fields {
				if f != "Apply" && f != "ValidArgLengths" {
					g.fail("%s: %s[%q] has a field %s the translator does not know", rel, varName, name, f)
				}
			}
			if id, ok := fields["Apply"].(*ast.Ident); ok {
				fe.Fn = id.Name
			} else if fields["Apply"] == nil {
				fe.Fn = "nil"
			} else {
				fe.Fn = "<expr>"
			}
			if al, ok := fields["ValidArgLengths"].(*ast.CompositeLit); ok {
				for _, e := range al.Elts {
					if n, ok := intLit(e); ok {
						fe.ArgLens = append(fe.ArgLens, n)
					} else {
						g.fail("%s: %s[%q] arg length not an int literal", rel, varName, name)
					}
				}
			} else {
				g.fail("%s: %s[%q] has no ValidArgLengths literal", rel, varName, name)
			}
		case *ast.Ident:
			fe.Fn = v.Name
		default:
			g.fail("%s: %s[%q] unexpected value shape", rel, varName, name)
		}
		res = append(res, fe)
	}
	sort.Slice(res, func(i, j int) bool { return res[i].Name < res[j].Name })
	return res
}

// funcTable2: a function table by pattern and by evaluation (evalsoyhtml.go), combined by g.choose.
func (g *gen) funcTable2(rel, varName string, withLens bool) []funcEntry {
	var fs []funcEntry
	perr := g.silent(func() { fs = g.funcTable(rel, varName) })
	pats := ""
	if len(perr) == 0 {
		pats = canonFuncs(fs)
	}
	ev, everrs := g.evalSoyhtml()
	evs := ""
	evFs, ok := evalFuncs(ev, varName, withLens)
	if ok {
		evs = canonFuncs(evFs)
	}
	switch g.choose(rel+" "+varName, pats, strings.Join(perr, "; "), evs, evErr(everrs, varName)) {
	case routeEval:
		return evFs
	case routeNone:
		return nil
	}
	return fs
}

func (g *gen) htmlFuncs() {
	fs := g.funcTable2("soyhtml/funcs.go", "Funcs", true)
	g.p("(* soyhtml/funcs.go Funcs: name -> valid argument counts *)\n")
	g.p("Definition html_funcs : list (bstr * list N) := [\n")
	for i, f := range fs {
		sep := ";"
		if i == len(fs)-1 {
			sep = ""
		}
		g.p("  (%s (* %s *), %s)%s\n", coqBytes(f.Name), f.Name, coqIntList(f.ArgLens), sep)
	}
	g.p("].\n")
	lf := g.funcTable2("soyhtml/funcs.go", "loopFuncs", false)
	g.p("Definition html_loop_funcs : list bstr := [")
	for i, f := range lf {
		if i > 0 {
			g.p("; ")
		}
		g.p("%s (* %s *)", coqBytes(f.Name), f.Name)
	}
	g.p("].\n\n")
	g.js["html_funcs"] = fs
	g.js["html_loop_funcs"] = lf
}
