package main

// gotrans: normalisations done on the Go syntax before translation, so that two spellings of one loop give ONE
// Gallina shape (and one lemma in Proofs/SourceTie*.v holds of both).
//
// indexWalk:   for i := 0; i < len(xs); i++ { ... xs[i] ... }      (i used only as xs[i], xs a slice that the body
//                                                                   does not assign, i not assigned by the body)
//          =   for _, x' := range xs { ... x' ... }
//
// Both read the elements in order from the slice as it is when the loop is entered (the body cannot change xs or
// its elements: assignedIn refuses), `continue` goes to the next element in both, `break` / `return` leave both; the
// index variable is scoped to the loop, so nothing after it can see its final value.

import (
	"go/ast"
	"go/token"
	"reflect"
)

// indexWalk: (the slice's name, the index variable) when x has the header of an index walk and uses the index only as xs[i]
func indexWalk(x *ast.ForStmt) (string, string, bool) {
	as, ok := x.Init.(*ast.AssignStmt)
	if !ok || as.Tok != token.DEFINE || len(as.Lhs) != 1 || len(as.Rhs) != 1 {
		return "", "", false
	}
	iv, ok := as.Lhs[0].(*ast.Ident)
	if z, isInt := intLit(as.Rhs[0]); !ok || !isInt || z != 0 {
		return "", "", false
	}
	cond, ok := x.Cond.(*ast.BinaryExpr)
	if !ok || cond.Op != token.LSS || !isIdent(cond.X, iv.Name) {
		return "", "", false
	}
	lc, ok := cond.Y.(*ast.CallExpr)
	if !ok || !isIdent(lc.Fun, "len") || len(lc.Args) != 1 {
		return "", "", false
	}
	sid, ok := unparen(lc.Args[0]).(*ast.Ident)
	if !ok {
		return "", "", false
	}
	inc, ok := x.Post.(*ast.IncDecStmt)
	if !ok || inc.Tok != token.INC || !isIdent(inc.X, iv.Name) {
		return "", "", false
	}
	okUse, uses := true, 0
	var parents []ast.Node
	ast.Inspect(x.Body, func(n ast.Node) bool {
		if n == nil {
			parents = parents[:len(parents)-1]
			return true
		}
		if id, ok := n.(*ast.Ident); ok && id.Name == iv.Name {
			ix, isIx := parents[len(parents)-1].(*ast.IndexExpr)
			if !isIx || !isIdent(unparen(ix.X), sid.Name) || unparen(ix.Index) != ast.Expr(id) {
				okUse = false
			}
			uses++
		}
		// a nested function literal or a redeclaration of either name: leave the loop alone
		switch y := n.(type) {
		case *ast.FuncLit:
			okUse = false
		case *ast.AssignStmt:
			if y.Tok == token.DEFINE {
				for _, l := range y.Lhs {
					if isIdent(l, iv.Name) || isIdent(l, sid.Name) {
						okUse = false
					}
				}
			}
		case *ast.ValueSpec:
			for _, l := range y.Names {
				if l.Name == iv.Name || l.Name == sid.Name {
					okUse = false
				}
			}
		}
		parents = append(parents, n)
		return true
	})
	return sid.Name, iv.Name, okUse && uses > 0
}

// asRange: the range loop that an index walk over a slice is, or nil.  The result is cached per statement (a function
// may be translated more than once: fragments), the original syntax is never changed.
func (tr *gtTr) asRange(x *ast.ForStmt, env *venv) *ast.RangeStmt {
	if isFirstMatchFor(x) {
		return nil // keeps its translation through List.find
	}
	sname, iname, ok := indexWalk(x)
	if !ok {
		return nil
	}
	sv := env.lookup(sname)
	if sv == nil || (sv.typ.kind != kSlice && sv.typ != tBytes) || env.lookup("len") != nil {
		return nil
	}
	keys, _, _ := tr.assignedIn([]ast.Node{x.Body}, env)
	for k := range keys {
		if k.v == sname || k.v == iname {
			return nil
		}
	}
	fresh := sname + "_elem"
	for n := 0; env.lookup(fresh) != nil || mentionsIdent(x.Body, fresh); n++ {
		fresh += "x"
	}
	seen := map[ast.Node]ast.Node{}
	body := cloneNode(x.Body, seen).(*ast.BlockStmt)
	body = replaceExprs(body, func(e ast.Expr) (ast.Expr, bool) {
		if ix, ok := e.(*ast.IndexExpr); ok && isIdent(unparen(ix.X), sname) && isIdent(unparen(ix.Index), iname) {
			id := ast.NewIdent(fresh)
			id.NamePos = ix.Pos()
			return id, true
		}
		return nil, false
	}).(*ast.BlockStmt)
	rs := &ast.RangeStmt{For: x.For, Key: ast.NewIdent("_"), Value: ast.NewIdent(fresh), Tok: token.DEFINE, X: ast.NewIdent(sname), Body: body}
	tr.loopIndex[rs] = tr.loopIndex[x]
	for o, n := range seen {
		if i, ok := tr.loopIndex[o]; ok {
			tr.loopIndex[n] = i
		}
		if f, ok := tr.autoFuel[o]; ok && tr.autoFuel != nil {
			tr.autoFuel[n] = f
		}
	}
	return rs
}

func mentionsIdent(n ast.Node, name string) bool {
	found := false
	ast.Inspect(n, func(m ast.Node) bool {
		if id, ok := m.(*ast.Ident); ok && id.Name == name {
			found = true
		}
		return !found
	})
	return found
}

// cloneNode: a deep copy of a syntax tree (identifier objects and scopes are shared, not followed); seen maps every
// original node to its copy.
func cloneNode(n ast.Node, seen map[ast.Node]ast.Node) ast.Node {
	v := cloneValue(reflect.ValueOf(n), seen)
	return v.Interface().(ast.Node)
}

func cloneValue(v reflect.Value, seen map[ast.Node]ast.Node) reflect.Value {
	switch v.Kind() {
	case reflect.Interface:
		if v.IsNil() {
			return v
		}
		c := cloneValue(v.Elem(), seen)
		out := reflect.New(v.Type()).Elem()
		out.Set(c)
		return out
	case reflect.Ptr:
		if v.IsNil() {
			return v
		}
		switch v.Interface().(type) {
		case *ast.Object, *ast.Scope:
			return v
		}
		if v.Elem().Kind() != reflect.Struct {
			return v
		}
		out := reflect.New(v.Elem().Type())
		for i := 0; i < v.Elem().NumField(); i++ {
			f := v.Elem().Field(i)
			if out.Elem().Field(i).CanSet() {
				out.Elem().Field(i).Set(cloneValue(f, seen))
			}
		}
		if on, ok := v.Interface().(ast.Node); ok {
			seen[on] = out.Interface().(ast.Node)
		}
		return out
	case reflect.Slice:
		if v.IsNil() {
			return v
		}
		out := reflect.MakeSlice(v.Type(), v.Len(), v.Len())
		for i := 0; i < v.Len(); i++ {
			out.Index(i).Set(cloneValue(v.Index(i), seen))
		}
		return out
	}
	return v
}

// replaceExprs rewrites, in place, every expression of the tree for which f answers true (outermost first; the
// replacement is not visited again) and returns the tree.
func replaceExprs(n ast.Node, f func(ast.Expr) (ast.Expr, bool)) ast.Node {
	exprType := reflect.TypeOf((*ast.Expr)(nil)).Elem()
	var walk func(v reflect.Value)
	walk = func(v reflect.Value) {
		switch v.Kind() {
		case reflect.Interface:
			if v.IsNil() {
				return
			}
			if v.Type() == exprType && v.CanSet() {
				if r, ok := f(v.Interface().(ast.Expr)); ok {
					v.Set(reflect.ValueOf(r))
					return
				}
			}
			walk(v.Elem())
		case reflect.Ptr:
			if v.IsNil() {
				return
			}
			switch v.Interface().(type) {
			case *ast.Object, *ast.Scope:
				return
			}
			if v.Elem().Kind() == reflect.Struct {
				for i := 0; i < v.Elem().NumField(); i++ {
					walk(v.Elem().Field(i))
				}
			}
		case reflect.Slice:
			for i := 0; i < v.Len(); i++ {
				walk(v.Index(i))
			}
		}
	}
	walk(reflect.ValueOf(n))
	return n
}

// hoistMutCall:   return e1 + s.m()        =   h := s.m(); return e1 + h
//
// A call that changes its receiver (or an argument) is in the subset only as a statement or as the whole right-hand
// side of an assignment.  When such a call is an operand inside the expression(s) of a return / assignment / var
// statement, it is the only call of the statement, and every other leaf is a literal or a plain variable that the
// call does not change, the order of evaluation does not matter (the variables are read, the call runs once) and the
// call is taken out in front of the statement.
func (tr *gtTr) hoistMutCall(s ast.Stmt, env *venv) ([]ast.Stmt, bool) {
	var exprs []ast.Expr
	switch x := s.(type) {
	case *ast.ReturnStmt:
		exprs = x.Results
	case *ast.AssignStmt:
		for _, l := range x.Lhs {
			if _, ok := l.(*ast.Ident); !ok {
				return nil, false
			}
		}
		exprs = x.Rhs
	case *ast.DeclStmt:
		gd, ok := x.Decl.(*ast.GenDecl)
		if !ok || gd.Tok != token.VAR {
			return nil, false
		}
		for _, sp := range gd.Specs {
			exprs = append(exprs, sp.(*ast.ValueSpec).Values...)
		}
	default:
		return nil, false
	}
	var theCall *ast.CallExpr
	var keys []stKey
	calls, simple := 0, true
	for _, e := range exprs {
		top := unparen(e)
		ast.Inspect(e, func(n ast.Node) bool {
			switch y := n.(type) {
			case *ast.CallExpr:
				calls++
				if ast.Expr(y) != top {
					if k := tr.calleeMuts(y, env); len(k) > 0 {
						theCall, keys = y, k
					}
				}
				if len(y.Args) > 0 {
					simple = false
				}
				// the receiver is looked at by calleeMuts, not as an operand
				return false
			case *ast.BinaryExpr, *ast.ParenExpr, *ast.BasicLit, *ast.Ident:
			case nil:
			default:
				simple = false
			}
			return true
		})
	}
	if theCall == nil || calls != 1 || !simple {
		return nil, false
	}
	for _, e := range exprs {
		bad := false
		ast.Inspect(e, func(n ast.Node) bool {
			if n == ast.Node(theCall) {
				return false
			}
			if id, ok := n.(*ast.Ident); ok {
				for _, k := range keys {
					if k.v == id.Name {
						bad = true
					}
				}
			}
			return true
		})
		if bad {
			return nil, false
		}
	}
	fresh := "hoisted"
	for env.lookup(fresh) != nil || mentionsIdent(s, fresh) {
		fresh += "x"
	}
	seen := map[ast.Node]ast.Node{}
	c2 := cloneNode(s, seen).(ast.Stmt)
	callCopy := seen[theCall]
	replaceExprs(c2, func(e ast.Expr) (ast.Expr, bool) {
		if ast.Node(e) == callCopy {
			return ast.NewIdent(fresh), true
		}
		return nil, false
	})
	pre := &ast.AssignStmt{Lhs: []ast.Expr{ast.NewIdent(fresh)}, Tok: token.DEFINE, Rhs: []ast.Expr{theCall}}
	return []ast.Stmt{pre, c2}, true
}

// asValueRange:   for i := range xs { ... xs[i] ... }   (i used only as xs[i], xs a slice variable that the body does
// not assign)   =   for _, x' := range xs { ... x' ... }     -- the same loop as indexWalk, in its range spelling.
func (tr *gtTr) asValueRange(x *ast.RangeStmt, env *venv) *ast.RangeStmt {
	if x.Tok != token.DEFINE || x.Value != nil {
		return nil
	}
	iv, ok := x.Key.(*ast.Ident)
	if !ok || iv.Name == "_" {
		return nil
	}
	sid, ok := unparen(x.X).(*ast.Ident)
	if !ok {
		return nil
	}
	sv := env.lookup(sid.Name)
	if sv == nil || (sv.typ.kind != kSlice && sv.typ != tBytes) {
		return nil
	}
	okUse, uses := true, 0
	var parents []ast.Node
	ast.Inspect(x.Body, func(n ast.Node) bool {
		if n == nil {
			parents = parents[:len(parents)-1]
			return true
		}
		if id, ok := n.(*ast.Ident); ok && id.Name == iv.Name {
			var ix *ast.IndexExpr
			if len(parents) > 0 {
				ix, _ = parents[len(parents)-1].(*ast.IndexExpr)
			}
			if ix == nil || !isIdent(unparen(ix.X), sid.Name) || unparen(ix.Index) != ast.Expr(id) {
				okUse = false
			}
			uses++
		}
		switch y := n.(type) {
		case *ast.FuncLit:
			okUse = false
		case *ast.AssignStmt:
			if y.Tok == token.DEFINE {
				for _, l := range y.Lhs {
					if isIdent(l, iv.Name) || isIdent(l, sid.Name) {
						okUse = false
					}
				}
			}
		case *ast.ValueSpec:
			for _, l := range y.Names {
				if l.Name == iv.Name || l.Name == sid.Name {
					okUse = false
				}
			}
		}
		parents = append(parents, n)
		return true
	})
	if !okUse || uses == 0 {
		return nil
	}
	keys, _, _ := tr.assignedIn([]ast.Node{x.Body}, env)
	for k := range keys {
		if k.v == sid.Name || k.v == iv.Name {
			return nil
		}
	}
	fresh := sid.Name + "_elem"
	for env.lookup(fresh) != nil || mentionsIdent(x.Body, fresh) {
		fresh += "x"
	}
	seen := map[ast.Node]ast.Node{}
	body := cloneNode(x.Body, seen).(*ast.BlockStmt)
	replaceExprs(body, func(e ast.Expr) (ast.Expr, bool) {
		if ix, ok := e.(*ast.IndexExpr); ok && isIdent(unparen(ix.X), sid.Name) && isIdent(unparen(ix.Index), iv.Name) {
			id := ast.NewIdent(fresh)
			id.NamePos = ix.Pos()
			return id, true
		}
		return nil, false
	})
	rs := &ast.RangeStmt{For: x.For, Key: ast.NewIdent("_"), Value: ast.NewIdent(fresh), Tok: token.DEFINE, X: ast.NewIdent(sid.Name), Body: body}
	tr.loopIndex[rs] = tr.loopIndex[x]
	for o, n := range seen {
		if i, ok := tr.loopIndex[o]; ok {
			tr.loopIndex[n] = i
		}
		if f, ok := tr.autoFuel[o]; ok && tr.autoFuel != nil {
			tr.autoFuel[n] = f
		}
	}
	return rs
}

// ---- walks from the end of a slice ----
//
// Three spellings of "visit the elements of xs from the last to the first" (xs a slice variable or a slice field of a
// struct variable, not assigned by the body; the counter not assigned by the body and used ONLY in the index shown):
//
//	for i := range xs            { ... xs[len(xs)-i-1] ... }      (also len(xs)-1-i)
//	for i := len(xs)-1; i >= 0; i-- { ... xs[i] ... }
//	for d := len(xs); d > 0; d--  { ... xs[d-1] ... }
//
// Each of them is the loop  for _, x' := range rev(xs) { ... x' ... }: the index is in range at every iteration (so no
// iteration panics on the index), the elements are read in the order of rev xs, the slice is as it was when the loop
// was entered (the body cannot change it: assignedIn), `continue` goes to the next element, `break` / `return` leave,
// and the counter is scoped to the loop.  The reversed list is written with the pseudo call ` rev`(xs) (a name no Go
// program can contain), which tr.call translates as (rev xs).
const gtRevName = " rev"

// sliceRef: xs is `v` or `v.f`; the text it is compared by and its root variable
func sliceRef(e ast.Expr) (string, string, bool) {
	switch x := unparen(e).(type) {
	case *ast.Ident:
		return x.Name, x.Name, true
	case *ast.SelectorExpr:
		if id, ok := unparen(x.X).(*ast.Ident); ok {
			return id.Name + "." + x.Sel.Name, id.Name, true
		}
	}
	return "", "", false
}

func isLenOf(e ast.Expr, ref string) bool {
	c, ok := unparen(e).(*ast.CallExpr)
	if !ok || !isIdent(c.Fun, "len") || len(c.Args) != 1 {
		return false
	}
	r, _, ok := sliceRef(c.Args[0])
	return ok && r == ref
}

func isIntLit(e ast.Expr, want int64) bool {
	z, ok := intLit(unparen(e))
	return ok && z == want
}

// isSub: e = a - b
func isSub(e ast.Expr) (ast.Expr, ast.Expr, bool) {
	b, ok := unparen(e).(*ast.BinaryExpr)
	if !ok || b.Op != token.SUB {
		return nil, nil, false
	}
	return b.X, b.Y, true
}

// revRange builds the range loop over rev(xs) from the body of a walk from the end; isPos recognises the index
// expression that stands for "the current element's position".
//
// When the counter is used for something else than the element too (alldata: s[:i+1]), the loop keeps a key: the list
// loop counts j = 0, 1, ... from the END of xs and the counter is defined from j at the head of the body
// (counterOf(j); nil when the counter IS j, the first spelling).  A leading `var p = E` of the body with E pure
// arithmetic over the counter, len(xs) and literals, p never assigned, is replaced by E first (so that xs[p] is seen).
func (tr *gtTr) revRange(orig ast.Node, forPos token.Pos, slice ast.Expr, counter string, body *ast.BlockStmt, isPos func(ast.Expr) bool, counterOf func(j string) ast.Expr, env *venv) *ast.RangeStmt {
	ref, root, ok := sliceRef(slice)
	if !ok || env.lookup("len") != nil || env.lookup(root) == nil {
		return nil
	}
	if k, _, ok := tr.rootOf(slice, env); !ok {
		return nil
	} else {
		keys, _, _ := tr.assignedIn([]ast.Node{body}, env)
		for kk := range keys {
			if kk == k || (kk.v == k.v && (kk.f == "" || k.f == "")) || kk.v == counter {
				return nil
			}
		}
	}
	bad := false
	ast.Inspect(body, func(n ast.Node) bool {
		switch y := n.(type) {
		case *ast.FuncLit:
			bad = true
		case *ast.AssignStmt:
			if y.Tok == token.DEFINE {
				for _, l := range y.Lhs {
					if isIdent(l, counter) || isIdent(l, root) || isIdent(l, "len") {
						bad = true
					}
				}
			}
		case *ast.ValueSpec:
			for _, l := range y.Names {
				if l.Name == counter || l.Name == root || l.Name == "len" {
					bad = true
				}
			}
		case *ast.RangeStmt:
			if isIdent(y.Key, counter) || isIdent(y.Key, root) || (y.Value != nil && (isIdent(y.Value, counter) || isIdent(y.Value, root))) {
				bad = true
			}
		}
		return !bad
	})
	if bad {
		return nil
	}
	fresh := root + "_elem"
	for env.lookup(fresh) != nil || mentionsIdent(body, fresh) {
		fresh += "x"
	}
	seen := map[ast.Node]ast.Node{}
	b2 := cloneNode(body, seen).(*ast.BlockStmt)
	// leading pure position locals:  var p = len(xs) - i - 1
	for len(b2.List) > 1 {
		name, val, ok := pureLocal(b2.List[0], counter, ref)
		if !ok || name == counter || name == root || env.lookup(name) != nil {
			break
		}
		rest := &ast.BlockStmt{List: b2.List[1:]}
		if assignsOrDeclares(rest, name) {
			break
		}
		replaceExprs(rest, func(e ast.Expr) (ast.Expr, bool) {
			if isIdent2(e, name) {
				return &ast.ParenExpr{X: cloneNode(val, map[ast.Node]ast.Node{}).(ast.Expr)}, true
			}
			return nil, false
		})
		b2.List = rest.List
	}
	uses := 0
	replaceExprs(b2, func(e ast.Expr) (ast.Expr, bool) {
		if ix, ok := e.(*ast.IndexExpr); ok {
			if r, _, ok := sliceRef(ix.X); ok && r == ref && isPos(ix.Index) {
				id := ast.NewIdent(fresh)
				id.NamePos = ix.Pos()
				uses++
				return id, true
			}
		}
		return nil, false
	})
	if uses == 0 {
		return nil
	}
	key := "_"
	if mentionsIdent(b2, counter) {
		// the counter is used as a number too: keep a key
		if counterOf == nil {
			key = counter
		} else {
			key = root + "_back"
			for env.lookup(key) != nil || mentionsIdent(b2, key) {
				key += "x"
			}
			def := &ast.AssignStmt{Lhs: []ast.Expr{ast.NewIdent(counter)}, Tok: token.DEFINE, Rhs: []ast.Expr{counterOf(key)}}
			b2.List = append([]ast.Stmt{def}, b2.List...)
		}
	}
	xs := cloneNode(slice, map[ast.Node]ast.Node{}).(ast.Expr)
	rs := &ast.RangeStmt{For: forPos, Key: ast.NewIdent(key), Value: ast.NewIdent(fresh), Tok: token.DEFINE,
		X: &ast.CallExpr{Fun: ast.NewIdent(gtRevName), Args: []ast.Expr{xs}}, Body: b2}
	tr.loopIndex[rs] = tr.loopIndex[orig]
	for o, n := range seen {
		if i, ok := tr.loopIndex[o]; ok {
			tr.loopIndex[n] = i
		}
		if f, ok := tr.autoFuel[o]; ok && tr.autoFuel != nil {
			tr.autoFuel[n] = f
		}
	}
	return rs
}

// asRevRangeR: for i := range xs { ... xs[len(xs)-i-1] ... }
func (tr *gtTr) asRevRangeR(x *ast.RangeStmt, env *venv) *ast.RangeStmt {
	if x.Tok != token.DEFINE || x.Value != nil {
		return nil
	}
	iv, ok := x.Key.(*ast.Ident)
	if !ok || iv.Name == "_" {
		return nil
	}
	ref, _, ok := sliceRef(x.X)
	if !ok {
		return nil
	}
	isPos := func(e ast.Expr) bool {
		a, b, ok := isSub(e)
		if !ok {
			return false
		}
		if a1, b1, ok := isSub(a); ok { // (len(xs) - i) - 1   or   (len(xs) - 1) - i
			return isLenOf(a1, ref) && ((isIdent(unparen(b1), iv.Name) && isIntLit(b, 1)) || (isIntLit(b1, 1) && isIdent(unparen(b), iv.Name)))
		}
		return false
	}
	return tr.revRange(x, x.For, x.X, iv.Name, x.Body, isPos, nil, env)
}

// asRevRangeF: for i := len(xs)-1; i >= 0; i-- { ... xs[i] ... }   and   for d := len(xs); d > 0; d-- { ... xs[d-1] ... }
func (tr *gtTr) asRevRangeF(x *ast.ForStmt, env *venv) *ast.RangeStmt {
	as, ok := x.Init.(*ast.AssignStmt)
	if !ok || as.Tok != token.DEFINE || len(as.Lhs) != 1 || len(as.Rhs) != 1 {
		return nil
	}
	iv, ok := as.Lhs[0].(*ast.Ident)
	if !ok || iv.Name == "_" {
		return nil
	}
	dec, ok := x.Post.(*ast.IncDecStmt)
	if !ok || dec.Tok != token.DEC || !isIdent(dec.X, iv.Name) {
		return nil
	}
	cond, ok := x.Cond.(*ast.BinaryExpr)
	if !ok || !isIdent(unparen(cond.X), iv.Name) || !isIntLit(cond.Y, 0) {
		return nil
	}
	var slice ast.Expr
	var isPos func(ast.Expr) bool
	var counterOf func(j string) ast.Expr
	lenOf := func() ast.Expr {
		return &ast.CallExpr{Fun: ast.NewIdent("len"), Args: []ast.Expr{cloneNode(slice, map[ast.Node]ast.Node{}).(ast.Expr)}}
	}
	lenArg := func(e ast.Expr) ast.Expr {
		c, ok := unparen(e).(*ast.CallExpr)
		if !ok || !isIdent(c.Fun, "len") || len(c.Args) != 1 {
			return nil
		}
		return c.Args[0]
	}
	switch cond.Op {
	case token.GEQ: // i := len(xs)-1; i >= 0
		a, b, ok := isSub(as.Rhs[0])
		if !ok || !isIntLit(b, 1) || lenArg(a) == nil {
			return nil
		}
		slice = lenArg(a)
		isPos = func(e ast.Expr) bool { return isIdent(unparen(e), iv.Name) }
		counterOf = func(j string) ast.Expr { // i = len(xs) - 1 - j
			return &ast.BinaryExpr{X: &ast.BinaryExpr{X: lenOf(), Op: token.SUB, Y: &ast.BasicLit{Kind: token.INT, Value: "1"}}, Op: token.SUB, Y: ast.NewIdent(j)}
		}
	case token.GTR: // d := len(xs); d > 0
		if lenArg(as.Rhs[0]) == nil {
			return nil
		}
		slice = lenArg(as.Rhs[0])
		isPos = func(e ast.Expr) bool {
			a, b, ok := isSub(e)
			return ok && isIdent(unparen(a), iv.Name) && isIntLit(b, 1)
		}
		counterOf = func(j string) ast.Expr { // d = len(xs) - j
			return &ast.BinaryExpr{X: lenOf(), Op: token.SUB, Y: ast.NewIdent(j)}
		}
	default:
		return nil
	}
	return tr.revRange(x, x.For, slice, iv.Name, x.Body, isPos, counterOf, env)
}

// ---- place helpers ----
//
//	func (s T) top() *E { return &s[len(s)-1] }        (T a named slice type; or  func (s *T) ... return &(*s)[...])
//
// A method without parameters whose whole body returns the address of ONE element of its receiver is a name for
// that element.  A call x.top() that is used directly as the operand of a field selection -- x.top().f, read or
// assigned -- is the element expression itself, x[len(x)-1].f (Go dereferences the pointer on the spot; the pointer is
// not kept, so no aliasing outlives the expression).  Any other use of such a call (p := x.top()) stays outside the
// subset.  The index expression may mention only the receiver, len and integer literals.
func (tr *gtTr) placeCall(c *ast.CallExpr, env *venv) (ast.Expr, bool) {
	if len(c.Args) != 0 || c.Ellipsis.IsValid() {
		return nil, false
	}
	sel, ok := c.Fun.(*ast.SelectorExpr)
	if !ok {
		return nil, false
	}
	xid, ok := unparen(sel.X).(*ast.Ident)
	if !ok {
		return nil, false
	}
	v := env.lookup(xid.Name)
	if v == nil || v.typ.kind != kSlice || v.typ.nname == "" || v.typ.ndir != tr.p.dir || v.banned != "" {
		return nil, false
	}
	fd := tr.p.funcs[v.typ.nname+"."+sel.Sel.Name]
	if fd == nil || fd.Recv == nil || len(fd.Recv.List) != 1 || len(fd.Recv.List[0].Names) != 1 || fd.Body == nil || len(fd.Body.List) != 1 {
		return nil, false
	}
	if fd.Type.Params.NumFields() != 0 || fd.Type.Results.NumFields() != 1 {
		return nil, false
	}
	if _, isPtr := fd.Type.Results.List[0].Type.(*ast.StarExpr); !isPtr {
		return nil, false
	}
	r := fd.Recv.List[0].Names[0].Name
	_, ptrRecv := fd.Recv.List[0].Type.(*ast.StarExpr)
	ret, ok := fd.Body.List[0].(*ast.ReturnStmt)
	if !ok || len(ret.Results) != 1 {
		return nil, false
	}
	addr, ok := unparen(ret.Results[0]).(*ast.UnaryExpr)
	if !ok || addr.Op != token.AND {
		return nil, false
	}
	ix, ok := unparen(addr.X).(*ast.IndexExpr)
	if !ok {
		return nil, false
	}
	// the caller's expression for the slice
	var self func() ast.Expr
	if v.ptr {
		self = func() ast.Expr { return &ast.ParenExpr{X: &ast.StarExpr{X: ast.NewIdent(xid.Name)}} }
	} else {
		self = func() ast.Expr { return ast.NewIdent(xid.Name) }
	}
	isRecv := func(e ast.Expr) bool {
		if ptrRecv {
			st, ok := unparen(e).(*ast.StarExpr)
			return ok && isIdent(st.X, r)
		}
		return isIdent(e, r)
	}
	if !isRecv(ix.X) {
		return nil, false
	}
	// the index: receiver, len, integer literals, + and -
	okIdx := true
	var conv func(e ast.Expr) ast.Expr
	conv = func(e ast.Expr) ast.Expr {
		if isRecv(e) {
			return self()
		}
		switch y := unparen(e).(type) {
		case *ast.BasicLit:
			if y.Kind == token.INT {
				return &ast.BasicLit{Kind: token.INT, Value: y.Value}
			}
		case *ast.BinaryExpr:
			if y.Op == token.ADD || y.Op == token.SUB {
				return &ast.BinaryExpr{X: conv(y.X), Op: y.Op, Y: conv(y.Y)}
			}
		case *ast.CallExpr:
			if isIdent(y.Fun, "len") && len(y.Args) == 1 && isRecv(y.Args[0]) {
				return &ast.CallExpr{Fun: ast.NewIdent("len"), Args: []ast.Expr{self()}}
			}
		}
		okIdx = false
		return e
	}
	idx := conv(ix.Index)
	if !okIdx || env.lookup("len") != nil {
		return nil, false
	}
	return &ast.IndexExpr{X: self(), Index: idx}, true
}

// inlinePlaces: the simple statement with every x.top().f replaced by x[...].f (a copy; nil when there is none)
func (tr *gtTr) inlinePlaces(s ast.Stmt, env *venv) ast.Stmt {
	switch s.(type) {
	case *ast.AssignStmt, *ast.ExprStmt, *ast.IncDecStmt, *ast.ReturnStmt:
	default:
		return nil
	}
	found := false
	ast.Inspect(s, func(n ast.Node) bool {
		if se, ok := n.(*ast.SelectorExpr); ok {
			if c, ok := unparen(se.X).(*ast.CallExpr); ok {
				if _, ok := tr.placeCall(c, env); ok {
					found = true
				}
			}
		}
		return !found
	})
	if !found {
		return nil
	}
	c2 := cloneNode(s, map[ast.Node]ast.Node{}).(ast.Stmt)
	replaceExprs(c2, func(e ast.Expr) (ast.Expr, bool) {
		if se, ok := e.(*ast.SelectorExpr); ok {
			if c, ok := unparen(se.X).(*ast.CallExpr); ok {
				if pl, ok := tr.placeCall(c, env); ok {
					return &ast.SelectorExpr{X: pl, Sel: ast.NewIdent(se.Sel.Name)}, true
				}
			}
		}
		return nil, false
	})
	return c2
}

func isIdent2(e ast.Expr, name string) bool {
	id, ok := e.(*ast.Ident)
	return ok && id.Name == name
}

// pureLocal: `var p = E` / `p := E` with E built from the counter, len(xs), integer literals, + and -
func pureLocal(st ast.Stmt, counter, ref string) (string, ast.Expr, bool) {
	var name string
	var val ast.Expr
	switch x := st.(type) {
	case *ast.AssignStmt:
		if x.Tok != token.DEFINE || len(x.Lhs) != 1 || len(x.Rhs) != 1 {
			return "", nil, false
		}
		id, ok := x.Lhs[0].(*ast.Ident)
		if !ok {
			return "", nil, false
		}
		name, val = id.Name, x.Rhs[0]
	case *ast.DeclStmt:
		gd, ok := x.Decl.(*ast.GenDecl)
		if !ok || gd.Tok != token.VAR || len(gd.Specs) != 1 {
			return "", nil, false
		}
		vs := gd.Specs[0].(*ast.ValueSpec)
		if len(vs.Names) != 1 || len(vs.Values) != 1 || vs.Type != nil {
			return "", nil, false
		}
		name, val = vs.Names[0].Name, vs.Values[0]
	default:
		return "", nil, false
	}
	var pure func(e ast.Expr) bool
	pure = func(e ast.Expr) bool {
		switch y := unparen(e).(type) {
		case *ast.Ident:
			return y.Name == counter
		case *ast.BasicLit:
			return y.Kind == token.INT
		case *ast.BinaryExpr:
			return (y.Op == token.ADD || y.Op == token.SUB) && pure(y.X) && pure(y.Y)
		case *ast.CallExpr:
			return isLenOf(y, ref)
		}
		return false
	}
	if name == "_" || !pure(val) || !mentionsIdent(val, counter) {
		return "", nil, false
	}
	return name, val, true
}

// assignsOrDeclares: the block assigns to name, takes its address, or declares it again
func assignsOrDeclares(b *ast.BlockStmt, name string) bool {
	bad := false
	ast.Inspect(b, func(n ast.Node) bool {
		switch y := n.(type) {
		case *ast.AssignStmt:
			for _, l := range y.Lhs {
				if isIdent(l, name) {
					bad = true
				}
			}
		case *ast.IncDecStmt:
			if isIdent(y.X, name) {
				bad = true
			}
		case *ast.UnaryExpr:
			if y.Op == token.AND && mentionsIdent(y.X, name) {
				bad = true
			}
		case *ast.ValueSpec:
			for _, l := range y.Names {
				if l.Name == name {
					bad = true
				}
			}
		case *ast.RangeStmt:
			if isIdent(y.Key, name) || (y.Value != nil && isIdent(y.Value, name)) {
				bad = true
			}
		case *ast.FuncLit:
			bad = true
		}
		return !bad
	})
	return bad
}
