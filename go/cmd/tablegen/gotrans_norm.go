package main

// gotrans: normalisations done on the Go syntax before translation, so that two spellings of one loop give ONE
// Gallina shape (and one lemma in Proofs/SourceTie*.v holds of both).
//
// indexWalk:   for i := 0; i < len(xs); i++ { ... xs[i] ... }      (i used only as xs[i], xs a slice that the body
//                                                                   does not assign, i not assigned by the body)
//          =   for _, x' := range xs { ... x' ... }
//
// Both read the elements in order from the slice as it is when the loop is entered (the body cannot change xs or
// its elements: assignedIn refuses), `continue` goes to the next element in both, `break` / `return` leave both; the
// index variable is scoped to the loop, so nothing after it can see its final value.

import (
	"go/ast"
	"go/token"
	"reflect"
)

// indexWalk: (the slice's name, the index variable) when x has the header of an index walk and uses the index only as xs[i]
func indexWalk(x *ast.ForStmt) (string, string, bool) {
	as, ok := x.Init.(*ast.AssignStmt)
	if !ok || as.Tok != token.DEFINE || len(as.Lhs) != 1 || len(as.Rhs) != 1 {
		return "", "", false
	}
	iv, ok := as.Lhs[0].(*ast.Ident)
	if z, isInt := intLit(as.Rhs[0]); !ok || !isInt || z != 0 {
		return "", "", false
	}
	cond, ok := x.Cond.(*ast.BinaryExpr)
	if !ok || cond.Op != token.LSS || !isIdent(cond.X, iv.Name) {
		return "", "", false
	}
	lc, ok := cond.Y.(*ast.CallExpr)
	if !ok || !isIdent(lc.Fun, "len") || len(lc.Args) != 1 {
		return "", "", false
	}
	sid, ok := unparen(lc.Args[0]).(*ast.Ident)
	if !ok {
		return "", "", false
	}
	inc, ok := x.Post.(*ast.IncDecStmt)
	if !ok || inc.Tok != token.INC || !isIdent(inc.X, iv.Name) {
		return "", "", false
	}
	okUse, uses := true, 0
	var parents []ast.Node
	ast.Inspect(x.Body, func(n ast.Node) bool {
		if n == nil {
			parents = parents[:len(parents)-1]
			return true
		}
		if id, ok := n.(*ast.Ident); ok && id.Name == iv.Name {
			ix, isIx := parents[len(parents)-1].(*ast.IndexExpr)
			if !isIx || !isIdent(unparen(ix.X), sid.Name) || unparen(ix.Index) != ast.Expr(id) {
				okUse = false
			}
			uses++
		}
		// a nested function literal or a redeclaration of either name: leave the loop alone
		switch y := n.(type) {
		case *ast.FuncLit:
			okUse = false
		case *ast.AssignStmt:
			if y.Tok == token.DEFINE {
				for _, l := range y.Lhs {
					if isIdent(l, iv.Name) || isIdent(l, sid.Name) {
						okUse = false
					}
				}
			}
		case *ast.ValueSpec:
			for _, l := range y.Names {
				if l.Name == iv.Name || l.Name == sid.Name {
					okUse = false
				}
			}
		}
		parents = append(parents, n)
		return true
	})
	return sid.Name, iv.Name, okUse && uses > 0
}

// asRange: the range loop that an index walk over a slice is, or nil.  The result is cached per statement (a function
// may be translated more than once: fragments), the original syntax is never changed.
func (tr *gtTr) asRange(x *ast.ForStmt, env *venv) *ast.RangeStmt {
	if isFirstMatchFor(x) {
		return nil // keeps its translation through List.find
	}
	sname, iname, ok := indexWalk(x)
	if !ok {
		return nil
	}
	sv := env.lookup(sname)
	if sv == nil || (sv.typ.kind != kSlice && sv.typ != tBytes) || env.lookup("len") != nil {
		return nil
	}
	keys, _, _ := tr.assignedIn([]ast.Node{x.Body}, env)
	for k := range keys {
		if k.v == sname || k.v == iname {
			return nil
		}
	}
	fresh := sname + "_elem"
	for n := 0; env.lookup(fresh) != nil || mentionsIdent(x.Body, fresh); n++ {
		fresh += "x"
	}
	seen := map[ast.Node]ast.Node{}
	body := cloneNode(x.Body, seen).(*ast.BlockStmt)
	body = replaceExprs(body, func(e ast.Expr) (ast.Expr, bool) {
		if ix, ok := e.(*ast.IndexExpr); ok && isIdent(unparen(ix.X), sname) && isIdent(unparen(ix.Index), iname) {
			id := ast.NewIdent(fresh)
			id.NamePos = ix.Pos()
			return id, true
		}
		return nil, false
	}).(*ast.BlockStmt)
	rs := &ast.RangeStmt{For: x.For, Key: ast.NewIdent("_"), Value: ast.NewIdent(fresh), Tok: token.DEFINE, X: ast.NewIdent(sname), Body: body}
	tr.loopIndex[rs] = tr.loopIndex[x]
	for o, n := range seen {
		if i, ok := tr.loopIndex[o]; ok {
			tr.loopIndex[n] = i
		}
		if f, ok := tr.autoFuel[o]; ok && tr.autoFuel != nil {
			tr.autoFuel[n] = f
		}
	}
	return rs
}

func mentionsIdent(n ast.Node, name string) bool {
	found := false
	ast.Inspect(n, func(m ast.Node) bool {
		if id, ok := m.(*ast.Ident); ok && id.Name == name {
			found = true
		}
		return !found
	})
	return found
}

// cloneNode: a deep copy of a syntax tree (identifier objects and scopes are shared, not followed); seen maps every
// original node to its copy.
func cloneNode(n ast.Node, seen map[ast.Node]ast.Node) ast.Node {
	v := cloneValue(reflect.ValueOf(n), seen)
	return v.Interface().(ast.Node)
}

func cloneValue(v reflect.Value, seen map[ast.Node]ast.Node) reflect.Value {
	switch v.Kind() {
	case reflect.Interface:
		if v.IsNil() {
			return v
		}
		c := cloneValue(v.Elem(), seen)
		out := reflect.New(v.Type()).Elem()
		out.Set(c)
		return out
	case reflect.Ptr:
		if v.IsNil() {
			return v
		}
		switch v.Interface().(type) {
		case *ast.Object, *ast.Scope:
			return v
		}
		if v.Elem().Kind() != reflect.Struct {
			return v
		}
		out := reflect.New(v.Elem().Type())
		for i := 0; i < v.Elem().NumField(); i++ {
			f := v.Elem().Field(i)
			if out.Elem().Field(i).CanSet() {
				out.Elem().Field(i).Set(cloneValue(f, seen))
			}
		}
		if on, ok := v.Interface().(ast.Node); ok {
			seen[on] = out.Interface().(ast.Node)
		}
		return out
	case reflect.Slice:
		if v.IsNil() {
			return v
		}
		out := reflect.MakeSlice(v.Type(), v.Len(), v.Len())
		for i := 0; i < v.Len(); i++ {
			out.Index(i).Set(cloneValue(v.Index(i), seen))
		}
		return out
	}
	return v
}

// replaceExprs rewrites, in place, every expression of the tree for which f answers true (outermost first; the
// replacement is not visited again) and returns the tree.
func replaceExprs(n ast.Node, f func(ast.Expr) (ast.Expr, bool)) ast.Node {
	exprType := reflect.TypeOf((*ast.Expr)(nil)).Elem()
	var walk func(v reflect.Value)
	walk = func(v reflect.Value) {
		switch v.Kind() {
		case reflect.Interface:
			if v.IsNil() {
				return
			}
			if v.Type() == exprType && v.CanSet() {
				if r, ok := f(v.Interface().(ast.Expr)); ok {
					v.Set(reflect.ValueOf(r))
					return
				}
			}
			walk(v.Elem())
		case reflect.Ptr:
			if v.IsNil() {
				return
			}
			switch v.Interface().(type) {
			case *ast.Object, *ast.Scope:
				return
			}
			if v.Elem().Kind() == reflect.Struct {
				for i := 0; i < v.Elem().NumField(); i++ {
					walk(v.Elem().Field(i))
				}
			}
		case reflect.Slice:
			for i := 0; i < v.Len(); i++ {
				walk(v.Index(i))
			}
		}
	}
	walk(reflect.ValueOf(n))
	return n
}

// hoistMutCall:   return e1 + s.m()        =   h := s.m(); return e1 + h
//
// A call that changes its receiver (or an argument) is in the subset only as a statement or as the whole right-hand
// side of an assignment.  When such a call is an operand inside the expression(s) of a return / assignment / var
// statement, it is the only call of the statement, and every other leaf is a literal or a plain variable that the
// call does not change, the order of evaluation does not matter (the variables are read, the call runs once) and the
// call is taken out in front of the statement.
func (tr *gtTr) hoistMutCall(s ast.Stmt, env *venv) ([]ast.Stmt, bool) {
	var exprs []ast.Expr
	switch x := s.(type) {
	case *ast.ReturnStmt:
		exprs = x.Results
	case *ast.AssignStmt:
		for _, l := range x.Lhs {
			if _, ok := l.(*ast.Ident); !ok {
				return nil, false
			}
		}
		exprs = x.Rhs
	case *ast.DeclStmt:
		gd, ok := x.Decl.(*ast.GenDecl)
		if !ok || gd.Tok != token.VAR {
			return nil, false
		}
		for _, sp := range gd.Specs {
			exprs = append(exprs, sp.(*ast.ValueSpec).Values...)
		}
	default:
		return nil, false
	}
	var theCall *ast.CallExpr
	var keys []stKey
	calls, simple := 0, true
	for _, e := range exprs {
		top := unparen(e)
		ast.Inspect(e, func(n ast.Node) bool {
			switch y := n.(type) {
			case *ast.CallExpr:
				calls++
				if ast.Expr(y) != top {
					if k := tr.calleeMuts(y, env); len(k) > 0 {
						theCall, keys = y, k
					}
				}
				if len(y.Args) > 0 {
					simple = false
				}
				// the receiver is looked at by calleeMuts, not as an operand
				return false
			case *ast.BinaryExpr, *ast.ParenExpr, *ast.BasicLit, *ast.Ident:
			case nil:
			default:
				simple = false
			}
			return true
		})
	}
	if theCall == nil || calls != 1 || !simple {
		return nil, false
	}
	for _, e := range exprs {
		bad := false
		ast.Inspect(e, func(n ast.Node) bool {
			if n == ast.Node(theCall) {
				return false
			}
			if id, ok := n.(*ast.Ident); ok {
				for _, k := range keys {
					if k.v == id.Name {
						bad = true
					}
				}
			}
			return true
		})
		if bad {
			return nil, false
		}
	}
	fresh := "hoisted"
	for env.lookup(fresh) != nil || mentionsIdent(s, fresh) {
		fresh += "x"
	}
	seen := map[ast.Node]ast.Node{}
	c2 := cloneNode(s, seen).(ast.Stmt)
	callCopy := seen[theCall]
	replaceExprs(c2, func(e ast.Expr) (ast.Expr, bool) {
		if ast.Node(e) == callCopy {
			return ast.NewIdent(fresh), true
		}
		return nil, false
	})
	pre := &ast.AssignStmt{Lhs: []ast.Expr{ast.NewIdent(fresh)}, Tok: token.DEFINE, Rhs: []ast.Expr{theCall}}
	return []ast.Stmt{pre, c2}, true
}

// asValueRange:   for i := range xs { ... xs[i] ... }   (i used only as xs[i], xs a slice variable that the body does
// not assign)   =   for _, x' := range xs { ... x' ... }     -- the same loop as indexWalk, in its range spelling.
func (tr *gtTr) asValueRange(x *ast.RangeStmt, env *venv) *ast.RangeStmt {
	if x.Tok != token.DEFINE || x.Value != nil {
		return nil
	}
	iv, ok := x.Key.(*ast.Ident)
	if !ok || iv.Name == "_" {
		return nil
	}
	sid, ok := unparen(x.X).(*ast.Ident)
	if !ok {
		return nil
	}
	sv := env.lookup(sid.Name)
	if sv == nil || (sv.typ.kind != kSlice && sv.typ != tBytes) {
		return nil
	}
	okUse, uses := true, 0
	var parents []ast.Node
	ast.Inspect(x.Body, func(n ast.Node) bool {
		if n == nil {
			parents = parents[:len(parents)-1]
			return true
		}
		if id, ok := n.(*ast.Ident); ok && id.Name == iv.Name {
			var ix *ast.IndexExpr
			if len(parents) > 0 {
				ix, _ = parents[len(parents)-1].(*ast.IndexExpr)
			}
			if ix == nil || !isIdent(unparen(ix.X), sid.Name) || unparen(ix.Index) != ast.Expr(id) {
				okUse = false
			}
			uses++
		}
		switch y := n.(type) {
		case *ast.FuncLit:
			okUse = false
		case *ast.AssignStmt:
			if y.Tok == token.DEFINE {
				for _, l := range y.Lhs {
					if isIdent(l, iv.Name) || isIdent(l, sid.Name) {
						okUse = false
					}
				}
			}
		case *ast.ValueSpec:
			for _, l := range y.Names {
				if l.Name == iv.Name || l.Name == sid.Name {
					okUse = false
				}
			}
		}
		parents = append(parents, n)
		return true
	})
	if !okUse || uses == 0 {
		return nil
	}
	keys, _, _ := tr.assignedIn([]ast.Node{x.Body}, env)
	for k := range keys {
		if k.v == sid.Name || k.v == iv.Name {
			return nil
		}
	}
	fresh := sid.Name + "_elem"
	for env.lookup(fresh) != nil || mentionsIdent(x.Body, fresh) {
		fresh += "x"
	}
	seen := map[ast.Node]ast.Node{}
	body := cloneNode(x.Body, seen).(*ast.BlockStmt)
	replaceExprs(body, func(e ast.Expr) (ast.Expr, bool) {
		if ix, ok := e.(*ast.IndexExpr); ok && isIdent(unparen(ix.X), sid.Name) && isIdent(unparen(ix.Index), iv.Name) {
			id := ast.NewIdent(fresh)
			id.NamePos = ix.Pos()
			return id, true
		}
		return nil, false
	})
	rs := &ast.RangeStmt{For: x.For, Key: ast.NewIdent("_"), Value: ast.NewIdent(fresh), Tok: token.DEFINE, X: ast.NewIdent(sid.Name), Body: body}
	tr.loopIndex[rs] = tr.loopIndex[x]
	for o, n := range seen {
		if i, ok := tr.loopIndex[o]; ok {
			tr.loopIndex[n] = i
		}
		if f, ok := tr.autoFuel[o]; ok && tr.autoFuel != nil {
			tr.autoFuel[n] = f
		}
	}
	return rs
}
