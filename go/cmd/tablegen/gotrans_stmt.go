package main

// gotrans: statements, functions, emission.  See gotrans.go for the subset and its semantics.

import (
	"fmt"
	"go/ast"
	"go/constant"
	"go/token"
	"go/types"
	"os"
	"sort"
	"strings"
)

// ---------------------------------------------------------------------------------------
// the translated body: a tree of lets, ifs, first-match searches, returns and panics
// ---------------------------------------------------------------------------------------

type gnode interface{}

type nIf struct {
	cond ex
	a, b gnode
}
type nLet struct {
	name string
	val  ex
	body gnode
}
type nRet struct{ vals []ex }

// a joined if: `if c { A }; rest` whose branches only assign variables is the value (the tuple of those variables) of an
// if-expression, followed by rest ONCE (instead of rest once per branch)
type nTuple struct{ names []string }
type nJoin struct {
	inner   gnode
	partial bool
	names   []string
	body    gnode
}
type nPanic struct{ why string }
type nFind struct {
	binder   string // the lambda's variable
	pre      string // conversion let for byte elements ("" for none)
	cond     ex
	list     ex
	found    gnode
	notfound gnode
}

// v, ok := m[k] on a map whose values have no zero in the subset (data.Value)
type nOpt struct {
	scrut  ex
	binder string
	some   gnode
	none   gnode
}

func nodePartial(n gnode) bool {
	switch x := n.(type) {
	case *nOpt:
		return len(x.scrut.binds) > 0 || nodePartial(x.some) || nodePartial(x.none)
	case *nIf:
		return len(x.cond.binds) > 0 || nodePartial(x.a) || nodePartial(x.b)
	case *nLet:
		return len(x.val.binds) > 0 || nodePartial(x.body)
	case *nRet:
		for _, v := range x.vals {
			if len(v.binds) > 0 {
				return true
			}
		}
		return false
	case *nPanic:
		return true
	case *nFind:
		return len(x.list.binds) > 0 || nodePartial(x.found) || nodePartial(x.notfound)
	case *nLoop, *nLoopNext, *nLoopExit:
		return true // a loop can run out of fuel
	case *nJoin:
		return x.partial || nodePartial(x.body)
	}
	return false
}

func withBinds(binds []gbind, inner string, ind string) string {
	s := inner
	for i := len(binds) - 1; i >= 0; i-- {
		s = fmt.Sprintf("go_bind %s (fun %s =>\n%s%s)", paren(binds[i].code), binds[i].v, ind, s)
	}
	return s
}

// render modes: the body of a total function, of a partial one (results under Some, None = Go panics or a loop ran
// out of fuel), and the body of a loop function (results under Some (go_ret ...), see gotrans_loop.go).
const (
	mTotal = iota
	mPartial
	mLoop
	mJoinT // the value of a joined if (the tuple of the variables its branches assign), total
	mJoinP // ... partial: under Some
)

func retText(mode int, s string) string {
	switch mode {
	case mPartial:
		return "Some " + paren(s)
	case mLoop:
		return "Some (go_ret " + paren(s) + ")"
	case mJoinT, mJoinP:
		return "UNRENDERABLE (* a return inside a joined if *)"
	}
	return s
}

func render(n gnode, mode int, ind string) string {
	switch x := n.(type) {
	case *nIf:
		s := fmt.Sprintf("if %s\n%sthen %s\n%selse %s", x.cond.code, ind, render(x.a, mode, ind+"  "), ind, render(x.b, mode, ind+"  "))
		return withBinds(x.cond.binds, s, ind)
	case *nLet:
		s := fmt.Sprintf("let %s := %s in\n%s%s", x.name, x.val.code, ind, render(x.body, mode, ind))
		return withBinds(x.val.binds, s, ind)
	case *nRet:
		var binds []gbind
		var codes []string
		for _, v := range x.vals {
			binds = mergeBinds(binds, v.binds)
			codes = append(codes, v.code)
		}
		s := "tt"
		if len(codes) > 0 {
			s = codes[0]
		}
		if len(codes) > 1 {
			s = "(" + strings.Join(codes, ", ") + ")"
		}
		return withBinds(binds, retText(mode, s), ind)
	case *nOpt:
		s := fmt.Sprintf("match %s with\n%s| Some %s => %s\n%s| None => %s\n%send", x.scrut.code, ind, x.binder, render(x.some, mode, ind+"    "), ind, render(x.none, mode, ind+"    "), ind)
		return withBinds(x.scrut.binds, s, ind)
	case *nPanic:
		return "None (* " + strings.ReplaceAll(x.why, "*)", "* )") + " *)"
	case *nFind:
		lam := fmt.Sprintf("(fun %s => %s%s)", x.binder, x.pre, x.cond.code)
		found := render(x.found, mode, ind+"    ")
		if x.pre != "" {
			found = x.pre + found
		}
		s := fmt.Sprintf("match find %s %s with\n%s| Some %s => %s\n%s| None => %s\n%send", lam, x.list.code, ind, x.binder, found, ind, render(x.notfound, mode, ind+"    "), ind)
		return withBinds(x.list.binds, s, ind)
	case *nLoop:
		ret := retText(mode, "r")
		if mode == mJoinT || mode == mJoinP {
			ret = "None (* unreachable: no return inside a joined if *)"
		}
		s := fmt.Sprintf("match %s with\n%s| None => None\n%s| Some (go_ret r) => %s\n%s| Some (go_exit %s) => %s\n%send",
			x.lp.callText(x.init, x.free), ind, ind, ret, ind, x.pat, render(x.after, mode, ind+"    "), ind)
		return withBinds(x.binds, s, ind)
	case *nTuple:
		if mode == mJoinP {
			return "Some " + paren(tupleOf(x.names))
		}
		return tupleOf(x.names)
	case *nJoin:
		pat := x.names[0]
		if len(x.names) > 1 {
			pat = "'" + tupleOf(x.names)
		}
		if x.partial {
			return fmt.Sprintf("go_bind (%s) (fun %s =>\n%s%s)", render(x.inner, mJoinP, ind+"  "), pat, ind, render(x.body, mode, ind))
		}
		return fmt.Sprintf("let %s := (%s) in\n%s%s", pat, render(x.inner, mJoinT, ind+"  "), ind, render(x.body, mode, ind))
	case *nLoopNext:
		return x.lp.nextText(x.state)
	case *nLoopExit:
		return "Some (go_exit " + tupleOf(x.state) + ")"
	}
	return "UNRENDERABLE"
}

// ---------------------------------------------------------------------------------------
// statements (continuation style: next builds what follows, in the environment it is given)
// ---------------------------------------------------------------------------------------

type cont func(*venv) gnode

func (tr *gtTr) block(list []ast.Stmt, env *venv, next cont) gnode {
	if len(list) == 0 {
		return next(env)
	}
	return tr.stmt(list[0], env, func(e *venv) gnode { return tr.block(list[1:], e, next) })
}

// scoped runs f in a new scope of env and pops it before the continuation.
func (tr *gtTr) scoped(env *venv, next cont, f func(e *venv, next cont) gnode) gnode {
	return f(env.push(), func(e *venv) gnode { return next(e.pop()) })
}

func (tr *gtTr) bindNew(env *venv, goName string, val ex, declare bool, next cont) gnode {
	if goName == "_" {
		if len(val.binds) > 0 {
			// the value is discarded but its evaluation may panic
			return &nLet{name: tr.newName("discard"), val: val, body: next(env)}
		}
		return next(env)
	}
	if val.typ.untyped {
		switch val.typ.kind {
		case kInt:
			if strings.Contains(val.typ.name, "rune") {
				val.typ = basicInts["rune"]
			} else {
				val.typ = basicInts["int"]
			}
			if val.k != nil && !fitsInt(val.k, val.typ) {
				gtFail("constant %s overflows %s", val.k, val.typ.name)
			}
		case kBool:
			val.typ = tBool
		case kString:
			val.typ = tString
		}
	}
	name := tr.newName(goName)
	if tr.elemMut && (val.typ.kind == kMap || val.typ.kind == kSlice) && !val.fresh {
		gtFail("%s would alias a map or slice in a function that assigns elements (outside the subset)", goName)
	}
	if declare {
		if !val.typ.supported() {
			gtFail("variable %s of type %s is outside the subset", goName, val.typ.name)
		}
		env.declare(goName, &gvar{coq: name, typ: val.typ, goName: goName})
	} else {
		v := env.lookup(goName)
		if v == nil {
			gtFail("assignment to %s, which is not a local variable", goName)
		}
		if v.banned != "" || v.indexOf != nil || v.typ.kind == kStruct {
			gtFail("assignment to %s is outside the subset", goName)
		}
		if v.typ.kind != val.typ.kind {
			gtFail("assignment of a %s to %s of type %s", val.typ.name, goName, v.typ.name)
		}
		if v.typ.kind == kInt && val.typ.untyped && val.k != nil && !fitsInt(val.k, v.typ) {
			gtFail("constant %s overflows %s", val.k, v.typ.name)
		}
		env.assign(goName, name)
	}
	val2 := val
	val2.k = nil
	return &nLet{name: name, val: val2, body: next(env)}
}

func (tr *gtTr) diverges(c *ast.CallExpr, env *venv) (string, bool) {
	if id, ok := c.Fun.(*ast.Ident); ok && id.Name == "panic" && env.lookup("panic") == nil {
		return "panic", true
	}
	// a method (of the receiver's type, in this package) whose own body ends in panic
	if sel, ok := c.Fun.(*ast.SelectorExpr); ok {
		if id, ok := sel.X.(*ast.Ident); ok {
			if v := env.lookup(id.Name); v != nil && v.typ.kind == kStruct && v.typ.nname != "" {
				if tr.st.methodDiverges(tr.g, v.typ.ndir, v.typ.nname+"."+sel.Sel.Name, 0) {
					return id.Name + "." + sel.Sel.Name, true
				}
			}
		}
	}
	return "", false
}

// methodDiverges: the body's last statement is panic(...) or a call of a diverging method of the same receiver.
func (st *gtState) methodDiverges(g *gen, dir, key string, depth int) bool {
	p := g.gtPkg(dir)
	fd := p.funcs[key]
	if fd == nil || fd.Body == nil || len(fd.Body.List) == 0 || depth > 5 {
		return false
	}
	last, ok := fd.Body.List[len(fd.Body.List)-1].(*ast.ExprStmt)
	if !ok {
		return false
	}
	c, ok := last.X.(*ast.CallExpr)
	if !ok {
		return false
	}
	if id, ok := c.Fun.(*ast.Ident); ok && id.Name == "panic" {
		return true
	}
	if sel, ok := c.Fun.(*ast.SelectorExpr); ok && fd.Recv != nil && len(fd.Recv.List[0].Names) == 1 {
		if id, ok := sel.X.(*ast.Ident); ok && id.Name == fd.Recv.List[0].Names[0].Name {
			return st.methodDiverges(g, dir, recvTypeName(fd)+"."+sel.Sel.Name, depth+1)
		}
	}
	return false
}

func (tr *gtTr) stmt(s ast.Stmt, env *venv, next cont) gnode {
	if s2 := tr.inlinePlaces(s, env); s2 != nil {
		return tr.stmt(s2, env, next)
	}
	if ss, ok := tr.hoistMutCall(s, env); ok {
		return tr.block(ss, env, next)
	}
	switch x := s.(type) {
	case *ast.EmptyStmt:
		return next(env)
	case *ast.BlockStmt:
		return tr.scoped(env, next, func(e *venv, nx cont) gnode { return tr.block(x.List, e, nx) })
	case *ast.ReturnStmt:
		if len(x.Results) == 0 && len(tr.named) > 0 {
			// a bare return with named results: their current values
			var rs []ast.Expr
			for _, n := range tr.named {
				if v := env.lookup(n); v == nil || v.typ.kind == kStruct {
					gtFail("bare return: the named result %s is shadowed here", n)
				}
				rs = append(rs, ast.NewIdent(n))
			}
			return tr.stmt(&ast.ReturnStmt{Results: rs}, env, next)
		}
		if len(x.Results) != len(tr.fn.results) {
			gtFail("return with %d values for %d results (named results are outside the subset)", len(x.Results), len(tr.fn.results))
		}
		var vals []ex
		for _, k := range tr.mutKeys() {
			n, t := tr.useKey(env, k)
			vals = append(vals, ex{code: n, typ: t})
		}
		for i, r := range x.Results {
			rt := tr.fn.results[i]
			var v ex
			if rt.isErr && isIdent(unparen(r), "nil") && env.lookup("nil") == nil {
				v = ex{code: "false", typ: tErr}
			} else {
				v = tr.expr(r, env)
			}
			if rt.kind == kValue {
				v = tr.toValue(v, "return")
			}
			if v.typ.kind != rt.kind {
				gtFail("return of a %s for result type %s", v.typ.name, rt.name)
			}
			if v.typ.kind == kInt && v.typ.untyped && v.k != nil && !fitsInt(v.k, rt) {
				gtFail("returned constant %s overflows %s", v.k, rt.name)
			}
			if rt.usesValue() {
				tr.fn.usesV = true
			}
			vals = append(vals, v)
		}
		return &nRet{vals: vals}
	case *ast.ExprStmt:
		if c, ok := x.X.(*ast.CallExpr); ok {
			if why, ok := tr.diverges(c, env); ok {
				return &nPanic{why: why}
			}
			if n, ok := tr.bufferStmt(c, env, next); ok {
				return n
			}
			if n, ok := tr.mutCall(c, nil, false, env, next); ok {
				return n
			}
			if id, ok := c.Fun.(*ast.Ident); ok && tr.cfg != nil && env.lookup(id.Name) == nil {
				for _, ig := range tr.cfg.ignore {
					if ig == id.Name {
						// a hook that the configuration declares to be outside what is translated (gotrans_apply.go says why)
						for _, a := range c.Args {
							if e := tr.expr(a, env); len(e.binds) > 0 {
								gtFail("call of %s with an argument that can panic", id.Name)
							}
						}
						return next(env)
					}
				}
			}
			if pkg, name, ok := tr.libCall(c, env); ok && pkg == "log" && (name == "Println" || name == "Printf" || name == "Print") {
				// the process log is not part of what is modelled; the arguments must be in the subset and total
				for _, a := range c.Args {
					if e := tr.expr(a, env); len(e.binds) > 0 {
						gtFail("log.%s with an argument that can panic", name)
					}
				}
				return next(env)
			}
		}
		gtFail("expression statement %s (a call with effects) is outside the subset", gtExprText(x.X))
	case *ast.DeclStmt:
		gd, ok := x.Decl.(*ast.GenDecl)
		if ok && gd.Tok == token.CONST {
			// a local constant: the name stands for its value (an untyped constant stays untyped), no binding is emitted
			for _, sp := range gd.Specs {
				vs := sp.(*ast.ValueSpec)
				if len(vs.Values) != len(vs.Names) {
					gtFail("local const without a value of its own (iota list) is outside the subset")
				}
				for i, n := range vs.Names {
					v := tr.expr(vs.Values[i], env)
					if v.k == nil || len(v.binds) > 0 {
						gtFail("local const %s is not a constant the translator evaluates", n.Name)
					}
					if vs.Type != nil {
						v = tr.coerce(v, tr.g.resolveType(tr.p, tr.f, vs.Type, 0), "const "+n.Name)
						if v.k == nil {
							gtFail("local const %s is not a constant the translator evaluates", n.Name)
						}
					}
					if n.Name != "_" {
						env.declare(n.Name, &gvar{coq: tr.newName(n.Name), typ: v.typ, goName: n.Name, known: v.k})
					}
				}
			}
			return next(env)
		}
		if !ok || gd.Tok != token.VAR {
			gtFail("local declaration other than var or const is outside the subset")
		}
		var pairs []struct {
			name string
			val  ex
		}
		for _, sp := range gd.Specs {
			vs := sp.(*ast.ValueSpec)
			var dt *gtype
			if vs.Type != nil {
				dt = tr.g.resolveType(tr.p, tr.f, vs.Type, 0)
			}
			if len(vs.Values) == 1 && dt == nil && len(gd.Specs) == 1 {
				if c, ok := unparen(vs.Values[0]).(*ast.CallExpr); ok {
					var ns []string
					for _, n := range vs.Names {
						ns = append(ns, n.Name)
					}
					if n, ok := tr.mutCall(c, ns, true, env, next); ok {
						return n
					}
				}
			}
			if len(vs.Values) != 0 && len(vs.Values) != len(vs.Names) {
				// var v, ok = m[k]
				if len(vs.Names) == 2 && len(vs.Values) == 1 && dt == nil {
					return tr.commaOk(vs.Names[0].Name, vs.Names[1].Name, vs.Values[0], true, env, next)
				}
				gtFail("var declaration with a multi-valued initialiser is outside the subset")
			}
			for i, n := range vs.Names {
				var v ex
				if len(vs.Values) == 0 {
					v = ex{code: zeroOf(dt), typ: dt}
				} else {
					v = tr.expr(vs.Values[i], env)
					if dt != nil {
						v = tr.coerce(v, dt, "var "+n.Name)
					}
				}
				pairs = append(pairs, struct {
					name string
					val  ex
				}{n.Name, v})
			}
		}
		// all initialisers are evaluated in the environment before the declaration
		var build func(i int, e *venv) gnode
		build = func(i int, e *venv) gnode {
			if i == len(pairs) {
				return next(e)
			}
			return tr.bindNew(e, pairs[i].name, pairs[i].val, true, func(e2 *venv) gnode { return build(i+1, e2) })
		}
		return build(0, env)
	case *ast.AssignStmt:
		return tr.assign(x, env, next)
	case *ast.IncDecStmt:
		op := token.ADD
		if x.Tok == token.DEC {
			op = token.SUB
		}
		id, ok := x.X.(*ast.Ident)
		if !ok {
			return tr.assignState(x.X, tr.expr(&ast.BinaryExpr{X: x.X, Op: op, Y: &ast.BasicLit{Kind: token.INT, Value: "1"}}, env), env, next)
		}
		v := tr.expr(&ast.BinaryExpr{X: id, Op: op, Y: &ast.BasicLit{Kind: token.INT, Value: "1"}}, env)
		return tr.bindNew(env, id.Name, v, false, next)
	case *ast.IfStmt:
		return tr.scoped(env, next, func(e *venv, nx cont) gnode {
			return tr.simple(x.Init, e, func(e1 *venv) gnode {
				cond := tr.expr(x.Cond, e1)
				if cond.typ.kind != kBool {
					gtFail("if condition is not boolean")
				}
				if cond.k != nil {
					// decided here (the ok of a comma-ok lookup under its match, or a constant condition)
					if constant.BoolVal(cond.k) {
						return tr.scoped(e1, nx, func(e2 *venv, nx2 cont) gnode { return tr.block(x.Body.List, e2, nx2) })
					}
					if x.Else == nil {
						return nx(e1)
					}
					return tr.stmt(x.Else, e1, nx)
				}
				if n, ok := tr.joinIf(x, cond, e1, nx); ok {
					return n
				}
				a := tr.scoped(e1.clone(), nx, func(e2 *venv, nx2 cont) gnode { return tr.block(x.Body.List, e2, nx2) })
				var b gnode
				if x.Else == nil {
					b = nx(e1.clone())
				} else {
					b = tr.stmt(x.Else, e1.clone(), nx)
				}
				return &nIf{cond: cond, a: a, b: b}
			})
		})
	case *ast.SwitchStmt:
		return tr.switchStmt(x, env, next)
	case *ast.TypeSwitchStmt:
		return tr.typeSwitch(x, env, next)
	case *ast.RangeStmt:
		return tr.rangeStmt(x, env, next)
	case *ast.ForStmt:
		return tr.forStmt(x, env, next)
	case *ast.BranchStmt:
		if x.Tok == token.BREAK && x.Label == nil && len(tr.brk) > 0 {
			t := tr.brk[len(tr.brk)-1]
			env.scopes = env.scopes[:t.depth]
			return t.k(env)
		}
		if x.Tok == token.CONTINUE && x.Label == nil && len(tr.cnt) > 0 {
			t := tr.cnt[len(tr.cnt)-1]
			env.scopes = env.scopes[:t.depth]
			return t.k(env)
		}
		gtFail("%s is outside the subset here", x.Tok)
	}
	gtFail("statement %T is outside the subset", s)
	return nil
}

func (tr *gtTr) coerce(v ex, to *gtype, what string) ex {
	if v.typ.kind != to.kind {
		gtFail("%s: a %s where a %s is expected", what, v.typ.name, to.name)
	}
	if v.typ.kind == kInt {
		if v.typ.untyped {
			if v.k != nil && !fitsInt(v.k, to) {
				gtFail("%s: constant %s overflows %s", what, v.k, to.name)
			}
		} else if v.typ.bits != to.bits || v.typ.signed != to.signed {
			gtFail("%s: mismatched integer types %s and %s", what, v.typ.name, to.name)
		}
	}
	v.typ = to
	return v
}

// simple: the optional init statement of if / switch.
func (tr *gtTr) simple(s ast.Stmt, env *venv, next cont) gnode {
	if s == nil {
		return next(env)
	}
	switch s.(type) {
	case *ast.AssignStmt, *ast.DeclStmt, *ast.IncDecStmt:
		return tr.stmt(s, env, next)
	}
	gtFail("init statement %T is outside the subset", s)
	return nil
}

func (tr *gtTr) assign(x *ast.AssignStmt, env *venv, next cont) gnode {
	names := make([]string, len(x.Lhs))
	allIdents := true
	for i, l := range x.Lhs {
		id, ok := l.(*ast.Ident)
		if !ok {
			allIdents = false
			continue
		}
		names[i] = id.Name
	}
	if !allIdents {
		// x.f = e, m[k] = e, s[i] = e, x.f op= e: one target
		if len(x.Lhs) != 1 || len(x.Rhs) != 1 || x.Tok == token.DEFINE {
			gtFail("assignment to %s among several targets is outside the subset", gtExprText(x.Lhs[0]))
		}
		rhs := x.Rhs[0]
		if x.Tok != token.ASSIGN {
			op, ok := assignOps[x.Tok]
			if !ok {
				gtFail("assignment operator %s is outside the subset", x.Tok)
			}
			rhs = &ast.BinaryExpr{X: x.Lhs[0], Op: op, Y: &ast.ParenExpr{X: rhs}}
		}
		return tr.assignState(x.Lhs[0], tr.expr(rhs, env), env, next)
	}
	if len(x.Rhs) == 1 && (x.Tok == token.DEFINE || x.Tok == token.ASSIGN) {
		if c, ok := unparen(x.Rhs[0]).(*ast.CallExpr); ok {
			if n, ok := tr.mutCall(c, names, x.Tok == token.DEFINE, env, next); ok {
				return n
			}
		}
	}
	switch x.Tok {
	case token.DEFINE, token.ASSIGN:
		if len(x.Lhs) == 2 && len(x.Rhs) == 1 {
			return tr.commaOk(names[0], names[1], x.Rhs[0], x.Tok == token.DEFINE, env, next)
		}
		if len(x.Lhs) != len(x.Rhs) {
			gtFail("multi-valued assignment is outside the subset")
		}
		vals := make([]ex, len(x.Rhs))
		for i, r := range x.Rhs {
			vals[i] = tr.expr(r, env)
		}
		// with several targets the right-hand sides are all evaluated first: bind them to temporaries
		if len(vals) > 1 {
			tmp := make([]ex, len(vals))
			var build func(i int, e *venv) gnode
			build = func(i int, e *venv) gnode {
				if i == len(vals) {
					var b2 func(j int, e *venv) gnode
					b2 = func(j int, e *venv) gnode {
						if j == len(vals) {
							return next(e)
						}
						decl := x.Tok == token.DEFINE && (names[j] == "_" || !declaredHere(e, names[j]))
						return tr.bindNew(e, names[j], tmp[j], decl, func(e2 *venv) gnode { return b2(j+1, e2) })
					}
					return b2(0, e)
				}
				t := tr.newName("tmp")
				tmp[i] = ex{code: t, typ: vals[i].typ}
				v := vals[i]
				v.k = nil
				return &nLet{name: t, val: v, body: build(i+1, e)}
			}
			return build(0, env)
		}
		decl := x.Tok == token.DEFINE
		return tr.bindNew(env, names[0], vals[0], decl, next)
	case token.ADD_ASSIGN, token.SUB_ASSIGN, token.MUL_ASSIGN, token.QUO_ASSIGN, token.REM_ASSIGN, token.AND_ASSIGN, token.OR_ASSIGN,
		token.XOR_ASSIGN, token.SHL_ASSIGN, token.SHR_ASSIGN, token.AND_NOT_ASSIGN:
		if len(x.Lhs) != 1 || len(x.Rhs) != 1 {
			gtFail("op= with several operands")
		}
		op := assignOps[x.Tok]
		v := tr.expr(&ast.BinaryExpr{X: x.Lhs[0], Op: op, Y: &ast.ParenExpr{X: x.Rhs[0]}}, env)
		return tr.bindNew(env, names[0], v, false, next)
	}
	gtFail("assignment operator %s is outside the subset", x.Tok)
	return nil
}

var assignOps = map[token.Token]token.Token{token.ADD_ASSIGN: token.ADD, token.SUB_ASSIGN: token.SUB, token.MUL_ASSIGN: token.MUL, token.QUO_ASSIGN: token.QUO,
	token.REM_ASSIGN: token.REM, token.AND_ASSIGN: token.AND, token.OR_ASSIGN: token.OR, token.XOR_ASSIGN: token.XOR, token.SHL_ASSIGN: token.SHL,
	token.SHR_ASSIGN: token.SHR, token.AND_NOT_ASSIGN: token.AND_NOT}

func declaredHere(e *venv, name string) bool {
	_, ok := e.scopes[len(e.scopes)-1][name]
	return ok
}

// commaOk:  v, ok := m[k]   and   _, ok := x.(data.T)
func (tr *gtTr) commaOk(vName, okName string, rhs ast.Expr, declare bool, env *venv, next cont) gnode {
	declV := declare && (vName == "_" || !declaredHere(env, vName))
	declOk := declare && (okName == "_" || !declaredHere(env, okName))
	switch r := unparen(rhs).(type) {
	case *ast.IndexExpr:
		m, isMap := tr.mapOperand(r.X, env)
		if !isMap {
			gtFail("comma-ok on an index of a %s", m.typ.name)
		}
		k := tr.expr(r.Index, env)
		if k.typ.kind != m.typ.key.kind {
			gtFail("map index of kind %s for key type %s", k.typ.name, m.typ.key.name)
		}
		get, has := lookupFns(m.typ.key)
		binds := mergeBinds(m.binds, k.binds)
		okv := ex{binds: binds, code: "(" + has + " " + k.code + " " + m.code + ")", typ: tBool}
		if vName == "_" {
			return tr.bindNew(env, okName, okv, declOk, next)
		}
		if m.typ.elem.usesValue() {
			// no zero value in the subset: the value is bound under a match and may only be used where ok is true
			tr.fn.usesV = true
			assoc := "assoc_s"
			if m.typ.key.kind == kInt {
				assoc = "go_assoc_z"
			}
			if !declV || !declOk {
				gtFail("v, ok = m[k] on a map of data.Value must declare both variables")
			}
			binder := tr.newName(vName)
			okT, okF := "?", "?"
			e1 := env.clone()
			e1.declare(vName, &gvar{goName: vName, typ: m.typ.elem, coq: binder})
			e1.declare(okName, &gvar{goName: okName, typ: tBool, coq: okT, known: constant.MakeBool(true)})
			e2 := env.clone()
			e2.declare(vName, &gvar{goName: vName, typ: m.typ.elem, coq: "?", banned: vName + " is used where the map lookup failed (the nil interface value is outside the subset)"})
			e2.declare(okName, &gvar{goName: okName, typ: tBool, coq: okF, known: constant.MakeBool(false)})
			return &nOpt{scrut: ex{binds: binds, code: "(" + assoc + " " + k.code + " " + m.code + ")"}, binder: binder,
				some: next(e1), none: next(e2)}
		}
		val := ex{code: "(" + get + " " + k.code + " " + m.code + " " + zeroOf(m.typ.elem) + ")", typ: m.typ.elem}
		// the key is evaluated once: bind it when it is not atomic
		return tr.bindNew(env, vName, ex{binds: binds, code: val.code, typ: val.typ}, declV, func(e *venv) gnode {
			okv.binds = nil
			return tr.bindNew(e, okName, okv, declOk, next)
		})
	case *ast.CallExpr:
		if pkg, name, ok := tr.libCall(r, env); ok {
			var fn, typ string
			var t1, t2 *gtype
			switch {
			case pkg == "unicode/utf8" && name == "DecodeRuneInString" && len(r.Args) == 1:
				// (rune, width) of the first rune of the string: the parameter f_utf8_DecodeRuneInString
				fn, typ, t1, t2 = "f_utf8_DecodeRuneInString", "bstr -> Z * Z", basicInts["rune"], basicInts["int"]
			case pkg == "strconv" && name == "ParseInt" && len(r.Args) == 3:
				// (value, err != nil): the parameter f_strconv_ParseInt
				fn, typ, t1, t2 = "f_strconv_ParseInt", "bstr -> Z -> Z -> Z * bool", basicInts["int64"], tErr
			default:
				gtFail("two-valued library call %s.%s is not in the fixed list", pkg, name)
			}
			args, binds := tr.args(r.Args, env)
			parts := []string{fn}
			for i, a := range args {
				want := kInt
				if i == 0 {
					want = kString
				}
				if a.typ.kind != want {
					gtFail("%s.%s: argument %d is a %s", pkg, name, i+1, a.typ.name)
				}
				parts = append(parts, a.code)
			}
			tr.fn.addAbstract(gtAbstract{name: fn, typ: typ})
			n1, n2 := "_", "_"
			if vName != "_" {
				n1 = tr.newName(vName)
			}
			if okName != "_" {
				n2 = tr.newName(okName)
			}
			bindOne := func(goName, coq string, t *gtype, decl bool) {
				if goName == "_" {
					return
				}
				if decl {
					env.declare(goName, &gvar{coq: coq, typ: t, goName: goName})
					return
				}
				v := env.lookup(goName)
				if v == nil || v.typ.kind != t.kind || v.typ.kind == kStruct || v.ptr || v.banned != "" || v.indexOf != nil {
					gtFail("two-valued assignment: %s cannot receive a %s", goName, t.name)
				}
				if v.typ.kind == kInt && (v.typ.bits != t.bits || v.typ.signed != t.signed) {
					gtFail("two-valued assignment: mismatched integer types %s and %s", v.typ.name, t.name)
				}
				env.assign(goName, coq)
			}
			bindOne(vName, n1, t1, declV)
			bindOne(okName, n2, t2, declOk)
			return &nLet{name: "'(" + n1 + ", " + n2 + ")", val: ex{binds: binds, code: "(" + strings.Join(parts, " ") + ")", typ: t1}, body: next(env)}
		}
		gtFail("two-valued assignment from %s is outside the subset", gtExprText(rhs))
	case *ast.TypeAssertExpr:
		if r.Type == nil {
			gtFail("x.(type) outside a type switch")
		}
		a := tr.expr(r.X, env)
		if a.typ.kind != kValue {
			gtFail("type assertion on a %s", a.typ.name)
		}
		t := tr.g.resolveTypeSoft(tr.p, tr.f, r.Type, 0)
		if t.valueKind < 0 {
			gtFail("type assertion to %s, which is not a concrete data type", t.name)
		}
		if vName != "_" {
			// v, ok := x.(data.T): the payload (the zero value when x holds another type) and whether it is a T
			switch t.kind {
			case kBool, kInt, kString:
			default:
				gtFail("v, ok := x.(%s): only the scalar data types have a zero value in the subset", t.name)
			}
			name := "val_as_" + strings.ToLower(valueKinds[t.valueKind])
			tr.fn.usesV = true
			tr.fn.valueParams[name] = true
			pv := ex{binds: a.binds, code: "(match " + name + " " + a.code + " with Some p => p | None => " + zeroOf(t) + " end)", typ: t}
			okv := ex{code: "(match " + name + " " + a.code + " with Some _ => true | None => false end)", typ: tBool}
			return tr.bindNew(env, vName, pv, declV, func(e *venv) gnode { return tr.bindNew(e, okName, okv, declOk, next) })
		}
		return tr.bindNew(env, okName, ex{binds: a.binds, code: "(Z.eqb " + tr.kindOf(a.code) + " " + zLitInt(int64(t.valueKind)) + ")", typ: tBool}, declOk, next)
	}
	gtFail("two-valued assignment from %s is outside the subset", gtExprText(rhs))
	return nil
}

func orConds(tr *gtTr, conds []ex) ex {
	c := conds[len(conds)-1]
	for i := len(conds) - 2; i >= 0; i-- {
		a := conds[i]
		if len(c.binds) == 0 {
			c = ex{binds: a.binds, code: "(orb " + a.code + " " + c.code + ")", typ: tBool}
		} else {
			v := tr.fresh()
			c = ex{binds: mergeBinds(a.binds, []gbind{{v, fmt.Sprintf("if %s then Some true else %s", a.code, asOption(c))}}), code: v, typ: tBool}
		}
	}
	return c
}

// brkTarget: where an unlabelled break goes (the continuation of the innermost switch, in an environment cut back to
// the switch's own scope depth).
type brkTarget struct {
	depth int
	k     cont
}

// outside wraps a continuation that leaves a switch: what follows is translated with the break targets that were in
// force before the switch.
func (tr *gtTr) outside(saved []brkTarget, k cont) cont {
	return func(e *venv) gnode {
		old := tr.brk
		tr.brk = saved
		defer func() { tr.brk = old }()
		return k(e)
	}
}

func (tr *gtTr) inside(saved []brkTarget, t brkTarget, f func() gnode) gnode {
	old := tr.brk
	tr.brk = append(saved[:len(saved):len(saved)], t)
	defer func() { tr.brk = old }()
	return f()
}

func (tr *gtTr) switchStmt(x *ast.SwitchStmt, env *venv, next cont) gnode {
	if n, ok := tr.joinSwitch(x, env, next); ok {
		return n
	}
	return tr.switchStmtRaw(x, env, next)
}

// joinSwitch: like joinIf for a switch statement none of whose clauses can leave (fallthrough stays inside the switch
// and is allowed; break, return, continue, goto, panic are not) and that assigns at least one variable visible outside:
// the switch is an expression returning the tuple of those variables, and what follows it is translated once.
func (tr *gtTr) joinSwitch(x *ast.SwitchStmt, env *venv, next cont) (gnode, bool) {
	if !tr.st.joins || x.Init != nil {
		return nil, false
	}
	if tr.leaves([]ast.Node{x.Body}, env, true) {
		return nil, false
	}
	state, ok := tr.joinState([]ast.Node{x.Body}, env)
	if !ok {
		return nil, false
	}
	tupleK := tr.joinTuple(state)
	inner := tr.switchStmtRaw(x, env.clone(), tupleK)
	return tr.joinNode(inner, state, env, next), true
}

// leaves: can control leave one of these statements other than by falling out of its end?
func (tr *gtTr) leaves(nodes []ast.Node, env *venv, allowFallthrough bool) bool {
	leaves := false
	for _, n := range nodes {
		ast.Inspect(n, func(n ast.Node) bool {
			switch y := n.(type) {
			case *ast.BranchStmt:
				if !(allowFallthrough && y.Tok == token.FALLTHROUGH) {
					leaves = true
				}
			case *ast.ReturnStmt, *ast.LabeledStmt, *ast.FuncLit, *ast.GoStmt, *ast.DeferStmt:
				leaves = true
			case *ast.CallExpr:
				if _, ok := tr.diverges(y, env); ok {
					leaves = true
				}
				if isIdent(y.Fun, "panic") {
					leaves = true
				}
			}
			return !leaves
		})
	}
	return leaves
}

// joinState: the variables visible outside that these statements assign, when all of them can be carried in a tuple
func (tr *gtTr) joinState(nodes []ast.Node, env *venv) ([]stKey, bool) {
	keys, _, _ := tr.assignedIn(nodes, env)
	state := sortKeys(keys, env)
	if len(state) == 0 {
		return nil, false
	}
	for _, k := range state {
		if _, t := tr.keyName(env, k); !t.supported() {
			return nil, false
		}
	}
	return state, true
}

func (tr *gtTr) joinTuple(state []stKey) cont {
	return func(e *venv) gnode {
		var names []string
		for _, k := range state {
			n, _ := tr.useKey(e, k)
			names = append(names, n)
		}
		return &nTuple{names: names}
	}
}

func (tr *gtTr) joinNode(inner gnode, state []stKey, env *venv, next cont) gnode {
	var names []string
	for _, k := range state {
		n := tr.newName(k.base())
		tr.setKeyName(env, k, n)
		names = append(names, n)
	}
	return &nJoin{inner: inner, partial: nodePartial(inner), names: names, body: next(env)}
}

func (tr *gtTr) switchStmtRaw(x *ast.SwitchStmt, env *venv, next cont) gnode {
	saved := tr.brk
	next = tr.outside(saved, next)
	return tr.scoped(env, next, func(e *venv, nx cont) gnode {
		return tr.simple(x.Init, e, func(e1 *venv) gnode {
			depth := len(e1.scopes)
			var clauses []*ast.CaseClause
			dflt := -1
			for i, c := range x.Body.List {
				cc := c.(*ast.CaseClause)
				clauses = append(clauses, cc)
				if cc.List == nil {
					dflt = i
				}
			}
			withTag := func(tag *ex, e2 *venv) gnode {
				// body of clause i, then what follows the switch (or the next clause's body on fallthrough)
				var body func(i int, e3 *venv) gnode
				body = func(i int, e3 *venv) gnode {
					list := clauses[i].Body
					after := nx
					if n := len(list); n > 0 {
						if br, ok := list[n-1].(*ast.BranchStmt); ok && br.Tok == token.FALLTHROUGH {
							if i+1 >= len(clauses) {
								gtFail("fallthrough in the last clause")
							}
							list = list[:n-1]
							j := i + 1
							after = func(e4 *venv) gnode { return body(j, e4) }
						}
					}
					return tr.scoped(e3, after, func(e4 *venv, nx4 cont) gnode {
						return tr.inside(saved, brkTarget{depth, nx}, func() gnode { return tr.block(list, e4, nx4) })
					})
				}
				var chain func(i int, e3 *venv) gnode
				chain = func(i int, e3 *venv) gnode {
					if i == len(clauses) {
						if dflt >= 0 {
							return body(dflt, e3)
						}
						return nx(e3)
					}
					if i == dflt {
						return chain(i+1, e3)
					}
					var conds []ex
					for _, ce := range clauses[i].List {
						c := tr.expr(ce, e3)
						if tag != nil {
							t := *tag
							unify(&t, &c, "switch case")
							switch t.typ.kind {
							case kInt:
								c = ex{binds: c.binds, code: "(Z.eqb " + t.code + " " + c.code + ")", typ: tBool}
							case kString:
								c = ex{binds: c.binds, code: "(bstr_eqb " + t.code + " " + c.code + ")", typ: tBool}
							case kBool:
								c = ex{binds: c.binds, code: "(Bool.eqb " + t.code + " " + c.code + ")", typ: tBool}
							default:
								gtFail("switch on a %s is outside the subset", t.typ.name)
							}
						} else if c.typ.kind != kBool {
							gtFail("case of a tagless switch is not boolean")
						}
						c.k = nil
						conds = append(conds, c)
					}
					return &nIf{cond: orConds(tr, conds), a: body(i, e3.clone()), b: chain(i+1, e3.clone())}
				}
				return chain(0, e2)
			}
			if x.Tag == nil {
				return withTag(nil, e1)
			}
			tag := tr.expr(x.Tag, e1)
			if tag.typ.untyped {
				gtFail("switch on a constant")
			}
			// evaluate the tag once
			name := tr.newName("tag")
			tv := ex{code: name, typ: tag.typ}
			return &nLet{name: name, val: tag, body: withTag(&tv, e1)}
		})
	})
}

func (tr *gtTr) typeSwitch(x *ast.TypeSwitchStmt, env *venv, next cont) gnode {
	if x.Init != nil {
		gtFail("type switch with an init statement")
	}
	var bound string
	var ta *ast.TypeAssertExpr
	switch a := x.Assign.(type) {
	case *ast.AssignStmt:
		if len(a.Lhs) == 1 && len(a.Rhs) == 1 {
			bound = a.Lhs[0].(*ast.Ident).Name
			ta, _ = a.Rhs[0].(*ast.TypeAssertExpr)
		}
	case *ast.ExprStmt:
		ta, _ = a.X.(*ast.TypeAssertExpr)
	}
	if ta == nil {
		gtFail("type switch of an unknown shape")
	}
	saved := tr.brk
	next = tr.outside(saved, next)
	return tr.scoped(env, next, func(e *venv, nx cont) gnode {
		depth := len(e.scopes)
		v := tr.expr(ta.X, e)
		if v.typ.kind != kValue {
			gtFail("type switch on a %s (only data.Value is in the subset)", v.typ.name)
		}
		name := tr.newName("kind")
		kind := ex{code: name, typ: basicInts["int"]}
		var clauses []*ast.CaseClause
		dflt := -1
		for i, c := range x.Body.List {
			cc := c.(*ast.CaseClause)
			clauses = append(clauses, cc)
			if cc.List == nil {
				dflt = i
			}
		}
		body := func(i int, e3 *venv) gnode {
			return tr.scoped(e3, nx, func(e4 *venv, nx4 cont) gnode {
				if bound != "" {
					e4.declare(bound, &gvar{goName: bound, typ: tValue, coq: "?", banned: "the variable bound by the type switch (" + bound + ") is used: payloads of data values are outside the subset"})
				}
				return tr.inside(saved, brkTarget{depth, nx}, func() gnode { return tr.block(clauses[i].Body, e4, nx4) })
			})
		}
		var chain func(i int, e3 *venv) gnode
		chain = func(i int, e3 *venv) gnode {
			if i == len(clauses) {
				if dflt >= 0 {
					return body(dflt, e3)
				}
				return nx(e3)
			}
			if i == dflt {
				return chain(i+1, e3)
			}
			var conds []ex
			for _, te := range clauses[i].List {
				t := tr.g.resolveTypeSoft(tr.p, tr.f, te, 0)
				if t.valueKind < 0 {
					gtFail("type switch case %s is not a concrete data type", gtExprText(te))
				}
				conds = append(conds, ex{code: "(Z.eqb " + kind.code + " " + zLitInt(int64(t.valueKind)) + ")", typ: tBool})
			}
			return &nIf{cond: orConds(tr, conds), a: body(i, e3.clone()), b: chain(i+1, e3.clone())}
		}
		return &nLet{name: name, val: ex{binds: v.binds, code: tr.kindOf(v.code), typ: basicInts["int"]}, body: chain(0, e)}
	})
}

// singleIfReturn matches a loop body of the form  { if cond { return ... } }.
func singleIfReturn(b *ast.BlockStmt) (*ast.IfStmt, *ast.ReturnStmt) {
	if len(b.List) != 1 {
		gtFail("loop body is not a single `if cond { return ... }`")
	}
	ifs, ok := b.List[0].(*ast.IfStmt)
	if !ok || ifs.Init != nil || ifs.Else != nil || len(ifs.Body.List) != 1 {
		gtFail("loop body is not a single `if cond { return ... }`")
	}
	ret, ok := ifs.Body.List[0].(*ast.ReturnStmt)
	if !ok {
		gtFail("loop body is not a single `if cond { return ... }`")
	}
	return ifs, ret
}

// first-match search:  for _, x := range xs { if cond { return e } }
func (tr *gtTr) rangeStmt(x *ast.RangeStmt, env *venv, next cont) gnode {
	if rs := tr.asRevRangeR(x, env); rs != nil {
		return tr.generalRange(rs, env, next) // a walk from the end: always the list loop over rev xs
	}
	if rs := tr.asValueRange(x, env); rs != nil {
		x = rs
	}
	if !isFirstMatchRange(x) {
		return tr.generalRange(x, env, next)
	}
	if x.Tok != token.DEFINE || x.Value == nil {
		gtFail("range loop is not `for _, x := range xs`")
	}
	if k, ok := x.Key.(*ast.Ident); !ok || k.Name != "_" {
		gtFail("range loop uses the index")
	}
	val, ok := x.Value.(*ast.Ident)
	if !ok {
		gtFail("range loop value is not an identifier")
	}
	ifs, ret := singleIfReturn(x.Body)
	list := tr.expr(x.X, env)
	if list.typ.kind == kString && list.typ != tBytes {
		return tr.runeRange(x, env, next)
	}
	if list.typ.kind != kSlice && list.typ != tBytes {
		gtFail("range over a %s is outside the subset", list.typ.name)
	}
	return tr.find(val.Name, list, nil, ifs, ret, env, next)
}

// for i := 0; i < len(s); i++ { if cond(s[i]) { return e } }
func (tr *gtTr) forStmt(x *ast.ForStmt, env *venv, next cont) gnode {
	if !isFirstMatchFor(x) {
		if rs := tr.asRange(x, env); rs != nil {
			return tr.generalRange(rs, env, next)
		}
		if rs := tr.asRevRangeF(x, env); rs != nil {
			return tr.generalRange(rs, env, next)
		}
		return tr.generalFor(x, env, next)
	}
	bad := func() { gtFail("for loop is not `for i := 0; i < len(s); i++ { if cond { return ... } }`") }
	as, ok := x.Init.(*ast.AssignStmt)
	if !ok || as.Tok != token.DEFINE || len(as.Lhs) != 1 || len(as.Rhs) != 1 {
		bad()
	}
	iv, ok := as.Lhs[0].(*ast.Ident)
	if z, isInt := intLit(as.Rhs[0]); !ok || !isInt || z != 0 {
		bad()
	}
	cond, ok := x.Cond.(*ast.BinaryExpr)
	if !ok || cond.Op != token.LSS || !isIdent(cond.X, iv.Name) {
		bad()
	}
	lc, ok := cond.Y.(*ast.CallExpr)
	if !ok || !isIdent(lc.Fun, "len") || len(lc.Args) != 1 || env.lookup("len") != nil {
		bad()
	}
	sid, ok := unparen(lc.Args[0]).(*ast.Ident)
	if !ok {
		bad()
	}
	inc, ok := x.Post.(*ast.IncDecStmt)
	if !ok || inc.Tok != token.INC || !isIdent(inc.X, iv.Name) {
		bad()
	}
	sv := env.lookup(sid.Name)
	if sv == nil {
		bad()
	}
	list := tr.useVar(sv)
	if list.typ.kind != kString && list.typ.kind != kSlice {
		gtFail("indexed loop over a %s", list.typ.name)
	}
	ifs, ret := singleIfReturn(x.Body)
	return tr.find(iv.Name, list, sv, ifs, ret, env, next)
}

func (tr *gtTr) find(varName string, list ex, indexed *gvar, ifs *ast.IfStmt, ret *ast.ReturnStmt, env *venv, next cont) gnode {
	et := elemType(list.typ)
	if !et.supported() {
		gtFail("loop over elements of type %s", et.name)
	}
	if et.usesValue() {
		tr.fn.usesV = true
	}
	binder := tr.newName(varName)
	pre := ""
	elem := binder
	if list.typ.kind == kString {
		// the elements of a bstr are N; Go's byte is a Z here
		elem = binder + "z"
		pre = fmt.Sprintf("let %s := Z.of_N %s in ", elem, binder)
	}
	e := env.clone().push()
	if indexed != nil {
		e.declare(varName, &gvar{goName: varName, typ: basicInts["int"], coq: "?", indexOf: indexed, elemCode: elem})
	} else {
		e.declare(varName, &gvar{goName: varName, typ: et, coq: elem})
	}
	cond := tr.expr(ifs.Cond, e)
	if cond.typ.kind != kBool {
		gtFail("loop condition is not boolean")
	}
	if len(cond.binds) > 0 {
		gtFail("loop condition can panic (outside the subset)")
	}
	found := tr.stmt(ret, e, func(*venv) gnode { gtFail("internal: return continued"); return nil })
	return &nFind{binder: binder, pre: pre, cond: cond, list: list, found: found, notfound: next(env)}
}

// ---------------------------------------------------------------------------------------
// functions
// ---------------------------------------------------------------------------------------

type gtParam struct {
	goName string
	coq    string
	typ    *gtype
	fields []string // struct parameter: the field paths read ("f", "f.g"), in binder order
	ptr    bool     // passed by pointer
}

// gtAbstract: a parameter of the translated function that stands for something the subset does not model.  key orders
// the parameters that could be confused with one another (several of the same type: the regexps of a package, the
// interface-typed fields of a node): by DECLARATION position, never by the order in which the body uses them, so that
// swapping two uses changes the body and not the binders.  Parameters without a key come first, in order of first use.
type gtAbstract struct{ name, typ, key string }

type gtFn struct {
	key      string // dir:Name or dir:Recv.Name
	coqName  string
	status   int // 0 untried, 1 in progress, 2 translated, 3 failed
	err      string
	abstract bool
	params   []gtParam // the Go parameters (receiver first), in order
	results  []*gtype
	muts     []gtMut // what the function changes of its receiver / arguments: returned before the results
	partial  bool
	// implicit parameters
	usesV       bool
	valueParams map[string]bool // val_kind, val_undefined, val_null, val_of_*, val_as_*
	preds       map[string]bool // uni_letter, uni_digit, uni_space
	abstracts   []gtAbstract
	text        string
	sig         string // Go signature, for the comment
}

func (fn *gtFn) addAbstract(a gtAbstract) {
	for _, b := range fn.abstracts {
		if b.name == a.name {
			return
		}
	}
	fn.abstracts = append(fn.abstracts, a)
	sort.SliceStable(fn.abstracts, func(i, j int) bool {
		ki, kj := fn.abstracts[i].key, fn.abstracts[j].key
		if ki == "" || kj == "" {
			return ki == "" && kj != ""
		}
		return ki < kj
	})
}

var valueParamOrder = []struct{ name, typ string }{{"val_kind", "V -> Z"}, {"val_undefined", "V"}, {"val_null", "V"},
	{"val_of_bool", "bool -> V"}, {"val_of_int", "Z -> V"}, {"val_of_string", "bstr -> V"},
	{"val_as_bool", "V -> option bool"}, {"val_as_int", "V -> option Z"}, {"val_as_string", "V -> option bstr"},
	{"val_as_list", "V -> option (list V)"}, {"val_as_map", "V -> option (list (bstr * V))"}, {"val_string", "V -> option bstr"}}
var predOrder = []string{"uni_letter", "uni_digit", "uni_space"}

func (fn *gtFn) implicitBinders() []string {
	var out []string
	if fn.usesV {
		out = append(out, "(V : Type)")
	}
	for _, vp := range valueParamOrder {
		if fn.valueParams[vp.name] {
			out = append(out, "("+vp.name+" : "+vp.typ+")")
		}
	}
	for _, p := range predOrder {
		if fn.preds[p] {
			out = append(out, "("+p+" : Z -> bool)")
		}
	}
	for _, a := range fn.abstracts {
		out = append(out, "("+a.name+" : "+a.typ+")")
	}
	return out
}

func (fn *gtFn) implicitArgs() []string {
	var out []string
	if fn.usesV {
		out = append(out, "V")
	}
	for _, vp := range valueParamOrder {
		if fn.valueParams[vp.name] {
			out = append(out, vp.name)
		}
	}
	for _, p := range predOrder {
		if fn.preds[p] {
			out = append(out, p)
		}
	}
	for _, a := range fn.abstracts {
		out = append(out, a.name)
	}
	return out
}

type gtCfg struct {
	valueOf   string         // fragment: the value of this local variable, from its top-level declaration (inclusive) ...
	untilDecl string         // ... up to the top-level declaration of this one (exclusive), over fragVars
	initOf    string         // fragment: translate only the initialiser of the (unique) declaration of this local variable
	abstract  []string       // callees that stay parameters
	afterDecl string         // fragment: translate only the statements after the declaration of this variable ...
	fragVars  [][2]string    // ... with these (name, Go type) as additional parameters
	suffix    string         // ... under the name src_<pkg>_<name>_<suffix>
	fuel      map[int]string // loop number (source order, from 1) -> Go expression over what is in scope at the loop: iterations + 1 at most
	ignore    []string       // calls (as statements) of these package functions are skipped: hooks without a body in the build under check
	litsOf    []string       // fragment: the constant string arguments of every call of a method with one of these names, in source order (a list)
	alts      []string       // lookup items: other names the table / function may have
	sig       string         // lookup items: the signature "func(K) V" of a function that may replace the table
}

type gtState struct {
	placeholders map[string]bool
	fns          map[string]*gtFn
	cfgs         map[string]*gtCfg
	tables       map[string]*gtype // emitted package-level map literals: coq name -> type
	pending      []string          // texts to emit, in dependency order
	family       string
	loopTexts    map[string]string      // emitted loop functions, by name
	tableRows    map[string][][2]string // the (key, value) rows of the map literals emitted so far
	joins        bool                   // translate ifs whose branches cannot leave as expressions (joinIf)
}

var gtStates = map[*gen]*gtState{}

func (g *gen) gtState() *gtState {
	st := gtStates[g]
	if st == nil {
		st = &gtState{fns: map[string]*gtFn{}, cfgs: map[string]*gtCfg{}, tables: map[string]*gtype{}, placeholders: map[string]bool{}, loopTexts: map[string]string{}, joins: os.Getenv("GOTRANS_NOJOINS") == ""}
		gtStates[g] = st
	}
	return st
}

func coqFnName(p *gpkg, key, suffix string) string {
	n := "src_" + p.name + "_" + strings.ReplaceAll(key, ".", "_")
	if suffix != "" {
		n += "_" + suffix
	}
	return n
}

// translate returns the translated function dir:key, translating it (and emitting it before the caller) on first use.
func (st *gtState) translate(g *gen, dir, key string, caller *gtFn) *gtFn {
	return st.translateCfg(g, dir, key, st.cfgs[dir+":"+key], caller)
}

// translateCfg: a fragment (a configuration with a suffix) is a translation unit of its own.
func (st *gtState) translateCfg(g *gen, dir, key string, cfg *gtCfg, caller *gtFn) *gtFn {
	full := dir + ":" + key
	if cfg != nil && cfg.suffix != "" {
		full += "#" + cfg.suffix
	}
	fn := st.fns[full]
	if fn == nil {
		fn = &gtFn{key: full, valueParams: map[string]bool{}, preds: map[string]bool{}}
		st.fns[full] = fn
	}
	switch fn.status {
	case 1:
		gtFail("recursion through %s is outside the subset", full)
	case 2:
		return fn
	case 3:
		gtFail("calls %s, which is not translatable (%s)", full, fn.err)
	}
	fn.status = 1
	func() {
		defer func() {
			if r := recover(); r != nil {
				ge, ok := r.(gtErr)
				if !ok {
					panic(r)
				}
				fn.status, fn.err = 3, ge.msg
			}
		}()
		st.translateFn(g, dir, key, fn, cfg)
		fn.status = 2
	}()
	if fn.status == 3 {
		if caller != nil {
			gtFail("calls %s, which is not translatable (%s)", full, fn.err)
		}
		return fn
	}
	st.pending = append(st.pending, fn.text)
	if caller != nil && !gtItemKeys[full] {
		// a helper that only other translated functions call (it may be split off, renamed or inlined by a refactoring:
		// no lemma names it): proofs open it with `autounfold with src_helpers`
		st.pending = append(st.pending, fmt.Sprintf("#[global] Hint Unfold %s : src_helpers.\n", fn.coqName))
	}
	return fn
}

// gtItemKeys: the functions listed in gotrans_apply.go (dir:key), i.e. those with a lemma of their own
var gtItemKeys = map[string]bool{}

func (st *gtState) translateFn(g *gen, dir, key string, fn *gtFn, cfg *gtCfg) {
	p := g.gtPkg(dir)
	if p.problem != "" {
		gtFail("package %s: %s", dir, p.problem)
	}
	fd := p.funcs[key]
	if fd == nil {
		gtFail("function not found in the non-test, unconstrained files of %s", dir)
	}
	if fd.Body == nil {
		gtFail("no body")
	}
	if fd.Type.TypeParams != nil {
		gtFail("generic function")
	}
	if cfg == nil {
		cfg = &gtCfg{}
	}
	f := p.funcIn[key]
	tr := &gtTr{g: g, st: st, p: p, f: f, fn: fn, names: map[string]int{}, abstract: map[string]bool{}, usedFields: map[string]map[string]bool{}, usedVars: map[string]bool{}, fieldNames: map[string]bool{},
		cfg: cfg, loopIndex: map[ast.Node]int{}}
	for _, a := range cfg.abstract {
		tr.abstract[a] = true
	}
	ast.Inspect(fd.Body, func(n ast.Node) bool {
		switch n.(type) {
		case *ast.ForStmt, *ast.RangeStmt:
			tr.loopIndex[n] = len(tr.loopIndex) + 1
		}
		return true
	})
	fn.coqName = coqFnName(p, key, cfg.suffix)
	env := (&venv{}).push()
	ptrNext := false
	addParam := func(name string, t *gtype) {
		if name == "" || name == "_" {
			name = fmt.Sprintf("unused%d", len(fn.params))
		}
		coq := tr.newName(name)
		fn.params = append(fn.params, gtParam{goName: name, coq: coq, typ: t, ptr: ptrNext})
		v := &gvar{goName: name, typ: t, coq: coq, ptr: ptrNext}
		if t.kind == kStruct {
			v.coq = "v_" + name
		}
		env.declare(name, v)
	}
	var sig []string
	if fd.Recv != nil && len(fd.Recv.List) == 1 {
		name := ""
		if len(fd.Recv.List[0].Names) == 1 {
			name = fd.Recv.List[0].Names[0].Name
		}
		_, ptrNext = fd.Recv.List[0].Type.(*ast.StarExpr)
		addParam(name, g.resolveType(p, f, fd.Recv.List[0].Type, 0))
		ptrNext = false
		sig = append(sig, "("+name+" "+typeText(fd.Recv.List[0].Type)+")")
	}
	var ps []string
	for _, fl := range fd.Type.Params.List {
		t := g.resolveType(p, f, fl.Type, 0)
		_, ptrNext = fl.Type.(*ast.StarExpr)
		if len(fl.Names) == 0 {
			addParam("", t)
			ps = append(ps, typeText(fl.Type))
		}
		for _, n := range fl.Names {
			addParam(n.Name, t)
			ps = append(ps, n.Name+" "+typeText(fl.Type))
		}
		ptrNext = false
	}
	var rs []string
	type namedResult struct {
		name string
		typ  *gtype
	}
	var namedResults []namedResult
	namedUsed := false
	if fd.Type.Results != nil && cfg.valueOf == "" && cfg.initOf == "" {
		for _, fl := range fd.Type.Results.List {
			t := g.resolveType(p, f, fl.Type, 0)
			if !t.supported() {
				gtFail("result type %s is outside the subset", t.name)
			}
			for _, n := range fl.Names {
				// named results are local variables that start at their zero values (declared only if the body uses one)
				namedResults = append(namedResults, namedResult{n.Name, t})
				if n.Name != "_" && mentions(fd.Body, n.Name) {
					namedUsed = true
				}
			}
			for i := 0; i < len(fl.Names) || i == 0; i++ {
				fn.results = append(fn.results, t)
				rs = append(rs, typeText(fl.Type))
			}
		}
	}
	body := fd.Body.List
	fragInit, fragValue := false, false
	var fragExpr ast.Expr
	if cfg.afterDecl != "" {
		// a fragment: the statements after the declaration of cfg.afterDecl, over the given variables
		idx := -1
		for i, s := range body {
			if declares(s, cfg.afterDecl) {
				idx = i
			}
		}
		if idx < 0 {
			gtFail("fragment: no top-level declaration of %s", cfg.afterDecl)
		}
		body = body[idx+1:]
		for _, fv := range cfg.fragVars {
			addParam(fv[0], g.resolveType(p, f, gtParseExpr(fv[1]), 0))
		}
		sig = append(sig, "[the statements after the declaration of "+cfg.afterDecl+"]")
	}
	if cfg.valueOf != "" {
		from, until := -1, -1
		for i, s := range body {
			if from < 0 && declares(s, cfg.valueOf) {
				from = i
			}
			if from >= 0 && until < 0 && declares(s, cfg.untilDecl) {
				until = i
			}
		}
		if from < 0 || until < 0 {
			gtFail("fragment: no top-level declarations of %s and then %s", cfg.valueOf, cfg.untilDecl)
		}
		body = body[from:until]
		for _, fv := range cfg.fragVars {
			addParam(fv[0], g.resolveType(p, f, gtParseExpr(fv[1]), 0))
		}
		fn.results = nil
		sig = append(sig, "[the value of "+cfg.valueOf+" before the declaration of "+cfg.untilDecl+"]")
		fragValue = true
	}
	if cfg.initOf != "" {
		// a fragment: the initialiser expression of the unique declaration of a local variable, over the parameters
		var inits []ast.Expr
		ast.Inspect(fd.Body, func(n ast.Node) bool {
			switch x := n.(type) {
			case *ast.ValueSpec:
				for i, nm := range x.Names {
					if nm.Name == cfg.initOf && len(x.Values) == len(x.Names) {
						inits = append(inits, x.Values[i])
					}
				}
			case *ast.AssignStmt:
				if x.Tok == token.DEFINE && len(x.Lhs) == len(x.Rhs) {
					for i, l := range x.Lhs {
						if isIdent(l, cfg.initOf) {
							inits = append(inits, x.Rhs[i])
						}
					}
				}
			}
			return true
		})
		if len(inits) != 1 {
			gtFail("fragment: %d declarations of %s with an initialiser (expected exactly one)", len(inits), cfg.initOf)
		}
		fragExpr = inits[0]
		for _, fv := range cfg.fragVars {
			addParam(fv[0], g.resolveType(p, f, gtParseExpr(fv[1]), 0))
		}
		fn.results = nil
		sig = append(sig, "[the initialiser of "+cfg.initOf+"]")
		fragInit = true
	}
	// what the function changes of its receiver and arguments
	if !fragInit {
		var scan []ast.Node
		for _, st := range body {
			scan = append(scan, st)
		}
		keys, elems, whole := tr.assignedIn(scan, env)
		for pi, prm := range fn.params {
			if prm.typ.kind == kStruct {
				for _, fl := range prm.typ.fields {
					if keys[stKey{prm.goName, fl.name}] {
						if !prm.ptr {
							gtFail("assignment to field %s of %s, which is passed by value", fl.name, prm.goName)
						}
						if !fl.typ.supported() {
							gtFail("assignment to field %s.%s of type %s", prm.goName, fl.name, fl.typ.name)
						}
						fn.muts = append(fn.muts, gtMut{pi, fl.name, fl.typ})
					}
				}
				continue
			}
			k := stKey{prm.goName, ""}
			if prm.ptr && keys[k] {
				// s *T with T a named slice / map: `*s = e` and element assignments both reach the caller
				if !prm.typ.supported() {
					gtFail("assignment through %s of type %s", prm.goName, prm.typ.name)
				}
				fn.muts = append(fn.muts, gtMut{pi, "", prm.typ})
			} else if elems[k] {
				if whole[k] {
					gtFail("%s is both reassigned and has its elements assigned (aliasing is outside the subset)", prm.goName)
				}
				if !prm.typ.supported() {
					gtFail("assignment to elements of %s of type %s", prm.goName, prm.typ.name)
				}
				fn.muts = append(fn.muts, gtMut{pi, "", prm.typ})
			}
		}
		tr.elemMut = len(elems) > 0
		if len(fn.muts) > 0 && (fragInit || fragValue || cfg.afterDecl != "") {
			gtFail("fragment of a function that changes its receiver or arguments")
		}
	}
	if len(fn.results) == 0 && len(fn.muts) == 0 && !fragInit && !fragValue {
		gtFail("no result and no change of the receiver or an argument (a function with other effects only)")
	}
	fn.sig = strings.TrimSpace(strings.Join(sig, " ") + " " + fd.Name.Name + "(" + strings.Join(ps, ", ") + ") " + strings.Join(rs, ", "))
	var node gnode
	if fragInit {
		v := tr.expr(fragExpr, env)
		if v.typ.untyped {
			switch v.typ.kind {
			case kInt:
				v.typ = basicInts["int"]
			case kBool:
				v.typ = tBool
			case kString:
				v.typ = tString
			}
		}
		if !v.typ.supported() {
			gtFail("fragment of type %s", v.typ.name)
		}
		fn.results = []*gtype{v.typ}
		node = &nRet{vals: []ex{v}}
	} else if fragValue {
		node = tr.block(body, env, func(e *venv) gnode {
			gv := e.lookup(cfg.valueOf)
			if gv == nil {
				gtFail("fragment: %s is not in scope at the end", cfg.valueOf)
			}
			v := tr.useVar(gv)
			fn.results = []*gtype{v.typ}
			return &nRet{vals: []ex{v}}
		})
		if len(fn.results) == 0 {
			gtFail("fragment: the end is never reached")
		}
	} else {
		if !namedUsed {
			namedResults = nil
		}
		for _, nr := range namedResults {
			if nr.name == "_" {
				gtFail("a blank named result next to named results that are used")
			}
		}
		var declNamed func(i int, e *venv) gnode
		declNamed = func(i int, e *venv) gnode {
			if i == len(namedResults) {
				return tr.block(body, e, func(e *venv) gnode {
					if len(fn.results) == 0 && len(fn.muts) > 0 {
						return tr.stmt(&ast.ReturnStmt{}, e, nil)
					}
					gtFail("control can reach the end of the function without a return")
					return nil
				})
			}
			nr := namedResults[i]
			tr.named = append(tr.named, nr.name)
			return tr.bindNew(e, nr.name, ex{code: zeroOf(nr.typ), typ: nr.typ}, true, func(e2 *venv) gnode { return declNamed(i+1, e2) })
		}
		node = declNamed(0, env)
	}
	fn.partial = nodePartial(node)

	// binders: implicit ones, then the Go parameters in order (struct parameters as the fields read, in field order)
	var binders []string
	seen := map[string]bool{}
	addBinder := func(name, typ string) {
		if seen[name] {
			gtFail("parameter name clash on %s", name)
		}
		seen[name] = true
		binders = append(binders, "("+name+" : "+typ+")")
	}
	for pi, prm := range fn.params {
		switch {
		case prm.typ.kind == kStruct:
			var walk func(path string, t *gtype)
			walk = func(path string, t *gtype) {
				for _, fl := range t.fields {
					if tr.usedFields[path][fl.name] {
						addBinder("v_"+strings.ReplaceAll(path, ".", "_")+"_"+fl.name, fl.typ.coq())
						fn.params[pi].fields = append(fn.params[pi].fields, strings.TrimPrefix(path+"."+fl.name, prm.goName+"."))
					}
					if fl.typ.kind == kStruct {
						walk(path+"."+fl.name, fl.typ)
					}
				}
			}
			walk(prm.goName, prm.typ)
		case prm.typ.supported():
			if (cfg.valueOf != "" || cfg.initOf != "" || cfg.afterDecl != "") && !tr.usedVars[prm.coq] {
				continue // a fragment takes only the variables it reads
			}
			if prm.typ.usesValue() {
				fn.usesV = true
			}
			addBinder(prm.coq, prm.typ.coq())
		default:
			// a parameter of a type outside the subset: legal as long as the body never uses it
		}
	}
	explicit := append([]string{}, binders...)
	binders = append(fn.implicitBinders(), binders...)
	var rts []string
	for _, m := range fn.muts {
		rts = append(rts, paren(m.typ.coq()))
		if m.typ.usesValue() {
			fn.usesV = true
		}
	}
	for _, r := range fn.results {
		rts = append(rts, paren(r.coq()))
	}
	rt := strings.Join(rts, " * ")
	if fn.partial {
		rt = "option " + paren(rt)
	}
	var sb strings.Builder
	fmt.Fprintf(&sb, "(* %s: func %s *)\n", p.dir, strings.ReplaceAll(strings.ReplaceAll(fn.sig, "(*", "( *"), "*)", "* )"))
	bs := strings.Join(binders, " ")
	if bs != "" {
		bs = " " + bs
	}
	fmt.Fprintf(&sb, "Definition %s%s : %s :=\n  %s.\n", fn.coqName, bs, rt, render(node, boolInt(fn.partial), "  "))
	// The value operations a function happens to use are not part of its interface: `isInt(x)` rewritten as
	// `_, ok := x.(data.Int)` drops val_kind.  A function over data.Value is therefore ALSO emitted with the whole
	// value vocabulary as parameters, in the fixed order of valueParamOrder (<name>_V); lemmas are stated about that.
	if fn.usesV {
		var vb, va []string
		vb = append(vb, "(V : Type)")
		va = append(va, "V")
		for _, vp := range valueParamOrder {
			vb = append(vb, "("+vp.name+" : "+vp.typ+")")
			if fn.valueParams[vp.name] {
				va = append(va, vp.name)
			}
		}
		for _, pr := range predOrder {
			if fn.preds[pr] {
				vb = append(vb, "("+pr+" : Z -> bool)")
				va = append(va, pr)
			}
		}
		for _, a := range fn.abstracts {
			vb = append(vb, "("+a.name+" : "+a.typ+")")
			va = append(va, a.name)
		}
		for _, b := range explicit {
			vb = append(vb, b)
			va = append(va, strings.TrimPrefix(strings.SplitN(b, " : ", 2)[0], "("))
		}
		fmt.Fprintf(&sb, "Definition %s_V %s : %s :=\n  %s %s.\n", fn.coqName, strings.Join(vb, " "), rt, fn.coqName, strings.Join(va, " "))
	}
	fn.text = sb.String()
}

// mutKeys: the function's changed state, as state of its own environment.
func (tr *gtTr) mutKeys() []stKey {
	var out []stKey
	for _, m := range tr.fn.muts {
		out = append(out, stKey{tr.fn.params[m.prm].goName, m.f})
	}
	return out
}

// mentions: does the identifier occur anywhere in n?
func mentions(n ast.Node, name string) bool {
	found := false
	ast.Inspect(n, func(n ast.Node) bool {
		if id, ok := n.(*ast.Ident); ok && id.Name == name {
			found = true
		}
		return true
	})
	return found
}

func boolInt(b bool) int {
	if b {
		return 1
	}
	return 0
}

func declares(s ast.Stmt, name string) bool {
	switch x := s.(type) {
	case *ast.DeclStmt:
		if gd, ok := x.Decl.(*ast.GenDecl); ok {
			for _, sp := range gd.Specs {
				if vs, ok := sp.(*ast.ValueSpec); ok {
					for _, n := range vs.Names {
						if n.Name == name {
							return true
						}
					}
				}
			}
		}
	case *ast.AssignStmt:
		if x.Tok == token.DEFINE {
			for _, l := range x.Lhs {
				if isIdent(l, name) {
					return true
				}
			}
		}
	}
	return false
}

func typeText(e ast.Expr) string {
	switch x := e.(type) {
	case *ast.Ident:
		return x.Name
	case *ast.SelectorExpr:
		return typeText(x.X) + "." + x.Sel.Name
	case *ast.StarExpr:
		return "*" + typeText(x.X)
	case *ast.ArrayType:
		return "[]" + typeText(x.Elt)
	case *ast.Ellipsis:
		return "..." + typeText(x.Elt)
	case *ast.MapType:
		return "map[" + typeText(x.Key) + "]" + typeText(x.Value)
	case *ast.InterfaceType:
		return "interface{}"
	}
	return "?"
}

// mapTable emits (once) the package-level map literal p.name as an association list and returns its Coq name.
func (st *gtState) mapTable(g *gen, p *gpkg, name string, user *gtFn) (string, *gtype) {
	coq := "src_" + p.name + "_" + name
	if t, ok := st.tables[coq]; ok {
		return coq, t
	}
	vs := p.vars[name]
	f := p.varIn[name]
	var init ast.Expr
	for i, n := range vs.Names {
		if n.Name == name && i < len(vs.Values) {
			init = vs.Values[i]
		}
	}
	if src, mt, ok := inverseByInit(p, name, init); ok {
		// var name = make(map[V]K) filled by `func init() { for k, v := range src { name[v] = k } }`, the only place that
		// touches it: the inverse of the literal src, whatever order the range takes, provided src's values are distinct
		srcCoq, srcT := st.mapTable(g, p, src, user)
		t := g.resolveType(p, f, mt, 0)
		if t.kind != kMap || !t.supported() || t.usesValue() || t.key.kind != srcT.elem.kind || t.elem.kind != srcT.key.kind {
			gtFail("package variable %s of type %s is outside the subset", name, t.name)
		}
		var rows []string
		seen := map[string]bool{}
		for _, r := range st.tableRows[srcCoq] {
			if seen[r[1]] {
				gtFail("%s: init() inverts %s, which has two entries with the same value (the result would depend on the order of the range)", name, src)
			}
			seen[r[1]] = true
			rows = append(rows, "("+r[1]+", "+r[0]+")")
		}
		st.tables[coq] = t
		st.pending = append(st.pending, fmt.Sprintf("(* %s: var %s = make(%s), filled by init() as the inverse of %s *)\nDefinition %s : %s :=\n  [%s].\n", p.dir, name, t.name, src, coq, t.coq(), strings.Join(rows, ";\n   ")))
		return coq, t
	}
	cl, ok := init.(*ast.CompositeLit)
	if !ok || cl.Type == nil {
		gtFail("package variable %s is not initialised with a map literal", name)
	}
	t := g.resolveType(p, f, cl.Type, 0)
	if t.kind != kMap || !t.supported() || t.usesValue() {
		gtFail("package variable %s of type %s is outside the subset", name, t.name)
	}
	if assignedElsewhere(p, name) {
		gtFail("package variable %s is assigned to somewhere in the package", name)
	}
	tr := &gtTr{g: g, st: st, p: p, f: f, fn: &gtFn{valueParams: map[string]bool{}, preds: map[string]bool{}}, names: map[string]int{}, abstract: map[string]bool{}, usedFields: map[string]map[string]bool{}, usedVars: map[string]bool{}, fieldNames: map[string]bool{}}
	env := (&venv{}).push()
	var rows []string
	seen := map[string]bool{}
	for _, el := range cl.Elts {
		kv, ok := el.(*ast.KeyValueExpr)
		if !ok {
			gtFail("%s: element is not key: value", name)
		}
		k := tr.expr(kv.Key, env)
		v := tr.expr(kv.Value, env)
		if k.k == nil || v.k == nil {
			gtFail("%s: an entry is not constant: constant", name)
		}
		k = tr.coerce(k, t.key, name+" key")
		v = tr.coerce(v, t.elem, name+" value")
		if seen[k.code] {
			gtFail("%s: duplicate key", name)
		}
		seen[k.code] = true
		rows = append(rows, "("+k.code+", "+v.code+")")
		if st.tableRows == nil {
			st.tableRows = map[string][][2]string{}
		}
		st.tableRows[coq] = append(st.tableRows[coq], [2]string{k.code, v.code})
	}
	st.tables[coq] = t
	st.pending = append(st.pending, fmt.Sprintf("(* %s: var %s = %s{...}, in source order *)\nDefinition %s : %s :=\n  [%s].\n", p.dir, name, t.name, coq, t.coq(), strings.Join(rows, ";\n   ")))
	return coq, t
}

// inverseByInit: is the package-level variable `name`, declared as make(map[V]K), touched in exactly one place of the
// package, namely `for k, v := range src { name[v] = k }` as a top-level statement of a func init(), src another
// package-level variable?
func inverseByInit(p *gpkg, name string, init ast.Expr) (src string, mapType ast.Expr, ok bool) {
	mk, isCall := init.(*ast.CallExpr)
	if !isCall || !isIdent(mk.Fun, "make") || len(mk.Args) < 1 {
		return "", nil, false
	}
	if _, isMap := mk.Args[0].(*ast.MapType); !isMap {
		return "", nil, false
	}
	var site *ast.AssignStmt
	for _, f := range p.files {
		for _, d := range f.Decls {
			fd, isFn := d.(*ast.FuncDecl)
			if !isFn || fd.Recv != nil || fd.Name.Name != "init" || fd.Body == nil {
				continue
			}
			for _, st := range fd.Body.List {
				rs, isRange := st.(*ast.RangeStmt)
				if !isRange || rs.Tok != token.DEFINE || len(rs.Body.List) != 1 {
					continue
				}
				k, okK := rs.Key.(*ast.Ident)
				v, okV := rs.Value.(*ast.Ident)
				m, okM := rs.X.(*ast.Ident)
				as, okA := rs.Body.List[0].(*ast.AssignStmt)
				if !okK || !okV || !okM || !okA || as.Tok != token.ASSIGN || len(as.Lhs) != 1 || len(as.Rhs) != 1 || k.Name == "_" || v.Name == "_" || k.Name == v.Name {
					continue
				}
				ix, isIx := as.Lhs[0].(*ast.IndexExpr)
				if !isIx || !isIdent(ix.X, name) || !isIdent(ix.Index, v.Name) || !isIdent(as.Rhs[0], k.Name) || m.Name == name {
					continue
				}
				if _, isVar := p.vars[m.Name]; !isVar || site != nil {
					return "", nil, false
				}
				site, src = as, m.Name
			}
		}
	}
	if site == nil {
		return "", nil, false
	}
	// nothing else may touch it
	others := false
	for _, f := range p.files {
		ast.Inspect(f, func(n ast.Node) bool {
			switch x := n.(type) {
			case *ast.AssignStmt:
				if x == site {
					return true
				}
				for _, l := range x.Lhs {
					if isIdent(l, name) && x.Tok != token.DEFINE {
						others = true
					}
					if ix, ok := l.(*ast.IndexExpr); ok && isIdent(ix.X, name) {
						others = true
					}
				}
			case *ast.IncDecStmt:
				if ix, ok := x.X.(*ast.IndexExpr); ok && isIdent(ix.X, name) {
					others = true
				}
			case *ast.UnaryExpr:
				if x.Op == token.AND && isIdent(x.X, name) {
					others = true
				}
			case *ast.CallExpr:
				if isIdent(x.Fun, "delete") && len(x.Args) > 0 && isIdent(x.Args[0], name) {
					others = true
				}
			}
			return true
		})
	}
	if others || assignedElsewhere(p, src) {
		return "", nil, false
	}
	return src, mk.Args[0], true
}

// assignedElsewhere: is the package-level variable ever the target of an assignment (or has its address taken, or
// is it indexed on the left of an assignment) in the package?  A conservative syntactic check.
func assignedElsewhere(p *gpkg, name string) bool {
	found := false
	for _, f := range p.files {
		ast.Inspect(f, func(n ast.Node) bool {
			switch x := n.(type) {
			case *ast.AssignStmt:
				for _, l := range x.Lhs {
					if isIdent(l, name) && x.Tok != token.DEFINE {
						found = true
					}
					if ix, ok := l.(*ast.IndexExpr); ok && isIdent(ix.X, name) {
						found = true
					}
				}
			case *ast.UnaryExpr:
				if x.Op == token.AND && isIdent(x.X, name) {
					found = true
				}
			case *ast.CallExpr:
				if isIdent(x.Fun, "delete") && len(x.Args) > 0 && isIdent(x.Args[0], name) {
					found = true
				}
			}
			return true
		})
	}
	return found
}

// ---------------------------------------------------------------------------------------
// prelude and families
// ---------------------------------------------------------------------------------------

const gtPrelude = `(* gotrans: what the translated Go functions below are written over.
   Integers are Z; + - * << on a typed integer carry the wrap of its type; a partial
   operation (index out of range, panic) makes the enclosing function return an option. *)
Create HintDb src_helpers.
Definition go_bind {A B : Type} (x : option A) (f : A -> option B) : option B :=
  match x with Some a => f a | None => None end.
Definition go_wrap_u (bits x : Z) : Z := Z.modulo x (Z.pow 2%Z bits).
Definition go_wrap_s (bits x : Z) : Z :=
  Z.sub (Z.modulo (Z.add x (Z.pow 2%Z (Z.sub bits 1%Z))) (Z.pow 2%Z bits)) (Z.pow 2%Z (Z.sub bits 1%Z)).
Definition go_len {A : Type} (l : list A) : Z := Z.of_nat (List.length l).
(* l[i]: None = index out of range *)
Definition go_index {A : Type} (l : list A) (i : Z) : option A :=
  if orb (Z.ltb i 0%Z) (Z.leb (go_len l) i) then None else nth_error l (Z.to_nat i).
Definition go_index_b (s : bstr) (i : Z) : option Z :=
  match go_index s i with Some c => Some (Z.of_N c) | None => None end.
Definition go_mem_z (x : Z) (l : list Z) : bool := existsb (Z.eqb x) l.
(* maps as association lists: m[k] with the zero value as default, and the ok of the comma-ok form *)
Fixpoint go_assoc_z {A : Type} (k : Z) (l : list (Z * A)) : option A :=
  match l with
  | [] => None
  | (k', v) :: r => if Z.eqb k k' then Some v else go_assoc_z k r
  end.
Definition go_lookup_z {A : Type} (k : Z) (l : list (Z * A)) (zero : A) : A :=
  match go_assoc_z k l with Some v => v | None => zero end.
Definition go_has_z {A : Type} (k : Z) (l : list (Z * A)) : bool :=
  match go_assoc_z k l with Some _ => true | None => false end.
Definition go_lookup_s {A : Type} (k : bstr) (l : list (bstr * A)) (zero : A) : A :=
  match assoc_s k l with Some v => v | None => zero end.
Definition go_has_s {A : Type} (k : bstr) (l : list (bstr * A)) : bool :=
  match assoc_s k l with Some _ => true | None => false end.
(* s[lo:hi]: None = slice bounds out of range *)
Definition go_slice (s : bstr) (lo hi : Z) : option bstr :=
  if orb (Z.ltb lo 0%Z) (orb (Z.ltb hi lo) (Z.ltb (go_len s) hi)) then None
  else Some (take (Z.to_nat (Z.sub hi lo)) (drop (Z.to_nat lo) s)).
(* strings.Count / Index / LastIndex with a one-byte separator *)
Fixpoint go_count_byte (c : N) (s : bstr) : Z :=
  match s with [] => 0%Z | x :: r => Z.add (if N.eqb x c then 1%Z else 0%Z) (go_count_byte c r) end.
Fixpoint go_index_byte (c : N) (s : bstr) : Z :=
  match s with
  | [] => (-1)%Z
  | x :: r => if N.eqb x c then 0%Z else match go_index_byte c r with Zneg _ => (-1)%Z | i => Z.succ i end
  end.
Fixpoint go_last_index_byte (c : N) (s : bstr) : Z :=
  match s with
  | [] => (-1)%Z
  | x :: r => match go_last_index_byte c r with
              | Zneg _ => if N.eqb x c then 0%Z else (-1)%Z
              | i => Z.succ i
              end
  end.
Definition go_format_bool (x : bool) : bstr := if x then [116; 114; 117; 101] else [102; 97; 108; 115; 101].
Definition go_has_suffix (suf s : bstr) : bool := is_prefix (rev suf) (rev s).
(* strings.Replace(s, old, new, -1) for a non-empty old: non-overlapping matches, left to right *)
Fixpoint go_replace_from (fuel : nat) (old new s : bstr) : bstr :=
  match fuel with
  | O => s
  | S f =>
      match s with
      | [] => []
      | c :: r => if is_prefix old s then new ++ go_replace_from f old new (drop (List.length old) s)
                  else c :: go_replace_from f old new r
      end
  end.
Definition go_replace_all (old new s : bstr) : bstr := go_replace_from (S (List.length s)) old new s.

`

func init() {
	register("69-gotrans-prelude", func(g *gen) { g.p("%s", gtPrelude) })
}

type gtItem struct {
	dir, key string
	cfg      *gtCfg
}

// gtFamily registers one generator that translates the listed functions (and, before them, whatever they call).
func gtFamily(name string, items []gtItem) {
	for _, it := range items {
		if it.cfg == nil || it.cfg.suffix == "" {
			gtItemKeys[it.dir+":"+it.key] = true
		}
	}
	register(name, func(g *gen) {
		st := g.gtState()
		st.family = name
		js, _ := g.js["gotrans"].(map[string]interface{})
		if js == nil {
			js = map[string]interface{}{}
			g.js["gotrans"] = js
		}
		for _, it := range items {
			if it.cfg != nil && it.cfg.suffix == "" {
				st.cfgs[it.dir+":"+it.key] = it.cfg
			}
		}
		g.p("(* functions of %s translated by gotrans (go/cmd/tablegen/gotrans*.go); lemmas in Proofs/SourceTie*.v *)\n", familyDirs(items))
		for _, it := range items {
			st.pending = nil
			var fn *gtFn
			func() {
				defer func() {
					if r := recover(); r != nil {
						ge, ok := r.(gtErr)
						if !ok {
							panic(r)
						}
						fn = &gtFn{status: 3, err: ge.msg}
					}
				}()
				if strings.HasPrefix(it.key, "const:") {
					p := g.gtPkg(it.dir)
					v, t, ok := g.constOf(p, it.key[6:])
					if !ok {
						gtFail("constant not found")
					}
					c := constEx(v, t)
					name := "src_" + p.name + "_" + it.key[6:]
					st.pending = append(st.pending, fmt.Sprintf("(* %s: const %s *)\nDefinition %s : %s := %s.\n", p.dir, it.key[6:], name, t.coq(), c.code))
					fn = &gtFn{status: 2, coqName: name}
					return
				}
				if it.cfg != nil && len(it.cfg.litsOf) > 0 {
					p := g.gtPkg(it.dir)
					fd := p.funcs[it.key]
					if fd == nil || fd.Body == nil {
						gtFail("function not found")
					}
					var lits, shown []string
					ast.Inspect(fd.Body, func(n ast.Node) bool {
						c, ok := n.(*ast.CallExpr)
						if !ok {
							return true
						}
						sel, ok := c.Fun.(*ast.SelectorExpr)
						if !ok {
							return true
						}
						for _, m := range it.cfg.litsOf {
							if sel.Sel.Name == m {
								for _, a := range c.Args {
									if v, _, ok := g.constEval(p, p.funcIn[it.key], a, -1, func(string) bool { return false }); ok && v.Kind() == constant.String {
										lits = append(lits, bstrLit(constant.StringVal(v)))
										shown = append(shown, fmt.Sprintf("%q", constant.StringVal(v)))
									}
								}
							}
						}
						return true
					})
					name := coqFnName(p, it.key, it.cfg.suffix)
					st.pending = append(st.pending, fmt.Sprintf("(* %s: the constant string arguments of the calls of %s in %s, in source order:\n   %s *)\nDefinition %s : list bstr :=\n  [%s].\n",
						p.dir, strings.Join(it.cfg.litsOf, " / "), it.key, strings.ReplaceAll(strings.ReplaceAll(strings.Join(shown, " "), "(*", "( *"), "*)", "* )"), name, strings.Join(lits, ";\n   ")))
					fn = &gtFn{status: 2, coqName: name}
					return
				}
				if strings.HasPrefix(it.key, "lookup:") {
					fn = st.lookupByRole(g, it)
					return
				}
				if strings.HasPrefix(it.key, "var:") {
					p := g.gtPkg(it.dir)
					if _, ok := p.vars[it.key[4:]]; !ok {
						gtFail("package variable not found")
					}
					name, _ := st.mapTable(g, p, it.key[4:], nil)
					fn = &gtFn{status: 2, coqName: name}
					return
				}
				fn = st.translateCfg(g, it.dir, it.key, it.cfg, nil)
			}()
			what := it.dir + ":" + it.key
			if it.cfg != nil && it.cfg.suffix != "" {
				what += "#" + it.cfg.suffix
			}
			if fn.status != 2 {
				g.fail("gotrans: %s: %s", what, fn.err)
				js[what] = map[string]interface{}{"family": name, "ok": false, "why": fn.err}
				// callees translated on the way stay: they are complete definitions.  The name itself is defined
				// as a placeholder of type unit: Tables.v still compiles, the generator still "defines" the name (so
				// that bin/check charges the failure to the properties that mention it), and the lemma about it in
				// Proofs/SourceTie*.v no longer type-checks.
				ph := gtItemName(g, it)
				if !st.placeholders[ph] {
					st.placeholders[ph] = true
					st.pending = append(st.pending, fmt.Sprintf("Definition %s : unit := tt. (* UNTRANSLATABLE: %s *)\n", ph, strings.ReplaceAll(strings.ReplaceAll(fn.err, "(*", "( *"), "*)", "* )")))
				}
			} else {
				js[what] = map[string]interface{}{"family": name, "ok": true, "coq": fn.coqName, "partial": fn.partial}
			}
			for _, t := range st.pending {
				g.p("%s", t)
			}
		}
		g.p("\n")
	})
}

// lookupByRole: an integer-keyed, integer-valued lookup that the source writes EITHER as a package-level map literal
// (m[k], a missing key reads as 0) OR as a total function of the key (a switch): whichever is there is translated
// under its own name, and the item itself is the function of the key
//
//	Definition src_<pkg>_<name>_at (k : Z) : Z
//
// in both cases, so that the lemma about it is stated once.  The table / function is looked for under the item's
// name, then under cfg.alts, then as the only top-level function of the package with the signature cfg.sig.
func (st *gtState) lookupByRole(g *gen, it gtItem) *gtFn {
	p := g.gtPkg(it.dir)
	name := it.key[7:]
	at := "src_" + p.name + "_" + name + "_at"
	names := []string{name}
	if it.cfg != nil {
		names = append(names, it.cfg.alts...)
	}
	for _, n := range names {
		if _, ok := p.vars[n]; ok {
			tname, t := st.mapTable(g, p, n, nil)
			if t.kind != kMap || t.key.kind != kInt || t.elem.kind != kInt {
				gtFail("package variable %s is not an integer-keyed table of integers", n)
			}
			st.pending = append(st.pending, fmt.Sprintf("(* %s: %s[k], a missing key reads as 0 *)\nDefinition %s (k : Z) : Z := go_lookup_z k %s 0%%Z.\n", p.dir, n, at, tname))
			return &gtFn{status: 2, coqName: at}
		}
	}
	var cands []string
	for _, n := range names {
		if fd := p.funcs[n]; fd != nil && fd.Recv == nil {
			cands = append(cands, n)
		}
	}
	if len(cands) == 0 && it.cfg != nil && it.cfg.sig != "" {
		for n, fd := range p.funcs {
			if fd.Recv == nil && fd.Body != nil && strings.ReplaceAll(gtTypeText(fd.Type), " ", "") == strings.ReplaceAll(it.cfg.sig, " ", "") {
				cands = append(cands, n)
			}
		}
		sort.Strings(cands)
	}
	if len(cands) != 1 {
		gtFail("neither a package variable %s nor exactly one function in its role found (candidates: %v)", name, cands)
	}
	fn := st.translateCfg(g, it.dir, cands[0], nil, nil)
	if fn.status != 2 {
		gtFail("%s", fn.err)
	}
	if fn.partial || len(fn.muts) > 0 || len(fn.params) != 1 || len(fn.results) != 1 || fn.results[0].kind != kInt || fn.usesV || len(fn.abstracts) > 0 || len(fn.preds) > 0 {
		gtFail("function %s in the role of the table %s is not a total function from an integer to an integer", cands[0], name)
	}
	st.pending = append(st.pending, fmt.Sprintf("(* %s: %s(k) in the role of the table %s *)\nDefinition %s (k : Z) : Z := %s k.\n", p.dir, cands[0], name, at, fn.coqName))
	return &gtFn{status: 2, coqName: at}
}

// gtTypeText: a function type as "func(K) V" (parameter names dropped)
func gtTypeText(ft *ast.FuncType) string {
	var ps, rs []string
	for _, f := range ft.Params.List {
		n := len(f.Names)
		if n == 0 {
			n = 1
		}
		for i := 0; i < n; i++ {
			ps = append(ps, types.ExprString(f.Type))
		}
	}
	if ft.Results != nil {
		for _, f := range ft.Results.List {
			n := len(f.Names)
			if n == 0 {
				n = 1
			}
			for i := 0; i < n; i++ {
				rs = append(rs, types.ExprString(f.Type))
			}
		}
	}
	r := strings.Join(rs, ",")
	if len(rs) > 1 {
		r = "(" + r + ")"
	}
	return "func(" + strings.Join(ps, ",") + ")" + r
}

// gtItemName: the Coq identifier an item defines.
func gtItemName(g *gen, it gtItem) string {
	p := g.gtPkg(it.dir)
	switch {
	case strings.HasPrefix(it.key, "var:"):
		return "src_" + p.name + "_" + it.key[4:]
	case strings.HasPrefix(it.key, "lookup:"):
		return "src_" + p.name + "_" + it.key[7:] + "_at"
	case strings.HasPrefix(it.key, "const:"):
		return "src_" + p.name + "_" + it.key[6:]
	}
	suffix := ""
	if it.cfg != nil {
		suffix = it.cfg.suffix
	}
	return coqFnName(p, it.key, suffix)
}

func familyDirs(items []gtItem) string {
	seen := map[string]bool{}
	var ds []string
	for _, it := range items {
		if !seen[it.dir] {
			seen[it.dir] = true
			ds = append(ds, it.dir)
		}
	}
	sort.Strings(ds)
	return strings.Join(ds, ", ")
}

var _ = constant.MakeInt64

// the two first-match idioms keep their translation through List.find (the lemmas about them rest on it)
func isIfReturnBody(b *ast.BlockStmt) bool {
	if len(b.List) != 1 {
		return false
	}
	ifs, ok := b.List[0].(*ast.IfStmt)
	if !ok || ifs.Init != nil || ifs.Else != nil || len(ifs.Body.List) != 1 {
		return false
	}
	_, ok = ifs.Body.List[0].(*ast.ReturnStmt)
	return ok
}

func isFirstMatchRange(x *ast.RangeStmt) bool {
	k, ok := x.Key.(*ast.Ident)
	return ok && k.Name == "_" && x.Tok == token.DEFINE && x.Value != nil && isIfReturnBody(x.Body)
}

func isFirstMatchFor(x *ast.ForStmt) bool {
	as, ok := x.Init.(*ast.AssignStmt)
	if !ok || as.Tok != token.DEFINE || len(as.Lhs) != 1 || len(as.Rhs) != 1 || !isIfReturnBody(x.Body) {
		return false
	}
	iv, ok := as.Lhs[0].(*ast.Ident)
	if z, isInt := intLit(as.Rhs[0]); !ok || !isInt || z != 0 {
		return false
	}
	cond, ok := x.Cond.(*ast.BinaryExpr)
	if !ok || cond.Op != token.LSS || !isIdent(cond.X, iv.Name) {
		return false
	}
	lc, ok := cond.Y.(*ast.CallExpr)
	if !ok || !isIdent(lc.Fun, "len") || len(lc.Args) != 1 {
		return false
	}
	if _, ok := unparen(lc.Args[0]).(*ast.Ident); !ok {
		return false
	}
	inc, ok := x.Post.(*ast.IncDecStmt)
	if !ok || inc.Tok != token.INC || !isIdent(inc.X, iv.Name) {
		return false
	}
	// the loop variable may be used only as s[i]: otherwise it is a general loop
	sname := unparen(lc.Args[0]).(*ast.Ident).Name
	okUse := true
	var parents []ast.Node
	ast.Inspect(x.Body, func(n ast.Node) bool {
		if n == nil {
			parents = parents[:len(parents)-1]
			return true
		}
		if id, ok := n.(*ast.Ident); ok && id.Name == iv.Name {
			ix, isIx := parents[len(parents)-1].(*ast.IndexExpr)
			if !isIx || !isIdent(unparen(ix.X), sname) || unparen(ix.Index) != ast.Expr(id) {
				okUse = false
			}
		}
		parents = append(parents, n)
		return true
	})
	return okUse
}

// joinIf: an if whose branches cannot leave (no return, break, continue, goto, panic) and assign at least one variable
// that is visible outside is translated as an expression; what follows it is translated once.
func (tr *gtTr) joinIf(x *ast.IfStmt, cond ex, env *venv, next cont) (gnode, bool) {
	if !tr.st.joins {
		return nil, false
	}
	nodes := []ast.Node{x.Body}
	if x.Else != nil {
		nodes = append(nodes, x.Else)
	}
	if tr.leaves(nodes, env, false) {
		return nil, false
	}
	state, ok := tr.joinState(nodes, env)
	if !ok {
		return nil, false
	}
	tupleK := tr.joinTuple(state)
	a := tr.scoped(env.clone(), tupleK, func(e2 *venv, nx2 cont) gnode { return tr.block(x.Body.List, e2, nx2) })
	var b gnode
	if x.Else == nil {
		b = tupleK(env.clone())
	} else {
		b = tr.stmt(x.Else, env.clone(), tupleK)
	}
	return tr.joinNode(&nIf{cond: cond, a: a, b: b}, state, env, next), true
}
