package main

// walkevents: the STRUCTURAL tie of Model/Interp.v to soyhtml/exec.go.
//
// For every clause of the type switch in (*state).walk, and for the helper
// functions the walker is made of (eval, evaldef, renderBlock, at,
// htmlEscapeString and the prologue of walk itself), the ordered tree of
// "events" the Go code performs syntactically, in Go's order of evaluation:
//
//	EvCall f args      a call of a noted function (s.walk, s.eval, s.context.push,
//	                  callData.set, s.wr.Write, io.WriteString, state.walk, s.errorf ...);
//	                  its receiver and arguments have been evaluated before it.  Every call is
//	                  noted except a fixed list of pure builtins / conversions / value methods.
//	EvAssign lhs       an assignment to a field of the state (s.val, s.wr, s.node, s.autoescape)
//	EvLoop var over b  a for/range statement
//	EvIf c t e         an if statement: events of the condition, of the two branches
//	EvShort rhs        the right operand of && or ||: evaluated only if the left one does not decide
//	EvCases tag cls    a switch / type switch inside a clause: events of the tag, the labelled clauses
//	EvInline f body    a helper method of *state defined in exec.go, inlined at the call (a `return`
//	                  inside leaves the helper, not the walk); a func literal called in place
//	EvBreak EvContinue EvReturn EvPanic, EvDefer body
//
// CANONICAL NAMES, so that a refactoring which keeps the events keeps the table: the receiver is printed `s`, the
// node being walked `node`, the parameters of the other entries `$1 $2 ..`; a range variable is printed as the
// thing it ranges over followed by `[]` (cond -> node.Conds[]); every other local is printed `?` (result -> ?,
// callData.push -> ?.push); the variable of a loop is not recorded; the target of a store through a local is
// reduced to its last field and index (`.vars[]`, `.entered`, `[]`, `*`).  Helper methods of the receiver's type
// and plain functions defined in the same file are inlined where they are called.
//
// Methods of *state that are walker primitives are NOT inlined (they are
// EvCall events and have their own entries); helper methods are.  A recursive
// call of a helper that is being inlined stays a EvCall.  Local variables that
// are initialised with an event-free expression are substituted into the keys
// and references printed later (keyLast -> node.Var + ".lastIndex"), and so
// are the parameters of inlined helpers.
//
// Proofs/WalkTie.v holds the same table written by hand from walk_body
// (checked against walk_body by running it on probe nodes) and one lemma per
// node type stating that the two are equal: reordering two evaluations,
// dropping a pop, adding a write in exec.go breaks that lemma.

import (
	"bytes"
	"go/ast"
	"go/printer"
	"go/token"
	"sort"
	"strconv"
	"strings"
)

func init() {
	register("78-walk-events", (*gen).walkEvents)
}

// ---- event trees ----

type wkey struct {
	Kind string `json:"k"` // ref lit cat other
	Text string `json:"t,omitempty"`
	A, B *wkey  `json:",omitempty"`
}

type wclause struct {
	Label string
	Body  []*wev
}

type wev struct {
	Op      string     `json:"op"`
	F       string     `json:"f,omitempty"`
	Args    []wkey     `json:"args,omitempty"`
	Over    *wkey      `json:"over,omitempty"`
	Cond    []*wev     `json:"cond,omitempty"`
	Body    []*wev     `json:"body,omitempty"`
	Else    []*wev     `json:"else,omitempty"`
	Clauses []*wclause `json:"clauses,omitempty"`
}

func (k wkey) coq() string {
	switch k.Kind {
	case "ref":
		return "EkRef " + coqBytes(k.Text)
	case "lit":
		return "EkLit " + coqBytes(k.Text)
	case "cat":
		return "EkCat (" + k.A.coq() + ") (" + k.B.coq() + ")"
	}
	return "EkOther " + coqBytes(k.Text)
}

func (k wkey) String() string {
	switch k.Kind {
	case "ref":
		return k.Text
	case "lit":
		return "\"" + k.Text + "\""
	case "cat":
		return k.A.String() + " + " + k.B.String()
	}
	return "<" + k.Text + ">"
}

func coqEvs(l []*wev, ind string) string {
	if len(l) == 0 {
		return "[]"
	}
	var parts []string
	for _, e := range l {
		parts = append(parts, ind+"  "+e.coq(ind+"  "))
	}
	return "[\n" + strings.Join(parts, ";\n") + "]"
}

func safeComment(s string) string {
	s = strings.ReplaceAll(s, "(*", "( *")
	s = strings.ReplaceAll(s, "*)", "* )")
	return strings.ReplaceAll(s, "\"", "'")
}

func (e *wev) coq(ind string) string {
	switch e.Op {
	case "call":
		var as []string
		var cs []string
		for _, a := range e.Args {
			as = append(as, a.coq())
			cs = append(cs, a.String())
		}
		return "EvCall " + coqBytes(e.F) + " [" + strings.Join(as, "; ") + "] (* " + safeComment(e.F+"("+strings.Join(cs, ", ")+")") + " *)"
	case "assign":
		return "EvAssign " + coqBytes(e.F) + " (* " + safeComment(e.F) + " = *)"
	case "loop":
		return "EvLoop " + coqBytes(e.F) + " (" + e.Over.coq() + ") (* for " + safeComment(e.F+" := range "+e.Over.String()) + " *) " + coqEvs(e.Body, ind)
	case "if":
		return "EvIf " + coqEvs(e.Cond, ind) + " " + coqEvs(e.Body, ind) + " " + coqEvs(e.Else, ind)
	case "short":
		return "EvShort " + coqEvs(e.Body, ind)
	case "cases":
		var cl []string
		for _, c := range e.Clauses {
			cl = append(cl, ind+"  ("+coqBytes(c.Label)+" (* "+safeComment(c.Label)+" *), "+coqEvs(c.Body, ind+"  ")+")")
		}
		cls := "[]"
		if len(cl) > 0 {
			cls = "[\n" + strings.Join(cl, ";\n") + "]"
		}
		return "EvCases " + coqEvs(e.Cond, ind) + " " + cls
	case "inline":
		return "EvInline " + coqBytes(e.F) + " (* " + safeComment(e.F) + " *) " + coqEvs(e.Body, ind)
	case "defer":
		return "EvDefer " + coqEvs(e.Body, ind)
	case "break":
		return "EvBreak"
	case "continue":
		return "EvContinue"
	case "return":
		return "EvReturn"
	case "panic":
		return "EvPanic"
	}
	return "EvPanic (* ? *)"
}

// ---- the extractor ----

type wx struct {
	g        *gen
	rel      string
	recv     string            // type of the receiver of the entry being extracted ("" for a plain function)
	subst    []map[string]wkey // innermost last
	inlining []string
	brk      []string // breakable contexts: "walk" (the type switch of walk), "loop", "cases"
	evs      *[]*wev
}

// methods of *state that stay events; every other method of *state defined in the file is inlined
var walkPrimitives = map[string]bool{"walk": true, "eval": true, "evaldef": true, "renderBlock": true, "at": true,
	"errorf": true, "errFromNode": true, "callAnnotation": true, "errRecover": true}

// calls that are not events: pure builtins, conversions, value and node accessors, formatting
// plain functions of exec.go that stay events although they are defined in the file (they have their own entry)
var walkKeepFuncs = map[string]bool{"htmlEscapeString": true}

var walkIgnoreFuncs = map[string]bool{"toFloat": true, "len": true, "make": true, "append": true, "recover": true, "int": true, "float64": true,
	"string": true, "isInt": true, "isString": true, "checkNumArgs": true, "isNullSafeAccess": true,
	"notifyCall":  true, // verification hook with an empty body in the build under check (scope_hook_off.go), like notifyUnbound
	"fmt.Sprintf": true, "fmt.Errorf": true, "debug.Stack": true, "errors.New": true,
	"data.Int": true, "data.Float": true, "data.String": true, "data.Bool": true, "data.List": true, "data.Map": true}
var walkIgnoreMethods = map[string]bool{"String": true, "Truthy": true, "Equals": true, "Index": true, "Key": true,
	"Position": true, "Children": true, "Placeholder": true, "Bytes": true}

func (x *wx) emit(e *wev) { *x.evs = append(*x.evs, e) }

func (x *wx) sub(f func()) []*wev {
	var l []*wev
	old := x.evs
	x.evs = &l
	f()
	x.evs = old
	return l
}

func (x *wx) lookup(name string) (wkey, bool) {
	for i := len(x.subst) - 1; i >= 0; i-- {
		if k, ok := x.subst[i][name]; ok {
			return k, true
		}
	}
	return wkey{}, false
}

func (x *wx) bind(name string, k wkey) {
	if name != "_" {
		x.subst[len(x.subst)-1][name] = k
	}
}

// shadow removes a substitution (the name is re-declared with a value that is not event-free)
func (x *wx) shadow(name string) {
	if name != "_" {
		x.subst[len(x.subst)-1][name] = wkey{Kind: "ref", Text: "?"}
	}
}

// unbind: the variable is assigned to; from here on it is printed by its own name (in the scope that declares it)
func (x *wx) unbind(name string) {
	for i := len(x.subst) - 1; i >= 0; i-- {
		if _, ok := x.subst[i][name]; ok {
			x.subst[i][name] = wkey{Kind: "ref", Text: "?"}
			return
		}
	}
}

func (x *wx) src(e ast.Node) string {
	var b bytes.Buffer
	printer.Fprint(&b, x.g.fset, e)
	return strings.Join(strings.Fields(b.String()), " ")
}

// key prints an expression as a key/reference, substituting event-free locals and helper parameters
func (x *wx) key(e ast.Expr) wkey {
	switch e := e.(type) {
	case *ast.Ident:
		if k, ok := x.lookup(e.Name); ok {
			return k
		}
		return wkey{Kind: "ref", Text: e.Name}
	case *ast.ParenExpr:
		return x.key(e.X)
	case *ast.StarExpr:
		return x.key(e.X)
	case *ast.TypeAssertExpr:
		return x.key(e.X)
	case *ast.SelectorExpr:
		b := x.key(e.X)
		if b.Kind == "ref" {
			return wkey{Kind: "ref", Text: b.Text + "." + e.Sel.Name}
		}
	case *ast.IndexExpr:
		b := x.key(e.X)
		if b.Kind == "ref" {
			return wkey{Kind: "ref", Text: b.Text + "[]"}
		}
	case *ast.CallExpr:
		// an accessor without arguments on a reference: node.Children()
		if sel, ok := e.Fun.(*ast.SelectorExpr); ok && len(e.Args) == 0 {
			b := x.key(sel.X)
			if b.Kind == "ref" {
				return wkey{Kind: "ref", Text: b.Text + "." + sel.Sel.Name + "()"}
			}
		}
	case *ast.BasicLit:
		if s, ok := strLit(e); ok {
			return wkey{Kind: "lit", Text: s}
		}
	case *ast.BinaryExpr:
		if e.Op == token.ADD {
			a, b := x.key(e.X), x.key(e.Y)
			return wkey{Kind: "cat", A: &a, B: &b}
		}
	}
	return wkey{Kind: "other", Text: x.src(e)}
}

// target prints the left-hand side of a store that is neither a local variable nor a field of the state
func (x *wx) target(e ast.Expr) string {
	switch e := e.(type) {
	case *ast.IndexExpr:
		return x.target(e.X) + "[]"
	case *ast.StarExpr:
		return "*"
	case *ast.ParenExpr:
		return x.target(e.X)
	case *ast.SelectorExpr:
		return "." + e.Sel.Name
	}
	return ""
}

func (x *wx) calleeText(fun ast.Expr) string {
	switch f := fun.(type) {
	case *ast.Ident:
		if k, ok := x.lookup(f.Name); ok && k.Kind == "ref" {
			return k.Text // a function value held in a local: ?
		}
		return f.Name
	case *ast.SelectorExpr:
		b := x.key(f.X)
		if b.Kind == "ref" {
			return b.Text + "." + f.Sel.Name
		}
		return "?." + f.Sel.Name
	case *ast.ParenExpr:
		return x.calleeText(f.X)
	}
	return x.src(fun)
}

func (x *wx) stateMethod(call *ast.CallExpr) (string, bool) {
	sel, ok := call.Fun.(*ast.SelectorExpr)
	if !ok {
		return "", false
	}
	id, ok := sel.X.(*ast.Ident)
	if !ok || x.recv == "" {
		return "", false
	}
	if k := x.key(id); k.Kind != "ref" || k.Text != "s" {
		return "", false
	}
	return sel.Sel.Name, true
}

func (x *wx) expr(e ast.Expr) {
	switch e := e.(type) {
	case nil:
	case *ast.Ident, *ast.BasicLit:
	case *ast.ArrayType, *ast.MapType, *ast.InterfaceType, *ast.FuncType, *ast.StructType, *ast.ChanType:
		// a type operand (make, conversions)
	case *ast.ParenExpr:
		x.expr(e.X)
	case *ast.SelectorExpr:
		x.expr(e.X)
	case *ast.StarExpr:
		x.expr(e.X)
	case *ast.UnaryExpr:
		x.expr(e.X)
	case *ast.TypeAssertExpr:
		x.expr(e.X)
	case *ast.IndexExpr:
		x.expr(e.X)
		x.expr(e.Index)
	case *ast.SliceExpr:
		x.expr(e.X)
		x.expr(e.Low)
		x.expr(e.High)
		x.expr(e.Max)
	case *ast.KeyValueExpr:
		x.expr(e.Value)
	case *ast.CompositeLit:
		for _, el := range e.Elts {
			x.expr(el)
		}
	case *ast.BinaryExpr:
		x.expr(e.X)
		if e.Op == token.LAND || e.Op == token.LOR {
			rhs := x.sub(func() { x.expr(e.Y) })
			if len(rhs) > 0 {
				x.emit(&wev{Op: "short", Body: rhs})
			}
		} else {
			x.expr(e.Y)
		}
	case *ast.FuncLit:
		// a function value that is not called here: its body is not an event of this clause
	case *ast.CallExpr:
		x.call(e)
	default:
		x.g.fail("walk-events: %s: expression shape %T not handled: %s", x.rel, e, x.src(e))
	}
}

func (x *wx) call(c *ast.CallExpr) {
	// func literal called in place
	if fl, ok := c.Fun.(*ast.FuncLit); ok {
		for _, a := range c.Args {
			x.expr(a)
		}
		body := x.sub(func() { x.scoped(func() { x.block(fl.Body.List) }) })
		x.emit(&wev{Op: "inline", F: "func", Body: body})
		return
	}
	name := x.calleeText(c.Fun)
	if id, ok := c.Fun.(*ast.Ident); ok && id.Name == "panic" {
		x.emit(&wev{Op: "panic"})
		return
	}
	if m, ok := x.stateMethod(c); ok {
		if m == "errorf" {
			x.emit(&wev{Op: "call", F: "s.errorf"}) // the text of an error is not an observable
			return
		}
		if !(x.recv == "state" && walkPrimitives[m]) {
			if fd := x.g.method(x.rel, x.recv, m); fd != nil {
				for _, a := range c.Args {
					x.expr(a)
				}
				for _, in := range x.inlining {
					if in == m {
						x.emit(&wev{Op: "call", F: "s." + m, Args: x.keys(c.Args)})
						return
					}
				}
				x.inline(m, fd, c.Args)
				return
			}
		}
	}
	if id, ok := c.Fun.(*ast.Ident); ok && !walkKeepFuncs[id.Name] && !walkIgnoreFuncs[id.Name] {
		if _, local := x.lookup(id.Name); !local {
			if fd := x.g.funcDecl(x.rel, id.Name); fd != nil && fd.Body != nil {
				for _, a := range c.Args {
					x.expr(a)
				}
				for _, in := range x.inlining {
					if in == id.Name {
						x.emit(&wev{Op: "call", F: id.Name, Args: x.keys(c.Args)})
						return
					}
				}
				x.inline(id.Name, fd, c.Args)
				return
			}
		}
	}
	// receiver, then arguments, then the call
	if sel, ok := c.Fun.(*ast.SelectorExpr); ok {
		x.expr(sel.X)
	}
	for _, a := range c.Args {
		x.expr(a)
	}
	if walkIgnoreFuncs[name] {
		return
	}
	if sel, ok := c.Fun.(*ast.SelectorExpr); ok && walkIgnoreMethods[sel.Sel.Name] {
		if _, isState := x.stateMethod(c); !isState {
			return
		}
	}
	x.emit(&wev{Op: "call", F: name, Args: x.keys(c.Args)})
}

func (x *wx) keys(args []ast.Expr) []wkey {
	var l []wkey
	for _, a := range args {
		l = append(l, x.key(a))
	}
	return l
}

func (x *wx) scoped(f func()) {
	x.subst = append(x.subst, map[string]wkey{})
	f()
	x.subst = x.subst[:len(x.subst)-1]
}

func (x *wx) inline(name string, fd *ast.FuncDecl, args []ast.Expr) {
	// parameters are bound to the printed arguments (computed in the caller's scope)
	ks := x.keys(args)
	body := x.sub(func() {
		savedSubst, savedBrk := x.subst, x.brk
		x.subst = []map[string]wkey{{}}
		x.brk = nil
		x.inlining = append(x.inlining, name)
		if fd.Recv != nil && len(fd.Recv.List) == 1 && len(fd.Recv.List[0].Names) == 1 {
			x.bind(fd.Recv.List[0].Names[0].Name, wkey{Kind: "ref", Text: "s"})
		}
		i := 0
		for _, f := range fd.Type.Params.List {
			for _, n := range f.Names {
				if i < len(ks) && len(ks) == fd.Type.Params.NumFields() && ks[i].Kind != "other" {
					x.bind(n.Name, ks[i])
				} else {
					x.shadow(n.Name)
				}
				i++
			}
		}
		x.block(fd.Body.List)
		x.inlining = x.inlining[:len(x.inlining)-1]
		x.subst, x.brk = savedSubst, savedBrk
	})
	x.emit(&wev{Op: "inline", F: name, Body: body})
}

func (x *wx) block(l []ast.Stmt) {
	for _, s := range l {
		x.stmt(s)
	}
}

func (x *wx) isStateField(e ast.Expr) (string, bool) {
	sel, ok := e.(*ast.SelectorExpr)
	if !ok {
		return "", false
	}
	id, ok := sel.X.(*ast.Ident)
	if !ok {
		return "", false
	}
	if k := x.key(id); k.Kind != "ref" || k.Text != "s" {
		return "", false
	}
	return "s." + sel.Sel.Name, true
}

// define handles `lhs := rhs` / `var lhs = rhs`: events of rhs; an event-free single rhs becomes a substitution
func (x *wx) define(lhs []string, rhs []ast.Expr) {
	evs := x.sub(func() {
		for _, r := range rhs {
			x.expr(r)
		}
	})
	for _, e := range evs {
		x.emit(e)
	}
	if len(lhs) == len(rhs) {
		for i, n := range lhs {
			k := x.key(rhs[i])
			if len(evs) == 0 && k.Kind != "other" && !(k.Kind == "ref" && strings.HasPrefix(k.Text, "s.")) { // fields of the state are mutable
				x.bind(n, k)
			} else {
				x.shadow(n)
			}
		}
	} else {
		for _, n := range lhs {
			x.shadow(n)
		}
	}
}

func (x *wx) stmt(s ast.Stmt) {
	switch s := s.(type) {
	case nil:
	case *ast.EmptyStmt:
	case *ast.ExprStmt:
		x.expr(s.X)
	case *ast.IncDecStmt:
		x.expr(s.X)
	case *ast.DeclStmt:
		gd, ok := s.Decl.(*ast.GenDecl)
		if !ok {
			x.g.fail("walk-events: %s: declaration shape not handled: %s", x.rel, x.src(s))
			return
		}
		for _, sp := range gd.Specs {
			vs, ok := sp.(*ast.ValueSpec)
			if !ok {
				continue
			}
			var names []string
			for _, n := range vs.Names {
				names = append(names, n.Name)
			}
			if len(vs.Values) == 0 {
				for _, n := range names {
					x.shadow(n)
				}
				continue
			}
			x.define(names, vs.Values)
		}
	case *ast.AssignStmt:
		if s.Tok == token.DEFINE {
			var names []string
			for _, l := range s.Lhs {
				if id, ok := l.(*ast.Ident); ok {
					names = append(names, id.Name)
				} else {
					names = append(names, "_")
				}
			}
			x.define(names, s.Rhs)
			return
		}
		// operands of index expressions and pointer indirections on the left, then the right, then the assignment
		for _, l := range s.Lhs {
			if _, ok := l.(*ast.Ident); !ok {
				if _, ok := x.isStateField(l); !ok {
					x.expr(l)
				}
			}
		}
		for _, r := range s.Rhs {
			x.expr(r)
		}
		for _, l := range s.Lhs {
			if f, ok := x.isStateField(l); ok {
				x.emit(&wev{Op: "assign", F: f})
			} else if id, ok := l.(*ast.Ident); ok {
				x.unbind(id.Name)
			} else {
				// a store through a local: an element of a slice or map, a field, a pointer
				x.emit(&wev{Op: "assign", F: x.target(l)})
			}
		}
	case *ast.BlockStmt:
		x.scoped(func() { x.block(s.List) })
	case *ast.IfStmt:
		x.scoped(func() {
			x.stmt(s.Init)
			cond := x.sub(func() { x.expr(s.Cond) })
			thn := x.sub(func() { x.scoped(func() { x.block(s.Body.List) }) })
			els := x.sub(func() {
				if s.Else != nil {
					x.stmt(s.Else)
				}
			})
			x.emit(&wev{Op: "if", Cond: cond, Body: thn, Else: els})
		})
	case *ast.RangeStmt:
		x.expr(s.X)
		over := x.key(s.X)
		name := "_"
		if id, ok := s.Value.(*ast.Ident); ok && id.Name != "_" {
			name = id.Name
		} else if id, ok := s.Key.(*ast.Ident); ok {
			name = id.Name
		}
		body := x.sub(func() {
			x.scoped(func() {
				if id, ok := s.Key.(*ast.Ident); ok {
					x.shadow(id.Name)
				}
				if id, ok := s.Value.(*ast.Ident); ok {
					if over.Kind == "ref" {
						x.bind(id.Name, wkey{Kind: "ref", Text: over.Text + "[]"})
					} else {
						x.bind(id.Name, wkey{Kind: "ref", Text: "?[]"})
					}
				}
				x.brk = append(x.brk, "loop")
				x.block(s.Body.List)
				x.brk = x.brk[:len(x.brk)-1]
			})
		})
		_ = name // the name of the variable is not recorded
		x.emit(&wev{Op: "loop", F: "", Over: &over, Body: body})
	case *ast.ForStmt:
		x.scoped(func() {
			x.stmt(s.Init)
			over := wkey{Kind: "other", Text: x.src(s.Cond)}
			body := x.sub(func() {
				x.expr(s.Cond)
				x.brk = append(x.brk, "loop")
				x.scoped(func() { x.block(s.Body.List) })
				x.brk = x.brk[:len(x.brk)-1]
				x.stmt(s.Post)
			})
			x.emit(&wev{Op: "loop", F: "", Over: &over, Body: body})
		})
	case *ast.SwitchStmt:
		x.scoped(func() {
			x.stmt(s.Init)
			tag := x.sub(func() { x.expr(s.Tag) })
			x.cases(tag, s.Body.List, s.Tag != nil)
		})
	case *ast.TypeSwitchStmt:
		x.scoped(func() {
			x.stmt(s.Init)
			var tag []*wev
			switch a := s.Assign.(type) {
			case *ast.ExprStmt:
				tag = x.sub(func() { x.expr(a.X) })
			case *ast.AssignStmt:
				tag = x.sub(func() {
					for _, r := range a.Rhs {
						x.expr(r)
					}
				})
				// `switch v := v.(type)`: v names the same object inside the clauses
				if len(a.Lhs) == 1 && len(a.Rhs) == 1 {
					if ta, ok := a.Rhs[0].(*ast.TypeAssertExpr); ok {
						k := x.key(ta.X)
						if id, ok := a.Lhs[0].(*ast.Ident); ok && len(tag) == 0 && k.Kind != "other" {
							x.bind(id.Name, k)
						} else if ok {
							x.shadow(id.Name)
						}
					}
				}
			}
			x.cases(tag, s.Body.List, true)
		})
	case *ast.BranchStmt:
		switch s.Tok {
		case token.BREAK:
			if s.Label != nil {
				x.g.fail("walk-events: %s: labelled break", x.rel)
			}
			ctx := ""
			if len(x.brk) > 0 {
				ctx = x.brk[len(x.brk)-1]
			}
			switch ctx {
			case "loop":
				x.emit(&wev{Op: "break"})
			case "walk":
				x.emit(&wev{Op: "return"}) // leaves the type switch of walk: nothing follows it
			default:
				x.g.fail("walk-events: %s: break inside a nested switch", x.rel)
			}
		case token.CONTINUE:
			x.emit(&wev{Op: "continue"})
		default:
			x.g.fail("walk-events: %s: %s statement", x.rel, s.Tok)
		}
	case *ast.ReturnStmt:
		for _, r := range s.Results {
			x.expr(r)
		}
		x.emit(&wev{Op: "return"})
	case *ast.DeferStmt:
		var body []*wev
		if fl, ok := s.Call.Fun.(*ast.FuncLit); ok {
			body = x.sub(func() { x.scoped(func() { x.block(fl.Body.List) }) })
		} else {
			body = x.sub(func() { x.call(s.Call) })
		}
		x.emit(&wev{Op: "defer", Body: body})
	default:
		x.g.fail("walk-events: %s: statement shape %T not handled: %s", x.rel, s, x.src(s))
	}
}

// labelled: the clauses of a type switch or of a switch on a value are labelled with their case list; the
// conditions of a tagless switch are not (only their events are recorded, as for an if)
func (x *wx) cases(tag []*wev, clauses []ast.Stmt, labelled bool) {
	e := &wev{Op: "cases", Cond: tag}
	for _, c := range clauses {
		cc, ok := c.(*ast.CaseClause)
		if !ok {
			continue
		}
		label := "default"
		if cc.List != nil {
			var ls []string
			for _, l := range cc.List {
				ls = append(ls, x.src(l))
			}
			label = strings.Join(ls, ", ")
			if !labelled {
				label = ""
			}
		}
		body := x.sub(func() {
			for _, l := range cc.List {
				x.expr(l)
			}
			x.brk = append(x.brk, "cases")
			x.scoped(func() { x.block(cc.Body) })
			x.brk = x.brk[:len(x.brk)-1]
		})
		e.Clauses = append(e.Clauses, &wclause{Label: label, Body: body})
	}
	x.emit(e)
}

func (g *gen) walkEvents() {
	const rel = "soyhtml/exec.go"
	g.p("(* soyhtml/exec.go: the ordered tree of events of every clause of state.walk and of the walker's\n   helper functions (see go/cmd/tablegen/walkevents.go for the vocabulary) *)\n")
	g.p("Inductive wkey := EkRef (r : bstr) | EkLit (s : bstr) | EkCat (a c : wkey) | EkOther (text : bstr).\n")
	g.p("Inductive wev :=\n| EvCall (f : bstr) (args : list wkey)\n| EvAssign (lhs : bstr)\n| EvLoop (var : bstr) (over : wkey) (body : list wev)\n" +
		"| EvIf (cond thn els : list wev)\n| EvShort (rhs : list wev)\n| EvCases (tag : list wev) (clauses : list (bstr * list wev))\n" +
		"| EvInline (f : bstr) (body : list wev)\n| EvDefer (body : list wev)\n| EvBreak | EvContinue | EvReturn | EvPanic.\n")

	type entry struct {
		Name string
		Evs  []*wev
	}
	var entries []entry
	// entry <- function: the receiver is `s`, the parameters are $1 $2 .. (walk's: `node`)
	newx := func() *wx {
		return &wx{g: g, rel: rel, recv: "state", subst: []map[string]wkey{{"s": {Kind: "ref", Text: "s"}, "node": {Kind: "ref", Text: "node"}}}}
	}
	entryx := func(rel, recv string, fd *ast.FuncDecl) *wx {
		x := &wx{g: g, rel: rel, recv: recv, subst: []map[string]wkey{{}}}
		if fd.Recv != nil && len(fd.Recv.List) == 1 && len(fd.Recv.List[0].Names) == 1 {
			x.bind(fd.Recv.List[0].Names[0].Name, wkey{Kind: "ref", Text: "s"})
		}
		i := 0
		for _, f := range fd.Type.Params.List {
			for _, n := range f.Names {
				i++
				x.bind(n.Name, wkey{Kind: "ref", Text: "$" + strconv.Itoa(i)})
			}
		}
		if fd.Type.Results != nil {
			for _, f := range fd.Type.Results.List {
				for _, n := range f.Names {
					x.shadow(n.Name)
				}
			}
		}
		return x
	}

	fd := g.method(rel, "state", "walk")
	if fd == nil {
		g.fail("walk-events: %s: (*state).walk not found", rel)
	} else {
		var ts *ast.TypeSwitchStmt
		var pro []ast.Stmt
		for i, s := range fd.Body.List {
			if t, ok := s.(*ast.TypeSwitchStmt); ok {
				ts = t
				if i != len(fd.Body.List)-1 {
					g.fail("walk-events: %s: statements after the type switch of walk", rel)
				}
				break
			}
			pro = append(pro, s)
		}
		if len(fd.Recv.List[0].Names) != 1 || fd.Recv.List[0].Names[0].Name != "s" || fd.Type.Params.NumFields() != 1 || fd.Type.Params.List[0].Names[0].Name != "node" {
			g.fail("walk-events: %s: walk is not `func (s *state) walk(node ast.Node)`", rel)
		}
		x := newx()
		entries = append(entries, entry{"walk", x.sub(func() { x.block(pro) })})
		if ts == nil {
			g.fail("walk-events: %s: walk has no type switch", rel)
		} else {
			as, ok := ts.Assign.(*ast.AssignStmt)
			if !ok || len(as.Lhs) != 1 || x.src(as.Lhs[0]) != "node" || x.src(as.Rhs[0]) != "node.(type)" {
				g.fail("walk-events: %s: the type switch of walk is not `switch node := node.(type)`", rel)
			}
			seen := map[string]bool{}
			for _, c := range ts.Body.List {
				cc := c.(*ast.CaseClause)
				x := newx()
				x.brk = []string{"walk"}
				evs := x.sub(func() { x.block(cc.Body) })
				var names []string
				if cc.List == nil {
					names = []string{"default"}
				}
				for _, t := range cc.List {
					n := strings.TrimPrefix(x.src(t), "*ast.")
					names = append(names, n)
				}
				for _, n := range names {
					if seen[n] {
						g.fail("walk-events: %s: two clauses for %s", rel, n)
					}
					seen[n] = true
					entries = append(entries, entry{n, evs})
				}
			}
		}
	}
	for _, m := range []string{"eval", "evaldef", "renderBlock", "at"} {
		fd := g.method(rel, "state", m)
		if fd == nil {
			g.fail("walk-events: %s: (*state).%s not found", rel, m)
			continue
		}
		x := entryx(rel, "state", fd)
		entries = append(entries, entry{m, x.sub(func() { x.block(fd.Body.List) })})
	}
	if fd := g.funcDecl(rel, "htmlEscapeString"); fd != nil {
		x := entryx(rel, "", fd)
		entries = append(entries, entry{"htmlEscapeString", x.sub(func() { x.block(fd.Body.List) })})
	} else {
		g.fail("walk-events: %s: htmlEscapeString not found", rel)
	}
	// the entry points (what sets up the state a walk starts in) and the scope stack the walker's events act on
	type extra struct{ name, rel, recv, fn string }
	for _, ex := range []extra{
		{"Execute", "soyhtml/renderer.go", "Renderer", "Execute"},
		{"EvalExpr", "soyhtml/eval.go", "", "EvalExpr"},
		{"newScope", "soyhtml/scope.go", "", "newScope"},
		{"scope_push", "soyhtml/scope.go", "scope", "push"},
		{"scope_pop", "soyhtml/scope.go", "scope", "pop"},
		{"scope_set", "soyhtml/scope.go", "scope", "set"},
		{"scope_lookup", "soyhtml/scope.go", "scope", "lookup"},
		{"scope_alldata", "soyhtml/scope.go", "scope", "alldata"},
		{"scope_enter", "soyhtml/scope.go", "scope", "enter"},
	} {
		var fd *ast.FuncDecl
		if ex.recv == "" {
			fd = g.funcDecl(ex.rel, ex.fn)
		} else {
			fd = g.method(ex.rel, ex.recv, ex.fn)
		}
		if fd == nil {
			g.fail("walk-events: %s: %s not found", ex.rel, ex.fn)
			continue
		}
		x := entryx(ex.rel, ex.recv, fd)
		entries = append(entries, entry{ex.name, x.sub(func() { x.block(fd.Body.List) })})
	}
	// every method of *state in exec.go is either a primitive or reachable by inlining: list the names so that a
	// new helper shows up
	var methods []string
	for _, d := range g.file(rel).Decls {
		if fd, ok := d.(*ast.FuncDecl); ok && fd.Recv != nil && len(fd.Recv.List) == 1 {
			t := fd.Recv.List[0].Type
			if st, ok := t.(*ast.StarExpr); ok {
				t = st.X
			}
			if id, ok := t.(*ast.Ident); ok && id.Name == "state" {
				methods = append(methods, fd.Name.Name)
			}
		}
	}
	sort.Strings(methods)

	sort.SliceStable(entries, func(i, j int) bool { return entries[i].Name < entries[j].Name })
	for _, e := range entries {
		g.p("Definition src_walk_%s : list wev := %s.\n", e.Name, coqEvs(e.Evs, ""))
	}
	g.p("Definition src_walk_events : list (bstr * list wev) := [\n")
	for i, e := range entries {
		sep := ";"
		if i == len(entries)-1 {
			sep = ""
		}
		g.p("  (%s (* %s *), src_walk_%s)%s\n", coqBytes(e.Name), e.Name, e.Name, sep)
	}
	g.p("].\n")
	g.p("Definition src_state_methods : list bstr := [%s].\n\n", strings.Join(mapStr(methods, func(s string) string { return coqBytes(s) + " (* " + s + " *)" }), "; "))
	js := map[string]interface{}{}
	for _, e := range entries {
		js[e.Name] = e.Evs
	}
	g.js["walk_events"] = js
	g.js["state_methods"] = methods
}
