package main

func (g *gen) valueLaws()     {}
func (g *gen) msgIdTables()   {}
func (g *gen) lexerTables()   {}
func (g *gen) parserTables()  {}
func (g *gen) funcTables()    {}
func (g *gen) jsTables()      {}
func (g *gen) rawtextTables() {}
func (g *gen) funcHashes()    {}
