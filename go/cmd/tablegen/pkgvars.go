package main

// C09: package-level mutable state is where real races live.  This generator
// enumerates, from the non-test Go sources of robfig/soy,
//
//   pkg_vars          every package-level `var` (blank ones excepted) with the
//                     syntactic kind of its initialiser,
//   pkg_var_writes    every statement of a function body that writes to (or takes
//                     the address of) a package-level variable: assignments whose
//                     left-hand side is rooted at the variable (V = .., V[k] = ..,
//                     V.f = .., *V = .., op-assignments), ++/--, delete(V, ..),
//                     copy(V, ..), range clauses assigning to it, &V,
//   pkg_var_methods   every method called directly on a package-level variable
//                     (V.m(..)): a method may mutate its receiver (sync.Pool.Put,
//                     a cache's Store), so a new one has to be reviewed,
//   shared_type_writes  every statement of the render / generation packages
//                     (soyhtml, soyjs, template) that writes THROUGH a value of a
//                     syntax-tree or registry type: an assignment rooted at a
//                     parameter, receiver or local whose declared type is an
//                     ast.*Node / template.Registry / template.Template /
//                     soymsg.Bundle type, or an append to a slice that was
//                     obtained from a field of such a value.
//
// The lists are compared in Coq (Proofs/ConcGlobalsProofs.v) with the reviewed
// lists of Model/ConcGlobals.v: a new package-level variable, a new write site or
// a new method on a package-level variable breaks that lemma (a broken proof
// obligation of C09) until it has been reviewed.  Line numbers are not part of the
// tied lists (they go into tables.json for the evidence).

import (
	"bytes"
	"flag"
	"fmt"
	"go/ast"
	"go/parser"
	"go/printer"
	"go/token"
	"os"
	"path/filepath"
	"sort"
	"strings"
)

func init() { register("90-pkgvars", (*gen).pkgVars) }

type pvFile struct {
	dir  string
	name string
	f    *ast.File
}

type pvSite struct {
	Dir, Func, Var, Kind, File string
	Line                       int
}

func pvExprString(fset *token.FileSet, e ast.Node) string {
	var b bytes.Buffer
	printer.Fprint(&b, fset, e)
	return b.String()
}

// text that is safe inside a Coq comment
func pvComment(s string) string {
	s = strings.ReplaceAll(s, "(*", "( *")
	s = strings.ReplaceAll(s, "*)", "* )")
	return strings.ReplaceAll(s, "\"", "'")
}

// syntactic kind of a package-level variable
func pvKind(fset *token.FileSet, vs *ast.ValueSpec, i int) string {
	typ := ""
	if vs.Type != nil {
		typ = pvExprString(fset, vs.Type)
	}
	var init ast.Expr
	if i < len(vs.Values) {
		init = vs.Values[i]
	}
	is := ""
	if init != nil {
		is = pvExprString(fset, init)
	}
	switch {
	case strings.HasPrefix(is, "regexp.MustCompile("):
		return "regexp"
	case strings.HasPrefix(is, "strings.NewReplacer("):
		return "replacer"
	case strings.HasPrefix(is, "errors.New("):
		return "error"
	case strings.HasPrefix(is, "log.New(") || typ == "*log.Logger":
		return "logger"
	case strings.HasPrefix(is, "reflect.TypeOf("):
		return "reflect-type"
	case strings.HasPrefix(is, "flag."):
		return "flag"
	case strings.Contains(typ, "sync.Pool") || strings.Contains(is, "sync.Pool"):
		return "pool"
	case strings.Contains(typ, "sync.") || strings.Contains(is, "sync."):
		return "sync"
	case strings.HasPrefix(typ, "func(") || strings.HasPrefix(typ, "func "):
		return "func"
	}
	if cl, ok := init.(*ast.CompositeLit); ok {
		switch t := cl.Type.(type) {
		case *ast.MapType:
			return "map-literal"
		case *ast.ArrayType:
			if t.Len == nil {
				return "slice-literal"
			}
			return "array-literal"
		default:
			return "struct-literal"
		}
	}
	if ce, ok := init.(*ast.CallExpr); ok {
		// a conversion of a string literal: []byte("&amp;")
		if at, ok := ce.Fun.(*ast.ArrayType); ok && at.Len == nil && len(ce.Args) == 1 {
			if _, ok := ce.Args[0].(*ast.BasicLit); ok {
				return "bytes-literal"
			}
		}
		if id, ok := ce.Fun.(*ast.Ident); ok && id.Name == "make" && len(ce.Args) > 0 {
			switch ce.Args[0].(type) {
			case *ast.MapType:
				return "make-map"
			case *ast.ArrayType:
				return "make-slice"
			case *ast.ChanType:
				return "make-chan"
			}
		}
		return "call"
	}
	if u, ok := init.(*ast.UnaryExpr); ok && u.Op == token.AND {
		return "pointer"
	}
	if init == nil {
		if strings.HasPrefix(typ, "map[") {
			return "nil-map"
		}
		if strings.HasPrefix(typ, "[]") {
			return "nil-slice"
		}
		return "zero:" + typ
	}
	if _, ok := init.(*ast.BasicLit); ok {
		return "literal"
	}
	return "expr"
}

// the names of the types through which the renderer and the generator see shared, compiled state
var pvSharedTypePkgs = map[string]bool{"ast": true, "template": true, "soymsg": true}

// import name -> directory of the repository package, for one file
func pvImports(f *ast.File) map[string]string {
	imports := map[string]string{}
	for _, im := range f.Imports {
		p := strings.Trim(im.Path.Value, `"`)
		const pre = "github.com/robfig/soy"
		if !strings.HasPrefix(p, pre) {
			continue
		}
		dir := strings.TrimPrefix(strings.TrimPrefix(p, pre), "/")
		if dir == "" {
			dir = "."
		}
		name := filepath.Base(p)
		if im.Name != nil {
			name = im.Name.Name
		}
		imports[name] = dir
	}
	return imports
}

func pvIsSharedType(fileDir string, imports map[string]string, e ast.Expr) bool {
	switch t := e.(type) {
	case *ast.StarExpr:
		return pvIsSharedType(fileDir, imports, t.X)
	case *ast.ArrayType:
		return pvIsSharedType(fileDir, imports, t.Elt)
	case *ast.Ellipsis:
		return pvIsSharedType(fileDir, imports, t.Elt)
	case *ast.SelectorExpr:
		if id, ok := t.X.(*ast.Ident); ok && pvSharedTypePkgs[imports[id.Name]] {
			return true
		}
	case *ast.Ident:
		// inside package template, Registry and Template are the shared types themselves
		if fileDir == "template" && (t.Name == "Registry" || t.Name == "Template") {
			return true
		}
	}
	return false
}

func (g *gen) pkgVars() {
	// always defined, also when a file does not parse: a generator that defines nothing is charged to every property
	g.p("(* the package-level state of the sources is in Generated/PkgState.v *)\n")
	g.p("Definition pkg_state_generated : bool := true.\n")
	var files []pvFile
	fset := token.NewFileSet()
	filepath.Walk(g.repo, func(path string, info os.FileInfo, err error) error {
		if err != nil {
			return nil
		}
		if info.IsDir() {
			if n := info.Name(); n == ".git" || n == "testdata" || n == "lib" {
				return filepath.SkipDir
			}
			return nil
		}
		if !strings.HasSuffix(path, ".go") || strings.HasSuffix(path, "_test.go") {
			return nil
		}
		f, err := parser.ParseFile(fset, path, nil, 0)
		if err != nil {
			g.fail("pkgvars: %s does not parse", path)
			return nil
		}
		rel, _ := filepath.Rel(g.repo, path)
		dir := filepath.Dir(rel)
		files = append(files, pvFile{dir, rel, f})
		return nil
	})
	sort.Slice(files, func(i, j int) bool { return files[i].name < files[j].name })

	// ---- package-level variables ----
	type pv struct{ Dir, Name, Kind, File string }
	var vars []pv
	pkgVarNames := map[string]map[string]bool{}  // dir -> names
	pkgSpecs := map[*ast.ValueSpec]string{}      // spec -> dir
	pkgFuncNames := map[string]map[string]bool{} // dir -> top-level function names (to tell V.m from pkg.f)
	for _, pf := range files {
		for _, d := range pf.f.Decls {
			switch d := d.(type) {
			case *ast.GenDecl:
				if d.Tok != token.VAR {
					continue
				}
				for _, s := range d.Specs {
					vs := s.(*ast.ValueSpec)
					pkgSpecs[vs] = pf.dir
					for i, n := range vs.Names {
						if n.Name == "_" {
							continue
						}
						if pkgVarNames[pf.dir] == nil {
							pkgVarNames[pf.dir] = map[string]bool{}
						}
						pkgVarNames[pf.dir][n.Name] = true
						vars = append(vars, pv{pf.dir, n.Name, pvKind(fset, vs, i), pf.name})
					}
				}
			case *ast.FuncDecl:
				if d.Recv == nil {
					if pkgFuncNames[pf.dir] == nil {
						pkgFuncNames[pf.dir] = map[string]bool{}
					}
					pkgFuncNames[pf.dir][d.Name.Name] = true
				}
			}
		}
	}
	sort.Slice(vars, func(i, j int) bool {
		if vars[i].Dir != vars[j].Dir {
			return vars[i].Dir < vars[j].Dir
		}
		return vars[i].Name < vars[j].Name
	})

	// struct fields of a shared type (per package, by name) and functions / methods whose results include a
	// shared type (all packages, by name): s.node, s.registry.Template(name) denote shared values too
	sharedFields := map[string]map[string]bool{}
	sharedFuncs := map[string]bool{}
	for _, pf := range files {
		imports := pvImports(pf.f)
		ast.Inspect(pf.f, func(n ast.Node) bool {
			switch x := n.(type) {
			case *ast.StructType:
				for _, f := range x.Fields.List {
					if pvIsSharedType(pf.dir, imports, f.Type) {
						for _, nm := range f.Names {
							if sharedFields[pf.dir] == nil {
								sharedFields[pf.dir] = map[string]bool{}
							}
							sharedFields[pf.dir][nm.Name] = true
						}
					}
				}
			case *ast.FuncDecl:
				if x.Type.Results != nil {
					for _, r := range x.Type.Results.List {
						if pvIsSharedType(pf.dir, imports, r.Type) {
							sharedFuncs[x.Name.Name] = true
						}
					}
				}
			}
			return true
		})
	}

	// ---- write sites ----
	var sites, methods, shared []pvSite
	for _, pf := range files {
		imports := pvImports(pf.f)
		// is this identifier a package-level variable of the file's own package?
		ownVar := func(id *ast.Ident) bool {
			if !pkgVarNames[pf.dir][id.Name] {
				return false
			}
			if id.Obj == nil {
				return true // declared in another file of the package
			}
			if vs, ok := id.Obj.Decl.(*ast.ValueSpec); ok {
				_, isPkg := pkgSpecs[vs]
				return isPkg
			}
			return false
		}
		// root of an lvalue / operand: strips index, selector, star, paren, slice; reports (dir, var)
		var root func(e ast.Expr) (string, string, bool)
		root = func(e ast.Expr) (string, string, bool) {
			switch x := e.(type) {
			case *ast.Ident:
				if ownVar(x) {
					return pf.dir, x.Name, true
				}
			case *ast.ParenExpr:
				return root(x.X)
			case *ast.StarExpr:
				return root(x.X)
			case *ast.IndexExpr:
				return root(x.X)
			case *ast.SliceExpr:
				return root(x.X)
			case *ast.SelectorExpr:
				if id, ok := x.X.(*ast.Ident); ok && id.Obj == nil {
					if dir, ok := imports[id.Name]; ok {
						if pkgVarNames[dir][x.Sel.Name] {
							return dir, x.Sel.Name, true
						}
						return "", "", false
					}
				}
				return root(x.X)
			}
			return "", "", false
		}
		for _, d := range pf.f.Decls {
			fd, ok := d.(*ast.FuncDecl)
			if !ok || fd.Body == nil {
				continue
			}
			fname := fd.Name.Name
			if fd.Recv != nil && len(fd.Recv.List) == 1 {
				fname = "(" + pvExprString(fset, fd.Recv.List[0].Type) + ")." + fname
			}
			add := func(list *[]pvSite, dir, v, kind string, pos token.Pos) {
				*list = append(*list, pvSite{Dir: dir, Func: pf.dir + ":" + fname, Var: v, Kind: kind, File: pf.name, Line: fset.Position(pos).Line})
			}
			// ---- shared-typed names of this function (parameters, receiver, typed locals, range/assign aliases) ----
			sharedName := map[*ast.Object]bool{}  // values of a shared type
			sharedSlice := map[*ast.Object]bool{} // slices obtained from a field of a shared value
			cappedSlice := map[*ast.Object]bool{} // ... by a full slice expression e[:n:n] (capacity = length)
			isCapped := func(e ast.Expr) bool {
				se, ok := e.(*ast.SliceExpr)
				return ok && se.Slice3 && se.High != nil && se.Max != nil && pvExprString(fset, se.High) == pvExprString(fset, se.Max)
			}
			trackShared := pf.dir == "soyhtml" || pf.dir == "soyjs" || pf.dir == "template"
			markFields := func(fl *ast.FieldList) {
				if fl == nil {
					return
				}
				for _, f := range fl.List {
					if pvIsSharedType(pf.dir, imports, f.Type) {
						for _, n := range f.Names {
							if n.Obj != nil {
								sharedName[n.Obj] = true
							}
						}
					}
				}
			}
			if trackShared {
				markFields(fd.Recv)
				markFields(fd.Type.Params)
			}
			// is e an expression that denotes (part of) a shared value?  (rooted at a shared name through
			// selectors, indexes, derefs, type assertions, Children() calls)
			var sharedRooted func(e ast.Expr) bool
			sharedRooted = func(e ast.Expr) bool {
				switch x := e.(type) {
				case *ast.Ident:
					return x.Obj != nil && (sharedName[x.Obj] || sharedSlice[x.Obj])
				case *ast.ParenExpr:
					return sharedRooted(x.X)
				case *ast.StarExpr:
					return sharedRooted(x.X)
				case *ast.IndexExpr:
					return sharedRooted(x.X)
				case *ast.SliceExpr:
					return sharedRooted(x.X)
				case *ast.SelectorExpr:
					return sharedRooted(x.X) || sharedFields[pf.dir][x.Sel.Name]
				case *ast.TypeAssertExpr:
					return sharedRooted(x.X)
				case *ast.CallExpr:
					// a method of a shared value returning part of it: node.Children()
					if se, ok := x.Fun.(*ast.SelectorExpr); ok {
						if se.Sel.Name == "Children" && sharedRooted(se.X) {
							return true
						}
						return sharedFuncs[se.Sel.Name] // s.registry.Template(name)
					}
					if id, ok := x.Fun.(*ast.Ident); ok && id.Obj == nil {
						return sharedFuncs[id.Name]
					}
				}
				return false
			}
			// does a store to the lvalue l write memory of a shared value?  (the object written is the one the
			// BASE of l denotes: s.node = n writes s, s.node.Text = t writes the node)
			writesThrough := func(l ast.Expr) bool {
				for {
					p, ok := l.(*ast.ParenExpr)
					if !ok {
						break
					}
					l = p.X
				}
				switch x := l.(type) {
				case *ast.SelectorExpr:
					return sharedRooted(x.X)
				case *ast.IndexExpr:
					return sharedRooted(x.X)
				case *ast.SliceExpr:
					return sharedRooted(x.X)
				case *ast.StarExpr:
					return sharedRooted(x.X)
				}
				return false
			}
			ast.Inspect(fd.Body, func(n ast.Node) bool {
				switch st := n.(type) {
				case *ast.AssignStmt:
					for i, l := range st.Lhs {
						if dir, v, ok := root(l); ok {
							kind := "assign"
							if _, isId := l.(*ast.Ident); !isId {
								kind = "assign-element"
							}
							add(&sites, dir, v, kind, st.Pos())
						}
						if !trackShared {
							continue
						}
						// a write through a shared value: LHS is not a plain local name and is rooted at a shared name
						if id, isId := l.(*ast.Ident); !isId {
							if writesThrough(l) {
								add(&shared, pf.dir, pvExprString(fset, l), "assign-through", st.Pos())
							}
						} else if id.Obj != nil && i < len(st.Rhs) && len(st.Lhs) == len(st.Rhs) {
							// alias tracking for locals: x := <shared-rooted expr> makes x shared (a pointer, a slice or a
							// map obtained from a shared value is still shared memory)
							r := st.Rhs[i]
							if ta, ok := r.(*ast.TypeAssertExpr); ok {
								r = ta.X
							}
							if sharedRooted(r) {
								if isCapped(r) && st.Tok == token.DEFINE {
									cappedSlice[id.Obj] = true
								} else {
									delete(cappedSlice, id.Obj)
								}
								switch r.(type) {
								case *ast.SelectorExpr, *ast.IndexExpr, *ast.SliceExpr, *ast.CallExpr:
									sharedSlice[id.Obj] = true
								case *ast.Ident, *ast.StarExpr, *ast.ParenExpr:
									sharedName[id.Obj] = true
								}
							}
							// x = append(<shared-rooted slice>, ...): may write into the shared backing array
							if ce, ok := st.Rhs[i].(*ast.CallExpr); ok {
								if f, ok := ce.Fun.(*ast.Ident); ok && f.Name == "append" && len(ce.Args) > 0 && sharedRooted(ce.Args[0]) {
									kind := "append-to"
									if a0, ok := ce.Args[0].(*ast.Ident); ok && a0.Obj != nil && cappedSlice[a0.Obj] {
										kind = "append-to-capped" // cap = len: append copies, the shared array is not written
									}
									add(&shared, pf.dir, pvExprString(fset, ce.Args[0]), kind, st.Pos())
								}
							}
						}
					}
					// two-value forms (x, ok := n.(*T)) and switch x := n.(type) are handled below
					if trackShared && len(st.Lhs) == 2 && len(st.Rhs) == 1 {
						r := st.Rhs[0]
						if ta, ok := r.(*ast.TypeAssertExpr); ok {
							r = ta.X
						}
						// x, ok := n.(*T) / x, ok := reg.Template(name) / x, ok := m[k]
						if sharedRooted(r) {
							if id, ok := st.Lhs[0].(*ast.Ident); ok && id.Obj != nil {
								sharedName[id.Obj] = true
							}
						}
					}
				case *ast.TypeSwitchStmt:
					if !trackShared {
						break
					}
					if as, ok := st.Assign.(*ast.AssignStmt); ok && len(as.Rhs) == 1 {
						if ta, ok := as.Rhs[0].(*ast.TypeAssertExpr); ok && sharedRooted(ta.X) {
							// the symbol of a type switch has one implicit object per clause
							for _, c := range st.Body.List {
								cc := c.(*ast.CaseClause)
								ast.Inspect(cc, func(m ast.Node) bool {
									if id, ok := m.(*ast.Ident); ok && id.Obj != nil && id.Name == as.Lhs[0].(*ast.Ident).Name {
										if id.Obj.Decl == ast.Node(cc) || id.Obj.Decl == ast.Node(as) {
											sharedName[id.Obj] = true
										}
									}
									return true
								})
							}
						}
					}
				case *ast.DeclStmt:
					if !trackShared {
						break
					}
					if gd, ok := st.Decl.(*ast.GenDecl); ok && gd.Tok == token.VAR {
						for _, s := range gd.Specs {
							vs := s.(*ast.ValueSpec)
							if len(vs.Names) == 2 && len(vs.Values) == 1 && vs.Names[0].Obj != nil {
								r := vs.Values[0]
								if ta, ok := r.(*ast.TypeAssertExpr); ok {
									r = ta.X
								}
								if sharedRooted(r) {
									sharedName[vs.Names[0].Obj] = true
								}
								continue
							}
							for i, nm := range vs.Names {
								if nm.Obj == nil {
									continue
								}
								if i < len(vs.Values) {
									r := vs.Values[i]
									if ta, ok := r.(*ast.TypeAssertExpr); ok {
										r = ta.X
									}
									if sharedRooted(r) {
										if isCapped(r) {
											cappedSlice[nm.Obj] = true
										}
										switch r.(type) {
										case *ast.SelectorExpr, *ast.IndexExpr, *ast.SliceExpr, *ast.CallExpr:
											sharedSlice[nm.Obj] = true
										default:
											sharedName[nm.Obj] = true
										}
									}
								}
							}
						}
					}
				case *ast.IncDecStmt:
					if dir, v, ok := root(st.X); ok {
						add(&sites, dir, v, "incdec", st.Pos())
					}
					if trackShared {
						if _, isId := st.X.(*ast.Ident); !isId && writesThrough(st.X) {
							add(&shared, pf.dir, pvExprString(fset, st.X), "incdec-through", st.Pos())
						}
					}
				case *ast.RangeStmt:
					if st.Tok == token.ASSIGN {
						for _, e := range []ast.Expr{st.Key, st.Value} {
							if e == nil {
								continue
							}
							if dir, v, ok := root(e); ok {
								add(&sites, dir, v, "range-assign", st.Pos())
							}
						}
					}
					if trackShared && st.Tok == token.DEFINE && sharedRooted(st.X) {
						// the elements of a shared slice are shared values (pointers to nodes)
						if id, ok := st.Value.(*ast.Ident); ok && id.Obj != nil {
							sharedName[id.Obj] = true
						}
					}
				case *ast.UnaryExpr:
					if st.Op == token.AND {
						if dir, v, ok := root(st.X); ok {
							add(&sites, dir, v, "address-taken", st.Pos())
						}
					}
				case *ast.CallExpr:
					if id, ok := st.Fun.(*ast.Ident); ok && id.Obj == nil && (id.Name == "delete" || id.Name == "copy" || id.Name == "clear") && len(st.Args) > 0 {
						if dir, v, ok := root(st.Args[0]); ok {
							add(&sites, dir, v, id.Name, st.Pos())
						}
						if trackShared && sharedRooted(st.Args[0]) {
							add(&shared, pf.dir, pvExprString(fset, st.Args[0]), id.Name+"-through", st.Pos())
						}
					}
					if se, ok := st.Fun.(*ast.SelectorExpr); ok {
						// V.m(...) on a variable of this package, or pkg.V.m(...)
						if dir, v, ok := root(se.X); ok {
							add(&methods, dir, v, se.Sel.Name, st.Pos())
						}
						if trackShared && (se.Sel.Name == "Sort" || se.Sel.Name == "Strings" || se.Sel.Name == "Slice" || se.Sel.Name == "Stable") {
							// sort.X(shared slice) sorts in place
							if id, ok := se.X.(*ast.Ident); ok && id.Name == "sort" && len(st.Args) > 0 && sharedRooted(st.Args[0]) {
								add(&shared, pf.dir, pvExprString(fset, st.Args[0]), "sort-in-place", st.Pos())
							}
						}
					}
				}
				return true
			})
		}
	}

	less := func(l []pvSite) func(i, j int) bool {
		return func(i, j int) bool {
			a, b := l[i], l[j]
			if a.Dir != b.Dir {
				return a.Dir < b.Dir
			}
			if a.Var != b.Var {
				return a.Var < b.Var
			}
			if a.Func != b.Func {
				return a.Func < b.Func
			}
			if a.Kind != b.Kind {
				return a.Kind < b.Kind
			}
			return a.Line < b.Line
		}
	}
	sort.SliceStable(sites, less(sites))
	sort.SliceStable(methods, less(methods))
	sort.SliceStable(shared, less(shared))

	// ---- emission: into Generated/PkgState.v, a file of its own next to -out, so that a change of these lists
	// rebuilds C09's closure only and not every model that imports Generated/Tables.v ----
	var pb strings.Builder
	pp := func(format string, args ...interface{}) { fmt.Fprintf(&pb, format, args...) }
	pp("(* GENERATED by /verif/go/cmd/tablegen (pkgvars.go) from the Go sources of robfig/soy.\n   Do not edit: regenerated on every check run. *)\n")
	pp("From Soy Require Import Model.Bytes.\nOpen Scope N_scope.\n\n")
	pp("(* package-level variables of the non-test sources: (package directory, name, kind of initialiser) *)\n")
	pp("Definition pkg_vars : list (bstr * bstr * bstr) := [\n")
	for i, v := range vars {
		sep := ";"
		if i == len(vars)-1 {
			sep = ""
		}
		pp("  (%s, %s, %s)%s   (* %s *)\n", coqBytes(v.Dir), coqBytes(v.Name), coqBytes(v.Kind), sep, pvComment(v.Dir+"."+v.Name+" : "+v.Kind))
	}
	pp("].\n")
	emit := func(name, doc string, l []pvSite, key func(pvSite) string) {
		pp("(* %s *)\n", doc)
		pp("Definition %s : list (bstr * bstr * bstr * bstr) := [\n", name)
		seen := map[string]bool{}
		var rows []pvSite
		for _, s := range l {
			k := key(s)
			if !seen[k] {
				seen[k] = true
				rows = append(rows, s)
			}
		}
		for i, s := range rows {
			sep := ";"
			if i == len(rows)-1 {
				sep = ""
			}
			pp("  (%s, %s, %s, %s)%s   (* %s *)\n", coqBytes(s.Dir), coqBytes(s.Var), coqBytes(s.Func), coqBytes(s.Kind), sep, pvComment(s.Dir+"  "+s.Var+"  in "+s.Func+": "+s.Kind))
		}
		pp("].\n")
	}
	k4 := func(s pvSite) string { return s.Dir + "\x00" + s.Var + "\x00" + s.Func + "\x00" + s.Kind }
	emit("pkg_var_writes", "writes to package-level variables in function bodies: (package of the variable, variable, package:function, kind)", sites, k4)
	emit("pkg_var_methods", "methods called on package-level variables: (package of the variable, variable, package:function, method)", methods, k4)
	emit("shared_type_writes", "writes through syntax-tree / registry / bundle typed values in soyhtml, soyjs, template: (package, written expression, package:function, kind)", shared, k4)

	if fl := flag.Lookup("out"); fl != nil && fl.Value.String() != "" {
		outPath := filepath.Join(filepath.Dir(fl.Value.String()), "PkgState.v")
		old, _ := os.ReadFile(outPath)
		if string(old) != pb.String() {
			if err := os.WriteFile(outPath, []byte(pb.String()), 0o644); err != nil {
				g.fail("pkgvars: cannot write %s", outPath)
			}
		}
	}
	g.js["pkg_vars"] = vars
	g.js["pkg_var_writes"] = sites
	g.js["pkg_var_methods"] = methods
	g.js["shared_type_writes"] = shared
}
