package main

// C09: package-level mutable state is where real races live.  This generator
// enumerates, from the non-test Go sources of robfig/soy, type-checked with go/types
// (pkgvars_types.go: every identification below is by type-checked object or type,
// never by name: shadowing, renamed imports, embedded fields and aliases in locals or
// struct fields do not confuse it),
//
//   pkg_vars          every package-level `var` (blank ones excepted) with the kind of
//                     its type / initialiser,
//   pkg_var_writes    every statement of a function body (of any package, reachable or
//                     not; function literals in initialisers included) that writes to or
//                     takes the address of a package-level variable: assignments whose
//                     left-hand side is rooted at the variable (V = .., V[k] = ..,
//                     V.f = .., *V = .., op-assignments), ++/--, delete(V, ..),
//                     copy(V, ..), range clauses assigning to it, &V; writes through a
//                     local alias of it (write-via-alias) and calls that pass it (or
//                     something reachable from it) to a function that writes through the
//                     corresponding parameter (callee-writes-through),
//   pkg_var_methods   every method called directly on a package-level variable
//                     (V.m(..)), and every method of a foreign type called on a local
//                     alias of one: a method may mutate its receiver (sync.Pool.Put, a
//                     cache's Store), so a new one has to be reviewed,
//   shared_type_writes  every statement of the render / generation packages (soyhtml,
//                     soyjs, template) that writes THROUGH a value of a syntax-tree,
//                     registry, template or message type (the named types of packages
//                     ast, template, soymsg), directly (assign-through, incdec-through,
//                     append-to, delete/copy/clear-through, sort-in-place) or by passing
//                     it, or something reachable from it, to a function or method of ANY
//                     package of the repository that may write through the corresponding
//                     parameter or receiver (callee-writes-through; the "written
//                     expression" of such a site is the callee, package:function, which a
//                     refactoring of the caller does not change; the argument and the
//                     innermost write are in tables.json and in the comments of
//                     PkgState.v).  A write is listed once, where it enters the shared
//                     structures: a caller further up, which only hands the value down to
//                     a function that lists the site, does not list it again.
//
// How (pkgvars_flow.go, pkgvars_calls.go).  Every function of the repository gets a summary, the least fixed point of:
// "may write through parameter i (receiver first), at the object it refers to or below its field f",
// where a write is an assignment / op-assignment / ++ / -- whose left-hand side lies in memory reached
// from the parameter through selectors, indexes, dereferences and slicings (a parameter of a
// reference-free type has no such memory; a struct passed by value counts for its pointer, slice and
// map components only), an append to / delete / copy / clear / sort of such a slice or map, or passing
// such a value on to a callee that writes through the corresponding parameter; and "the result may
// refer to memory of parameter i".  Values are tracked flow-insensitively per local variable, per field
// of locally built structures and (for shared and package-level roots) per struct field of the whole
// program (s.cached = node.Directives in one method, s.cached[0] = x in another).  A method call on an
// interface value is resolved by class-hierarchy analysis to the methods of every named type of the
// repository that implements the interface (T and *T).
//
// Limits (stated, not checked).  (1) Calls of function VALUES (fields such as Func.Apply and
// PrintDirective.Apply, variables, parameters, method values) are not resolved: user functions, print
// directives and formatter callbacks are assumed not to write through their arguments.  (2) Functions
// outside the repository (standard library, third-party) are assumed not to write through their
// arguments and to call nothing but the methods of their interface-typed parameters (for interface{}
// parameters: String and Error, the fmt protocol), EXCEPT the in-place mutators of pvExternalWrites:
// sort.Sort/Stable/Slice/SliceStable/Strings/Ints/Float64s, the builtins append, copy, delete, clear,
// the functions of sync/atomic, every method of a sync / sync/atomic type, and the mutating methods of
// bytes.Buffer and strings.Builder.  Their results are assumed to refer to nothing but their arguments.
// (3) reflect and unsafe are not modelled.  (4) Values of types declared by packages of the repository
// other than ast, template, soymsg (template data, data.Value) are not part of the shared structures,
// wherever they were loaded from (a global's value embedded in a GlobalNode, a map passed as call data).
// (5) One level of fields is distinguished below a parameter or a
// locally built structure; deeper paths are merged.  (6) Files are enumerated under the default build
// with the tag verif, and under the plain default build when that selects other files.  (7) The
// environment variable PKGVARS_DEBUG=1 dumps the summaries to stderr.
//
// The lists are compared in Coq (Proofs/ConcGlobalsProofs.v) with the reviewed
// predicates of Model/ConcGlobals.v: a new package-level variable of a kind that can hold
// state, a new write site or a new method on a package-level variable breaks that lemma
// (a broken proof obligation of C09) until it has been reviewed.  Line numbers are not
// part of the tied lists (they go into tables.json for the evidence).

import (
	"bytes"
	"flag"
	"fmt"
	"go/ast"
	"go/printer"
	"go/token"
	"go/types"
	"os"
	"path/filepath"
	"sort"
	"strings"
)

func init() { register("90-pkgvars", (*gen).pkgVars) }

type pvVar struct{ Dir, Name, Kind, File string }

type pvSite struct {
	Dir, Func, Var, Kind, File string
	Line                       int
	Via                        string `json:",omitempty"` // callee-writes-through: the callee and the write in it
}

func pvExprString(fset *token.FileSet, e ast.Node) string {
	var b bytes.Buffer
	printer.Fprint(&b, fset, e)
	return b.String()
}

// text that is safe inside a Coq comment
func pvComment(s string) string {
	s = strings.ReplaceAll(s, "(*", "( *")
	s = strings.ReplaceAll(s, "*)", "* )")
	s = strings.ReplaceAll(s, "\n", " ")
	return strings.ReplaceAll(s, "\"", "'")
}

// the function or method a call expression calls, when that is statically known
func pvStaticCallee(info *types.Info, call *ast.CallExpr) *types.Func {
	var id *ast.Ident
	switch f := ast.Unparen(call.Fun).(type) {
	case *ast.Ident:
		id = f
	case *ast.SelectorExpr:
		id = f.Sel
	}
	if id == nil {
		return nil
	}
	fn, _ := info.Uses[id].(*types.Func)
	return fn
}

// kind of a package-level variable: what its type can hold, then how it is initialised.  A variable
// whose type is or contains a pool, a lock, a Once, an atomic, a channel or a function is loud however
// its initialiser is spelled; a *regexp.Regexp made by regexp.MustCompile, a *strings.Replacer, an error
// made by errors.New, a *log.Logger, a reflect.Type, a flag are the objects documented safe for
// concurrent use; then literals and makes by the type of the literal.
func (pt *pvTypes) varKind(p *pvPkg, fset *token.FileSet, vs *ast.ValueSpec, i int, obj *types.Var) string {
	t := obj.Type()
	var init ast.Expr
	if i < len(vs.Values) {
		init = ast.Unparen(vs.Values[i])
	} else if len(vs.Values) > 0 {
		return "call" // var a, b = f()
	}
	var initCall *ast.CallExpr
	if ce, ok := init.(*ast.CallExpr); ok {
		initCall = ce
	}
	isMake := func(ce *ast.CallExpr) bool {
		if id, ok := ast.Unparen(ce.Fun).(*ast.Ident); ok {
			if b, ok := p.info.Uses[id].(*types.Builtin); ok && b.Name() == "make" {
				return true
			}
		}
		return false
	}
	if sync, pool := pt.containsSync(t, map[types.Type]bool{}); pool {
		return "pool"
	} else if sync {
		return "sync"
	}
	switch t.Underlying().(type) {
	case *types.Chan:
		if initCall != nil && isMake(initCall) {
			return "make-chan"
		}
		return "chan"
	case *types.Signature:
		return "func"
	}
	typeIs := func(t types.Type, pkg, name string) bool {
		if ptr, ok := t.(*types.Pointer); ok {
			t = ptr.Elem()
		}
		n := pvNamed(t)
		return n != nil && pvPkgPathOf(n) == pkg && n.Obj().Name() == name
	}
	if initCall != nil {
		if fn := pvStaticCallee(p.info, initCall); fn != nil && fn.Pkg() != nil {
			switch full := fn.Pkg().Path() + "." + fn.Name(); {
			case (full == "regexp.MustCompile" || full == "regexp.MustCompilePOSIX") && typeIs(t, "regexp", "Regexp"):
				return "regexp"
			case full == "strings.NewReplacer" && typeIs(t, "strings", "Replacer"):
				return "replacer"
			case full == "errors.New":
				return "error"
			case full == "log.New":
				return "logger"
			case full == "reflect.TypeOf":
				return "reflect-type"
			case fn.Pkg().Path() == "flag" && fn.Type().(*types.Signature).Recv() == nil:
				return "flag"
			}
		}
	}
	if typeIs(t, "log", "Logger") {
		return "logger"
	}
	typ := ""
	if vs.Type != nil {
		typ = pvExprString(fset, vs.Type)
	} else {
		typ = types.TypeString(t, func(q *types.Package) string { return q.Name() })
	}
	switch x := init.(type) {
	case nil:
		switch t.Underlying().(type) {
		case *types.Map:
			return "nil-map"
		case *types.Slice:
			return "nil-slice"
		}
		return "zero:" + typ
	case *ast.CompositeLit:
		switch p.info.TypeOf(x).Underlying().(type) {
		case *types.Map:
			return "map-literal"
		case *types.Slice:
			return "slice-literal"
		case *types.Array:
			return "array-literal"
		}
		return "struct-literal"
	case *ast.CallExpr:
		if tv, ok := p.info.Types[x.Fun]; ok && tv.IsType() && len(x.Args) == 1 {
			// a conversion of a constant string: []byte("&amp;")
			if sl, ok := tv.Type.Underlying().(*types.Slice); ok {
				if b, ok := sl.Elem().Underlying().(*types.Basic); ok && b.Kind() == types.Uint8 {
					if av, ok := p.info.Types[x.Args[0]]; ok && av.Value != nil {
						return "bytes-literal"
					}
				}
			}
		}
		if isMake(x) {
			switch t.Underlying().(type) {
			case *types.Map:
				return "make-map"
			case *types.Slice:
				return "make-slice"
			}
		}
		return "call"
	case *ast.UnaryExpr:
		if x.Op == token.AND {
			return "pointer"
		}
	}
	if tv, ok := p.info.Types[init]; ok && tv.Value != nil {
		if _, basic := t.Underlying().(*types.Basic); basic {
			return "literal" // a constant of a basic type
		}
	}
	return "expr"
}

func (g *gen) pkgVars() {
	// always defined, also when a file does not parse or type-check: a generator that defines nothing is charged to every property
	g.p("(* the package-level state of the sources is in Generated/PkgState.v *)\n")
	g.p("Definition pkg_state_generated : bool := true.\n")

	src := pvLoadSources(g)
	var vars []pvVar
	var sites, methods, shared []pvSite
	for _, tags := range src.configs() {
		w := src.world(tags)
		for _, e := range w.errs {
			g.fail("pkgvars: type-checking (tags %v): %s", tags, e)
		}
		a := newPvAnalysis(w)
		a.run()
		vars = append(vars, a.vars...)
		sites = append(sites, a.sites...)
		methods = append(methods, a.methods...)
		shared = append(shared, a.shared...)
	}

	sort.SliceStable(vars, func(i, j int) bool {
		if vars[i].Dir != vars[j].Dir {
			return vars[i].Dir < vars[j].Dir
		}
		if vars[i].Name != vars[j].Name {
			return vars[i].Name < vars[j].Name
		}
		return vars[i].Kind < vars[j].Kind
	})
	{ // the tag sets share most files
		var u []pvVar
		for i, v := range vars {
			if i == 0 || v != vars[i-1] {
				u = append(u, v)
			}
		}
		vars = u
	}
	less := func(l []pvSite) func(i, j int) bool {
		return func(i, j int) bool {
			a, b := l[i], l[j]
			if a.Dir != b.Dir {
				return a.Dir < b.Dir
			}
			if a.Var != b.Var {
				return a.Var < b.Var
			}
			if a.Func != b.Func {
				return a.Func < b.Func
			}
			if a.Kind != b.Kind {
				return a.Kind < b.Kind
			}
			if a.File != b.File {
				return a.File < b.File
			}
			if a.Line != b.Line {
				return a.Line < b.Line
			}
			return a.Via < b.Via
		}
	}
	uniq := func(l []pvSite) []pvSite {
		sort.SliceStable(l, less(l))
		var u []pvSite
		for i, s := range l {
			if i == 0 || s != l[i-1] {
				u = append(u, s)
			}
		}
		return u
	}
	sites, methods, shared = uniq(sites), uniq(methods), uniq(shared)

	// ---- emission: into Generated/PkgState.v, a file of its own next to -out, so that a change of these lists
	// rebuilds C09's closure only and not every model that imports Generated/Tables.v ----
	var pb strings.Builder
	pp := func(format string, args ...interface{}) { fmt.Fprintf(&pb, format, args...) }
	pp("(* GENERATED by /verif/go/cmd/tablegen (pkgvars.go) from the Go sources of robfig/soy.\n   Do not edit: regenerated on every check run. *)\n")
	pp("From Soy Require Import Model.Bytes.\nOpen Scope N_scope.\n\n")
	pp("(* package-level variables of the non-test sources: (package directory, name, kind of type / initialiser) *)\n")
	pp("Definition pkg_vars : list (bstr * bstr * bstr) := [\n")
	for i, v := range vars {
		sep := ";"
		if i == len(vars)-1 {
			sep = ""
		}
		pp("  (%s, %s, %s)%s   (* %s *)\n", coqBytes(v.Dir), coqBytes(v.Name), coqBytes(v.Kind), sep, pvComment(v.Dir+"."+v.Name+" : "+v.Kind))
	}
	pp("].\n")
	emit := func(name, doc string, l []pvSite, key func(pvSite) string) {
		pp("(* %s *)\n", doc)
		pp("Definition %s : list (bstr * bstr * bstr * bstr) := [\n", name)
		seen := map[string]bool{}
		var rows []pvSite
		for _, s := range l {
			k := key(s)
			if !seen[k] {
				seen[k] = true
				rows = append(rows, s)
			}
		}
		for i, s := range rows {
			sep := ";"
			if i == len(rows)-1 {
				sep = ""
			}
			via := ""
			if s.Via != "" {
				via = "  via " + s.Via
			}
			pp("  (%s, %s, %s, %s)%s   (* %s *)\n", coqBytes(s.Dir), coqBytes(s.Var), coqBytes(s.Func), coqBytes(s.Kind), sep, pvComment(s.Dir+"  "+s.Var+"  in "+s.Func+": "+s.Kind+via))
		}
		pp("].\n")
	}
	k4 := func(s pvSite) string { return s.Dir + "\x00" + s.Var + "\x00" + s.Func + "\x00" + s.Kind }
	emit("pkg_var_writes", "writes to package-level variables in function bodies: (package of the variable, variable, package:function, kind)", sites, k4)
	emit("pkg_var_methods", "methods called on package-level variables: (package of the variable, variable, package:function, method)", methods, k4)
	emit("shared_type_writes", "writes through syntax-tree / registry / bundle typed values in soyhtml, soyjs, template, directly or in a callee: (package, written expression, package:function, kind)", shared, k4)

	if fl := flag.Lookup("out"); fl != nil && fl.Value.String() != "" {
		outPath := filepath.Join(filepath.Dir(fl.Value.String()), "PkgState.v")
		old, _ := os.ReadFile(outPath)
		if string(old) != pb.String() {
			if err := os.WriteFile(outPath, []byte(pb.String()), 0o644); err != nil {
				g.fail("pkgvars: cannot write %s", outPath)
			}
		}
	}
	if vars == nil {
		vars = []pvVar{}
	}
	g.js["pkg_vars"] = vars
	g.js["pkg_var_writes"] = sites
	g.js["pkg_var_methods"] = methods
	g.js["shared_type_writes"] = shared
}
