package main

// C09, package-level state (see pkgvars.go): calls -- the callees of a call expression (static, or by
// class-hierarchy analysis for interface methods), the application of their write summaries at the call
// site, the builtins and the in-place mutators outside the repository.

import (
	"fmt"
	"go/ast"
	"go/types"
	"strings"
)

// ---------------------------------------------------------------------------------------------------
// calls

const (
	pvCallUnknown = iota // a function value: not resolved
	pvCallConv
	pvCallBuiltin
	pvCallRepo     // functions / methods of the repository: static, or the implementers of an interface method
	pvCallExternal // a function or method outside the repository
)

type pvCallee struct {
	kind     int
	builtin  string
	targets  []*pvFunc
	promoted map[*pvFunc]bool // reached through an embedded field: the receiver is a part of the value
	ext      *types.Func
	recv     ast.Expr // the receiver expression of a method call
	recvPath []*types.Var
	sig      *types.Signature
}

func (fa *pvFA) resolve(call *ast.CallExpr) pvCallee {
	fun := ast.Unparen(call.Fun)
	if tv, ok := fa.info.Types[fun]; ok && tv.IsType() {
		return pvCallee{kind: pvCallConv}
	}
	if b := fa.builtin(call); b != "" {
		return pvCallee{kind: pvCallBuiltin, builtin: b}
	}
	c := pvCallee{}
	if t := fa.typeOf(fun); t != nil {
		c.sig, _ = t.Underlying().(*types.Signature)
	}
	var fn *types.Func
	switch f := fun.(type) {
	case *ast.Ident:
		fn, _ = fa.info.Uses[f].(*types.Func)
	case *ast.SelectorExpr:
		if sel, ok := fa.info.Selections[f]; ok {
			if sel.Kind() != types.MethodVal {
				return c // a field of function type; a method expression
			}
			fn, _ = sel.Obj().(*types.Func)
			c.recv = f.X
			if path := pvFieldPath(sel); len(path) > 0 {
				c.recvPath = path
			}
			var it types.Type
			if fn != nil {
				if r := fn.Type().(*types.Signature).Recv(); r != nil && types.IsInterface(r.Type()) {
					it = r.Type() // the interface that declares the method (possibly an embedded one)
				}
				if types.IsInterface(sel.Recv()) {
					it = sel.Recv()
				}
			}
			if it != nil {
				// class-hierarchy analysis: every method of a named type of the repository that implements the interface
				iface, _ := it.Underlying().(*types.Interface)
				if iface != nil {
					c.kind = pvCallRepo
					c.targets = fa.a.implementers(iface, types.TypeString(it, nil), fn.Name())
					c.promoted = map[*pvFunc]bool{}
					for _, t := range c.targets {
						c.promoted[t] = true // the dynamic type may embed the declaring type
					}
					return c
				}
			}
		} else {
			fn, _ = fa.info.Uses[f.Sel].(*types.Func) // pkg.F
		}
	}
	if fn == nil {
		return c
	}
	if pf := fa.a.byObj[fn]; pf != nil {
		c.kind = pvCallRepo
		c.targets = []*pvFunc{pf}
		return c
	}
	c.kind = pvCallExternal
	c.ext = fn
	return c
}

// the value of the receiver of a method call: the operand, through the embedded fields; its address is
// taken when the method wants a pointer
func (fa *pvFA) recvVal(c pvCallee, ptrRecv bool) pvVal {
	v := fa.eval(c.recv)
	for _, f := range c.recvPath {
		v = fa.sel(v, f)
	}
	if ptrRecv {
		if t := fa.typeOf(c.recv); t != nil {
			if _, isPtr := t.Underlying().(*types.Pointer); !isPtr && !types.IsInterface(t) {
				v = v.clone()
				v.merge(pvVal{roots: fa.lvalueRegion(c.recv)})
			}
		}
	}
	return v
}

// the values and expressions of the arguments, aligned with the n parameters of the callee (the
// arguments of a variadic parameter are packed into a fresh slice)
func (fa *pvFA) argVals(call *ast.CallExpr, n int, variadic bool) ([]pvVal, []ast.Expr) {
	vals := make([]pvVal, n)
	exprs := make([]ast.Expr, n)
	if len(call.Args) == 1 && n > 1 {
		if _, tuple := fa.typeOf(call.Args[0]).(*types.Tuple); tuple {
			v := fa.eval(call.Args[0])
			for i := range vals {
				vals[i], exprs[i] = v, call.Args[0]
			}
			return vals, exprs
		}
	}
	for i, arg := range call.Args {
		switch {
		case variadic && i >= n-1 && !call.Ellipsis.IsValid():
			if n > 0 {
				vals[n-1].store(nil, fa.eval(arg).all())
			}
		case i < n:
			vals[i], exprs[i] = fa.eval(arg), arg
		}
	}
	return vals, exprs
}

func (fa *pvFA) landing(v pvVal, g *types.Var, forResult bool) pvSet {
	out := pvSet{}
	switch {
	case g == nil && !forResult:
		out.addAll(v.roots)
	case g == nil || g == pvAny:
		out.addAll(v.all())
	case g == pvElem:
		for r := range v.roots {
			out[pvSel(r, g)] = true
		}
		out.addAll(v.fields[nil])
	default:
		for r := range v.roots {
			out[pvSel(r, g)] = true
		}
		out.addAll(v.fields[g])
		out.addAll(v.fields[nil])
		out.addAll(fa.a.fieldOrigins[g])
		if !fa.a.pt.sharedCapable(g.Type()) {
			out = pvDataSet(out) // below a field that holds template data
		}
	}
	return out
}

// the parameters' values at a call of target t
func (fa *pvFA) bind(call *ast.CallExpr, c pvCallee, t *pvFunc) ([]pvVal, []ast.Expr) {
	sig := t.obj.Type().(*types.Signature)
	n := sig.Params().Len()
	avs, aes := fa.argVals(call, n, sig.Variadic())
	if !t.hasRecv {
		return avs, aes
	}
	var rv pvVal
	var re ast.Expr
	if c.recv != nil {
		_, ptr := sig.Recv().Type().(*types.Pointer)
		rv, re = fa.recvVal(c, ptr), c.recv
	} else if len(avs) > 0 {
		return avs, aes // a method expression T.m(x, ..): not resolved as such
	}
	return append([]pvVal{rv}, avs...), append([]ast.Expr{re}, aes...)
}

func (fa *pvFA) callResult(call *ast.CallExpr) pvVal {
	c := fa.resolve(call)
	switch c.kind {
	case pvCallConv:
		if len(call.Args) == 1 {
			return fa.eval(call.Args[0])
		}
		return pvVal{}
	case pvCallBuiltin:
		switch c.builtin {
		case "append":
			if len(call.Args) == 0 {
				return pvVal{}
			}
			out := fa.eval(call.Args[0]).clone()
			for _, a := range call.Args[1:] {
				v := fa.eval(a)
				if call.Ellipsis.IsValid() {
					v = fa.load(v, nil)
				}
				out.store(nil, v.all())
			}
			return out
		case "min", "max":
			return pvVal{}
		}
		return pvVal{} // new, make: fresh memory
	case pvCallRepo:
		out := pvVal{roots: pvSet{}}
		for _, t := range c.targets {
			vals, _ := fa.bind(call, c, t)
			for r := range t.ret {
				switch r.kind {
				case pvParam:
					if r.idx < len(vals) {
						g := r.field
						if c.promoted[t] && r.idx == 0 && g != nil {
							g = pvAny
						}
						land := fa.landing(vals[r.idx], g, true)
						if r.data {
							land = pvDataSet(land)
						}
						out.roots.addAll(land)
					}
				default:
					out.roots[r] = true
				}
			}
		}
		return out
	}
	// a function outside the repository, or a function value: the result refers to nothing but the arguments
	out := pvVal{roots: pvSet{}}
	if c.recv != nil {
		out.roots.addAll(fa.eval(c.recv).all())
	}
	for _, a := range call.Args {
		out.roots.addAll(fa.eval(a).all())
	}
	return out
}

// in-place mutators outside the repository: what they write (index into the arguments; -1: the receiver)
func pvExternalWrites(fn *types.Func) (arg int, kind string, ok bool) {
	if fn.Pkg() == nil {
		return
	}
	pkg, name := fn.Pkg().Path(), fn.Name()
	sig := fn.Type().(*types.Signature)
	if r := sig.Recv(); r != nil {
		t := r.Type()
		if p, isPtr := t.(*types.Pointer); isPtr {
			t = p.Elem()
		}
		n := pvNamed(t)
		if n == nil {
			return
		}
		switch tn := pvPkgPathOf(n) + "." + n.Obj().Name(); {
		case pkg == "sync" || pkg == "sync/atomic":
			return -1, "callee-writes-through", true
		case tn == "bytes.Buffer" || tn == "strings.Builder":
			switch name {
			case "Len", "Cap", "String", "Bytes", "Available", "AvailableBuffer":
				return
			}
			return -1, "callee-writes-through", true
		}
		return
	}
	switch pkg {
	case "sort":
		switch name {
		case "Sort", "Stable", "Slice", "SliceStable", "Strings", "Ints", "Float64s":
			return 0, "sort-in-place", true
		}
	case "sync/atomic":
		if !strings.HasPrefix(name, "Load") {
			return 0, "callee-writes-through", true
		}
	}
	return
}

func (fa *pvFA) extName(fn *types.Func) string {
	sig := fn.Type().(*types.Signature)
	if r := sig.Recv(); r != nil {
		return "(" + types.TypeString(r.Type(), func(p *types.Package) string { return p.Path() }) + ")." + fn.Name()
	}
	return fn.Pkg().Path() + "." + fn.Name()
}

// apply the write summary of target t at this call
func (fa *pvFA) applyTarget(call *ast.CallExpr, t *pvFunc, vals []pvVal, exprs []ast.Expr, promoted bool) {
	for d, w := range t.writes {
		wit := w.witness
		if d.idx >= len(vals) {
			continue
		}
		g := d.field
		if promoted && d.idx == 0 && g != nil {
			g = pvAny
		}
		expr := fa.str(call.Fun) + "(..)"
		if exprs[d.idx] != nil {
			expr = fa.str(exprs[d.idx])
		}
		if pvDebug {
			gn := "."
			if g != nil {
				gn = g.Name()
			}
			expr += fmt.Sprintf(" {callee desc %d.%s val %s}", d.idx, gn, pvValString(vals[d.idx]))
		}
		region := fa.landing(vals[d.idx], g, false)
		if d.data {
			region = pvDataSet(region)
		}
		// the written expression of a callee-writes-through site is the callee (a name that a refactoring of the
		// caller does not change); the argument and the innermost write go into the evidence
		fa.hit(region, pvHit{expr: t.name, pkgKind: "callee-writes-through", sharedKind: "callee-writes-through",
			witness: wit, via: t.name + ", argument " + expr + ", write " + wit, listed: w.listed, pos: call.Pos()})
	}
}

// a value handed to code outside the repository as an interface: that code may call the methods of
// the interface on it (for interface{}: String and Error, the fmt protocol)
func (fa *pvFA) protocol(call *ast.CallExpr, arg ast.Expr, param types.Type) {
	iface, ok := param.Underlying().(*types.Interface)
	if !ok {
		return
	}
	at := fa.typeOf(arg)
	if at == nil {
		return
	}
	var names []string
	if iface.NumMethods() == 0 {
		names = []string{"Error", "String"}
	} else {
		for i := 0; i < iface.NumMethods(); i++ {
			names = append(names, iface.Method(i).Name())
		}
	}
	for _, m := range names {
		obj, _, _ := types.LookupFieldOrMethod(at, true, fa.f.p.pkg, m)
		fn, ok := obj.(*types.Func)
		if !ok {
			continue
		}
		sig := fn.Type().(*types.Signature)
		if iface.NumMethods() == 0 && (sig.Params().Len() != 0 || sig.Results().Len() != 1) {
			continue
		}
		var targets []*pvFunc
		promoted := false
		if ai, isIface := at.Underlying().(*types.Interface); isIface {
			targets = fa.a.implementers(ai, types.TypeString(at, nil), m)
			promoted = true
		} else if pf := fa.a.byObj[fn]; pf != nil {
			targets = []*pvFunc{pf}
			promoted = true // possibly of an embedded field
		}
		for _, t := range targets {
			if !t.hasRecv {
				continue
			}
			vals := make([]pvVal, len(t.params))
			exprs := make([]ast.Expr, len(t.params))
			vals[0], exprs[0] = fa.eval(arg), arg
			fa.applyTarget(call, t, vals, exprs, promoted)
		}
	}
}

func (fa *pvFA) callEffects(call *ast.CallExpr) {
	c := fa.resolve(call)
	fun := ast.Unparen(call.Fun)

	// methods on package-level variables
	if se, ok := fun.(*ast.SelectorExpr); ok {
		if _, isSel := fa.info.Selections[se]; isSel {
			direct := fa.rootVar(se.X)
			if direct != nil {
				fa.site(&fa.a.methods, fa.a.relDir(direct.Pkg()), direct.Name(), se.Sel.Name, "", call.Pos())
			}
			if c.kind == pvCallExternal && c.recv != nil {
				for r := range fa.eval(se.X).roots {
					if r.kind == pvGlobal && r.g != direct {
						fa.site(&fa.a.methods, fa.a.relDir(r.g.Pkg()), r.g.Name(), se.Sel.Name, "", call.Pos())
					}
				}
			}
		}
	}

	switch c.kind {
	case pvCallBuiltin:
		if len(call.Args) == 0 {
			return
		}
		a0 := call.Args[0]
		switch c.builtin {
		case "delete", "copy", "clear":
			direct := fa.rootVar(a0)
			if direct != nil {
				fa.pkgSite(direct, c.builtin, "", call.Pos())
			}
			fa.hit(fa.eval(a0).roots, pvHit{expr: fa.str(a0), pkgKind: c.builtin + "-via-alias", sharedKind: c.builtin + "-through",
				witness: fa.f.name + ": " + c.builtin + "(" + fa.str(a0) + ", ..)", direct: direct, pos: call.Pos()})
			if c.builtin == "copy" && len(call.Args) > 1 {
				if b, f := fa.baseVar(a0); b != nil {
					fa.storeIn(b, f, fa.load(fa.eval(call.Args[1]), nil).all())
				}
			}
		case "append":
			if fa.selfAppend[call] {
				return
			}
			v0 := fa.eval(a0)
			if id, ok := ast.Unparen(a0).(*ast.Ident); ok && fa.capped[fa.varOf(id)] {
				// capacity = length: the append copies, the array the slice was cut from is only read
				if v0.roots[pvRoot{kind: pvShared}] && fa.three {
					fa.site(&fa.a.shared, fa.f.p.dir, fa.str(a0), "append-to-capped", "", call.Pos())
				}
				return
			}
			fa.hit(v0.roots, pvHit{expr: fa.str(a0), pkgKind: "append-to", sharedKind: "append-to",
				witness: fa.f.name + ": append(" + fa.str(a0) + ", ..)", pos: call.Pos()})
		}
	case pvCallRepo:
		for _, t := range c.targets {
			vals, exprs := fa.bind(call, c, t)
			if len(vals) != len(t.params) {
				continue
			}
			fa.applyTarget(call, t, vals, exprs, c.promoted[t])
		}
	case pvCallExternal:
		sig := c.ext.Type().(*types.Signature)
		if i, kind, ok := pvExternalWrites(c.ext); ok {
			var region pvSet
			var e ast.Expr
			if i < 0 && c.recv != nil {
				e = c.recv
				if t := fa.typeOf(e); t != nil {
					if _, isPtr := t.Underlying().(*types.Pointer); isPtr || len(c.recvPath) > 0 {
						region = fa.recvVal(c, false).roots
					} else {
						region = fa.lvalueRegion(e)
					}
				}
			} else if i >= 0 && i < len(call.Args) {
				e = call.Args[i]
				region = fa.eval(e).roots
			}
			if e != nil {
				name := fa.extName(c.ext)
				expr, via := fa.str(e), name
				if kind == "callee-writes-through" {
					expr, via = name, "argument "+fa.str(e)
				}
				fa.hit(region, pvHit{expr: expr, pkgKind: kind, sharedKind: kind, witness: fa.f.name + ": " + name + " on " + fa.str(e),
					via: via, direct: nil, pos: call.Pos()})
			}
		}
		n := sig.Params().Len()
		for i, arg := range call.Args {
			j := i
			if j >= n {
				j = n - 1
			}
			if j < 0 {
				break
			}
			pt := sig.Params().At(j).Type()
			if sig.Variadic() && j == n-1 && !call.Ellipsis.IsValid() {
				if sl, ok := pt.(*types.Slice); ok {
					pt = sl.Elem()
				}
			}
			fa.protocol(call, arg, pt)
		}
	}
}
