package main

import (
	"go/ast"
	"go/token"
	"sort"
)

func init() {
	register("10-html-entities", (*gen).htmlEntities)
	register("11-html-directives", (*gen).htmlDirectives)
	register("12-autoescape-attr", (*gen).autoescapeAttr)
}

// htmlEntities translates the switch in soyhtml.htmlEscapeString together with
// the byte-slice variables it refers to.
func (g *gen) htmlEntities() {
	const rel = "soyhtml/exec.go"
	fd := g.funcDecl(rel, "htmlEscapeString")
	type ent struct {
		c int
		s string
	}
	var ents []ent
	found := false
	if fd != nil {
		ast.Inspect(fd.Body, func(n ast.Node) bool {
			sw, ok := n.(*ast.SwitchStmt)
			if !ok || found {
				return true
			}
			found = true
			for _, cc := range sw.Body.List {
				c := cc.(*ast.CaseClause)
				if c.List == nil { // default
					if len(c.Body) != 1 {
						g.fail("htmlEscapeString: default case is not a bare continue")
					} else if bs, ok := c.Body[0].(*ast.BranchStmt); !ok || bs.Tok != token.CONTINUE {
						g.fail("htmlEscapeString: default case is not a bare continue")
					}
					continue
				}
				// body: html = <ident>
				var val string
				okBody := false
				if len(c.Body) == 1 {
					if as, ok := c.Body[0].(*ast.AssignStmt); ok && len(as.Rhs) == 1 {
						switch rhs := as.Rhs[0].(type) {
						case *ast.Ident:
							if init := g.varValue(rel, rhs.Name); init != nil {
								val, okBody = bytesOf(init)
							}
						default:
							val, okBody = bytesOf(rhs)
						}
					}
				}
				if !okBody {
					g.fail("htmlEscapeString: case body not of the form html = <bytes var>")
					continue
				}
				for _, e := range c.List {
					r, ok := charLit(e)
					if !ok || r > 255 {
						g.fail("htmlEscapeString: case label is not a byte literal")
						continue
					}
					ents = append(ents, ent{int(r), val})
				}
			}
			return false
		})
	}
	if !found {
		g.fail("htmlEscapeString: switch not found")
	}
	sort.Slice(ents, func(i, j int) bool { return ents[i].c < ents[j].c })
	g.p("(* soyhtml/exec.go htmlEscapeString: byte -> replacement *)\n")
	g.p("Definition html_entity_table : list (N * bstr) := [")
	js := map[string]string{}
	for i, e := range ents {
		if i > 0 {
			g.p("; ")
		}
		g.p("(%d, %s)", e.c, coqBytes(e.s))
		js[string(rune(e.c))] = e.s
	}
	g.p("].\n\n")
	g.js["html_entity_table"] = js
}

type directive struct {
	Name     string
	ArgLens  []int64
	Cancel   bool
	NilApply bool
	Fn       string
}

// directiveTable reads a map[string]PrintDirective composite literal.
func (g *gen) directiveTable(rel, varName string) []directive {
	init := g.varValue(rel, varName)
	cl, ok := init.(*ast.CompositeLit)
	if !ok {
		g.fail("%s: %s is not a composite literal", rel, varName)
		return nil
	}
	var res []directive
	for _, el := range cl.Elts {
		kv, ok := el.(*ast.KeyValueExpr)
		if !ok {
			g.fail("%s: %s entry not key:value", rel, varName)
			continue
		}
		name, ok := strLit(kv.Key)
		if !ok {
			g.fail("%s: %s key not a string literal", rel, varName)
			continue
		}
		v, ok := kv.Value.(*ast.CompositeLit)
		if !ok {
			g.fail("%s: %s[%q] not a composite literal", rel, varName, name)
			continue
		}
		d := directive{Name: name}
		fields := map[string]ast.Expr{}
		order := []string{"Apply", "ValidArgLengths", "CancelAutoescape"}
		for i, fe := range v.Elts {
			if fkv, ok := fe.(*ast.KeyValueExpr); ok {
				fields[fkv.Key.(*ast.Ident).Name] = fkv.Value
			} else if i < len(order) {
				fields[order[i]] = fe
			}
		}
		if id, ok := fields["Apply"].(*ast.Ident); ok {
			if id.Name == "nil" {
				d.NilApply = true
			}
			d.Fn = id.Name
		} else if fields["Apply"] == nil {
			d.NilApply = true
		} else {
			d.Fn = "<expr>"
		}
		if al, ok := fields["ValidArgLengths"].(*ast.CompositeLit); ok {
			for _, e := range al.Elts {
				if n, ok := intLit(e); ok {
					d.ArgLens = append(d.ArgLens, n)
				} else {
					g.fail("%s: %s[%q] arg length not an int literal", rel, varName, name)
				}
			}
		}
		if id, ok := fields["CancelAutoescape"].(*ast.Ident); ok {
			d.Cancel = id.Name == "true"
		} else if fields["CancelAutoescape"] != nil {
			g.fail("%s: %s[%q] CancelAutoescape not a literal", rel, varName, name)
		}
		res = append(res, d)
	}
	sort.Slice(res, func(i, j int) bool { return res[i].Name < res[j].Name })
	return res
}

func (g *gen) htmlDirectives() {
	ds := g.directiveTable("soyhtml/directives.go", "PrintDirectives")
	g.p("(* soyhtml/directives.go PrintDirectives: (name, (arg lengths, (cancel, (nil Apply, Go function)))) *)\n")
	g.p("Definition html_directives : list (bstr * (list N * (bool * (bool * bstr)))) := [\n")
	for i, d := range ds {
		sep := ";"
		if i == len(ds)-1 {
			sep = ""
		}
		g.p("  (%s (* %s *), (%s, (%s, (%s, %s))))%s\n", coqBytes(d.Name), d.Name, coqIntList(d.ArgLens), coqBool(d.Cancel), coqBool(d.NilApply), coqBytes(d.Fn), sep)
	}
	g.p("].\n\n")
	g.js["html_directives"] = ds
}

// autoescapeAttr translates the switch of parse.parseAutoescape.
func (g *gen) autoescapeAttr() {
	fd := g.method("parse/parse.go", "tree", "parseAutoescape")
	codes := map[string]int{"AutoescapeUnspecified": 0, "AutoescapeOn": 1, "AutoescapeOff": 2, "AutoescapeContextual": 3}
	type row struct {
		s string
		c int
	}
	var rows []row
	found := false
	if fd != nil {
		ast.Inspect(fd.Body, func(n ast.Node) bool {
			sw, ok := n.(*ast.SwitchStmt)
			if !ok || found {
				return true
			}
			found = true
			for _, cc := range sw.Body.List {
				c := cc.(*ast.CaseClause)
				if c.List == nil {
					continue
				}
				code := -1
				if len(c.Body) == 1 {
					if rs, ok := c.Body[0].(*ast.ReturnStmt); ok && len(rs.Results) == 1 {
						if se, ok := rs.Results[0].(*ast.SelectorExpr); ok {
							if v, ok := codes[se.Sel.Name]; ok {
								code = v
							}
						}
					}
				}
				if code < 0 {
					g.fail("parseAutoescape: case does not return an ast.Autoescape constant")
					continue
				}
				for _, e := range c.List {
					s, ok := strLit(e)
					if !ok {
						g.fail("parseAutoescape: label not a string literal")
						continue
					}
					rows = append(rows, row{s, code})
				}
			}
			return false
		})
	}
	if !found {
		g.fail("parseAutoescape: switch not found")
	}
	sort.Slice(rows, func(i, j int) bool { return rows[i].s < rows[j].s })
	g.p("(* parse/parse.go parseAutoescape: attribute text -> 0 unspecified | 1 on | 2 off | 3 contextual *)\n")
	g.p("Definition autoescape_attr_table : list (bstr * N) := [")
	js := map[string]int{}
	for i, r := range rows {
		if i > 0 {
			g.p("; ")
		}
		g.p("(%s, %d)", coqBytes(r.s), r.c)
		js[r.s] = r.c
	}
	g.p("].\n\n")
	g.js["autoescape_attr_table"] = js
}
