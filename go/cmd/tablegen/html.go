package main

import (
	"fmt"
	"go/ast"
	"go/token"
	"sort"
	"strings"
)

func init() {
	register("10-html-entities", (*gen).htmlEntities)
	register("11-html-directives", (*gen).htmlDirectives)
	register("12-autoescape-attr", (*gen).autoescapeAttr)
}

// htmlEntities translates the switch in soyhtml.htmlEscapeString together with
// the byte-slice variables it refers to.
func (g *gen) htmlEntities() {
	const rel = "soyhtml/exec.go"
	fd := g.funcDecl(rel, "htmlEscapeString")
	type ent struct {
		c int
		s string
	}
	var ents []ent
	found := false
	perr := g.silent(func() {
		if fd != nil {
			ast.Inspect(fd.Body, func(n ast.Node) bool {
				sw, ok := n.(*ast.SwitchStmt)
				if !ok || found {
					return true
				}
				found = true
				for _, cc := range sw.Body.List {
					c := cc.(*ast.CaseClause)
					if c.List == nil { // default
						if len(c.Body) != 1 {
							g.fail("htmlEscapeString: default case is not a bare continue")
						} else if bs, ok := c.Body[0].(*ast.BranchStmt); !ok || bs.Tok != token.CONTINUE {
							g.fail("htmlEscapeString: default case is not a bare continue")
						}
						continue
					}
					// body: html = <ident>
					var val string
					okBody := false
					if len(c.Body) == 1 {
						if as, ok := c.Body[0].(*ast.AssignStmt); ok && len(as.Rhs) == 1 {
							switch rhs := as.Rhs[0].(type) {
							case *ast.Ident:
								if init := g.varValue(rel, rhs.Name); init != nil {
									val, okBody = bytesOf(init)
								}
							default:
								val, okBody = bytesOf(rhs)
							}
						}
					}
					if !okBody {
						g.fail("htmlEscapeString: case body not of the form html = <bytes var>")
						continue
					}
					for _, e := range c.List {
						r, ok := charLit(e)
						if !ok || r > 255 {
							g.fail("htmlEscapeString: case label is not a byte literal")
							continue
						}
						ents = append(ents, ent{int(r), val})
					}
				}
				return false
			})
		}
		if !found {
			g.fail("htmlEscapeString: switch not found")
		}
	})
	pats := ""
	if len(perr) == 0 {
		m := map[string]string{}
		for _, e := range ents {
			if _, dup := m[fmt.Sprintf("%03d", e.c)]; dup {
				pats = "(duplicate case label)" // cannot happen in code that compiles
			}
			m[fmt.Sprintf("%03d", e.c)] = e.s
		}
		if pats == "" {
			pats = canonMap(m)
		}
	}
	// evaluation: the compiled function on each of the 256 one-byte strings (the loop over the bytes of a
	// longer string is the model's, tied by walk-events and the correspondence)
	ev, err := g.goEval("soyhtml", []string{"bytes", "encoding/hex"}, `	m := map[string]string{}
	esc := func(in string) (string, bool) {
		var buf bytes.Buffer
		if err := htmlEscapeString(&buf, in); err != nil {
			return "", false
		}
		return buf.String(), true
	}
	allOK := true
	for c := 0; c < 256; c++ {
		in := string([]byte{byte(c)})
		out, ok := esc(in)
		if !ok {
			allOK = false
		} else if out != in {
			m[hex.EncodeToString([]byte(in))] = hex.EncodeToString([]byte(out))
		}
	}
	if allOK {
		res["htmlEscapeString"] = m
	}
	e, ok := esc("")
	res["htmlEscapeString.empty"] = ok && e == ""`)
	evs, everr := "", ""
	var evEnts []ent
	if err != nil {
		everr = err.Error()
	} else {
		var raw map[string]string
		var emptyOK bool
		if ev.get("htmlEscapeString", &raw) && ev.get("htmlEscapeString.empty", &emptyOK) && emptyOK {
			m := map[string]string{}
			for hk, hv := range raw {
				k, err1 := hexDecode(hk)
				v, err2 := hexDecode(hv)
				if err1 != nil || err2 != nil || len(k) != 1 {
					everr = "malformed evaluation result"
					break
				}
				m[fmt.Sprintf("%03d", k[0])] = v
				evEnts = append(evEnts, ent{int(k[0]), v})
			}
			if everr == "" {
				evs = canonMap(m)
			}
		} else {
			everr = "no result for htmlEscapeString"
		}
	}
	switch g.choose("soyhtml/exec.go htmlEscapeString", pats, strings.Join(perr, "; "), evs, everr) {
	case routeEval:
		ents = evEnts
	case routeNone:
		ents = nil
	}
	sort.Slice(ents, func(i, j int) bool { return ents[i].c < ents[j].c })
	g.p("(* soyhtml/exec.go htmlEscapeString: byte -> replacement *)\n")
	g.p("Definition html_entity_table : list (N * bstr) := [")
	js := map[string]string{}
	for i, e := range ents {
		if i > 0 {
			g.p("; ")
		}
		g.p("(%d, %s)", e.c, coqBytes(e.s))
		js[string(rune(e.c))] = e.s
	}
	g.p("].\n\n")
	g.js["html_entity_table"] = js
}

type directive struct {
	Name     string
	ArgLens  []int64
	Cancel   bool
	NilApply bool
	Fn       string
}

// directiveTable reads a map[string]PrintDirective composite literal.
func (g *gen) directiveTable(rel, varName string) []directive {
	init := g.varValue(rel, varName)
	cl, ok := init.(*ast.CompositeLit)
	if !ok {
		g.fail("%s: %s is not a composite literal", rel, varName)
		return nil
	}
	var res []directive
	for _, el := range cl.Elts {
		kv, ok := el.(*ast.KeyValueExpr)
		if !ok {
			g.fail("%s: %s entry not key:value", rel, varName)
			continue
		}
		name, ok := strLit(kv.Key)
		if !ok {
			g.fail("%s: %s key not a string literal", rel, varName)
			continue
		}
		v, ok := kv.Value.(*ast.CompositeLit)
		if !ok {
			g.fail("%s: %s[%q] not a composite literal", rel, varName, name)
			continue
		}
		d := directive{Name: name}
		fields := map[string]ast.Expr{}
		order := []string{"Apply", "ValidArgLengths", "CancelAutoescape"}
		for i, fe := range v.Elts {
			if fkv, ok := fe.(*ast.KeyValueExpr); ok {
				fields[fkv.Key.(*ast.Ident).Name] = fkv.Value
			} else if i < len(order) {
				fields[order[i]] = fe
			}
		}
		for f := range fields {
			if f != "Apply" && f != "ValidArgLengths" && f != "CancelAutoescape" {
				g.fail("%s: %s[%q] has a field %s the translator does not know", rel, varName, name, f)
			}
		}
		if len(v.Elts) > len(order) {
			g.fail("%s: %s[%q] has more than %d fields", rel, varName, name, len(order))
		}
		if id, ok := fields["Apply"].(*ast.Ident); ok {
			if id.Name == "nil" {
				d.NilApply = true
			} else if g.funcDecl(rel, id.Name) == nil {
				g.fail("%s: %s[%q] Apply is %s, which is not a function of the file", rel, varName, name, id.Name)
			}
			d.Fn = id.Name
		} else if fields["Apply"] == nil {
			d.NilApply = true
			d.Fn = "nil" // an omitted field is the zero value: the same entry as an explicit nil
		} else {
			d.Fn = "<expr>"
		}
		if al, ok := fields["ValidArgLengths"].(*ast.CompositeLit); ok {
			for _, e := range al.Elts {
				if n, ok := intLit(e); ok && n >= 0 {
					d.ArgLens = append(d.ArgLens, n)
				} else {
					g.fail("%s: %s[%q] arg length not an int literal", rel, varName, name)
				}
			}
		} else if fields["ValidArgLengths"] != nil && !isIdent(fields["ValidArgLengths"], "nil") {
			g.fail("%s: %s[%q] ValidArgLengths is not a []int literal", rel, varName, name)
		}
		if id, ok := fields["CancelAutoescape"].(*ast.Ident); ok && (id.Name == "true" || id.Name == "false") {
			d.Cancel = id.Name == "true"
		} else if fields["CancelAutoescape"] != nil {
			g.fail("%s: %s[%q] CancelAutoescape not a literal", rel, varName, name)
		}
		res = append(res, d)
	}
	sort.Slice(res, func(i, j int) bool { return res[i].Name < res[j].Name })
	return res
}

func (g *gen) htmlDirectives() {
	var ds []directive
	perr := g.silent(func() { ds = g.directiveTable("soyhtml/directives.go", "PrintDirectives") })
	pats := ""
	if len(perr) == 0 {
		pats = canonDirectives(ds)
	}
	ev, everrs := g.evalSoyhtml()
	evs, everr := "", evErr(everrs, "PrintDirectives")
	evDs, ok := evalDirectives(ev)
	if ok {
		evs = canonDirectives(evDs)
	}
	switch g.choose("soyhtml/directives.go PrintDirectives", pats, strings.Join(perr, "; "), evs, everr) {
	case routeEval:
		ds = evDs
	case routeNone:
		ds = nil
	}
	g.p("(* soyhtml/directives.go PrintDirectives: (name, (arg lengths, (cancel, (nil Apply, Go function)))) *)\n")
	g.p("Definition html_directives : list (bstr * (list N * (bool * (bool * bstr)))) := [\n")
	for i, d := range ds {
		sep := ";"
		if i == len(ds)-1 {
			sep = ""
		}
		g.p("  (%s (* %s *), (%s, (%s, (%s, %s))))%s\n", coqBytes(d.Name), d.Name, coqIntList(d.ArgLens), coqBool(d.Cancel), coqBool(d.NilApply), coqBytes(d.Fn), sep)
	}
	g.p("].\n\n")
	g.js["html_directives"] = ds
}

// autoescapeAttr: parse.parseAutoescape as a table attribute text -> mode, by pattern (the switch over
// the attribute) and by evaluation (the compiled method on every string literal of parse.go and "",
// a panic = rejected).  The codes of the ast.Autoescape* constants are read from the evaluation when
// there is one (the pattern route assumes the declaration order of ast/node.go).
func (g *gen) autoescapeAttr() {
	fd := g.method("parse/parse.go", "tree", "parseAutoescape")
	codes := map[string]int{"AutoescapeUnspecified": 0, "AutoescapeOn": 1, "AutoescapeOff": 2, "AutoescapeContextual": 3}
	type row struct {
		s string
		c int
	}
	var rows []row
	perr := g.silent(func() {
		found := false
		if fd != nil {
			ast.Inspect(fd.Body, func(n ast.Node) bool {
				sw, ok := n.(*ast.SwitchStmt)
				if !ok || found {
					return true
				}
				found = true
				// the tag must be the attribute itself: attrs["autoescape"], directly or through the init statement
				tagOK := false
				isAttr := func(e ast.Expr) bool {
					ix, ok := e.(*ast.IndexExpr)
					if !ok {
						return false
					}
					k, ok := strLit(ix.Index)
					return ok && k == "autoescape"
				}
				if sw.Tag != nil && isAttr(sw.Tag) {
					tagOK = true
				}
				if as, ok := sw.Init.(*ast.AssignStmt); ok && len(as.Lhs) == 1 && len(as.Rhs) == 1 && isAttr(as.Rhs[0]) {
					if id, ok := as.Lhs[0].(*ast.Ident); ok && sw.Tag != nil && isIdent(sw.Tag, id.Name) {
						tagOK = true
					}
				}
				if !tagOK {
					g.fail("parseAutoescape: the switch is not over attrs[\"autoescape\"]")
				}
				for _, cc := range sw.Body.List {
					c := cc.(*ast.CaseClause)
					if c.List == nil {
						continue
					}
					code := -1
					if len(c.Body) == 1 {
						if rs, ok := c.Body[0].(*ast.ReturnStmt); ok && len(rs.Results) == 1 {
							if se, ok := rs.Results[0].(*ast.SelectorExpr); ok {
								if v, ok := codes[se.Sel.Name]; ok {
									code = v
								}
							}
						}
					}
					if code < 0 {
						g.fail("parseAutoescape: case does not return an ast.Autoescape constant")
						continue
					}
					for _, e := range c.List {
						s, ok := strLit(e)
						if !ok {
							g.fail("parseAutoescape: label not a string literal")
							continue
						}
						rows = append(rows, row{s, code})
					}
				}
				return false
			})
		}
		if !found {
			g.fail("parseAutoescape: switch not found")
		}
	})
	pats := ""
	if len(perr) == 0 {
		m := map[string]string{}
		for _, r := range rows {
			m[r.s] = fmt.Sprint(r.c)
		}
		pats = canonMap(m)
	}
	ev, everrs := g.evalParse()
	evs, everr := "", evErr(everrs, "parseAutoescape")
	var evRows []row
	var raw, evCodes map[string]int
	var absent int
	if ev.get("parseAutoescape", &raw) && ev.get("parseAutoescape.codes", &evCodes) {
		everr = ""
		for name, want := range codes {
			if got, ok := evCodes[name]; !ok || got != want {
				everr = fmt.Sprintf("ast.%s is %d, the models are written with %d", name, got, want)
			}
		}
		// an absent attribute must read as the empty text (the model looks the attribute up with a default of "")
		if e, ok := raw[""]; !ev.get("parseAutoescape.absent", &absent) || !ok || e != absent {
			everr = "an absent autoescape attribute is not treated as the empty text"
		}
		if everr == "" {
			m := map[string]string{}
			for hk, c := range raw {
				k, err := hexDecode(hk)
				if err != nil {
					everr = "malformed evaluation result"
					break
				}
				m[k] = fmt.Sprint(c)
				evRows = append(evRows, row{k, c})
			}
			if everr == "" {
				evs = canonMap(m)
			}
		}
	}
	switch g.choose("parse/parse.go parseAutoescape", pats, strings.Join(perr, "; "), evs, everr) {
	case routeEval:
		rows = evRows
	case routeNone:
		rows = nil
	}
	sort.Slice(rows, func(i, j int) bool { return rows[i].s < rows[j].s })
	g.p("(* parse/parse.go parseAutoescape: attribute text -> 0 unspecified | 1 on | 2 off | 3 contextual *)\n")
	g.p("Definition autoescape_attr_table : list (bstr * N) := [")
	js := map[string]int{}
	for i, r := range rows {
		if i > 0 {
			g.p("; ")
		}
		g.p("(%s, %d)", coqBytes(r.s), r.c)
		js[r.s] = r.c
	}
	g.p("].\n\n")
	g.js["autoescape_attr_table"] = js
}
