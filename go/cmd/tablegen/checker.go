package main

// C07: the expression by which template.Registry.Add decides whether a header
// param ({@param ...}) folded into the template's param list is optional.
// Translated into a Coq boolean function of the HeaderParamNode fields, so that
// Model/Checker.v runs what the source says now and the lemma
// header_param_optional_spec (Proofs/CheckerProofs.v: "exactly the ? marker")
// is re-checked whenever the expression changes.

import (
	"go/ast"
	"go/token"
)

func init() {
	register("45-registry-header-params", (*gen).headerParamOptional)
}

// hpExpr translates a boolean expression over the fields of one *ast.HeaderParamNode.
func (g *gen) hpExpr(e ast.Expr) (string, bool) {
	switch e := e.(type) {
	case *ast.ParenExpr:
		return g.hpExpr(e.X)
	case *ast.Ident:
		if e.Name == "true" || e.Name == "false" {
			return e.Name, true
		}
	case *ast.SelectorExpr:
		if _, ok := e.X.(*ast.Ident); ok && e.Sel.Name == "Optional" {
			return "opt", true
		}
	case *ast.UnaryExpr:
		if e.Op == token.NOT {
			if x, ok := g.hpExpr(e.X); ok {
				return "negb (" + x + ")", true
			}
		}
	case *ast.BinaryExpr:
		switch e.Op {
		case token.LOR, token.LAND:
			x, ok1 := g.hpExpr(e.X)
			y, ok2 := g.hpExpr(e.Y)
			if ok1 && ok2 {
				op := " || "
				if e.Op == token.LAND {
					op = " && "
				}
				return "(" + x + op + y + ")", true
			}
		case token.NEQ, token.EQL:
			// <param>.Default ==/!= nil ; <param>.Type.Expr ==/!= ""
			field := ""
			if sel, ok := e.X.(*ast.SelectorExpr); ok {
				if _, isId := sel.X.(*ast.Ident); isId && sel.Sel.Name == "Default" {
					if id, ok := e.Y.(*ast.Ident); ok && id.Name == "nil" {
						field = "has_default"
					}
				}
				if inner, ok := sel.X.(*ast.SelectorExpr); ok && inner.Sel.Name == "Type" && sel.Sel.Name == "Expr" {
					if s, ok := strLit(e.Y); ok && s == "" {
						field = "has_type"
					}
				}
			}
			if field != "" {
				if e.Op == token.EQL {
					return "negb " + field, true
				}
				return field, true
			}
		}
	}
	return "", false
}

func (g *gen) headerParamOptional() {
	const rel = "template/registry.go"
	expr := "opt" // last known
	fd := g.method(rel, "Registry", "Add")
	found := 0
	if fd == nil || fd.Body == nil {
		g.fail("%s: method Registry.Add not found", rel)
	} else {
		// Registry.Add and every function or method of the same file it calls, directly or not (the folding of
		// the header params may live in a helper): exactly one SoyDocParamNode literal with an Optional field
		// must be built there
		var bodies []*ast.BlockStmt
		seen := map[*ast.FuncDecl]bool{fd: true}
		todo := []*ast.FuncDecl{fd}
		for len(todo) > 0 {
			cur := todo[0]
			todo = todo[1:]
			bodies = append(bodies, cur.Body)
			ast.Inspect(cur.Body, func(n ast.Node) bool {
				call, ok := n.(*ast.CallExpr)
				if !ok {
					return true
				}
				name := ""
				switch f := call.Fun.(type) {
				case *ast.Ident:
					name = f.Name
				case *ast.SelectorExpr:
					name = f.Sel.Name
				}
				for _, d := range g.file(rel).Decls {
					if c, ok := d.(*ast.FuncDecl); ok && c.Name.Name == name && c.Body != nil && !seen[c] {
						seen[c] = true
						todo = append(todo, c)
					}
				}
				return true
			})
		}
		for _, body := range bodies {
			ast.Inspect(body, func(n ast.Node) bool {
				cl, ok := n.(*ast.CompositeLit)
				if !ok {
					return true
				}
				sel, ok := cl.Type.(*ast.SelectorExpr)
				if !ok || sel.Sel.Name != "SoyDocParamNode" {
					return true
				}
				for _, el := range cl.Elts {
					kv, ok := el.(*ast.KeyValueExpr)
					if !ok {
						g.fail("%s: SoyDocParamNode literal in Registry.Add is not keyed", rel)
						continue
					}
					if id, ok := kv.Key.(*ast.Ident); ok && id.Name == "Optional" {
						found++
						if s, ok := g.hpExpr(kv.Value); ok {
							expr = s
						} else {
							g.fail("%s: Optional of a folded header param is not a boolean expression over Optional/Default/Type", rel)
						}
					}
				}
				return true
			})
		}
		if found != 1 {
			g.fail("%s: expected exactly one SoyDocParamNode{... Optional: ...} literal in Registry.Add and the functions of the file it calls, found %d", rel, found)
		}
	}
	g.p("(* template/registry.go Registry.Add: Optional of a header param folded into the param list,\n   as a function of HeaderParamNode.Optional, Default != nil, Type.Expr != \"\" *)\n")
	g.p("Definition header_param_optional (opt has_default has_type : bool) : bool := %s.\n", expr)
	g.js["header_param_optional"] = expr
}
