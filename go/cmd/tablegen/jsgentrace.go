package main

// C09: the access-instrumented JavaScript generator, DERIVED from the model, and
// the per-definition simulation lemmas that tie it back to the model.
//
// Model/JsGen.v is a state monad over the record [jstate] (the generator's own
// memory: output buffers, indentation, buffer name, scope stack, name counter,
// autoescape mode, current node, the two maps).  This generator splits the
// monadic part of that file (from [Definition J] to [End Gen.]) into vernacular
// sentences and writes two files next to -out:
//
// Generated/JsGenTrace.v   every sentence VERBATIM, inside [Module JT], in a
//     section over ONE record [L : jlens] (state type, get, put, tick); only the
//     primitives are rewritten:
//       J A          := St_ -> outcome A * St_     (the state, hence the log,
//                                                   survives a failure)
//       jret jfail jlift jbind jget jmod            for that shape; jget ticks JRdOwn,
//                                                   jmod ticks JWrOwn
//       jabort x     := fun st => (x, st)           every literal [fun _ => OutOfModel /
//                                                   OutOfFuel / Diverge / Crash e / Err e]
//       jtick a      := fun st => (Ok tt, ltick a st)
//       jblock       the sub-generator runs on the same underlying state
//       jwalk        ticks JRdAst (pos_of n) before it looks at a node
//       gen_file     starts from a given St_ and returns the final one
//     A substitution that does not apply exactly once is an untranslatable item.
//
// Generated/JsGenSim.v     for every J-typed definition of the copied part, in
//     source order, [Lemma jsim_<name> : JSIM (@JT.<name> L) (@JsGen.<name>)] -- the
//     statement is COMPUTED from the two types by the relational interpretation
//     of Proofs/ConcJsSimBase.v (equal arguments, [jsim]-related monadic arguments,
//     [jsim]-related results), the proof is the generic tactic of that file
//     ([jsim_def] unfolds both sides and walks them in lockstep; [jsim_fix k] does
//     the same by induction on the structural argument, the k-th binder from the
//     end, which this generator reads off the header / the first [match x with]);
//     then [jsim_jwalk] by induction on the fuel and [gen_file_sim].  So an edit of
//     Model/JsGen.v (a new helper, a changed body, reordered cases) regenerates
//     statements and proofs; only a definition in [jsimOverride] has a proof
//     tactic of its own in ConcJsSimBase.v.
//
// It is not a translation of Go source; it lives in tablegen because that is
// the step of bin/check that regenerates coq/Generated before Coq is built.
// The files are written next to -out (only when changed); without a Model/JsGen.v
// beside the output directory (scratch runs of tablegen) nothing is written.

import (
	"flag"
	"fmt"
	"os"
	"path/filepath"
	"regexp"
	"strings"
)

func init() { register("95-jsgen-trace", (*gen).jsGenTrace) }

// one vernacular sentence of the copied part
type jtSent struct {
	text   string // with the final '.', leading whitespace / comments included
	kw     string // Definition, Fixpoint, Notation, Section, End, Variable, ...
	name   string
	header string // between the name and the first top-level ":="
	body   string
}

// splits at '.' followed by whitespace, outside comments
func jtSplit(src string) []string {
	var out []string
	depth, start := 0, 0
	for i := 0; i < len(src); i++ {
		switch {
		case strings.HasPrefix(src[i:], "(*"):
			depth++
			i++
		case strings.HasPrefix(src[i:], "*)") && depth > 0:
			depth--
			i++
		case src[i] == '.' && depth == 0 && (i+1 == len(src) || src[i+1] == ' ' || src[i+1] == '\n' || src[i+1] == '\t'):
			out = append(out, src[start:i+1])
			start = i + 1
		}
	}
	if strings.TrimSpace(src[start:]) != "" {
		out = append(out, src[start:])
	}
	return out
}

func jtStripComments(s string) string {
	var b strings.Builder
	depth := 0
	for i := 0; i < len(s); i++ {
		switch {
		case strings.HasPrefix(s[i:], "(*"):
			depth++
			i++
		case strings.HasPrefix(s[i:], "*)") && depth > 0:
			depth--
			i++
			b.WriteByte(' ')
		case depth == 0:
			b.WriteByte(s[i])
		}
	}
	return b.String()
}

var (
	jtHeadRe   = regexp.MustCompile(`^\s*(Definition|Fixpoint|Notation|Section|End|Variable|Let)\s+([A-Za-z_][A-Za-z0-9_']*)?`)
	jtWordJ    = regexp.MustCompile(`(^|[^A-Za-z0-9_'.])J($|[^A-Za-z0-9_'])`)
	jtAbortRe  = regexp.MustCompile(`fun _ => (OutOfModel|OutOfFuel|Diverge|Crash [A-Za-z_][A-Za-z0-9_']*|Err [A-Za-z_][A-Za-z0-9_']*)`)
	jtStructRe = regexp.MustCompile(`\{struct ([A-Za-z_][A-Za-z0-9_']*)\}`)
	jtMatchRe  = regexp.MustCompile(`match ([A-Za-z_][A-Za-z0-9_']*) with`)
)

func jtParse(text string) jtSent {
	s := jtSent{text: text}
	clean := jtStripComments(text)
	m := jtHeadRe.FindStringSubmatch(clean)
	if m == nil {
		return s
	}
	s.kw, s.name = m[1], m[2]
	rest := clean[strings.Index(clean, m[0])+len(m[0]):]
	if i := strings.Index(rest, ":="); i >= 0 {
		s.header, s.body = rest[:i], rest[i+2:]
	} else {
		s.header = rest
	}
	return s
}

// names of the binders of a header, in order ("(a c : node) {A} (x : T)" -> a c A x)
func jtBinders(header string) []string {
	// cut the result type: the last top-level ':' outside brackets
	depth, cut := 0, len(header)
	for i := 0; i < len(header); i++ {
		switch header[i] {
		case '(', '{':
			depth++
		case ')', '}':
			depth--
		case ':':
			if depth == 0 && cut == len(header) {
				cut = i
			}
		}
	}
	var names []string
	h := header[:cut]
	depth = 0
	start := -1
	for i := 0; i < len(h); i++ {
		switch h[i] {
		case '(', '{':
			if depth == 0 {
				start = i + 1
			}
			depth++
		case ')', '}':
			depth--
			if depth == 0 && start >= 0 {
				grp := h[start:i]
				if strings.HasPrefix(strings.TrimSpace(grp), "struct ") {
					start = -1
					continue
				}
				if j := strings.Index(grp, ":"); j >= 0 {
					grp = grp[:j]
				}
				names = append(names, strings.Fields(grp)...)
				start = -1
			}
		}
	}
	if len(names) == 0 { // bare names without brackets
		names = strings.Fields(h)
	}
	return names
}

// the primitives: rewritten by hand below, with hand-written lemmas in Proofs/ConcJsSimBase.v
var jtPrims = map[string]bool{"J": true, "jret": true, "jfail": true, "jlift": true, "jbind": true, "jget": true, "jmod": true,
	"jblock": true, "jwalk": true, "gen_file": true}

// definitions whose proof is a named tactic of Proofs/ConcJsSimBase.v instead of the generic one
// (recursion through a nested inductive type: the generic induction has no hypothesis for the inner lists)
var jsimOverride = map[string]string{"jeval_part": "jsim_prove_jeval_part"}

const jtErrLine = "| Err e => Err e | Crash e => Crash e | Diverge => Diverge | OutOfFuel => OutOfFuel | OutOfModel => OutOfModel"

func (g *gen) jsGenTrace() {
	// always defined, also when the derivation fails: a generator that defines nothing is charged to every property
	g.p("(* Generated/JsGenTrace.v and Generated/JsGenSim.v are derived from Model/JsGen.v *)\n")
	g.p("Definition jsgen_trace_derived : bool := true.\n")
	fl := flag.Lookup("out")
	if fl == nil || fl.Value.String() == "" {
		return
	}
	outDir := filepath.Dir(fl.Value.String())
	srcPath := filepath.Join(outDir, "..", "Model", "JsGen.v")
	srcB, err := os.ReadFile(srcPath)
	if err != nil {
		return // a scratch run
	}
	src := string(srcB)
	start := strings.Index(src, "Definition J (A : Type)")
	end := strings.Index(src, "End Gen.")
	if start < 0 || end < 0 || end < start {
		g.fail("jsgen-trace: Model/JsGen.v: cannot find the monadic part (Definition J ... End Gen.)")
		return
	}
	var sents []jtSent
	for _, t := range jtSplit(src[start : end+len("End Gen.")]) {
		sents = append(sents, jtParse(t))
	}
	ok := true
	find := func(name string) *jtSent {
		var r *jtSent
		for i := range sents {
			if (sents[i].kw == "Definition" || sents[i].kw == "Fixpoint") && sents[i].name == name {
				if r != nil {
					g.fail("jsgen-trace: Model/JsGen.v: %s is defined twice in the monadic part", name)
					ok = false
				}
				r = &sents[i]
			}
		}
		if r == nil {
			g.fail("jsgen-trace: Model/JsGen.v: no definition of %s in the monadic part", name)
			ok = false
			return &jtSent{}
		}
		return r
	}
	// the whole sentence of a primitive, which must still have the text the replacement was written for
	whole := func(name, expect, repl string) {
		s := find(name)
		if strings.Join(strings.Fields(jtStripComments(s.text)), " ") != strings.Join(strings.Fields(expect), " ") {
			g.fail("jsgen-trace: Model/JsGen.v: the primitive %s is no longer the definition the instrumented copy replaces", name)
			ok = false
			return
		}
		s.text = "\n" + repl
	}
	sub := func(name, old, new string) {
		s := find(name)
		if strings.Count(s.text, old) != 1 {
			g.fail("jsgen-trace: Model/JsGen.v: expected exactly one occurrence of %q in %s", old, name)
			ok = false
			return
		}
		s.text = strings.Replace(s.text, old, new, 1)
	}
	const errPairs = "| (Err e, s_) => (Err e, s_) | (Crash e, s_) => (Crash e, s_) | (Diverge, s_) => (Diverge, s_) | (OutOfFuel, s_) => (OutOfFuel, s_) | (OutOfModel, s_) => (OutOfModel, s_)"
	whole("J", "Definition J (A : Type) := jstate -> outcome (A * jstate).",
		"Definition J (A : Type) := St_ -> outcome A * St_.")
	whole("jret", "Definition jret {A} (x : A) : J A := fun st => Ok (x, st).",
		"Definition jret {A} (x : A) : J A := fun st => (Ok x, st).")
	whole("jfail", "Definition jfail {A} (m : bstr) : J A := fun _ => Err m.",
		"Definition jfail {A} (m : bstr) : J A := fun st => (Err m, st).\n"+
			"(* every literal [fun _ => <outcome>] of the model *)\nDefinition jabort {A} (x : outcome A) : J A := fun st => (x, st).")
	whole("jlift", "Definition jlift {A} (o : outcome A) : J A := fun st => match o with Ok v => Ok (v, st) | Err m => Err m | Crash m => Crash m | Diverge => Diverge | OutOfFuel => OutOfFuel | OutOfModel => OutOfModel end.",
		"Definition jlift {A} (o : outcome A) : J A := fun st => (o, st).")
	whole("jbind", "Definition jbind {A B} (m : J A) (f : A -> J B) : J B := fun st => match m st with | Ok (x, st') => f x st' "+jtErrLine+" end.",
		"Definition jbind {A B} (m : J A) (f : A -> J B) : J B :=\n  fun st => match m st with\n            | (Ok x, st') => f x st'\n            "+errPairs+"\n            end.")
	whole("jget", "Definition jget : J jstate := fun st => Ok (st, st).",
		"Definition jget : J jstate := fun st => (Ok (lget st), ltick JRdOwn st).")
	whole("jmod", "Definition jmod (f : jstate -> jstate) : J unit := fun st => Ok (tt, f st).",
		"Definition jmod (f : jstate -> jstate) : J unit := fun st => (Ok tt, ltick JWrOwn (lput (f (lget st)) st)).\n"+
			"Definition jtick (a : jacc) : J unit := fun st => (Ok tt, ltick a st).")
	// state.block: the sub-generator runs on the same underlying state (so that its accesses are logged); the
	// parent's record is restored afterwards with the shared map
	sub("jblock", "match w n sub with", "match w n (lput sub st0) with")
	sub("jblock", "| Ok (_, sub') => Ok (rev (j_out sub'), set_called (j_called sub') st0)",
		"| (Ok _, sub_) => let sub' := lget sub_ in (Ok (rev (j_out sub')), lput (set_called (j_called sub') (lget st0)) sub_)")
	sub("jblock", jtErrLine, errPairs)
	sub("jwalk", "| S f => jwalk_body (jwalk f) n",
		"| S f => jbind (jtick (JRdAst (pos_of n))) (fun _ => jwalk_body (jwalk f) n)")
	sub("gen_file", "Definition gen_file (fuel : nat) (name : bstr) (body : list node) : outcome (list chunk) :=",
		"Definition gen_file (s0 : St_) (fuel : nat) (name : bstr) (body : list node) : outcome (list chunk) * St_ :=")
	sub("gen_file", "match visit_file fuel name body jinit_state with", "match visit_file fuel name body (lput jinit_state s0) with")
	sub("gen_file", "| Ok (_, st) =>", "| (Ok _, st_) => let st := lget st_ in")
	sub("gen_file", "Ok (imports ++ rev (j_out st))", "(Ok (imports ++ rev (j_out st)), st_)")
	sub("gen_file", jtErrLine, errPairs)
	if !ok {
		return
	}
	// literal aborts, in every sentence that is not a rewritten primitive
	for i := range sents {
		s := &sents[i]
		if (s.kw == "Definition" || s.kw == "Fixpoint") && jtPrims[s.name] && s.name != "jwalk" {
			continue
		}
		s.text = jtAbortRe.ReplaceAllString(s.text, "jabort ($1)")
	}

	// ---------------- Generated/JsGenTrace.v ----------------
	var b strings.Builder
	b.WriteString("(* GENERATED by /verif/go/cmd/tablegen (jsgentrace.go) from coq/Model/JsGen.v.\n")
	b.WriteString("   Do not edit: regenerated on every check run.  The monadic part of the JavaScript\n")
	b.WriteString("   generator model, verbatim, over an abstract state (a lens onto [jstate] and a\n")
	b.WriteString("   logger, one record [jlens]); only the primitives J, jret, jfail, jlift, jbind, jget, jmod,\n")
	b.WriteString("   the literal aborts, jblock's sub-run, jwalk's node visit and gen_file's initial / final\n")
	b.WriteString("   state are changed.  A failing run keeps its state, hence its log.  Definitions only. *)\n")
	b.WriteString("From Soy Require Import Model.Bytes Model.Num Model.Values Model.Outcome Model.Ast Model.Utf8 Model.JsEscape\n  Generated.Tables Model.JsGen.\n")
	b.WriteString("Open Scope N_scope.\n\n")
	b.WriteString("(* what the generator touches: a node of the syntax tree (shared, read), its own record (read / written) *)\n")
	b.WriteString("Inductive jacc := JRdAst (pos : N) | JRdOwn | JWrOwn.\n\n")
	b.WriteString("(* the state of the instrumented generator: a lens onto the model's record and a logger *)\n")
	b.WriteString("Record jlens := {\n  l_St : Type;\n  l_get : l_St -> jstate;\n  l_put : jstate -> l_St -> l_St;\n  l_tick : jacc -> l_St -> l_St;\n}.\n\n")
	b.WriteString("(* a module of its own: the copy reuses every name of Model/JsGen.v *)\nModule JT.\nSection Lens.\nVariable L : jlens.\n")
	b.WriteString("Local Notation St_ := (l_St L).\nLocal Notation lget := (l_get L).\nLocal Notation lput := (l_put L).\nLocal Notation ltick := (l_tick L).\n\n")
	for _, s := range sents {
		b.WriteString(s.text)
	}
	b.WriteString("\nEnd Lens.\nEnd JT.\n")
	writeIfChanged := func(name, content string) {
		outPath := filepath.Join(outDir, name)
		old, _ := os.ReadFile(outPath)
		if string(old) != content {
			if err := os.WriteFile(outPath, []byte(content), 0o644); err != nil {
				g.fail("jsgen-trace: cannot write %s", outPath)
			}
		}
	}
	writeIfChanged("JsGenTrace.v", b.String())

	// ---------------- Generated/JsGenSim.v ----------------
	var p strings.Builder
	p.WriteString("(* GENERATED by /verif/go/cmd/tablegen (jsgentrace.go) from coq/Model/JsGen.v.\n")
	p.WriteString("   Do not edit: regenerated on every check run.  One simulation lemma per J-typed definition of\n")
	p.WriteString("   the monadic part of Model/JsGen.v, in source order: the instrumented copy (Generated/JsGenTrace.v,\n")
	p.WriteString("   over ANY lawful lens) computes, through the lens, what the model computes.  Statements are computed\n")
	p.WriteString("   from the types (JSIM), proofs are the generic tactics of Proofs/ConcJsSimBase.v. *)\n")
	p.WriteString("From Coq Require Import List Arith Bool.\n")
	p.WriteString("From Soy Require Import Model.Bytes Model.Num Model.Values Model.Outcome Model.Ast Model.JsGen Generated.JsGenTrace Proofs.ConcJsSimBase.\n")
	p.WriteString("Import ListNotations.\nOpen Scope N_scope.\n\n")
	p.WriteString("Section Sim.\nVariable L : jlens.\nHypothesis HL : jlens_ok L.\n\n")
	p.WriteString("(* the lemmas proved so far, looked up by head constant by the generic tactic: jsim_db_0 is the primitives *)\n")
	p.WriteString("Ltac jsim_db_0 h := lazymatch h with @JT.jblock => eapply (jsim_jblock L HL) end.\nLtac jsim_db h ::= jsim_db_0 h.\n\n")
	var names []string
	for _, s := range sents {
		if s.kw != "Definition" && s.kw != "Fixpoint" {
			continue
		}
		// jwalk is a rewritten primitive (one tick before the body) whose lemma is still the generic induction
		if (jtPrims[s.name] && s.name != "jwalk") || !jtWordJ.MatchString(s.header) {
			continue
		}
		names = append(names, s.name)
		tac := ""
		if ov, isOv := jsimOverride[s.name]; isOv {
			tac = ov + " ltac:(fun _ => cbn [JT." + s.name + " JsGen." + s.name + "])"
		} else if s.kw == "Definition" {
			tac = "jsim_def ltac:(fun _ => unfold JT." + s.name + ", JsGen." + s.name + ")"
		} else {
			bs := jtBinders(s.header)
			sv := ""
			if m := jtStructRe.FindStringSubmatch(s.header); m != nil {
				sv = m[1]
			} else {
				for _, m := range jtMatchRe.FindAllStringSubmatch(s.body, -1) {
					for _, x := range bs {
						if x == m[1] {
							sv = x
						}
					}
					if sv != "" {
						break
					}
				}
			}
			idx := -1
			for i, x := range bs {
				if x == sv {
					idx = i
				}
			}
			if idx < 0 {
				g.fail("jsgen-trace: Model/JsGen.v: cannot tell the structural argument of Fixpoint %s", s.name)
				continue
			}
			tac = fmt.Sprintf("jsim_fix constr:(%d%%nat) ltac:(fun _ => cbn [JT.%s JsGen.%s])", len(bs)-1-idx, s.name, s.name)
		}
		fmt.Fprintf(&p, "Lemma jsim_%s : JSIM (@JT.%s L) (@JsGen.%s).\nProof. %s. Qed.\nLtac jsim_db_%d h := lazymatch h with @JT.%s => eapply jsim_%s | _ => jsim_db_%d h end.\nLtac jsim_db h ::= jsim_db_%d h.\n\n",
			s.name, s.name, s.name, tac, len(names), s.name, s.name, len(names)-1, len(names))
	}
	p.WriteString("Lemma jsim_visit_file_walk : forall o fuel name body, jsim L (JT.visit_file L o fuel name body) (JsGen.visit_file o fuel name body).\n")
	p.WriteString("Proof. intros. eapply jsim_visit_file; try reflexivity. Qed.\n\n")
	p.WriteString("(* soyjs.Write: from ANY initial state of the instrumented generator, the outcome is the model's *)\n")
	p.WriteString("Theorem gen_file_sim : forall o s0 fuel name body, fst (JT.gen_file L o s0 fuel name body) = JsGen.gen_file o fuel name body.\n")
	p.WriteString("Proof. intros. jsim_prove_gen_file L HL (jsim_visit_file_walk o fuel name body). Qed.\n\n")
	p.WriteString("End Sim.\n\n")
	fmt.Fprintf(&p, "(* the definitions covered: %d, + the primitives jret jfail jabort jlift jbind jget jmod jtick jblock and gen_file *)\n", len(names))
	fmt.Fprintf(&p, "Definition jsim_covered : list nat := List.repeat 0%%nat %d.\n", len(names))
	if !ok {
		return
	}
	writeIfChanged("JsGenSim.v", p.String())
	g.js["jsgen_sim_definitions"] = names
}
